package main

import (
	"fmt"
	"go/constant"
	"go/token"
	"go/types"
	"sort"
	"strings"

	"golang.org/x/tools/go/ssa"
)

func init() { register("C13", checkC13) }

// isStateEffect: atoms that change consensus state.
func isStateEffect(a string) bool {
	switch a {
	case StoreSet, StoreDel, BankMint, BankBurn, BankMove, AuthSet, AuthRemove:
		return true
	}
	return false
}

// msgParam returns the request parameter of a handler (the last pointer-to-struct parameter).
func msgParam(fn *ssa.Function) *ssa.Parameter {
	for i := len(fn.Params) - 1; i >= 0; i-- {
		p := fn.Params[i]
		if pt, ok := p.Type().Underlying().(*types.Pointer); ok {
			if _, ok := pt.Elem().Underlying().(*types.Struct); ok {
				return p
			}
		}
	}
	return nil
}

func structHasField(t types.Type, name string) bool {
	if p, ok := t.Underlying().(*types.Pointer); ok {
		t = p.Elem()
	}
	s, ok := t.Underlying().(*types.Struct)
	if !ok {
		return false
	}
	for i := 0; i < s.NumFields(); i++ {
		if s.Field(i).Name() == name {
			return true
		}
	}
	return false
}

// isKeeperAuthorityLoad: load of a field named "authority" of a keeper struct of the module.
func isKeeperAuthorityLoad(v ssa.Value) bool {
	u, ok := v.(*ssa.UnOp)
	if ok && u.Op == token.MUL {
		if fa, ok := u.X.(*ssa.FieldAddr); ok {
			n, f := fieldOf(fa)
			return f == "authority" && n != nil && n.Obj().Pkg() != nil && strings.HasPrefix(n.Obj().Pkg().Path(), modPath) && strings.HasSuffix(n.Obj().Pkg().Path(), "/keeper")
		}
	}
	if fv, ok := v.(*ssa.Field); ok {
		return strings.HasSuffix(fieldElem(fv.X.Type(), fv.Field), ".authority")
	}
	return false
}

func authGuard(msg *ssa.Parameter) GuardSpec {
	return GuardSpec{
		Name: "authority == msg.Authority",
		IsVal: func(v ssa.Value) bool {
			return loadOfField(v, "Authority", func(b ssa.Value) bool { return rootParam(b) == msg.Name() })
		},
		Edges: func(fn *ssa.Function, bind Bind, isVal func(ssa.Value) bool) []Edge {
			return eqEdges(fn, isKeeperAuthorityLoad, isVal)
		},
	}
}

func lenZeroEdges(fn *ssa.Function, isVal func(ssa.Value) bool) []Edge {
	return EdgesWhere(fn, func(base ssa.Value) (bool, bool) {
		bo, ok := base.(*ssa.BinOp)
		if !ok {
			return false, false
		}
		call, ok := bo.X.(*ssa.Call)
		if !ok {
			return false, false
		}
		b, ok := call.Common().Value.(*ssa.Builtin)
		if !ok || b.Name() != "len" || !isVal(call.Common().Args[0]) {
			return false, false
		}
		c, ok := bo.Y.(*ssa.Const)
		if !ok || c.Value == nil {
			return false, false
		}
		n, _ := constant.Int64Val(c.Value)
		switch {
		case n == 0 && bo.Op == token.GTR, n == 0 && bo.Op == token.NEQ, n == 1 && bo.Op == token.GEQ:
			return false, true
		case n == 0 && bo.Op == token.EQL, n == 0 && bo.Op == token.LEQ, n == 1 && bo.Op == token.LSS:
			return true, true
		}
		return false, false
	})
}

// paramsKeyOf returns the bytes of types.ParamsKey of a custom module.
func (w *World) paramsKeyOf(mod string) (string, bool) {
	sp := w.Pkg("x/" + mod + "/types")
	if sp == nil {
		return "", false
	}
	g, ok := sp.Members["ParamsKey"].(*ssa.Global)
	if !ok {
		return "", false
	}
	return w.GlobalBytes(g)
}

func moduleOfFunc(f *ssa.Function) string {
	s := funcName(f)
	for _, m := range customModules {
		if strings.HasPrefix(s, "x/"+m+"/") || strings.HasPrefix(s, "x/"+m+".") {
			return m
		}
	}
	return ""
}

// valueRoot identifies the storage root of a value: the Alloc it is loaded from / spilled to, or the parameter.
func valueRoot(v ssa.Value) ssa.Value {
	for i := 0; i < 8; i++ {
		switch x := v.(type) {
		case *ssa.MakeInterface:
			v = x.X
		case *ssa.ChangeType:
			v = x.X
		case *ssa.UnOp:
			if x.Op == token.MUL {
				v = x.X
			} else {
				return v
			}
		case *ssa.FieldAddr:
			return v
		case *ssa.Parameter:
			// spilled?
			if x.Referrers() != nil {
				for _, ref := range *x.Referrers() {
					if s, ok := ref.(*ssa.Store); ok && s.Val == x {
						if a, ok := s.Addr.(*ssa.Alloc); ok {
							return a
						}
					}
				}
			}
			return v
		default:
			return v
		}
	}
	return v
}

func checkC13(w *World, r *Report) {
	cg := w.CG()
	ro := w.Roles()
	r.Undecided = []string{"none of C13's clauses is numeric; what is trusted is baseapp's rollback of a message whose handler returns an error"}
	r.Rule("C13.auth", "P5,P6", "for every handler whose request has an Authority field, every state effect (store write/delete, bank operation, account write) reachable from it is reached only through the edge on which the keeper's authority equals the message's Authority (the comparison may sit one call down, by parameter mapping)", 7)
	r.Rule("C13.authfail", "P5", "the other edge of the authority comparison leads only to returns of a non-nil error", 7)
	r.Rule("C13.gov", "P6,P8", "each keeper's authority field is the NewKeeper parameter; app.New passes appparams.GetAuthority(); its backing variable has a single writer assigning NewModuleAddress(gov.ModuleName).String(), called from the package init", 8)
	r.Rule("C13.validated", "P4,P5", "every store write to a module's ParamsKey is reached only through the nil edge of Validate() on the value that is marshalled", 7)
	r.Rule("C13.endtime", "P7", "stored minter parameters keep the shape the block routine relies on: parameter validation rejects, on every path, a last period with an EndTime and a non-last period without one, and accepts the two well-formed combinations (the validation step explored under the four combinations of position and nil-ness)", 4)
	r.Rule("C13.endorder", "P7", "stored periods do not overlap: the validation step that compares a period's EndTime with the start of its period (params.StartTime for the first, the predecessor's EndTime afterwards - looked up in the list, or carried through the loop and then verified to be refreshed on every succeeding path) rejects before / equal and accepts after, for the first and for a later position", 6)
	r.Rule("C13.loopvar", "P4", "= C03.loopvar over the parameter types of all three parameterised modules: validation must not keep the address of a per-loop variable beyond its iteration (a check made after the loop through such a pointer reads the last element: invalid parameter sets are accepted and stored); positive and negative controls", 6)
	r.Rule("C13.errprop", "P5", "no verdict is lost inside parameter validation: on the Validate trees of the three parameter types the error of every call of a module validation function is returned directly or its non-nil edge ends in a return of a non-nil error", 10)
	r.Rule("C13.current", "P5", "every cfeminter parameter write reachable from a message is reached only through the true edge of ContainsMinter(current state's SequenceId)", 2)
	r.Rule("C13.denom", "P5", "the vesting denom update is reached only through the edge on which the list of all vesting pools is empty", 1)
	if !ro.checkFloors(r) {
		return
	}

	// ---- C13.auth / authfail ----
	for _, m := range customModules {
		for _, h := range ro.MSG[m] {
			msg := msgParam(h)
			if msg == nil {
				r.Unk("C13.auth", funcName(h), w.Pos(h.Pos()), "handler without request parameter")
				continue
			}
			if !structHasField(msg.Type(), "Authority") {
				continue
			}
			g := authGuard(msg)
			res := cg.GuardCover(h, func(s *Site) bool { return isStateEffect(cg.Atom(s)) }, g, 3)
			if len(res) == 0 {
				r.OK("C13.auth", funcName(h)+" : (no state effect reachable)", w.Pos(h.Pos()), "handler changes no state")
			}
			for _, cr := range res {
				construct := fmt.Sprintf("%s : %s %s in %s", funcName(h), cg.Atom(cr.Site), cr.Site.Method, funcName(cr.Site.Caller))
				if cr.Covered {
					r.OK("C13.auth", construct, w.Pos(cr.Site.Instr.Pos()), "dominated by the equal edge of the authority comparison in "+cr.By)
				} else {
					r.Bad("C13.auth", construct, w.Pos(cr.Site.Instr.Pos()), "state effect reachable from "+funcName(h)+" without passing the authority comparison; chain: "+chainString(cr.Chain, cr.Site))
				}
			}
			// failing edge must return an error: look for the comparison in h or its direct callees
			found := false
			var check func(fn *ssa.Function, isVal func(ssa.Value) bool, depth int)
			check = func(fn *ssa.Function, isVal func(ssa.Value) bool, depth int) {
				for _, e := range eqEdges(fn, isKeeperAuthorityLoad, isVal) {
					found = true
					other := e.From.Succs[1-e.Succ]
					if FailsFrom(other) {
						r.OK("C13.authfail", funcName(h)+" : comparison in "+funcName(fn), w.Pos(ifPos(blockIf(e.From))), "the unequal edge returns a non-nil error on every path")
					} else {
						r.Bad("C13.authfail", funcName(h)+" : comparison in "+funcName(fn), w.Pos(ifPos(blockIf(e.From))), "the unequal edge of the authority comparison can return without an error")
					}
				}
				if depth >= 2 {
					return
				}
				for _, s := range cg.Sites[fn] {
					for _, c := range s.Callees {
						bound := map[*ssa.Parameter]bool{}
						for i, p := range c.Params {
							if i < len(s.Common().Args) && isVal(s.Common().Args[i]) {
								bound[p] = true
							}
						}
						if len(bound) > 0 {
							check(c, func(v ssa.Value) bool { p, ok := v.(*ssa.Parameter); return ok && bound[p] }, depth+1)
						}
					}
				}
			}
			check(h, g.IsVal, 0)
			if !found {
				r.Bad("C13.authfail", funcName(h)+" : (no comparison)", w.Pos(h.Pos()), "no comparison of the keeper's authority with the message's Authority on the handler's tree")
			}
		}
	}

	// ---- C13.gov ----
	appNew := w.Func("app.New")
	getAuth := w.Func("app/params.GetAuthority")
	if appNew == nil || getAuth == nil {
		r.Unk("infra.anchor", "app.New / app/params.GetAuthority", "", "anchor not found")
	} else {
		for _, m := range []string{"cfeminter", "cfedistributor", "cfevesting"} {
			nk := w.Func("x/" + m + "/keeper.NewKeeper")
			if nk == nil {
				r.Unk("infra.anchor", "x/"+m+"/keeper.NewKeeper", "", "anchor not found")
				continue
			}
			// (a) authority field <- parameter
			var authParam *ssa.Parameter
			okField := false
			for _, fs := range FieldStores(nk) {
				if fs.Field == "authority" {
					if p, ok := fs.Store.Val.(*ssa.Parameter); ok {
						authParam = p
						okField = true
					}
				}
			}
			r.Check(okField, "C13.gov", m+": NewKeeper stores its parameter into Keeper.authority", w.Pos(nk.Pos()), "field initialised from the constructor parameter", "Keeper.authority is not initialised from a NewKeeper parameter")
			if authParam == nil {
				continue
			}
			idx := -1
			for i, p := range nk.Params {
				if p == authParam {
					idx = i
				}
			}
			// (b) call sites in app.New
			n := 0
			for _, s := range cg.Sites[appNew] {
				if s.Static != nil && s.Static == nk {
					n++
					arg := s.Common().Args[idx]
					_, ok := isCallTo(arg, "app/params.GetAuthority")
					r.Check(ok, "C13.gov", m+": app.New passes appparams.GetAuthority() as authority", w.Pos(s.Instr.Pos()), "argument is the result of GetAuthority()", "the authority passed to NewKeeper is not appparams.GetAuthority()")
				}
			}
			if n == 0 {
				r.Bad("C13.gov", m+": app.New constructs the keeper", w.Pos(appNew.Pos()), "no call of NewKeeper in app.New")
			}
			// no other writer of the authority field in the module
			for _, f := range w.ProdFuncs() {
				if f == nk {
					continue
				}
				for _, fs := range FieldStores(f) {
					if fs.Field == "authority" && fs.Struct != nil && fs.Struct.Obj().Pkg().Path() == nk.Pkg.Pkg.Path() {
						r.Bad("C13.gov", m+": second writer of Keeper.authority in "+funcName(f), w.Pos(fs.Store.Pos()), "Keeper.authority is written outside NewKeeper")
					}
				}
			}
		}
		// (c) GetAuthority returns the global; the global has one writer
		var glob *ssa.Global
		for _, ret := range Returns(getAuth) {
			if u, ok := retVals(ret)[0].(*ssa.UnOp); ok && u.Op == token.MUL {
				glob, _ = u.X.(*ssa.Global)
			}
		}
		if glob == nil {
			r.Bad("C13.gov", "GetAuthority returns the package-level authority variable", w.Pos(getAuth.Pos()), "GetAuthority does not simply return a package-level variable")
		} else {
			var writers []*ssa.Store
			for _, f := range w.funcsMod {
				for _, b := range f.Blocks {
					for _, in := range b.Instrs {
						if st, ok := in.(*ssa.Store); ok && st.Addr == glob {
							writers = append(writers, st)
						}
					}
				}
			}
			// the synthetic package init may also store the initial value
			if initf := glob.Pkg.Func("init"); initf != nil {
				for _, b := range initf.Blocks {
					for _, in := range b.Instrs {
						if st, ok := in.(*ssa.Store); ok && st.Addr == glob {
							writers = append(writers, st)
						}
					}
				}
			}
			if len(writers) != 1 {
				r.Bad("C13.gov", "single writer of the authority variable", w.Pos(glob.Pos()), fmt.Sprintf("%d writers of %s", len(writers), glob.Name()))
			} else {
				st := writers[0]
				o := w.Tracer().Origins(st.Val)
				nm := o.CallsNamed("x/auth/types.NewModuleAddress")
				good := false
				for _, c := range nm {
					if s, ok := EvalString(c.Common().Args[0]); ok && s == "gov" {
						good = true
					}
				}
				good = good && o.HasOp("AccAddress.String")
				r.Check(good, "C13.gov", "the authority variable is NewModuleAddress(gov).String()", w.Pos(st.Pos()), "single writer assigns the gov module address", "the authority variable is not assigned NewModuleAddress(\"gov\").String(): origins "+o.String())
				// writer called from package init
				wf := st.Parent()
				called := false
				for _, name := range []string{"init#1", "init#2", "init"} {
					if initf := glob.Pkg.Func(name); initf != nil {
						if _, ok := cg.Reach([]*ssa.Function{initf})[wf]; ok {
							called = true
						}
						// the synthetic init has no Sites entry unless it is in funcsMod: scan directly
						for _, b := range initf.Blocks {
							for _, in := range b.Instrs {
								if c, ok := in.(*ssa.Call); ok && c.Common().StaticCallee() != nil {
									if _, ok := cg.Reach([]*ssa.Function{c.Common().StaticCallee()})[wf]; ok {
										called = true
									}
								}
							}
						}
					}
				}
				r.Check(called, "C13.gov", "the writer of the authority variable runs from the package init", w.Pos(wf.Pos()), funcName(wf)+" is called from init", funcName(wf)+" is not reached from the package init")
			}
		}
	}

	// ---- C13.validated ----
	pkeys := checkValidatedParamWrites(w, r, "C13.validated", func(*ssa.Function) bool { return true })

	// ---- C13.current ----
	setParams := w.Func("x/cfeminter/keeper.Keeper.SetParams")
	if setParams == nil {
		r.Unk("infra.anchor", "x/cfeminter/keeper.Keeper.SetParams", "", "anchor not found")
	} else {
		containsGuard := GuardSpec{Name: "ContainsMinter(state.SequenceId)",
			Edges: func(fn *ssa.Function, bind Bind, isVal func(ssa.Value) bool) []Edge {
				return boolCallEdges(fn, func(c *ssa.Call) bool {
					if !strings.HasSuffix(callName(c.Common()), "x/cfeminter/types.Params.ContainsMinter") {
						return false
					}
					args := c.Common().Args
					o := w.Tracer().Origins(args[len(args)-1])
					return o.HasPath("MinterState.SequenceId") && o.HasCall("Keeper.GetMinterState", "codec.BinaryCodec.MustUnmarshal")
				}, true)
			}}
		containsMinterRule(w, r, "C13.current")
		endTimeShapeRule(w, r, "C13.endtime")
		endOrderRule(w, r, "C13.endorder")
		validationErrpropRule(w, r, "C13.errprop")
		loopVarRule(w, r, "C13.loopvar", "cfedistributor", "cfeminter", "cfevesting")
		for _, h := range ro.MSG["cfeminter"] {
			res := cg.GuardCover(h, func(s *Site) bool {
				if cg.Atom(s) != StoreSet {
					return false
				}
				loc := cg.StoreLocOf(s)
				return loc.Resolved && loc.Prefix == pkeys["cfeminter"]
			}, containsGuard, 3)
			for _, cr := range res {
				construct := funcName(h) + " : parameter write in " + funcName(cr.Site.Caller)
				if cr.Covered {
					r.OK("C13.current", construct, w.Pos(cr.Site.Instr.Pos()), "dominated by the true edge of ContainsMinter(current SequenceId) in "+cr.By)
				} else {
					r.Bad("C13.current", construct, w.Pos(cr.Site.Instr.Pos()), "parameters can be stored without checking that the current period exists in them; chain: "+chainString(cr.Chain, cr.Site))
				}
			}
		}
	}

	// ---- C13.denom ----
	h := w.Func("x/cfevesting/keeper.msgServer.UpdateDenomParam")
	if h == nil {
		r.Unk("infra.anchor", "x/cfevesting/keeper.msgServer.UpdateDenomParam", "", "anchor not found")
	} else {
		denomGuard := GuardSpec{Name: "len(all pools) == 0",
			IsVal: func(v ssa.Value) bool {
				o := w.Tracer().Origins(v)
				return o.HasCall("Keeper.GetAllAccountVestingPools") || o.HasLeaf("", "AccountVestingPoolsList")
			},
			Edges: func(fn *ssa.Function, bind Bind, isVal func(ssa.Value) bool) []Edge {
				return lenZeroEdges(fn, func(v ssa.Value) bool {
					t := w.Tracer()
					t.Opaque["x/cfevesting/keeper.Keeper.GetAllAccountVestingPools"] = true
					return t.Origins(v).HasCall("Keeper.GetAllAccountVestingPools")
				})
			}}
		res := cg.GuardCover(h, func(s *Site) bool {
			if cg.Atom(s) != StoreSet {
				return false
			}
			loc := cg.StoreLocOf(s)
			return loc.Resolved && loc.Prefix == pkeys["cfevesting"]
		}, denomGuard, 3)
		if len(res) == 0 {
			r.Bad("C13.denom", funcName(h)+" : (no parameter write found)", w.Pos(h.Pos()), "the denom handler reaches no parameter write")
		}
		for _, cr := range res {
			construct := funcName(h) + " : parameter write in " + funcName(cr.Site.Caller)
			if cr.Covered {
				r.OK("C13.denom", construct, w.Pos(cr.Site.Instr.Pos()), "dominated by the edge on which no vesting pool exists")
			} else {
				r.Bad("C13.denom", construct, w.Pos(cr.Site.Instr.Pos()), "the denomination can be changed while vesting pools exist")
			}
		}
	}
}

// checkValidatedParamWrites: every store write to a module's ParamsKey (in the functions selected by keep)
// is reached only through the nil edge of Validate() on the value that is marshalled. Returns the params keys.
func checkValidatedParamWrites(w *World, r *Report, rule string, keep func(*ssa.Function) bool) map[string]string {
	cg := w.CG()
	pkeys := map[string]string{}
	for _, m := range customModules {
		if k, ok := w.paramsKeyOf(m); ok {
			pkeys[m] = k
		} else {
			r.Unk("infra.anchor", "x/"+m+"/types.ParamsKey", "", "cannot evaluate ParamsKey")
		}
	}
	for _, f := range w.ProdFuncs() {
		m := moduleOfFunc(f)
		if m == "" || !keep(f) {
			continue
		}
		for _, s := range cg.Sites[f] {
			if cg.Atom(s) != StoreSet {
				continue
			}
			loc := cg.StoreLocOf(s)
			if !loc.Resolved {
				// unresolved store locations are reported by C12.prefix; here only the params key matters
				continue
			}
			if loc.Prefix != pkeys[m] {
				continue
			}
			construct := funcName(f) + " : store.Set(ParamsKey)"
			sval := cg.StoreValOf(s)
			if sval == nil {
				r.Unk(rule, construct, w.Pos(s.Instr.Pos()), "unexpected Set signature")
				continue
			}
			// the value: result of a Marshal call on &p
			var marsh *ssa.Call
			o := w.Tracer().Origins(sval)
			for c := range o.Calls {
				n := callName(c.Common())
				if hasSuffixAny(n, ".MustMarshal", ".Marshal", ".MustMarshalJSON", ".MarshalJSON") {
					marsh = c
				}
			}
			if marsh == nil {
				r.Bad(rule, construct, w.Pos(s.Instr.Pos()), "the bytes stored under ParamsKey are not the result of marshalling a Params value: "+o.String())
				continue
			}
			root := valueRoot(marsh.Common().Args[len(marsh.Common().Args)-1])
			// Validate calls on the same root
			var vals []ssa.Value
			for _, s2 := range cg.Sites[f] {
				c2, ok := s2.Instr.(*ssa.Call)
				if !ok || s2.Method != "Validate" {
					continue
				}
				recv := s2.Recv()
				if recv == nil {
					continue
				}
				if valueRoot(recv) == root {
					vals = append(vals, c2)
				}
			}
			if len(vals) == 0 {
				r.Bad(rule, construct, w.Pos(s.Instr.Pos()), "no Validate() call on the value that is marshalled and stored")
				continue
			}
			if OnSuccessEdge(f, s.Instr, vals...) {
				r.OK(rule, construct, w.Pos(s.Instr.Pos()), "reached only through the nil edge of Validate() on the stored value")
			} else {
				r.Bad(rule, construct, w.Pos(s.Instr.Pos()), "the store write can be reached without Validate() having returned nil")
			}
		}
	}

	return pkeys
}

// endTimeShapeRule: the shape of the configured periods that the block routine relies on is exactly what parameter
// validation enforces: the last period has no EndTime, every other period has one. The validation step that takes a
// period and its position is explored under the four combinations (last / not last) x (EndTime nil / not nil): it must
// fail in the two wrong ones on every live path and succeed in the two right ones. A condition weakened by a further
// test ("nil, or the zero time") leaves a succeeding path live in a wrong combination.
func endTimeShapeRule(w *World, r *Report, rule string) {
	fn := w.Func("x/cfeminter/types.Params.validateEndTimeExistance")
	if fn == nil {
		r.Unk("infra.anchor", "x/cfeminter/types.Params.validateEndTimeExistance", "", "anchor not found")
		return
	}
	var ints []*ssa.Parameter
	for _, p := range fn.Params {
		if b, ok := p.Type().Underlying().(*types.Basic); ok && b.Info()&types.IsInteger != 0 {
			ints = append(ints, p)
		}
	}
	if len(ints) != 2 {
		r.Unk(rule, "end-time validation takes a position and the last position", w.Pos(fn.Pos()), "unexpected parameters")
		return
	}
	term := func(v ssa.Value) string {
		switch {
		case v == ssa.Value(ints[0]) || normLocal(v) == ssa.Value(ints[0]):
			return "pos"
		case v == ssa.Value(ints[1]) || normLocal(v) == ssa.Value(ints[1]):
			return "last"
		case loadOfField(v, "EndTime", nil):
			return "end"
		}
		return ""
	}
	for _, c := range []struct {
		name     string
		sign     int
		endNil   bool
		mustFail bool
	}{
		{"last period with an EndTime is rejected", 0, false, true},
		{"non-last period without an EndTime is rejected", -1, true, true},
		{"last period without an EndTime is accepted", 0, true, false},
		{"non-last period with an EndTime is accepted", -1, false, false},
	} {
		c := c
		live := ReachUnder(fn, OrderEval(term, twoTermCmp("pos", "last", c.sign), func(t string) (bool, bool) {
			if t == "end" {
				return c.endNil, true
			}
			return false, false
		}))
		nFail, nOK := 0, 0
		for _, ret := range Returns(fn) {
			if !live.Blocks[ret.Block()] {
				continue
			}
			rv := retVals(ret)
			failing := len(rv) > 0 && isErrorType(rv[len(rv)-1].Type())
			if failing {
				failing = false
				vals := live.LiveValues(rv[len(rv)-1])
				allNonNil := len(vals) > 0
				for _, v := range vals {
					if isNilConst(v) {
						allNonNil = false
					}
				}
				failing = allNonNil
			}
			if failing {
				nFail++
			} else {
				nOK++
			}
		}
		if c.mustFail {
			r.Check(nOK == 0 && nFail > 0, rule, c.name, w.Pos(fn.Pos()), "every live return carries an error", "parameter validation can accept a period list in which "+strings.TrimSuffix(c.name, " is rejected")+": the block routine then closes the last period (or dereferences a missing EndTime) and finds no successor")
		} else {
			r.Check(nFail == 0 && nOK > 0, rule, c.name, w.Pos(fn.Pos()), "no live return carries an error", "parameter validation rejects a well-formed period list")
		}
	}
}

// endOrderRule (C13.endorder): stored periods do not overlap - parameter validation rejects a list in which a period
// with an end does not end AFTER the start of its own period: the first one after params.StartTime, every later one
// after its predecessor's EndTime. The validation step that makes the comparison is explored under (position 0 / a
// middle position) x (end before / equal to / after the reference): it must fail in the first two and succeed in the
// third. The reference may be looked up in the list (`params.Minters[pos-1].EndTime`) or be carried through the loop as
// a parameter; in the second form the rule also verifies the carried value: the step returns this period's own EndTime
// on every succeeding path, and the loop feeds the step's result back into it, starting from params.StartTime.
func endOrderRule(w *World, r *Report, rule string) {
	cg := w.CG()
	vpm := w.Func("x/cfeminter/types.Params.ValidateParamsMinters")
	if vpm == nil {
		r.Unk("infra.anchor", "x/cfeminter/types.Params.ValidateParamsMinters", "", "anchor not found")
		return
	}
	isEnd := func(v ssa.Value) bool {
		u, ok := v.(*ssa.UnOp)
		return ok && u.Op == token.MUL && loadOfField(u.X, "EndTime", nil)
	}
	isTimeCmp := func(n string) bool {
		return n == "time.Time.Before" || n == "time.Time.After" || n == "time.Time.Equal"
	}
	comparesEnd := func(f *ssa.Function) bool {
		for _, s := range cg.Sites[f] {
			if isTimeCmp(s.CalleeName()) {
				for _, a := range s.Common().Args {
					if isEnd(a) {
						return true
					}
				}
				continue
			}
			// the comparison written as a predicate helper that is handed the end (`notAfter(minter.EndTime, limit)`)
			if h := s.Static; h != nil && !s.Invoke && boolResult(h) && w.isProdFunc(h) {
				handed := false
				for _, a := range s.Common().Args {
					if isEnd(a) || loadOfField(a, "EndTime", nil) {
						handed = true
					}
				}
				if handed {
					for _, s2 := range cg.Sites[h] {
						if isTimeCmp(s2.CalleeName()) {
							return true
						}
					}
				}
			}
		}
		return false
	}
	// the step: a module function reached from the validation loop (at most two calls down) that compares an EndTime
	var step *ssa.Function
	var stepCall *Site
	seen := map[*ssa.Function]bool{vpm: true}
	frontier := []*ssa.Function{vpm}
	for depth := 0; depth < 3 && step == nil; depth++ {
		var next []*ssa.Function
		for _, f := range frontier {
			for _, s := range cg.Sites[f] {
				h := s.Static
				if h == nil || s.Invoke || seen[h] || !w.isProdFunc(h) || moduleOfFunc(h) != "cfeminter" {
					continue
				}
				seen[h] = true
				var ints int
				for _, p := range h.Params {
					if b, ok := p.Type().Underlying().(*types.Basic); ok && b.Info()&types.IsInteger != 0 {
						ints++
					}
				}
				if ints >= 2 && comparesEnd(h) && !strings.HasSuffix(funcName(h), "validateEndTimeExistance") {
					step, stepCall = h, s
				}
				next = append(next, h)
			}
		}
		frontier = next
	}
	if step == nil {
		r.Unk(rule, "the validation step that compares a period's EndTime with the start of its period", w.Pos(vpm.Pos()), "no function below ValidateParamsMinters takes a position and the last position and compares an EndTime")
		return
	}
	var ints []*ssa.Parameter
	var carried *ssa.Parameter
	for _, p := range step.Params {
		if b, ok := p.Type().Underlying().(*types.Basic); ok && b.Info()&types.IsInteger != 0 {
			ints = append(ints, p)
		}
		if typeString(p.Type()) == "time.Time" {
			carried = p
		}
	}
	pos, last := ints[0], ints[1]
	isParam := func(v ssa.Value, p *ssa.Parameter) bool {
		return p != nil && (v == ssa.Value(p) || normLocal(v) == ssa.Value(p))
	}
	term := func(v ssa.Value) string {
		switch {
		case isParam(v, pos):
			return "pos"
		case isParam(v, last):
			return "last"
		case isParam(v, carried):
			return "ref"
		case loadOfField(v, "StartTime", nil):
			return "ref"
		}
		if c, ok := v.(*ssa.Const); ok && c.Value != nil && c.Value.ExactString() == "0" {
			return "zero"
		}
		if isEnd(v) {
			// this period's end (through the period handed in) or the predecessor's (through an element of the list)
			u := v.(*ssa.UnOp)
			if _, f, isF := elemField(u.X); isF {
				_ = f
			}
			if rootParam(u.X) != "" {
				for _, p := range step.Params {
					if rootParam(u.X) == p.Name() && strings.HasSuffix(typeString(p.Type()), "types.Minter") {
						return "end"
					}
				}
			}
			return "ref"
		}
		return ""
	}
	for _, sc := range []struct {
		name string
		rank map[string]int
	}{
		{"first period", map[string]int{"zero": 0, "pos": 0, "last": 2}},
		{"later period", map[string]int{"zero": 0, "pos": 1, "last": 2}},
	} {
		for s := -1; s <= 1; s++ {
			s := s
			sc := sc
			cmp := func(a, b string) (int, bool) {
				ra, oka := sc.rank[a]
				rb, okb := sc.rank[b]
				switch {
				case oka && okb:
					switch {
					case ra < rb:
						return -1, true
					case ra > rb:
						return 1, true
					}
					return 0, true
				case a == "end" && b == "ref":
					return s, true
				case a == "ref" && b == "end":
					return -s, true
				case a == b:
					return 0, true
				}
				return 0, false
			}
			live := ReachUnder(step, OrderEval(term, cmp, func(t string) (bool, bool) {
				if t == "end" || t == "ref" {
					return false, true
				}
				return false, false
			}))
			nFail, nOK := 0, 0
			carriedOK := true
			for _, ret := range Returns(step) {
				if !live.Blocks[ret.Block()] {
					continue
				}
				rv := retVals(ret)
				failing := false
				if len(rv) > 0 && isErrorType(rv[len(rv)-1].Type()) {
					vals := live.LiveValues(rv[len(rv)-1])
					failing = len(vals) > 0
					for _, v := range vals {
						if isNilConst(v) {
							failing = false
						}
					}
				}
				if failing {
					nFail++
					continue
				}
				nOK++
				// carried form: what is handed to the next iteration is this period's own end
				if carried != nil && s > 0 {
					for i, v := range rv {
						if typeString(v.Type()) != "time.Time" {
							continue
						}
						_ = i
						for _, lv := range live.LiveValues(v) {
							if term(lv) != "end" || !isEnd(lv) {
								carriedOK = false
							}
						}
					}
				}
			}
			construct := fmt.Sprintf("%s: EndTime %s the start of its period", sc.name, orderNames[s])
			if s <= 0 {
				r.Check(nOK == 0 && nFail > 0, rule, construct+" is rejected", w.Pos(step.Pos()), "every live return carries an error", "parameter validation can accept a period that does not end after the start of its period (the predecessor's end, or params.StartTime for the first): stored periods overlap or have a negative length")
			} else {
				r.Check(nFail == 0 && nOK > 0, rule, construct+" is accepted", w.Pos(step.Pos()), "no live return carries an error", "parameter validation rejects a well-formed period list")
				if carried != nil {
					r.Check(carriedOK, rule, sc.name+": the reference handed to the next period is this period's EndTime", w.Pos(step.Pos()), "every succeeding return hands *minter.EndTime on", "the reference carried through the validation loop is not refreshed with this period's EndTime on every succeeding path: later periods are compared with a stale instant")
				}
			}
		}
	}
	if carried != nil {
		// the loop feeds the step's result back into it, starting from params.StartTime
		okFeed := false
		if stepCall != nil && stepCall.Caller == vpm {
			idx := paramIndex(step, carried)
			if idx >= 0 && idx < len(stepCall.Common().Args) {
				if phi, isPhi := stepCall.Common().Args[idx].(*ssa.Phi); isPhi {
					fromStart, fromCall := false, false
					for _, e := range phi.Edges {
						switch {
						case loadOfField(e, "StartTime", nil):
							fromStart = true
						default:
							if ex, isEx := e.(*ssa.Extract); isEx && ex.Tuple == siteValue(stepCall) {
								fromCall = true
							} else if ssa.Value(e) == siteValue(stepCall) {
								fromCall = true
							}
						}
					}
					okFeed = fromStart && fromCall && len(phi.Edges) == 2
				}
			}
		}
		r.Check(okFeed, rule, "the reference is carried from params.StartTime through the results of the step", w.Pos(vpm.Pos()), "phi(params.StartTime, result of the previous iteration's call)", "the instant each period's end is compared with is not params.StartTime for the first period and the previous call's result afterwards")
	}
}

// boolResult: the function has a single bool result.
func boolResult(f *ssa.Function) bool {
	res := f.Signature.Results()
	if res.Len() != 1 {
		return false
	}
	b, ok := res.At(0).Type().Underlying().(*types.Basic)
	return ok && b.Kind() == types.Bool
}

// validationErrpropRule (C13.errprop): stored parameters stay valid only if no verdict is lost inside validation: on the
// Validate trees of the three parameter types, the error of every call of a module validation function is returned
// (directly) or its non-nil edge ends in a return of a non-nil error - an error wrapped into a shadowed variable and a
// return of the outer, still nil one accepts what the callee rejected.
func validationErrpropRule(w *World, r *Report, rule string) {
	cg := w.CG()
	var roots []*ssa.Function
	for _, m := range []string{"cfedistributor", "cfeminter", "cfevesting"} {
		if T := w.NamedType("x/" + m + "/types.Params"); T != nil {
			if f := w.methodOf(T, "Validate"); f != nil && f.Blocks != nil {
				roots = append(roots, f)
			}
		}
	}
	if len(roots) == 0 {
		r.Unk(rule, "Params.Validate of the parameterised modules", "", "no Params.Validate found")
		return
	}
	var fns []*ssa.Function
	for f := range cg.Reach(roots) {
		if w.isProdFunc(f) && !isGeneratedFile(w.FileOf(f.Pos())) && strings.Contains(pkgPathOf(f), "/types") {
			fns = append(fns, f)
		}
	}
	sort.Slice(fns, func(i, j int) bool { return funcName(fns[i]) < funcName(fns[j]) })
	seen := map[string]int{}
	for _, f := range fns {
		res := f.Signature.Results()
		if res.Len() == 0 || !isErrorType(res.At(res.Len()-1).Type()) {
			continue
		}
		for _, s := range cg.Sites[f] {
			h := s.Static
			call, isCall := s.Instr.(*ssa.Call)
			if h == nil || !isCall || s.Invoke || !w.isProdFunc(h) {
				continue
			}
			hr := h.Signature.Results()
			if hr.Len() == 0 || !isErrorType(hr.At(hr.Len()-1).Type()) {
				continue
			}
			key := fmt.Sprintf("%s: verdict of %s", funcName(f), h.Name())
			seen[key]++
			construct := key
			if seen[key] > 1 {
				construct = fmt.Sprintf("%s #%d", key, seen[key])
			}
			ev := errValues(f, call)
			ok := false
			// returned as it is
			for _, ret := range Returns(f) {
				rv := retVals(ret)
				if len(rv) > 0 && ev[rv[len(rv)-1]] {
					ok = true
				}
			}
			fe := NilEdges(f, ev, false)
			if len(fe) > 0 {
				ok = true
				for _, e := range fe {
					if !FailsFrom(e.To()) {
						ok = false
					}
				}
			}
			if !ok {
				ok = errorKeptUnder(f, call, ev)
			}
			r.Check(ok, rule, construct, w.Pos(s.Instr.Pos()), "returned directly, or its non-nil edge ends in a return of a non-nil error, or - assuming the step reported an error - every return that can follow the call carries a non-nil error", "the verdict of a validation step can be lost: on the edge on which it reports an error the validating function can still return nil - parameter sets the step rejects are accepted and stored")
		}
	}
}

// errorKeptUnder: assume the call reported an error (its error values ev are non-nil). The function is explored under
// that assumption (conditions that test a value known to be non-nil are followed on one side only; a phi all of whose
// live alternatives are known non-nil becomes known; three rounds). The verdict is kept when every return that can
// follow the call then carries a non-nil error - the shape `err := a(); if err != nil { err = wrap(err) }; if err == nil
// { err = b() }; return err`.
func errorKeptUnder(f *ssa.Function, call *ssa.Call, ev map[ssa.Value]bool) bool {
	ok, _ := errorKeptUnderX(f, call, ev)
	return ok
}

// errorKeptUnderX also returns the blocks that can follow the call under the assumption.
func errorKeptUnderX(f *ssa.Function, call *ssa.Call, ev map[ssa.Value]bool) (bool, map[*ssa.BasicBlock]bool) {
	known := map[ssa.Value]bool{}
	for v := range ev {
		known[v] = true
	}
	isKnown := func(v ssa.Value) bool {
		if known[v] {
			return true
		}
		switch v.(type) {
		case *ssa.MakeInterface, *ssa.Call, *ssa.Const, *ssa.ChangeInterface:
			return nonNilAtKnown(v, known, 0)
		}
		return false
	}
	eval := func(base ssa.Value) (bool, bool) {
		bo, ok := base.(*ssa.BinOp)
		if !ok || (bo.Op != token.EQL && bo.Op != token.NEQ) {
			return false, false
		}
		var other ssa.Value
		if k, isK := bo.Y.(*ssa.Const); isK && k.Value == nil {
			other = bo.X
		} else if k, isK := bo.X.(*ssa.Const); isK && k.Value == nil {
			other = bo.Y
		}
		if other == nil || !isErrorType(other.Type()) || !isKnown(other) {
			return false, false
		}
		return bo.Op == token.NEQ, true
	}
	var live *Live
	for round := 0; round < 3; round++ {
		live = ReachUnder(f, eval)
		grew := false
		for _, b := range f.Blocks {
			for _, in := range b.Instrs {
				phi, isPhi := in.(*ssa.Phi)
				if !isPhi || known[phi] || !isErrorType(phi.Type()) || !live.Blocks[b] {
					continue
				}
				alts := live.LiveValues(phi)
				all := len(alts) > 0
				for _, a := range alts {
					if !isKnown(a) {
						all = false
					}
				}
				if all {
					known[phi] = true
					grew = true
				}
			}
		}
		if !grew {
			break
		}
	}
	// blocks that can follow the call along live edges
	after := map[*ssa.BasicBlock]bool{call.Block(): true}
	work := []*ssa.BasicBlock{call.Block()}
	for len(work) > 0 {
		b := work[len(work)-1]
		work = work[:len(work)-1]
		for i, sc := range b.Succs {
			if live.Edges[Edge{b, i}] && !after[sc] {
				after[sc] = true
				work = append(work, sc)
			}
		}
	}
	// the alternatives of a returned value that can arrive after the call: phi edges that are live and come from a block
	// that follows the call
	var altsAfter func(v ssa.Value, seen map[ssa.Value]bool) []ssa.Value
	altsAfter = func(v ssa.Value, seen map[ssa.Value]bool) []ssa.Value {
		phi, isPhi := v.(*ssa.Phi)
		if !isPhi || known[v] || seen[v] {
			return []ssa.Value{v}
		}
		seen[v] = true
		var out []ssa.Value
		b := phi.Block()
		for i, e := range phi.Edges {
			pred := b.Preds[i]
			if !after[pred] {
				continue
			}
			for si, sc := range pred.Succs {
				if sc == b && live.Edges[Edge{pred, si}] {
					out = append(out, altsAfter(e, seen)...)
					break
				}
			}
		}
		return out
	}
	n := 0
	for _, ret := range Returns(f) {
		if !after[ret.Block()] || !live.Blocks[ret.Block()] {
			continue
		}
		rv := retVals(ret)
		if len(rv) == 0 {
			return false, after
		}
		n++
		alts := altsAfter(rv[len(rv)-1], map[ssa.Value]bool{})
		if len(alts) == 0 {
			return false, after
		}
		for _, a := range alts {
			if !isKnown(a) {
				return false, after
			}
		}
	}
	return n > 0, after
}

// nonNilAtKnown: constructors and wrappers of errors over values known to be non-nil.
func nonNilAtKnown(v ssa.Value, known map[ssa.Value]bool, depth int) bool {
	if depth > 4 || v == nil {
		return false
	}
	if known[v] {
		return true
	}
	switch x := v.(type) {
	case *ssa.MakeInterface:
		return true
	case *ssa.Const:
		return x.Value != nil
	case *ssa.ChangeInterface:
		return nonNilAtKnown(x.X, known, depth+1)
	case *ssa.Call:
		q := callName(x.Common())
		if errCtorNames[q] {
			return true
		}
		if errWrapNames[q] && len(x.Common().Args) > 0 {
			return nonNilAtKnown(x.Common().Args[0], known, depth+1) || nonNilAt(x.Common().Args[0], x.Block(), 0)
		}
		return nonNilAt(v, x.Block(), 0)
	}
	return false
}
