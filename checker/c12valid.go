package main

import (
	"fmt"
	"go/token"
	"go/types"
	"os"
	"sort"
	"strings"

	"golang.org/x/tools/go/ssa"
)

// A rejection is a condition in a genesis validator one of whose edges ends in an error on every path.
type rejection struct {
	Fn   *ssa.Function
	If   *ssa.If
	Key  string // rendering of the rejecting condition, stable under renaming of locals
	Cond ssa.Value
	Neg  bool // the rejecting edge is the false edge of Cond
}

// renderVal renders an SSA value structurally: loads of fields as paths, calls as name(args), constants by value.
func renderVal(v ssa.Value, depth int) string {
	if depth > 6 {
		return "…"
	}
	switch x := v.(type) {
	case *ssa.Const:
		if x.Value == nil {
			return "nil"
		}
		return x.Value.ExactString()
	case *ssa.Parameter:
		return "<" + shortType(x.Type()) + ">"
	case *ssa.UnOp:
		if x.Op == token.MUL {
			return renderVal(x.X, depth+1)
		}
		return x.Op.String() + renderVal(x.X, depth+1)
	case *ssa.FieldAddr:
		_, f := fieldOf(x)
		return renderVal(x.X, depth+1) + "." + f
	case *ssa.Field:
		if st, ok := x.X.Type().Underlying().(*types.Struct); ok && x.Field < st.NumFields() {
			return renderVal(x.X, depth+1) + "." + st.Field(x.Field).Name()
		}
		return renderVal(x.X, depth+1) + ".?"
	case *ssa.IndexAddr:
		return renderVal(x.X, depth+1) + "[*]"
	case *ssa.Index:
		return renderVal(x.X, depth+1) + "[*]"
	case *ssa.Lookup:
		return renderVal(x.X, depth+1) + "[key]"
	case *ssa.BinOp:
		return "(" + renderVal(x.X, depth+1) + " " + x.Op.String() + " " + renderVal(x.Y, depth+1) + ")"
	case *ssa.Call:
		n := callName(x.Common())
		if i := strings.LastIndex(n, "/"); i >= 0 {
			n = n[i+1:]
		}
		var as []string
		if x.Common().IsInvoke() {
			as = append(as, renderVal(x.Common().Value, depth+1))
		}
		for _, a := range x.Common().Args {
			as = append(as, renderVal(a, depth+1))
		}
		return n + "(" + strings.Join(as, ",") + ")"
	case *ssa.Extract:
		return renderVal(x.Tuple, depth+1) + fmt.Sprintf("#%d", x.Index)
	case *ssa.Phi:
		return "phi"
	case *ssa.Alloc:
		return "<" + shortType(x.Type()) + ">"
	case *ssa.Convert:
		return renderVal(x.X, depth+1)
	case *ssa.ChangeType:
		return renderVal(x.X, depth+1)
	case *ssa.MakeInterface:
		return renderVal(x.X, depth+1)
	case *ssa.Slice:
		return renderVal(x.X, depth+1) + "[:]"
	case *ssa.Next:
		return "next"
	case *ssa.Range:
		return "range " + renderVal(x.X, depth+1)
	case *ssa.TypeAssert:
		return renderVal(x.X, depth+1) + ".(" + shortType(x.AssertedType) + ")"
	}
	return "?"
}

// classifyRejection reduces a rejecting condition to (field, kind): the struct field it constrains (Type.Field, the
// innermost field of a module type that occurs in it) and the kind of constraint, independent of how the condition
// is spelled (len(x)==0 vs x=="", NewDec(1) vs OneDec(), helper extracted, if-chain vs switch). Conditions that
// constrain no field of a module type (duplicate counters, map membership, phis of a search) are "structural".
func classifyRejection(cond ssa.Value, neg bool) (field, kind string) {
	// the fields mentioned
	var fields []string
	seen := map[ssa.Value]bool{}
	var walk func(v ssa.Value, d int)
	walk = func(v ssa.Value, d int) {
		if v == nil || seen[v] || d > 8 {
			return
		}
		seen[v] = true
		if T, f, ok := fieldOfValue(v); ok && T != nil && T.Obj().Pkg() != nil && strings.HasPrefix(T.Obj().Pkg().Path(), modPath) {
			fields = append(fields, T.Obj().Name()+"."+f)
		}
		switch x := v.(type) {
		case *ssa.UnOp:
			walk(x.X, d+1)
		case *ssa.FieldAddr:
			walk(x.X, d+1)
		case *ssa.Field:
			walk(x.X, d+1)
		case *ssa.IndexAddr:
			// an element of a list: the list's own field is not a constrained field (ranging by value or by index gives
			// the same key)
			c := x.X
			if u, ok := c.(*ssa.UnOp); ok && u.Op == token.MUL {
				c = u.X
			}
			if fa, ok := c.(*ssa.FieldAddr); ok {
				walk(fa.X, d+1)
			} else if fl, ok := c.(*ssa.Field); ok {
				walk(fl.X, d+1)
			} else {
				walk(x.X, d+1)
			}
		case *ssa.BinOp:
			walk(x.X, d+1)
			walk(x.Y, d+1)
		case *ssa.Extract:
			walk(x.Tuple, d+1)
		case *ssa.Convert:
			walk(x.X, d+1)
		case *ssa.ChangeType:
			walk(x.X, d+1)
		case *ssa.Call:
			// a generated getter GetF() of a module struct is its field F, however the validator spells the read
			if callee := x.Common().StaticCallee(); callee != nil && callee.Signature.Recv() != nil && strings.HasPrefix(callee.Name(), "Get") && len(x.Common().Args) == 1 {
				rt := callee.Signature.Recv().Type()
				if pt, ok := rt.(*types.Pointer); ok {
					rt = pt.Elem()
				}
				if nt, ok := rt.(*types.Named); ok && nt.Obj().Pkg() != nil && strings.HasPrefix(nt.Obj().Pkg().Path(), modPath) {
					if st, ok := nt.Underlying().(*types.Struct); ok {
						for i := 0; i < st.NumFields(); i++ {
							if st.Field(i).Name() == callee.Name()[3:] {
								fields = append(fields, nt.Obj().Name()+"."+st.Field(i).Name())
								return
							}
						}
					}
				}
			}
			// a helper that counts occurrences (`gs.countVestingTypesNamed(name) > 1`): its result is a loop counter, not a
			// derived field, and what it is handed is the key counted - the duplicate test written in place is structural,
			// and so is this one
			if callee := x.Common().StaticCallee(); callee != nil && isCounterHelper(callee) {
				return
			}
			// a method of a module type is a derived field of that type
			if callee := x.Common().StaticCallee(); callee != nil && callee.Signature.Recv() != nil && len(fields) == 0 {
				rt := callee.Signature.Recv().Type()
				if pt, ok := rt.(*types.Pointer); ok {
					rt = pt.Elem()
				}
				if nt, ok := rt.(*types.Named); ok && nt.Obj().Pkg() != nil && strings.HasPrefix(nt.Obj().Pkg().Path(), modPath) && d > 0 {
					fields = append(fields, nt.Obj().Name()+"."+callee.Name()+"()")
				}
			}
			if x.Common().IsInvoke() {
				walk(x.Common().Value, d+1)
			}
			for _, a := range x.Common().Args {
				walk(a, d+1)
			}
		}
	}
	walk(cond, 0)
	if len(fields) == 0 {
		return "", "structural"
	}
	sort.Strings(fields)
	field = strings.Join(dedupe(fields), "+")
	// the kind
	sign := func(k string) string {
		if neg {
			return "not-" + k
		}
		return k
	}
	switch x := cond.(type) {
	case *ssa.Call:
		n := callName(x.Common())
		m := n[strings.LastIndex(n, ".")+1:]
		switch m {
		case "IsNegative", "IsNil", "IsZero", "IsPositive", "Empty", "IsAnyNegative", "IsAnyNil", "IsValid":
			return field, sign(m)
		case "GT", "GTE", "LT", "LTE", "Equal", "Before", "After":
			return field, sign(m)
		}
		if callee := x.Common().StaticCallee(); callee != nil && callee.Pkg != nil && strings.HasPrefix(callee.Pkg.Pkg.Path(), modPath) {
			return field, sign("modcall") // a predicate of the module itself (membership, containment), whatever its name
		}
		return field, sign("call:" + m)
	case *ssa.BinOp:
		// emptiness of a string / slice in either spelling
		isLen := func(v ssa.Value) bool {
			c, ok := v.(*ssa.Call)
			if !ok {
				return false
			}
			b, ok := c.Common().Value.(*ssa.Builtin)
			return ok && b.Name() == "len"
		}
		isZeroConst := func(v ssa.Value) bool {
			c, ok := v.(*ssa.Const)
			return ok && c.Value != nil && (c.Value.ExactString() == "0" || c.Value.ExactString() == `""`)
		}
		isOneConst := func(v ssa.Value) bool {
			c, ok := v.(*ssa.Const)
			return ok && c.Value != nil && c.Value.ExactString() == "1"
		}
		if isNilConst(x.X) || isNilConst(x.Y) {
			if (x.Op == token.EQL) != neg {
				return field, "nil"
			}
			return field, "non-nil"
		}
		emptyForm := (isLen(x.X) || types.Identical(x.X.Type().Underlying(), types.Typ[types.String])) && (isZeroConst(x.Y) && (x.Op == token.EQL || x.Op == token.LEQ) || isOneConst(x.Y) && x.Op == token.LSS)
		if emptyForm && !neg {
			return field, "empty"
		}
		return field, sign("cmp" + x.Op.String())
	}
	return field, sign("other")
}

func dedupe(xs []string) []string {
	var out []string
	for i, x := range xs {
		if i == 0 || x != xs[i-1] {
			out = append(out, x)
		}
	}
	return out
}

// genesisRejections enumerates the rejecting conditions of a module's genesis validation tree.
func genesisRejections(w *World, root *ssa.Function) []rejection {
	var out []rejection
	reach := w.CG().Reach([]*ssa.Function{root})
	var fns []*ssa.Function
	for fn := range reach {
		if w.isProdFunc(fn) {
			fns = append(fns, fn)
		}
	}
	sort.Slice(fns, func(i, j int) bool { return fns[i].String() < fns[j].String() })
	for _, fn := range fns {
		for _, b := range fn.Blocks {
			i := blockIf(b)
			if i == nil {
				continue
			}
			base, neg := stripNot(i.Cond)
			t, f := FailsFrom(b.Succs[0]), FailsFrom(b.Succs[1])
			if t == f {
				continue
			}
			// error propagation of a callee's verdict is not a predicate of its own
			if bo, ok := base.(*ssa.BinOp); ok && (isErrorType(bo.X.Type()) || isErrorType(bo.Y.Type())) {
				continue
			}
			rejOnTrue := t
			if neg {
				rejOnTrue = !rejOnTrue
			}
			key := renderVal(base, 0)
			if !rejOnTrue {
				key = "!" + key
			}
			_ = key
			// a predicate extracted into a bool-returning helper means what the helper's own deciding tests mean: the
			// conditions inside it one of whose edges always returns the rejecting answer
			if c, ok := base.(*ssa.Call); ok {
				if h := boolHelper(c); h != nil {
					if ds := boolDeciders(h, rejOnTrue); len(ds) > 0 {
						for _, d := range ds {
							field, kind := classifyRejection(d.cond, d.neg)
							k2 := "structural condition (no field of a module type)"
							if field != "" {
								k2 = field + " " + kind
							}
							out = append(out, rejection{Fn: h, If: d.i, Key: k2, Cond: d.cond, Neg: d.neg})
						}
						continue
					}
				}
			}
			field, kind := classifyRejection(base, !rejOnTrue)
			k2 := "structural condition (no field of a module type)"
			if field != "" {
				k2 = field + " " + kind
			}
			out = append(out, rejection{Fn: fn, If: i, Key: k2, Cond: base, Neg: !rejOnTrue})
		}
	}
	return out
}

// c12VettedRejections: rejecting conditions of genesis validation outside the Params.Validate trees, each reviewed
// against what the running chain can store (closed table; a condition that is not listed and not discharged is
// reported: a validator stricter than the runtime makes an exported state un-importable).
var c12VettedRejections = map[string]string{
	// keys are "<Type.Field> <kind>" as produced by classifyRejection (independent of spelling and of the function
	// the test lives in); conditions that constrain no field of a module type are structural (uniqueness of keys,
	// membership of referenced names) and are accepted as a class: stores are keyed by those very names.
	"structural condition (no field of a module type)": "uniqueness of names / owners / ids and membership of referenced vesting types: records are stored under these keys, a pool is created only with an existing vesting type (fatal GetVestingType in addVestingPool), duplicate pool names are rejected at creation, export writes only the four known period units",
	// cfevesting: pools
	"VestingPool.Name empty":                                               "pools are created only by CreateVestingPool / the v120 split, both with a name checked non-empty (ValidateCreateVestingPool; constants)",
	"VestingPool.InitiallyLocked IsNegative":                               "InitiallyLocked is the created amount, rejected when negative at creation; the split subtracts only behind a non-negativity guard (C16.split)",
	"VestingPool.Withdrawn IsNegative":                                     "Withdrawn starts at zero and only grows by oracle results, which are zero or GetCurrentlyLocked() (C06.table, C05.pair)",
	"VestingPool.Sent IsNegative":                                          "Sent starts at zero and only grows by amounts validated non-negative (C05.avail)",
	"VestingPool.GetCurrentlyLocked() IsNegative":                          "Sent grows only where currentlyLocked >= amount and Withdrawn by at most currentlyLocked (C05.avail, C06.table)",
	"GenesisState.VestingAccountTraceCount+VestingAccountTrace.Id cmp>=":   "AppendVestingAccountTrace assigns id = count and then stores count+1 (C17.only: single writer)",
	"AccountVestingPools.VestingPools+VestingPool.VestingType not-modcall": "membership of the pool's vesting type among the vesting types, when the search is a helper of its own: a pool is created only with an existing vesting type and types are never removed at run time",
	"VestingPool.VestingType not-modcall":                                  "as above (the pools are ranged over by index or the helper is handed the pool's type only)",
	// cfevesting: vesting types (written by genesis and the v120 upgrade only; exported through UnitsFromDuration)
	"GenesisVestingType.Name empty":                                              "vesting types come from a validated genesis or from the upgrade's constants",
	"GenesisVestingType.LockupPeriod+GenesisVestingType.LockupPeriodUnit cmp<":   "periods are stored as validated at import; export renders them with a unit that divides them (C12.lossless)",
	"GenesisVestingType.VestingPeriod+GenesisVestingType.VestingPeriodUnit cmp<": "as above",
	"GenesisVestingType.Free GT":                                                 "Free is stored as validated at import / upgrade constant",
	"GenesisVestingType.Free IsNegative":                                         "as above",
	// cfeminter: state
	"GenesisState.Params+MinterState.SequenceId not-modcall": "parameter updates keep the current period (C13.current); the state advances only to an existing successor",
	"MinterState.AmountMinted IsNil":                         "state is written by mint() only, from Add results",
	"MinterState.AmountMinted IsNegative":                    "AmountMinted grows by amounts behind the IsNegative guard (C02.nonneg)",
	"MinterState.RemainderFromPreviousMinter IsNil":          "set from a Sub result / ZeroDec",
	"MinterState.RemainderFromPreviousMinter IsNegative":     "fractional part x - trunc(x) of a non-negative total (C02.carry)",
	"MinterState.RemainderToMint IsNil":                      "set from a Sub result",
	"MinterState.RemainderToMint IsNegative":                 "fractional part of a non-negative amount",
	// cfedistributor: states
	"State.Remains IsNegative": "leftovers change only by Add of a share, TruncateDecimal change or clearing (C03.writers)",
	"State.Account non-nil":    "export nils the burn state's account out (the run-time shape is an empty account): C12.shape / C12.sameshape",
	"State.Account nil":        "non-burn states are created with the destination account",
}

// checkGenesisRejections: rule C12.accepts.
func checkGenesisRejections(w *World, r *Report, rule string) {
	for _, m := range []string{"cfevesting", "cfeminter", "cfedistributor", "cfesignature"} {
		root := w.Func("x/" + m + "/types.GenesisState.Validate")
		if root == nil {
			r.Unk("infra.anchor", "x/"+m+"/types.GenesisState.Validate", "", "anchor not found")
			continue
		}
		inParams := map[*ssa.Function]bool{}
		if pv := w.Func("x/" + m + "/types.Params.Validate"); pv != nil {
			for fn := range w.CG().Reach([]*ssa.Function{pv}) {
				inParams[fn] = true
			}
		}
		seen := map[string]int{}
		for _, rj := range genesisRejections(w, root) {
			seen[rj.Key]++
			key := rj.Key
			if seen[rj.Key] > 1 {
				key = fmt.Sprintf("%s #%d", rj.Key, seen[rj.Key])
			}
			pos := w.Pos(ifPos(rj.If))
			if pos == "?" {
				pos = w.Pos(rj.Fn.Pos())
			}
			switch {
			case inParams[rj.Fn]:
				r.OK(rule, key, pos, "on the Params.Validate tree: every stored parameter set passed this very validation (C13.validated)")
			case c12VettedRejections[rj.Key] != "":
				r.Assume(rule, key, pos, c12VettedRejections[rj.Key])
			default:
				r.Bad(rule, key, pos, "genesis validation rejects a condition that no rule shows to be impossible for a state written at run time: if the running chain can store such a value, its exported genesis does not validate and cannot start a chain")
			}
		}
	}
}

// iterLoops: loops driven by a store iterator (for ; it.Valid(); it.Next()).
func iterLoops(fn *ssa.Function) []rangeLoop {
	var out []rangeLoop
	for _, b := range fn.Blocks {
		i := blockIf(b)
		if i == nil {
			continue
		}
		base, neg := stripNot(i.Cond)
		c, ok := base.(*ssa.Call)
		if !ok || !c.Common().IsInvoke() || c.Common().Method.Name() != "Valid" {
			continue
		}
		body := b.Succs[0]
		if neg {
			body = b.Succs[1]
		}
		// a loop: the block is reached again from its body
		if len(loopBlocks(b)) < 2 {
			continue
		}
		out = append(out, rangeLoop{Header: b, Body: body, Over: c.Common().Value})
	}
	return out
}

// checkGetAll (closed world): a keeper function that lists a store prefix with an iterator hands back every record:
// each iteration decodes the value and appends it (or passes it to the callback), no iteration is skipped and the loop
// is not left early; the prefix iterated is the full prefix (empty start).
func checkGetAll(w *World, r *Report, rule string, roots []*ssa.Function) {
	cg := w.CG()
	var fns []*ssa.Function
	for fn := range cg.Reach(roots) {
		if w.isProdFunc(fn) && strings.HasSuffix(pkgPathOf(fn), "/keeper") {
			fns = append(fns, fn)
		}
	}
	sort.Slice(fns, func(i, j int) bool { return fns[i].String() < fns[j].String() })
	if os.Getenv("C4E_DEBUG2") != "" {
		for fn := range cg.Reach(roots) {
			if strings.Contains(fn.Name(), "iterateProto") {
				fmt.Println("GETALL", fn.String(), w.isProdFunc(fn), pkgPathOf(fn), len(fn.Blocks), len(iterLoops(fn)))
			}
		}
	}
	for _, fn := range fns {
		for _, l := range iterLoops(fn) {
			collects := func(b *ssa.BasicBlock) bool {
				for _, in := range b.Instrs {
					if c, ok := in.(*ssa.Call); ok {
						if bi, ok := c.Common().Value.(*ssa.Builtin); ok && bi.Name() == "append" {
							return true
						}
						if _, isParam := c.Common().Value.(*ssa.Parameter); isParam {
							return true // callback
						}
					}
				}
				return false
			}
			every := loopBodyMustPass(l, collects)
			ex := loopEarlyExit(l)
			r.Check(every && ex == nil, rule, funcName(fn)+": the listing returns every record of the prefix", w.Pos(fn.Pos()), "every iteration appends the decoded record; no early exit", "some records of the prefix are left out of the listing (an iteration that does not append, or an early exit): export, summaries and block routines see an incomplete state")
		}
	}
}

// checkVerbatim (rule C12.verbatim): InitGenesis passes what the genesis carries on as it is. No field of the
// GenesisState parameter, or of a local copy of (part of) it, is assigned in InitGenesis: import must not fill in,
// reset or normalise values - whatever it changes is lost or altered by an export/import cycle.
func checkVerbatim(w *World, r *Report, rule string, inits []*ssa.Function) {
	var fns []*ssa.Function
	for fn := range w.CG().Reach(inits) {
		if w.isProdFunc(fn) {
			fns = append(fns, fn)
		}
	}
	sort.Slice(fns, func(i, j int) bool { return fns[i].String() < fns[j].String() })
	for _, fn := range fns {
		var gs *ssa.Parameter
		for _, p := range fn.Params {
			if strings.HasSuffix(typeString(p.Type()), "types.GenesisState") && strings.Contains(typeString(p.Type()), modPath) {
				gs = p
			}
		}
		if gs == nil {
			continue
		}
		fromGenesis := func(v ssa.Value) bool {
			for i := 0; i < 8; i++ {
				switch x := v.(type) {
				case *ssa.Parameter:
					return x == gs
				case *ssa.Field:
					v = x.X
				case *ssa.FieldAddr:
					v = x.X
				case *ssa.UnOp:
					v = x.X
				case *ssa.IndexAddr:
					v = x.X
				case *ssa.Index:
					v = x.X
				case *ssa.Slice:
					v = x.X
				case *ssa.Alloc:
					// the spill slot of the parameter
					for _, ref := range *x.Referrers() {
						if st, ok := ref.(*ssa.Store); ok && st.Addr == ssa.Value(x) && st.Val == ssa.Value(gs) {
							return true
						}
					}
					return false
				default:
					return false
				}
			}
			return false
		}
		copies := map[*ssa.Alloc]bool{}
		for _, b := range fn.Blocks {
			for _, in := range b.Instrs {
				if st, ok := in.(*ssa.Store); ok {
					if al, isAl := st.Addr.(*ssa.Alloc); isAl {
						if st.Val == ssa.Value(gs) || fromGenesis(st.Val) {
							copies[al] = true
						}
					}
				}
			}
		}
		n := 0
		for _, fs := range FieldStores(fn) {
			root := fs.FA.X
			for i := 0; i < 6; i++ {
				if fa, ok := root.(*ssa.FieldAddr); ok {
					root = fa.X
				} else {
					break
				}
			}
			al, isAl := root.(*ssa.Alloc)
			// a local copy of (a part of) the genesis data, or a record reached through a pointer the genesis data holds
			// (an element of a list of pointers: `for _, av := range genState.Xs { av.F = ... }`)
			if !(isAl && copies[al]) && !(!isAl && fromGenesis(root)) {
				continue
			}
			n++
			name := fs.Field
			if fs.Struct != nil {
				name = fs.Struct.Obj().Name() + "." + fs.Field
			}
			r.Bad(rule, fmt.Sprintf("%s: assignment to imported %s #%d", funcName(fn), name, n), w.Pos(fs.Store.Pos()), "InitGenesis assigns a field of the genesis data it imports (a default, a reset or a normalisation): a state exported by the running chain is not restored as it was")
		}
		// a record handed to a module function (a keeper setter) must not be modified there before it is stored: the
		// callee's field stores into the parameter that receives genesis data (two call levels)
		var modifiedIn func(h *ssa.Function, pi int, depth int) *FieldStore
		modifiedIn = func(h *ssa.Function, pi int, depth int) *FieldStore {
			if h == nil || h.Blocks == nil || pi >= len(h.Params) || !w.isProdFunc(h) || isGeneratedFile(w.FileOf(h.Pos())) {
				return nil
			}
			prm := h.Params[pi]
			isPrm := func(v ssa.Value) bool {
				for i := 0; i < 6; i++ {
					switch x := v.(type) {
					case *ssa.Parameter:
						return x == prm
					case *ssa.FieldAddr:
						v = x.X
					case *ssa.Alloc:
						for _, ref := range *x.Referrers() {
							if st, ok := ref.(*ssa.Store); ok && st.Addr == ssa.Value(x) && st.Val == ssa.Value(prm) {
								return true
							}
						}
						return false
					default:
						return false
					}
				}
				return false
			}
			for _, fs := range FieldStores(h) {
				if isPrm(fs.FA.X) {
					fs := fs
					return &fs
				}
			}
			if depth >= 2 {
				return nil
			}
			for _, s2 := range w.CG().Sites[h] {
				if s2.Static == nil || s2.Invoke {
					continue
				}
				for j, a2 := range s2.Common().Args {
					handed := a2 == ssa.Value(prm)
					if u, ok := a2.(*ssa.UnOp); ok && u.Op == token.MUL {
						if al, ok := u.X.(*ssa.Alloc); ok && isPrm(al) {
							handed = true
						}
					}
					if handed {
						if fs := modifiedIn(s2.Static, j, depth+1); fs != nil {
							return fs
						}
					}
				}
			}
			return nil
		}
		for _, s2 := range w.CG().Sites[fn] {
			if s2.Static == nil || s2.Invoke {
				continue
			}
			for j, a2 := range s2.Common().Args {
				if !fromGenesis(a2) {
					continue
				}
				if fs := modifiedIn(s2.Static, j, 0); fs != nil {
					n++
					name := fs.Field
					if fs.Struct != nil {
						name = fs.Struct.Obj().Name() + "." + fs.Field
					}
					r.Bad(rule, fmt.Sprintf("%s: imported record handed to %s, which assigns %s", funcName(fn), funcName(s2.Static), name), w.Pos(s2.Instr.Pos()), "InitGenesis stores a genesis record through an operation that rewrites a field of it ("+w.Pos(fs.Store.Pos())+"): a state exported by the running chain is not restored as it was")
				}
			}
		}
		if n == 0 {
			r.OK(rule, funcName(fn)+": genesis data is stored as given", w.Pos(fn.Pos()), "no field of the GenesisState parameter or of a copy of its parts is assigned, here or in the functions the records are handed to")
		}
	}
}

type boolDecider struct {
	i    *ssa.If
	cond ssa.Value
	neg  bool // the deciding edge is the false edge of cond
}

// boolDeciders: the tests of a bool-returning helper one of whose edges leads, on every path, to `return want`
// (and the other does not).
func boolDeciders(h *ssa.Function, want bool) []boolDecider {
	always := func(b *ssa.BasicBlock) bool {
		seen := map[*ssa.BasicBlock]bool{}
		ok := true
		n := 0
		var walk func(b *ssa.BasicBlock)
		walk = func(b *ssa.BasicBlock) {
			if seen[b] || !ok {
				return
			}
			seen[b] = true
			if len(b.Instrs) > 0 {
				if ret, isRet := b.Instrs[len(b.Instrs)-1].(*ssa.Return); isRet {
					rv := retVals(ret)
					v, isConst := constBool(rv[0])
					if !isConst || v != want {
						ok = false
					}
					n++
					return
				}
			}
			for _, s := range b.Succs {
				walk(s)
			}
		}
		walk(b)
		return ok && n > 0
	}
	var out []boolDecider
	for _, b := range h.Blocks {
		i := blockIf(b)
		if i == nil {
			continue
		}
		t, f := always(b.Succs[0]), always(b.Succs[1])
		if t == f {
			continue
		}
		if strings.Contains(b.Comment, "loop") {
			// the exhaustion of a search loop decides "not found": that is the predicate itself, not a test inside it
			return nil
		}
		base, neg := stripNot(i.Cond)
		onTrue := t
		if neg {
			onTrue = !onTrue
		}
		out = append(out, boolDecider{i: i, cond: base, neg: !onTrue})
	}
	return out
}

// checkExportVerbatim (C12.exportverbatim): what ExportGenesis reads from the keepers is exported as stored. The export
// trees build new genesis records (stores into their own composite literals are construction) but must not modify, in
// place, a record that came out of a keeper - except for the reviewed transformations of the table below. A record
// re-spelled, re-keyed or "normalised" on export no longer matches what the parameters and the runtime look it up by.
var exportTransformations = map[string]string{
	"State.Account=nil": "the burn state's account is blanked on export; import and the block routines accept both shapes (C12.shape, C12.sameshape)",
}

func checkExportVerbatim(w *World, r *Report, rule string, exports []*ssa.Function) {
	var fns []*ssa.Function
	for fn := range w.CG().Reach(exports) {
		if w.isProdFunc(fn) && !strings.Contains(funcName(fn), "/keeper.") {
			fns = append(fns, fn)
		}
	}
	sort.Slice(fns, func(i, j int) bool { return fns[i].String() < fns[j].String() })
	tr := w.Tracer()
	n := 0
	for _, fn := range fns {
		for _, fs := range FieldStores(fn) {
			if fs.Struct == nil || fs.Struct.Obj().Pkg() == nil || !strings.HasPrefix(fs.Struct.Obj().Pkg().Path(), modPath) {
				continue
			}
			// the record written into: a local composite literal (construction) or something that came from elsewhere
			root := fs.FA.X
			viaElem := false
			for i := 0; i < 8; i++ {
				switch x := root.(type) {
				case *ssa.FieldAddr:
					root = x.X
					continue
				case *ssa.IndexAddr:
					root = x.X
					viaElem = true
					continue
				case *ssa.UnOp:
					if x.Op == token.MUL {
						root = x.X
						continue
					}
				}
				break
			}
			if al, isAl := root.(*ssa.Alloc); isAl && !viaElem {
				// a local: construction, unless the local holds a record copied out of a keeper result and is exported
				if !tr.Origins(al).HasLeaf("call", "keeper.Keeper.") {
					continue
				}
			}
			o := tr.Origins(root)
			if !o.HasLeaf("call", "keeper.Keeper.") && !o.HasLeaf("outparam", "") {
				continue
			}
			n++
			key := fs.Struct.Obj().Name() + "." + fs.Field + "="
			if isNilConst(fs.Store.Val) {
				key += "nil"
			} else {
				key += "value"
			}
			construct := fmt.Sprintf("%s: stored %s modified in place on export", funcName(fn), fs.Struct.Obj().Name()+"."+fs.Field)
			if why, ok := exportTransformations[key]; ok {
				r.Assume(rule, construct, w.Pos(fs.Store.Pos()), "reviewed transformation: "+why)
			} else {
				r.Bad(rule, construct, w.Pos(fs.Store.Pos()), "ExportGenesis changes a record that it read from the keeper before exporting it ("+key+"): the exported state is not the stored state - what the parameters and the block routines look this record up by no longer matches after a restart from the export")
			}
		}
	}
	r.Check(n >= 1, rule, "in-place modifications on the export trees enumerated", "", fmt.Sprintf("%d (the reviewed blanking of the burn state's account)", n), "the enumeration found nothing: the rule no longer sees the export code")
}

// pkgPathOf: the package a function belongs to (for function literals their parent's, for instantiations of generic
// functions their origin's).
func pkgPathOf(f *ssa.Function) string {
	for f != nil {
		if f.Pkg != nil {
			return f.Pkg.Pkg.Path()
		}
		if f.Parent() != nil {
			f = f.Parent()
			continue
		}
		if f.Origin() != nil && f.Origin() != f {
			f = f.Origin()
			continue
		}
		break
	}
	return ""
}

// isCounterHelper: a module function with one integer result that is, on every return, a counter: built only from
// integer constants, phis and additions of a constant (count := 0; for ... { if match { count++ } }; return count).
func isCounterHelper(fn *ssa.Function) bool {
	if fn == nil || fn.Blocks == nil || !strings.HasPrefix(pkgPathOf(fn), modPath) {
		return false
	}
	res := fn.Signature.Results()
	if res.Len() != 1 {
		return false
	}
	if b, ok := res.At(0).Type().Underlying().(*types.Basic); !ok || b.Info()&types.IsInteger == 0 {
		return false
	}
	seen := map[ssa.Value]bool{}
	sawInc := false
	var counter func(v ssa.Value) bool
	counter = func(v ssa.Value) bool {
		if seen[v] {
			return true
		}
		seen[v] = true
		switch x := v.(type) {
		case *ssa.Const:
			return true
		case *ssa.Phi:
			for _, e := range x.Edges {
				if !counter(e) {
					return false
				}
			}
			return true
		case *ssa.BinOp:
			if x.Op != token.ADD {
				return false
			}
			_, cx := x.X.(*ssa.Const)
			_, cy := x.Y.(*ssa.Const)
			if cy && counter(x.X) || cx && counter(x.Y) {
				sawInc = true
				return true
			}
			return false
		}
		return false
	}
	n := 0
	for _, ret := range Returns(fn) {
		rv := retVals(ret)
		if len(rv) != 1 || !counter(rv[0]) {
			return false
		}
		n++
	}
	return n > 0 && sawInc
}
