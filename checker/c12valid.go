package main

import (
	"fmt"
	"go/token"
	"go/types"
	"sort"
	"strings"

	"golang.org/x/tools/go/ssa"
)

// A rejection is a condition in a genesis validator one of whose edges ends in an error on every path.
type rejection struct {
	Fn   *ssa.Function
	If   *ssa.If
	Key  string // rendering of the rejecting condition, stable under renaming of locals
	Cond ssa.Value
	Neg  bool // the rejecting edge is the false edge of Cond
}

// renderVal renders an SSA value structurally: loads of fields as paths, calls as name(args), constants by value.
func renderVal(v ssa.Value, depth int) string {
	if depth > 6 {
		return "…"
	}
	switch x := v.(type) {
	case *ssa.Const:
		if x.Value == nil {
			return "nil"
		}
		return x.Value.ExactString()
	case *ssa.Parameter:
		return "<" + shortType(x.Type()) + ">"
	case *ssa.UnOp:
		if x.Op == token.MUL {
			return renderVal(x.X, depth+1)
		}
		return x.Op.String() + renderVal(x.X, depth+1)
	case *ssa.FieldAddr:
		_, f := fieldOf(x)
		return renderVal(x.X, depth+1) + "." + f
	case *ssa.Field:
		if st, ok := x.X.Type().Underlying().(*types.Struct); ok && x.Field < st.NumFields() {
			return renderVal(x.X, depth+1) + "." + st.Field(x.Field).Name()
		}
		return renderVal(x.X, depth+1) + ".?"
	case *ssa.IndexAddr:
		return renderVal(x.X, depth+1) + "[*]"
	case *ssa.Index:
		return renderVal(x.X, depth+1) + "[*]"
	case *ssa.Lookup:
		return renderVal(x.X, depth+1) + "[key]"
	case *ssa.BinOp:
		return "(" + renderVal(x.X, depth+1) + " " + x.Op.String() + " " + renderVal(x.Y, depth+1) + ")"
	case *ssa.Call:
		n := callName(x.Common())
		if i := strings.LastIndex(n, "/"); i >= 0 {
			n = n[i+1:]
		}
		var as []string
		if x.Common().IsInvoke() {
			as = append(as, renderVal(x.Common().Value, depth+1))
		}
		for _, a := range x.Common().Args {
			as = append(as, renderVal(a, depth+1))
		}
		return n + "(" + strings.Join(as, ",") + ")"
	case *ssa.Extract:
		return renderVal(x.Tuple, depth+1) + fmt.Sprintf("#%d", x.Index)
	case *ssa.Phi:
		return "phi"
	case *ssa.Alloc:
		return "<" + shortType(x.Type()) + ">"
	case *ssa.Convert:
		return renderVal(x.X, depth+1)
	case *ssa.ChangeType:
		return renderVal(x.X, depth+1)
	case *ssa.MakeInterface:
		return renderVal(x.X, depth+1)
	case *ssa.Slice:
		return renderVal(x.X, depth+1) + "[:]"
	case *ssa.Next:
		return "next"
	case *ssa.Range:
		return "range " + renderVal(x.X, depth+1)
	case *ssa.TypeAssert:
		return renderVal(x.X, depth+1) + ".(" + shortType(x.AssertedType) + ")"
	}
	return "?"
}

// genesisRejections enumerates the rejecting conditions of a module's genesis validation tree.
func genesisRejections(w *World, root *ssa.Function) []rejection {
	var out []rejection
	reach := w.CG().Reach([]*ssa.Function{root})
	var fns []*ssa.Function
	for fn := range reach {
		if w.isProdFunc(fn) {
			fns = append(fns, fn)
		}
	}
	sort.Slice(fns, func(i, j int) bool { return fns[i].String() < fns[j].String() })
	for _, fn := range fns {
		for _, b := range fn.Blocks {
			i := blockIf(b)
			if i == nil {
				continue
			}
			base, neg := stripNot(i.Cond)
			t, f := FailsFrom(b.Succs[0]), FailsFrom(b.Succs[1])
			if t == f {
				continue
			}
			// error propagation of a callee's verdict is not a predicate of its own
			if bo, ok := base.(*ssa.BinOp); ok && (isErrorType(bo.X.Type()) || isErrorType(bo.Y.Type())) {
				continue
			}
			rejOnTrue := t
			if neg {
				rejOnTrue = !rejOnTrue
			}
			key := renderVal(base, 0)
			if !rejOnTrue {
				key = "!" + key
			}
			out = append(out, rejection{Fn: fn, If: i, Key: funcName(fn) + ": rejects when " + key, Cond: base, Neg: !rejOnTrue})
		}
	}
	return out
}

// c12VettedRejections: rejecting conditions of genesis validation outside the Params.Validate trees, each reviewed
// against what the running chain can store (closed table; a condition that is not listed and not discharged is
// reported: a validator stricter than the runtime makes an exported state un-importable).
var c12VettedRejections = map[string]string{
	// cfevesting: pools
	"x/cfevesting/types.VestingPool.Validate: rejects when (builtin.len(<*x/cfevesting/types.VestingPool>.Name) == 0)":                                                                            "pools are created only by CreateVestingPool / the v120 split, both with a name checked non-empty (ValidateCreateVestingPool; constants)",
	"x/cfevesting/types.VestingPool.Validate: rejects when math.Int.IsNegative(<*x/cfevesting/types.VestingPool>.InitiallyLocked)":                                                                "InitiallyLocked is the created amount, rejected when negative at creation; the split subtracts only behind a non-negativity guard (C16.split)",
	"x/cfevesting/types.VestingPool.Validate: rejects when math.Int.IsNegative(<*x/cfevesting/types.VestingPool>.Withdrawn)":                                                                      "Withdrawn starts at zero and only grows by oracle results, which are zero or GetCurrentlyLocked() (C06.table, C05.pair)",
	"x/cfevesting/types.VestingPool.Validate: rejects when math.Int.IsNegative(<*x/cfevesting/types.VestingPool>.Sent)":                                                                           "Sent starts at zero and only grows by amounts validated non-negative (C05.avail)",
	"x/cfevesting/types.VestingPool.Validate: rejects when math.Int.IsNegative(types.VestingPool.GetCurrentlyLocked(<*x/cfevesting/types.VestingPool>))":                                          "Sent grows only where currentlyLocked >= amount and Withdrawn by at most currentlyLocked (C05.avail, C06.table)",
	"x/cfevesting/types.AccountVestingPools.ValidateAgainstVestingTypes: rejects when !phi":                                                                                                       "a pool is created only with an existing vesting type (GetVestingType error is fatal in addVestingPool); types are never removed at run time",
	"x/cfevesting/types.AccountVestingPools.checkDuplications: rejects when (phi > 1)":                                                                                                            "addVestingPool rejects a duplicate pool name for the owner",
	"x/cfevesting/types.GenesisState.validateAccountVestingPools: rejects when (phi > 1)":                                                                                                         "pools are stored under the owner address as key: one record per owner",
	"x/cfevesting/types.GenesisState.validateVestingTypes: rejects when (phi > 1)":                                                                                                                "vesting types are stored under their name as key: one record per name",
	"x/cfevesting/types.GenesisState.Validate: rejects when ?[key]#1":                                                                                                                             "traces are stored under their id as key: ids are unique",
	"x/cfevesting/types.GenesisState.Validate: rejects when (<*x/cfevesting/types.VestingAccountTrace>.Id >= types.GenesisState.GetVestingAccountTraceCount(<*x/cfevesting/types.GenesisState>))": "AppendVestingAccountTrace assigns id = count and then stores count+1 (C17.only: single writer)",
	// cfevesting: vesting types (written by genesis and the v120 upgrade only; exported through UnitsFromDuration)
	"x/cfevesting/types.GenesisVestingType.Validate: rejects when (builtin.len(<*x/cfevesting/types.GenesisVestingType>.Name) == 0)":                                                                                  "vesting types come from a validated genesis or from the upgrade's constants",
	"x/cfevesting/types.GenesisVestingType.Validate: rejects when (types.DurationFromUnits(<*x/cfevesting/types.GenesisVestingType>.LockupPeriodUnit,<*x/cfevesting/types.GenesisVestingType>.LockupPeriod)#0 < 0)":   "periods are stored as validated at import; export renders them with a unit that divides them (C12.lossless)",
	"x/cfevesting/types.GenesisVestingType.Validate: rejects when (types.DurationFromUnits(<*x/cfevesting/types.GenesisVestingType>.VestingPeriodUnit,<*x/cfevesting/types.GenesisVestingType>.VestingPeriod)#0 < 0)": "as above",
	"x/cfevesting/types.GenesisVestingType.Validate: rejects when types.Dec.GT(<*x/cfevesting/types.GenesisVestingType>.Free,types.NewDec(1))":                                                                        "Free is stored as validated at import / upgrade constant",
	"x/cfevesting/types.GenesisVestingType.Validate: rejects when types.Dec.IsNegative(<*x/cfevesting/types.GenesisVestingType>.Free)":                                                                                "as above",
	"x/cfevesting/types.DurationFromUnits: rejects when !(<x/cfevesting/types.PeriodUnit> == \"second\")":                                                                                                             "export writes only the four known units (UnitsFromDuration)",
	// cfeminter: state
	"x/cfeminter/types.GenesisState.Validate: rejects when !types.Params.ContainsMinter(<*x/cfeminter/types.GenesisState>.Params,<*x/cfeminter/types.GenesisState>.MinterState.SequenceId)": "parameter updates keep the current period (C13.current); the state advances only to an existing successor",
	"x/cfeminter/types.MinterState.Validate: rejects when math.Int.IsNil(<*x/cfeminter/types.MinterState>.AmountMinted)":                                                                    "state is written by mint() only, from Add results",
	"x/cfeminter/types.MinterState.Validate: rejects when math.Int.IsNegative(<*x/cfeminter/types.MinterState>.AmountMinted)":                                                               "AmountMinted grows by amounts behind the IsNegative guard (C02.nonneg)",
	"x/cfeminter/types.MinterState.Validate: rejects when types.Dec.IsNil(<*x/cfeminter/types.MinterState>.RemainderFromPreviousMinter)":                                                    "set from a Sub result / ZeroDec",
	"x/cfeminter/types.MinterState.Validate: rejects when types.Dec.IsNegative(<*x/cfeminter/types.MinterState>.RemainderFromPreviousMinter)":                                               "fractional part x - trunc(x) of a non-negative total (C02.carry)",
	"x/cfeminter/types.MinterState.Validate: rejects when types.Dec.IsNil(<*x/cfeminter/types.MinterState>.RemainderToMint)":                                                                "set from a Sub result",
	"x/cfeminter/types.MinterState.Validate: rejects when types.Dec.IsNegative(<*x/cfeminter/types.MinterState>.RemainderToMint)":                                                           "fractional part of a non-negative amount",
	// cfedistributor: states
	"x/cfedistributor/types.State.IsNegative: rejects when types.DecCoin.IsNegative(<*x/cfedistributor/types.State>.Remains[*])": "leftovers change only by Add of a share, TruncateDecimal change or clearing (C03.writers)",
	"x/cfedistributor/types.State.Validate: rejects when (<*x/cfedistributor/types.State>.Account != nil)":                       "export nils the burn state's account out (the run-time shape is an empty account): C12.shape / C12.sameshape",
	"x/cfedistributor/types.State.Validate: rejects when (<*x/cfedistributor/types.State>.Account == nil)":                       "non-burn states are created with the destination account",
}

// checkGenesisRejections: rule C12.accepts.
func checkGenesisRejections(w *World, r *Report, rule string) {
	for _, m := range []string{"cfevesting", "cfeminter", "cfedistributor", "cfesignature"} {
		root := w.Func("x/" + m + "/types.GenesisState.Validate")
		if root == nil {
			r.Unk("infra.anchor", "x/"+m+"/types.GenesisState.Validate", "", "anchor not found")
			continue
		}
		inParams := map[*ssa.Function]bool{}
		if pv := w.Func("x/" + m + "/types.Params.Validate"); pv != nil {
			for fn := range w.CG().Reach([]*ssa.Function{pv}) {
				inParams[fn] = true
			}
		}
		seen := map[string]int{}
		for _, rj := range genesisRejections(w, root) {
			seen[rj.Key]++
			key := rj.Key
			if seen[rj.Key] > 1 {
				key = fmt.Sprintf("%s #%d", rj.Key, seen[rj.Key])
			}
			pos := w.Pos(ifPos(rj.If))
			if pos == "?" {
				pos = w.Pos(rj.Fn.Pos())
			}
			switch {
			case inParams[rj.Fn]:
				r.OK(rule, key, pos, "on the Params.Validate tree: every stored parameter set passed this very validation (C13.validated)")
			case c12VettedRejections[rj.Key] != "":
				r.Assume(rule, key, pos, c12VettedRejections[rj.Key])
			default:
				r.Bad(rule, key, pos, "genesis validation rejects a condition that no rule shows to be impossible for a state written at run time: if the running chain can store such a value, its exported genesis does not validate and cannot start a chain")
			}
		}
	}
}

// iterLoops: loops driven by a store iterator (for ; it.Valid(); it.Next()).
func iterLoops(fn *ssa.Function) []rangeLoop {
	var out []rangeLoop
	for _, b := range fn.Blocks {
		i := blockIf(b)
		if i == nil {
			continue
		}
		base, neg := stripNot(i.Cond)
		c, ok := base.(*ssa.Call)
		if !ok || !c.Common().IsInvoke() || c.Common().Method.Name() != "Valid" {
			continue
		}
		body := b.Succs[0]
		if neg {
			body = b.Succs[1]
		}
		// a loop: the block is reached again from its body
		if len(loopBlocks(b)) < 2 {
			continue
		}
		out = append(out, rangeLoop{Header: b, Body: body, Over: c.Common().Value})
	}
	return out
}

// checkGetAll (closed world): a keeper function that lists a store prefix with an iterator hands back every record:
// each iteration decodes the value and appends it (or passes it to the callback), no iteration is skipped and the loop
// is not left early; the prefix iterated is the full prefix (empty start).
func checkGetAll(w *World, r *Report, rule string, roots []*ssa.Function) {
	cg := w.CG()
	var fns []*ssa.Function
	for fn := range cg.Reach(roots) {
		if w.isProdFunc(fn) && strings.Contains(funcName(fn), "/keeper.") {
			fns = append(fns, fn)
		}
	}
	sort.Slice(fns, func(i, j int) bool { return fns[i].String() < fns[j].String() })
	for _, fn := range fns {
		for _, l := range iterLoops(fn) {
			collects := func(b *ssa.BasicBlock) bool {
				for _, in := range b.Instrs {
					if c, ok := in.(*ssa.Call); ok {
						if bi, ok := c.Common().Value.(*ssa.Builtin); ok && bi.Name() == "append" {
							return true
						}
						if _, isParam := c.Common().Value.(*ssa.Parameter); isParam {
							return true // callback
						}
					}
				}
				return false
			}
			every := loopBodyMustPass(l, collects)
			ex := loopEarlyExit(l)
			r.Check(every && ex == nil, rule, funcName(fn)+": the listing returns every record of the prefix", w.Pos(fn.Pos()), "every iteration appends the decoded record; no early exit", "some records of the prefix are left out of the listing (an iteration that does not append, or an early exit): export, summaries and block routines see an incomplete state")
		}
	}
}

// checkVerbatim (rule C12.verbatim): InitGenesis passes what the genesis carries on as it is. No field of the
// GenesisState parameter, or of a local copy of (part of) it, is assigned in InitGenesis: import must not fill in,
// reset or normalise values - whatever it changes is lost or altered by an export/import cycle.
func checkVerbatim(w *World, r *Report, rule string, inits []*ssa.Function) {
	var fns []*ssa.Function
	for fn := range w.CG().Reach(inits) {
		if w.isProdFunc(fn) {
			fns = append(fns, fn)
		}
	}
	sort.Slice(fns, func(i, j int) bool { return fns[i].String() < fns[j].String() })
	for _, fn := range fns {
		var gs *ssa.Parameter
		for _, p := range fn.Params {
			if strings.HasSuffix(typeString(p.Type()), "types.GenesisState") && strings.Contains(typeString(p.Type()), modPath) {
				gs = p
			}
		}
		if gs == nil {
			continue
		}
		fromGenesis := func(v ssa.Value) bool {
			for i := 0; i < 8; i++ {
				switch x := v.(type) {
				case *ssa.Parameter:
					return x == gs
				case *ssa.Field:
					v = x.X
				case *ssa.FieldAddr:
					v = x.X
				case *ssa.UnOp:
					v = x.X
				case *ssa.Alloc:
					// the spill slot of the parameter
					for _, ref := range *x.Referrers() {
						if st, ok := ref.(*ssa.Store); ok && st.Addr == ssa.Value(x) && st.Val == ssa.Value(gs) {
							return true
						}
					}
					return false
				default:
					return false
				}
			}
			return false
		}
		copies := map[*ssa.Alloc]bool{}
		for _, b := range fn.Blocks {
			for _, in := range b.Instrs {
				if st, ok := in.(*ssa.Store); ok {
					if al, isAl := st.Addr.(*ssa.Alloc); isAl {
						if st.Val == ssa.Value(gs) || fromGenesis(st.Val) {
							copies[al] = true
						}
					}
				}
			}
		}
		n := 0
		for _, fs := range FieldStores(fn) {
			root := fs.FA.X
			for i := 0; i < 6; i++ {
				if fa, ok := root.(*ssa.FieldAddr); ok {
					root = fa.X
				} else {
					break
				}
			}
			al, isAl := root.(*ssa.Alloc)
			if !isAl || !copies[al] {
				continue
			}
			n++
			name := fs.Field
			if fs.Struct != nil {
				name = fs.Struct.Obj().Name() + "." + fs.Field
			}
			r.Bad(rule, fmt.Sprintf("%s: assignment to imported %s #%d", funcName(fn), name, n), w.Pos(fs.Store.Pos()), "InitGenesis assigns a field of the genesis data it imports (a default, a reset or a normalisation): a state exported by the running chain is not restored as it was")
		}
		if n == 0 {
			r.OK(rule, funcName(fn)+": genesis data is stored as given", w.Pos(fn.Pos()), "no field of the GenesisState parameter or of a copy of its parts is assigned")
		}
	}
}
