package main

import (
	"go/token"
	"strings"

	"golang.org/x/tools/go/ssa"
)

// Effects through helpers: rules that used to look for a construct (a call, a store) in one anchored function find
// it also when a refactoring moved it into a helper the function calls. An EffSite is a call site together with the
// chain of static module calls that leads from the anchored function down to the function containing it.

type EffSite struct {
	Site  *Site
	Chain []*Site // calls from the root function down to Site.Caller (empty when the site is in the root itself)
}

// Top is the instruction in the root function through which the site is reached.
func (e EffSite) Top() ssa.CallInstruction {
	if len(e.Chain) > 0 {
		return e.Chain[0].Instr
	}
	return e.Site.Instr
}

func (e EffSite) instrAt(level int) ssa.Instruction {
	if level < len(e.Chain) {
		return e.Chain[level].Instr
	}
	if level == len(e.Chain) {
		return e.Site.Instr
	}
	return nil
}

// effectsBelow enumerates the sites matching `match` in root and in the static module callees (production
// functions with bodies) reachable from it within maxDepth calls. A matching site is not entered; a call back into
// root (recursion) is not entered either (it can be matched as an effect of its own).
func (w *World) effectsBelow(root *ssa.Function, match func(*Site) bool, maxDepth int) []EffSite {
	cg := w.CG()
	var out []EffSite
	var walk func(fn *ssa.Function, chain []*Site, onPath map[*ssa.Function]bool)
	walk = func(fn *ssa.Function, chain []*Site, onPath map[*ssa.Function]bool) {
		for _, s := range cg.Sites[fn] {
			if match(s) {
				out = append(out, EffSite{Site: s, Chain: append([]*Site(nil), chain...)})
				continue
			}
			if len(chain) >= maxDepth || s.Static == nil || s.Invoke {
				continue
			}
			h := s.Static
			if h.Blocks == nil || onPath[h] || !w.isProdFunc(h) || isGeneratedFile(w.FileOf(h.Pos())) {
				continue
			}
			if _, isGo := s.Instr.(*ssa.Go); isGo {
				continue
			}
			onPath[h] = true
			walk(h, append(chain, s), onPath)
			delete(onPath, h)
		}
	}
	walk(root, nil, map[*ssa.Function]bool{root: true})
	return out
}

// liftEval translates a condition evaluator of a caller into the callee of call c (ssafab.go).
func liftEval(eval CondFn, callee *ssa.Function, c ssa.CallInstruction) CondFn {
	call, ok := c.(*ssa.Call)
	if !ok {
		// defer / go: bind by position as well
		bind := map[*ssa.Parameter]ssa.Value{}
		for i, p := range callee.Params {
			if i < len(c.Common().Args) {
				bind[p] = c.Common().Args[i]
			}
		}
		return func(base ssa.Value) (bool, bool) { return eval(translateValue(base, bind, 0)) }
	}
	bind := bindParams(callee, call)
	return func(base ssa.Value) (bool, bool) { return eval(translateValue(base, bind, 0)) }
}

// LiveEff reports whether the site can execute under the assumption: every call of its chain is live in its
// function (explored under the assumption translated into that function) and so is the site itself.
func LiveEff(root *ssa.Function, eval CondFn, e EffSite) bool {
	fn, cur := root, eval
	for _, c := range e.Chain {
		live := ReachUnder(fn, cur)
		if !live.LiveInstr(c.Instr) {
			return false
		}
		cur = liftEval(cur, c.Static, c.Instr)
		fn = c.Static
	}
	return ReachUnder(fn, cur).LiveInstr(e.Site.Instr)
}

// effDominates: every execution that reaches b has executed a before (decided at the first level at which the two
// chains differ, inside the function both instructions belong to).
func effDominates(a, b EffSite) bool {
	for level := 0; ; level++ {
		ia, ib := a.instrAt(level), b.instrAt(level)
		if ia == nil || ib == nil {
			return false
		}
		if ia == ib {
			continue
		}
		return instrDominates(ia, ib)
	}
}

// OriginsVia traces value v (a value of the function containing e.Site, typically one of the site's arguments)
// with the parameters of the helpers on e's chain bound to the arguments passed down from the root function.
func (t *Tracer) OriginsVia(e EffSite, v ssa.Value, path []string) *Origin {
	st := &tstate{t: t, o: newOrigin(), seen: map[string]bool{}}
	st.trace(v, path, e.Ctx())
	return st.o
}

// Ctx: the tracer context of the function containing the site, entered from the root function along the chain.
func (e EffSite) Ctx() *tctx {
	var root *ssa.Function
	if len(e.Chain) > 0 {
		root = e.Chain[0].Caller
	} else {
		root = e.Site.Caller
	}
	return ctxOfChain(root, e.Chain)
}

func ctxOfChain(root *ssa.Function, chain []*Site) *tctx {
	c := &tctx{fn: root}
	for _, s := range chain {
		c = &tctx{parent: c, fn: s.Static, call: s.Common(), depth: c.depth}
	}
	return c
}

// OriginsOfStore traces the value of a store found below root, with the helpers' parameters on its chain bound to
// the arguments passed down from root.
func (t *Tracer) OriginsOfStore(root *ssa.Function, sb StoreBelow) *Origin {
	st := &tstate{t: t, o: newOrigin(), seen: map[string]bool{}}
	st.trace(sb.FS.Store.Val, nil, ctxOfChain(root, sb.Chain))
	return st.o
}

// ToRoot rewrites a value of the function containing e.Site into the root function's terms: parameters of the helpers
// on the chain are replaced by the arguments passed down (ssafab.go). A parameter handed through unchanged becomes the
// caller's own SSA value, so identity tests ("the value stored IS result #1 of that call") keep working across a
// helper boundary.
func (e EffSite) ToRoot(v ssa.Value) ssa.Value {
	for i := len(e.Chain) - 1; i >= 0; i-- {
		c := e.Chain[i]
		call, ok := c.Instr.(*ssa.Call)
		var bind map[*ssa.Parameter]ssa.Value
		if ok {
			bind = bindParams(c.Static, call)
		} else {
			bind = map[*ssa.Parameter]ssa.Value{}
			for j, p := range c.Static.Params {
				if j < len(c.Common().Args) {
					bind[p] = c.Common().Args[j]
				}
			}
		}
		v = translateValue(v, bind, 0)
	}
	return v
}

// RootArgs: the site's arguments (receiver excluded) in the root function's terms.
func (e EffSite) RootArgs() []ssa.Value {
	a := e.Site.Args()
	out := make([]ssa.Value, len(a))
	for i, v := range a {
		out[i] = e.ToRoot(v)
	}
	return out
}

// StoreBelow is a field store found in a function or in one of the helpers it calls.
type StoreBelow struct {
	FS    FieldStore
	Chain []*Site
	Val   ssa.Value // the stored value in the root function's terms
	Base  ssa.Value // the struct pointer stored through, in the root function's terms
}

// Top: the instruction of the root function through which the store is reached (the store itself when it is there).
func (s StoreBelow) Top() ssa.Instruction {
	if len(s.Chain) > 0 {
		return s.Chain[0].Instr
	}
	return s.FS.Store
}

// storesBelow enumerates the stores to fields of the named struct type in root and in the static module helpers it
// calls (maxDepth levels); `stop` names callees that are not entered.
func (w *World) storesBelow(root *ssa.Function, structName string, maxDepth int, stop func(*Site) bool) []StoreBelow {
	return w.storesBelowP(root, func(fs FieldStore) bool { return fs.Struct != nil && fs.Struct.Obj().Name() == structName }, maxDepth, stop)
}

// storesBelowP: as storesBelow, the stores selected by a predicate.
func (w *World) storesBelowP(root *ssa.Function, pred func(FieldStore) bool, maxDepth int, stop func(*Site) bool) []StoreBelow {
	cg := w.CG()
	var out []StoreBelow
	var walk func(fn *ssa.Function, chain []*Site, onPath map[*ssa.Function]bool)
	walk = func(fn *ssa.Function, chain []*Site, onPath map[*ssa.Function]bool) {
		e := EffSite{Chain: chain}
		for _, fs := range FieldStores(fn) {
			if !pred(fs) {
				continue
			}
			out = append(out, StoreBelow{FS: fs, Chain: append([]*Site(nil), chain...), Val: e.ToRoot(fs.Store.Val), Base: e.ToRoot(fs.FA.X)})
		}
		if len(chain) >= maxDepth {
			return
		}
		for _, s := range cg.Sites[fn] {
			if s.Static == nil || s.Invoke || (stop != nil && stop(s)) {
				continue
			}
			h := s.Static
			if h.Blocks == nil || onPath[h] || !w.isProdFunc(h) || isGeneratedFile(w.FileOf(h.Pos())) {
				continue
			}
			onPath[h] = true
			walk(h, append(chain, s), onPath)
			delete(onPath, h)
		}
	}
	walk(root, nil, map[*ssa.Function]bool{root: true})
	return out
}

// incrementBelow recognises `base.F = base.F.Add(x)` for a store found below the root function and returns x in the
// root function's terms (the store may sit in a helper or a method of the struct: `(*T).UpdateAfter(x)`).
func incrementBelow(sb StoreBelow) (ssa.Value, bool) {
	c, ok := sb.Val.(*ssa.Call)
	if !ok || !strings.HasSuffix(callName(c.Common()), "math.Int.Add") {
		return nil, false
	}
	a := c.Common().Args
	if len(a) != 2 {
		return nil, false
	}
	same := func(v ssa.Value) bool {
		u, ok := v.(*ssa.UnOp)
		if !ok || u.Op != token.MUL {
			return false
		}
		fa, ok := u.X.(*ssa.FieldAddr)
		return ok && fa.Field == sb.FS.FA.Field && (fa.X == sb.Base || sameLoad(fa.X, sb.Base))
	}
	if same(a[0]) {
		return a[1], true
	}
	if same(a[1]) {
		return a[0], true
	}
	return nil, false
}

// mintedIncrement: the value the minting routine adds to MinterState.AmountMinted (in the routine's terms), the
// instruction of the routine at which that happens (the store, or the call of the helper containing it), and the
// number of such updates found.
func mintedIncrement(w *World, mint *ssa.Function) (ssa.Value, ssa.Instruction, int) {
	var amount ssa.Value
	var at ssa.Instruction
	n := 0
	stop := func(s *Site) bool { return s.Static == mint }
	for _, sb := range w.storesBelow(mint, "MinterState", 2, stop) {
		if sb.FS.Field != "AmountMinted" || !namedIs(sb.FS.Struct, "x/cfeminter/types", "MinterState") {
			continue
		}
		if inc, ok := incrementBelow(sb); ok {
			amount, at = inc, sb.Top()
			n++
		}
	}
	return amount, at, n
}

// DeepVal is a value that can reach a use under an assumption, found in the function of the use or - when the use's
// operand is the result of a module helper - in that helper (explored under the same assumption, translated).
type DeepVal struct {
	V    ssa.Value // the value, in the function that computes it
	Ctx  *tctx     // the tracer context of that function (entered from the root along the helper calls)
	Root ssa.Value // V in the root function's terms (helper parameters replaced by the arguments handed down)
}

// Origins traces the value in its context.
func (d DeepVal) Origins(t *Tracer) *Origin {
	st := &tstate{t: t, o: newOrigin(), seen: map[string]bool{}}
	st.trace(d.V, nil, d.Ctx)
	return st.o
}

// LiveValuesDeep: the values operand v of function fn can take under the assumption eval: phis are expanded along
// live edges; the result of a static module helper is replaced by the helper's live results under the assumption
// translated into the helper (depth levels).
func (w *World) LiveValuesDeep(fn *ssa.Function, eval CondFn, v ssa.Value, depth int) []DeepVal {
	return w.LiveValuesDeepCtx(fn, eval, v, depth, &tctx{fn: fn})
}

// LiveValuesDeepCtx: as LiveValuesDeep, with the tracer context in which fn itself was entered (so that origins of the
// values found can be followed above fn).
func (w *World) LiveValuesDeepCtx(fn *ssa.Function, eval CondFn, v ssa.Value, depth int, ctx0 *tctx) []DeepVal {
	var out []DeepVal
	var walk func(fn *ssa.Function, eval CondFn, v ssa.Value, ctx *tctx, toRoot func(ssa.Value) ssa.Value, depth int)
	walk = func(fn *ssa.Function, eval CondFn, v ssa.Value, ctx *tctx, toRoot func(ssa.Value) ssa.Value, depth int) {
		live := ReachUnder(fn, eval)
		for _, x := range live.LiveValues(v) {
			var call *ssa.Call
			idx := 0
			switch y := x.(type) {
			case *ssa.Call:
				call = y
			case *ssa.Extract:
				call, _ = y.Tuple.(*ssa.Call)
				idx = y.Index
			}
			if call != nil && depth > 0 && !call.Common().IsInvoke() {
				if h := call.Common().StaticCallee(); h != nil && h.Blocks != nil && w.isProdFunc(h) && h != fn && !isGeneratedFile(w.FileOf(h.Pos())) {
					bind := bindParams(h, call)
					hctx := &tctx{parent: ctx, fn: h, call: call.Common(), depth: ctx.depth + 1}
					hRoot := func(u ssa.Value) ssa.Value { return toRoot(translateValue(u, bind, 0)) }
					hl := ReachUnder(h, liftEval(eval, h, call))
					n := 0
					for _, ret := range Returns(h) {
						if !hl.Blocks[ret.Block()] {
							continue
						}
						rv := retVals(ret)
						if idx < len(rv) {
							n++
							walk(h, liftEval(eval, h, call), rv[idx], hctx, hRoot, depth-1)
						}
					}
					if n > 0 {
						continue
					}
				}
			}
			out = append(out, DeepVal{V: x, Ctx: ctx, Root: toRoot(x)})
		}
	}
	walk(fn, eval, v, ctx0, func(u ssa.Value) ssa.Value { return u }, depth)
	return out
}

// inlineResult: v rewritten as the expression a single-return module helper computes for it, in the caller's terms
// (`amount := state.AmountLeftToMint(expected)` reads as `expected.TruncateInt().Sub(state.AmountMinted)`); v itself
// when it is not such a call. Two levels.
func (w *World) inlineResult(v ssa.Value) ssa.Value {
	for i := 0; i < 2; i++ {
		c, ok := v.(*ssa.Call)
		if !ok || c.Common().IsInvoke() {
			return v
		}
		h := c.Common().StaticCallee()
		if h == nil || h.Blocks == nil || !w.isProdFunc(h) || isGeneratedFile(w.FileOf(h.Pos())) {
			return v
		}
		rets := Returns(h)
		if len(rets) != 1 || len(retVals(rets[0])) != 1 {
			return v
		}
		v = translateValue(retVals(rets[0])[0], bindParams(h, c), 0)
	}
	return v
}
