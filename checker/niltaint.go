package main

import (
	"fmt"
	"go/token"
	"go/types"
	"sort"
	"strings"

	"golang.org/x/tools/go/ssa"
)

// Nil-taint (C20.nilfield): values derived from a message (handler parameter / ValidateBasic receiver)
// that can be nil on the wire — pointer fields, elements of pointer slices, math.Int / sdk.Dec fields whose
// inner big.Int is nil when the field is absent — must not reach a dereference or a non-nil-safe method
// without a nil test. Every derived value carries labels: its field path from the message type
// ("MsgUpdateMintersParams.Minters[*].EndTime"), so that a guard in ValidateBasic can be matched with a
// use in the handler (baseapp and x/gov run ValidateBasic before the handler: trusted).

type nilKind int

const (
	nkNone  nilKind = iota
	nkPtr           // pointer that may be nil
	nkInner         // math.Int / sdk.Dec whose inner pointer may be nil
)

func isIntOrDec(t types.Type) bool {
	s := typeString(t)
	return s == "cosmossdk.io/math.Int" || s == "github.com/cosmos/cosmos-sdk/types.Int" || s == "github.com/cosmos/cosmos-sdk/types.Dec" || s == "cosmossdk.io/math.LegacyDec"
}

func isPtrToDataType(t types.Type) bool {
	p, ok := t.Underlying().(*types.Pointer)
	if !ok {
		return false
	}
	_, isStruct := p.Elem().Underlying().(*types.Struct)
	return isStruct
}

func kindOfType(t types.Type) nilKind {
	if isIntOrDec(t) {
		return nkInner
	}
	if isPtrToDataType(t) {
		return nkPtr
	}
	return nkNone
}

var nilSafeIntDecMethods = map[string]bool{"IsNil": true, "String": true, "Marshal": true, "MarshalTo": true, "MarshalJSON": true, "MarshalYAML": true,
	"Size": true, "Unmarshal": true, "UnmarshalJSON": true, "BigInt": true, "MarshalAmino": true, "Format": true}

type tval struct {
	kind   nilKind
	labels map[string]bool
}

type taintState struct {
	w      *World
	info   map[ssa.Value]*tval
	slot   map[ssa.Value]*tval // for addresses of locals (Alloc, FreeVar, literal fields): what a load yields
	alias  map[string]map[string]bool
	funcs  map[*ssa.Function]bool
	nlabel int
}

type nilSink struct {
	fn     *ssa.Function
	instr  ssa.Instruction
	v      ssa.Value
	kind   nilKind
	what   string
	labels []string
}

func sortedLabels(m map[string]bool) []string {
	var out []string
	for k := range m {
		out = append(out, k)
	}
	sort.Strings(out)
	return out
}

// runNilTaint propagates from the roots; each root carries its message type name as label.
//
// The label aliases of local literals (`lit:T.f` stands for what was stored into field f of a local T) are discovered
// during the propagation, and a label extended before its alias was known stays unresolved; the propagation is therefore
// repeated, each pass resolving labels through the aliases the previous pass found, until the alias table is stable, so that the result does not depend on the order in
// which the fields of a literal are written or the worklist is served.
func (w *World) runNilTaint(roots map[ssa.Value]string) *taintState {
	prev := map[string]map[string]bool{}
	var ts *taintState
	for iter := 0; iter < 6; iter++ {
		ts = w.runNilTaintOnce(roots, prev)
		if sameAlias(prev, ts.alias) {
			break
		}
		prev = ts.alias
	}
	return ts
}

func sameAlias(a, b map[string]map[string]bool) bool {
	if len(a) != len(b) {
		return false
	}
	for k, m := range a {
		n, ok := b[k]
		if !ok || len(n) != len(m) {
			return false
		}
		for l := range m {
			if !n[l] {
				return false
			}
		}
	}
	return true
}

// runNilTaintOnce: one propagation; labels are resolved through the aliases of the previous pass (known), the aliases
// found in this pass are collected in ts.alias.
func (w *World) runNilTaintOnce(roots map[ssa.Value]string, known map[string]map[string]bool) *taintState {
	ts := &taintState{w: w, info: map[ssa.Value]*tval{}, slot: map[ssa.Value]*tval{}, alias: map[string]map[string]bool{}, funcs: map[*ssa.Function]bool{}}
	cg := w.CG()
	var work []ssa.Value
	merge := func(m map[ssa.Value]*tval, v ssa.Value, k nilKind, labels map[string]bool) bool {
		tv := m[v]
		changed := false
		if tv == nil {
			tv = &tval{labels: map[string]bool{}}
			m[v] = tv
			changed = true
		}
		if k != nkNone && tv.kind == nkNone {
			tv.kind = k
			changed = true
		}
		for l := range labels {
			if len(tv.labels) > 40 {
				break
			}
			if !tv.labels[l] {
				tv.labels[l] = true
				changed = true
			}
		}
		return changed
	}
	push := func(v ssa.Value, k nilKind, labels map[string]bool) {
		if v == nil {
			return
		}
		if merge(ts.info, v, k, labels) {
			work = append(work, v)
		}
	}
	ext := func(labels map[string]bool, suffix string) map[string]bool {
		out := map[string]bool{}
		for l := range labels {
			nl := l + suffix
			if len(nl) > 160 {
				continue
			}
			if al, ok := known[nl]; ok {
				for a := range al {
					out[a] = true
				}
			} else {
				out[nl] = true
			}
		}
		return out
	}
	for v, l := range roots {
		push(v, nkNone, map[string]bool{l: true})
	}
	for len(work) > 0 {
		v := work[len(work)-1]
		work = work[:len(work)-1]
		if in, ok := v.(ssa.Instruction); ok && in.Parent() != nil {
			ts.funcs[in.Parent()] = true
		}
		if p, ok := v.(*ssa.Parameter); ok {
			ts.funcs[p.Parent()] = true
		}
		refs := v.Referrers()
		if refs == nil {
			continue
		}
		tv := ts.info[v]
		for _, ref := range *refs {
			switch x := ref.(type) {
			case *ssa.FieldAddr:
				if x.X == v {
					_, f := fieldOf(x)
					push(x, nkNone, ext(tv.labels, "."+f))
				}
			case *ssa.Field:
				if x.X == v {
					el := fieldElem(x.X.Type(), x.Field)
					f := el[strings.LastIndex(el, ".")+1:]
					push(x, kindOfType(x.Type()), ext(tv.labels, "."+f))
				}
			case *ssa.IndexAddr:
				if x.X == v {
					push(x, nkNone, ext(tv.labels, "[*]"))
				}
			case *ssa.Index:
				if x.X == v {
					push(x, kindOfType(x.Type()), ext(tv.labels, "[*]"))
				}
			case *ssa.UnOp:
				if x.Op != token.MUL || x.X != v {
					continue
				}
				if sl, ok := ts.slot[v]; ok {
					// load of a local / captured variable / literal field: yields what was stored
					push(x, sl.kind, sl.labels)
					continue
				}
				switch v.(type) {
				case *ssa.Alloc, *ssa.FreeVar:
					continue // locals are handled through their stores
				case *ssa.Parameter:
					// *msg: the message struct itself
					push(x, nkNone, tv.labels)
					continue
				}
				push(x, kindOfType(x.Type()), tv.labels)
			case *ssa.Phi:
				push(x, tv.kind, tv.labels)
			case *ssa.MakeInterface:
				push(x, tv.kind, tv.labels)
			case *ssa.ChangeType:
				push(x, tv.kind, tv.labels)
			case *ssa.TypeAssert:
				push(x, tv.kind, tv.labels)
			case *ssa.Extract:
				push(x, kindOfType(x.Type()), tv.labels)
			case *ssa.Slice:
				if x.X == v {
					push(x, nkNone, tv.labels)
				}
			case *ssa.Store:
				if x.Val != v {
					continue
				}
				switch a := x.Addr.(type) {
				case *ssa.Alloc:
					if merge(ts.slot, a, tv.kind, tv.labels) {
						push(a, nkNone, tv.labels)
						work = append(work, a)
					}
					// closures capturing the local
					for _, r2 := range *a.Referrers() {
						if mc, ok := r2.(*ssa.MakeClosure); ok {
							fn := mc.Fn.(*ssa.Function)
							for i, b := range mc.Bindings {
								if b == ssa.Value(a) && i < len(fn.FreeVars) {
									fv := fn.FreeVars[i]
									if merge(ts.slot, fv, tv.kind, tv.labels) {
										push(fv, nkNone, tv.labels)
										work = append(work, fv)
									}
								}
							}
						}
					}
				case *ssa.FieldAddr:
					// store into a field of a local literal / local struct: alias the literal's field label
					base := a.X
					_, f := fieldOf(a)
					lit := "lit:" + shortType(base.Type())
					key := lit + "." + f
					if ts.alias[key] == nil {
						ts.alias[key] = map[string]bool{}
					}
					grew := false
					for l := range tv.labels {
						if !ts.alias[key][l] {
							ts.alias[key][l] = true
							grew = true
						}
					}
					for _, r2 := range *base.Referrers() {
						if fa2, ok := r2.(*ssa.FieldAddr); ok && fa2.Field == a.Field {
							if merge(ts.slot, fa2, tv.kind, tv.labels) || grew {
								push(fa2, nkNone, tv.labels)
								work = append(work, fa2)
							}
						}
					}
					// the literal itself becomes derived (it is passed on as a whole)
					if al, ok := base.(*ssa.Alloc); ok {
						if merge(ts.slot, al, nkNone, map[string]bool{lit: true}) || grew {
							push(al, nkNone, map[string]bool{lit: true})
							work = append(work, al)
						}
					}
				}
			case ssa.CallInstruction:
				var site *Site
				for _, s := range cg.Sites[x.Parent()] {
					if s.Instr == x {
						site = s
					}
				}
				if site == nil {
					continue
				}
				cc := x.Common()
				for _, c := range site.Callees {
					if c.Blocks == nil || isGeneratedFile(w.FileOf(c.Pos())) {
						continue
					}
					off := 0
					if cc.IsInvoke() {
						off = 1
						if cc.Value == v && len(c.Params) > 0 {
							push(c.Params[0], tv.kind, tv.labels)
						}
					}
					for i, a := range cc.Args {
						if a == v && i+off < len(c.Params) {
							push(c.Params[i+off], tv.kind, tv.labels)
						}
					}
				}
			}
		}
	}
	return ts
}

// sinks enumerates the non-nil-safe uses of nilable derived values.
func (ts *taintState) sinks() []nilSink {
	var out []nilSink
	var vals []ssa.Value
	for v, tv := range ts.info {
		if tv.kind != nkNone {
			vals = append(vals, v)
		}
	}
	sort.Slice(vals, func(i, j int) bool {
		if vals[i].Pos() != vals[j].Pos() {
			return vals[i].Pos() < vals[j].Pos()
		}
		return vals[i].Name() < vals[j].Name()
	})
	for _, v := range vals {
		tv := ts.info[v]
		k := tv.kind
		refs := v.Referrers()
		if refs == nil {
			continue
		}
		lbl := sortedLabels(tv.labels)
		for _, ref := range *refs {
			in := ref.(ssa.Instruction)
			if !ts.w.isProdFunc(in.Parent()) {
				continue
			}
			switch x := ref.(type) {
			case *ssa.UnOp:
				if k == nkPtr && x.Op == token.MUL && x.X == v {
					out = append(out, nilSink{in.Parent(), in, v, k, "dereference", lbl})
				}
			case *ssa.FieldAddr:
				if k == nkPtr && x.X == v {
					_, f := fieldOf(x)
					out = append(out, nilSink{in.Parent(), in, v, k, "field ." + f, lbl})
				}
			case ssa.CallInstruction:
				cc := x.Common()
				if cc.IsInvoke() {
					continue
				}
				// a possibly-nil Int/Dec handed to a dependency function as an argument (NewCoin, Dec.Add(x), ...)
				if k == nkInner {
					if callee := cc.StaticCallee(); callee != nil && !(callee.Blocks != nil && ts.w.CG().isModuleFunc(callee)) {
						start := 0
						if cc.Signature().Recv() != nil {
							start = 1
						}
						for ai := start; ai < len(cc.Args); ai++ {
							if cc.Args[ai] == v && !nilSafeIntDecMethods[callee.Name()] {
								out = append(out, nilSink{in.Parent(), in, v, k, "argument of " + callee.Name() + " (possibly-nil Int/Dec)", lbl})
							}
						}
					}
				}
				if cc.Signature().Recv() == nil || len(cc.Args) == 0 || cc.Args[0] != v {
					continue
				}
				callee := cc.StaticCallee()
				if callee == nil {
					continue
				}
				name := callee.Name()
				if k == nkInner {
					if isIntOrDec(callee.Signature.Recv().Type()) && !nilSafeIntDecMethods[name] {
						out = append(out, nilSink{in.Parent(), in, v, k, "method " + name + " on a possibly-nil Int/Dec", lbl})
					}
					continue
				}
				if callee.Blocks != nil && ts.w.CG().isModuleFunc(callee) && !isGeneratedFile(ts.w.FileOf(callee.Pos())) {
					continue // followed through the parameter
				}
				if strings.HasPrefix(name, "Get") || name == "String" || name == "ProtoMessage" || name == "Reset" || name == "Size" {
					continue // generated accessors are nil-safe
				}
				out = append(out, nilSink{in.Parent(), in, v, k, "method " + name + " on a possibly-nil pointer", lbl})
			}
		}
	}
	return out
}

// key is stable across unrelated edits: type of the value + function + what.
func (s nilSink) key() string {
	return fmt.Sprintf("%s @ %s : %s", shortType(s.v.Type()), funcName(s.fn), s.what)
}

// nilGuardEdges: edges on which v (same access path) is known non-nil.
func nilGuardEdges(fn *ssa.Function, v ssa.Value) []Edge {
	return EdgesWhere(fn, func(base ssa.Value) (bool, bool) {
		switch c := base.(type) {
		case *ssa.BinOp:
			if c.Op != token.EQL && c.Op != token.NEQ {
				return false, false
			}
			var o ssa.Value
			if isNilConst(c.Y) {
				o = c.X
			} else if isNilConst(c.X) {
				o = c.Y
			} else {
				return false, false
			}
			if o == v || samePath(o, v) {
				return c.Op == token.NEQ, true
			}
		case *ssa.Call:
			n := callName(c.Common())
			a := c.Common().Args
			if len(a) >= 1 && hasSuffixAny(n, ".IsNil") && (a[0] == v || samePath(a[0], v)) {
				return false, true
			}
			if len(a) >= 1 && hasSuffixAny(n, "types.Coins.IsAnyNil") {
				if root := elementContainer(v); root != nil && (a[0] == root || samePath(a[0], root)) {
					return false, true
				}
			}
		}
		return false, false
	})
}

// elementContainer: for a value loaded from an element (or a field of an element) of a slice, the slice value.
func elementContainer(v ssa.Value) ssa.Value {
	for i := 0; i < 8; i++ {
		switch x := v.(type) {
		case *ssa.UnOp:
			v = x.X
		case *ssa.FieldAddr:
			v = x.X
		case *ssa.Field:
			v = x.X
		case *ssa.IndexAddr:
			return x.X
		case *ssa.Index:
			return x.X
		default:
			return nil
		}
	}
	return nil
}

// elementLoopChecks lists the slices (values) whose elements are nil-checked, with an error exit, by a
// range loop of fn; done is the loop's exit block.
type elemCheck struct {
	Over ssa.Value
	Done *ssa.BasicBlock
	If   *ssa.BasicBlock
}

func elementLoopChecks(fn *ssa.Function) []elemCheck {
	var out []elemCheck
	for _, l := range rangeLoops(fn) {
		if l.Over == nil {
			continue
		}
		for _, b := range fn.Blocks {
			i := blockIf(b)
			if i == nil || !l.Header.Dominates(b) {
				continue
			}
			base, neg := stripNot(i.Cond)
			var o ssa.Value
			nilTrue := false
			switch c := base.(type) {
			case *ssa.BinOp:
				if c.Op != token.EQL && c.Op != token.NEQ {
					continue
				}
				if isNilConst(c.Y) {
					o = c.X
				} else if isNilConst(c.X) {
					o = c.Y
				}
				nilTrue = c.Op == token.EQL
			case *ssa.Call:
				if hasSuffixAny(callName(c.Common()), ".IsNil") && len(c.Common().Args) > 0 {
					o = c.Common().Args[0]
					nilTrue = true
				}
			}
			if o == nil {
				continue
			}
			c := elementContainer(o)
			if c == nil || !(c == l.Over || samePath(c, l.Over)) {
				continue
			}
			nilSucc := 1
			if nilTrue {
				nilSucc = 0
			}
			if neg {
				nilSucc = 1 - nilSucc
			}
			if FailsFrom(b.Succs[nilSucc]) {
				out = append(out, elemCheck{Over: l.Over, Done: l.Header.Succs[1], If: b})
			}
		}
	}
	return out
}

func elementsCheckedBefore(fn *ssa.Function, at ssa.Instruction, v ssa.Value) bool {
	cont := elementContainer(v)
	if cont == nil {
		return false
	}
	for _, ec := range elementLoopChecks(fn) {
		if (ec.Over == cont || samePath(ec.Over, cont)) && ec.Done.Dominates(at.Block()) {
			return true
		}
	}
	return false
}

func nilAssumption(p *ssa.Parameter) func(base ssa.Value) (bool, bool) {
	return func(base ssa.Value) (bool, bool) {
		switch c := base.(type) {
		case *ssa.BinOp:
			if (c.Op == token.EQL || c.Op == token.NEQ) && ((c.X == ssa.Value(p) && isNilConst(c.Y)) || (c.Y == ssa.Value(p) && isNilConst(c.X))) {
				return c.Op == token.EQL, true
			}
		case *ssa.Call:
			n := callName(c.Common())
			a := c.Common().Args
			if len(a) > 0 && hasSuffixAny(n, ".IsNil", "types.Coins.IsAnyNil") && (a[0] == ssa.Value(p) || rootParam(a[0]) == p.Name()) {
				return true, true
			}
		}
		return false, false
	}
}

// nilRejectingCall: `at` is dominated by the success edge of a module call that receives v (or the slice
// v is an element of) and returns an error whenever that parameter is (or contains) nil.
func (w *World) nilRejectingCall(fn *ssa.Function, at ssa.Instruction, v ssa.Value) (bool, string) {
	cg := w.CG()
	cont := elementContainer(v)
	for _, s := range cg.Sites[fn] {
		call := siteValue(s)
		if call == nil || len(s.Callees) != 1 || s.Invoke {
			continue
		}
		callee := s.Callees[0]
		for i, a := range s.Common().Args {
			if i >= len(callee.Params) {
				continue
			}
			direct := a == v || samePath(a, v)
			viaCont := cont != nil && (a == cont || samePath(a, cont))
			if !direct && !viaCont {
				continue
			}
			if !OnSuccessEdge(fn, at, call) {
				continue
			}
			p := callee.Params[i]
			if calleeRejects(callee, nilAssumption(p)) {
				return true, "rejected by " + funcName(callee) + " when nil"
			}
			if viaCont {
				for _, ec := range elementLoopChecks(callee) {
					if ec.Over == ssa.Value(p) || rootParam(ec.Over) == p.Name() {
						return true, "elements nil-checked by " + funcName(callee)
					}
				}
			}
		}
	}
	return false, ""
}

// guardedSink decides a sink: local guard, validation call, preceding element loop, or (for parameters and
// values rooted in a parameter) every call site that can pass nil.
func (w *World) guardedSink(s nilSink, ts *taintState, depth int) (bool, string) {
	fn := s.fn
	if MustPass(fn, nilGuardEdges(fn, s.v), s.instr.Block()) {
		return true, "dominated by a nil test of the same access path"
	}
	if ok, how := w.nilRejectingCall(fn, s.instr, s.v); ok {
		return true, how
	}
	if elementsCheckedBefore(fn, s.instr, s.v) {
		return true, "elements of the slice were nil-checked by a preceding loop with an error exit"
	}
	// a phi (loop-carried or merged value): every incoming value that can be nil must itself be guarded
	if phi, ok := s.v.(*ssa.Phi); ok && depth < 5 {
		all, n := true, 0
		var hows []string
		for _, e := range phi.Edges {
			if e == ssa.Value(phi) {
				continue
			}
			tv := ts.info[e]
			if tv == nil || tv.kind == nkNone {
				continue
			}
			if _, isCall := e.(*ssa.Call); isCall {
				continue // result of an arithmetic method on an already-used value
			}
			n++
			ok, how := w.guardedSink(nilSink{fn, s.instr, e, tv.kind, s.what, s.labels}, ts, depth+1)
			if !ok {
				all = false
				break
			}
			hows = append(hows, how)
		}
		if all && n > 0 {
			return true, "every nil-able incoming value of the merged variable is guarded: " + strings.Join(hows, "; ")
		}
	}
	if depth >= 4 {
		return false, "no nil test of this value dominates the use"
	}
	// rooted at a parameter by a field path: the same path under the argument must be guarded at every call site
	for _, cand := range fn.Params {
		rp, ok := relPathTo(s.v, paramRoot(fn, cand))
		if !ok || rp == "" {
			continue
		}
		idx := -1
		for i, x := range fn.Params {
			if x == cand {
				idx = i
			}
		}
		callers := w.CG().Callers[fn]
		if len(callers) == 0 {
			break
		}
		all := true
		var hows []string
		for _, cs := range callers {
			a := cs.Common().Args
			var arg ssa.Value
			if cs.Common().IsInvoke() {
				if idx == 0 {
					arg = cs.Common().Value
				} else if idx-1 < len(a) {
					arg = a[idx-1]
				}
			} else if idx < len(a) {
				arg = a[idx]
			}
			if arg == nil {
				all = false
				break
			}
			if ts.info[arg] == nil && ts.info[derefRoot(arg)] == nil {
				continue // not message-derived at this call site
			}
			if !w.callerGuardsRelPath(cs, arg, rp) {
				all = false
				break
			}
			hows = append(hows, funcName(cs.Caller))
		}
		if all && len(hows) > 0 {
			return true, "the same component (" + rp + ") is nil-tested with an error exit before every call, in " + strings.Join(hows, ", ")
		}
		break
	}
	// the value, or the container it is an element of, is a parameter: decide at the call sites
	var p *ssa.Parameter
	viaCont := false
	if pp, ok := s.v.(*ssa.Parameter); ok {
		p = pp
	} else if c := elementContainer(s.v); c != nil {
		if pp, ok := c.(*ssa.Parameter); ok {
			p, viaCont = pp, true
		} else if name := rootParam(c); name != "" {
			for _, x := range fn.Params {
				if x.Name() == name && c == ssa.Value(x) {
					p, viaCont = x, true
				}
			}
		}
	}
	if p == nil {
		return false, "no nil test of this value dominates the use"
	}
	idx := -1
	for i, x := range fn.Params {
		if x == p {
			idx = i
		}
	}
	callers := w.CG().Callers[fn]
	if idx < 0 || len(callers) == 0 {
		return false, "no nil test of this value dominates the use"
	}
	var hows []string
	for _, cs := range callers {
		a := cs.Common().Args
		var arg ssa.Value
		if cs.Common().IsInvoke() {
			if idx == 0 {
				arg = cs.Common().Value
			} else if idx-1 < len(a) {
				arg = a[idx-1]
			}
		} else if idx < len(a) {
			arg = a[idx]
		}
		if arg == nil {
			return false, "dynamic call site in " + funcName(cs.Caller)
		}
		tv := ts.info[arg]
		if tv == nil {
			continue // this caller passes a value that does not come from a message
		}
		if !viaCont && tv.kind == nkNone {
			continue
		}
		if viaCont {
			// elements of arg must have been checked in the caller before the call
			ok := false
			for _, ec := range elementLoopChecks(cs.Caller) {
				if (ec.Over == arg || samePath(ec.Over, arg)) && ec.Done.Dominates(cs.Instr.Block()) {
					ok = true
				}
			}
			if !ok {
				edges := EdgesWhere(cs.Caller, func(base ssa.Value) (bool, bool) {
					if c, isC := base.(*ssa.Call); isC && hasSuffixAny(callName(c.Common()), "types.Coins.IsAnyNil") && (c.Common().Args[0] == arg || samePath(c.Common().Args[0], arg)) {
						return false, true
					}
					return false, false
				})
				ok = MustPass(cs.Caller, edges, cs.Instr.Block())
			}
			if !ok {
				if ok2, how := w.nilRejectingCall(cs.Caller, cs.Instr, &ssa.IndexAddr{X: arg}); ok2 {
					ok = true
					hows = append(hows, how)
				}
			}
			if !ok {
				return false, "call site in " + funcName(cs.Caller) + " passes a slice whose elements are not nil-checked"
			}
			hows = append(hows, funcName(cs.Caller)+": elements checked before the call")
			continue
		}
		ok, how := w.guardedSink(nilSink{cs.Caller, cs.Instr, arg, tv.kind, s.what, s.labels}, ts, depth+1)
		if !ok {
			return false, "call site in " + funcName(cs.Caller) + ": " + how
		}
		hows = append(hows, funcName(cs.Caller)+": "+how)
	}
	return true, "guarded at every call site that can pass nil {" + strings.Join(hows, " | ") + "}"
}

// relPathTo renders the access path of v relative to a root (parameter, or the local it is spilled to):
// ".Destinations.BurnShare", ".Minters[*]". ok=false when v is not rooted there.
func relPathTo(v ssa.Value, isRoot func(ssa.Value) bool) (string, bool) {
	var parts []string
	for i := 0; i < 12; i++ {
		if isRoot(v) {
			// reverse
			out := ""
			for k := len(parts) - 1; k >= 0; k-- {
				out += parts[k]
			}
			return out, true
		}
		switch x := v.(type) {
		case *ssa.UnOp:
			if x.Op != token.MUL {
				return "", false
			}
			v = x.X
		case *ssa.FieldAddr:
			_, f := fieldOf(x)
			parts = append(parts, "."+f)
			v = x.X
		case *ssa.Field:
			el := fieldElem(x.X.Type(), x.Field)
			parts = append(parts, el[strings.LastIndex(el, "."):])
			v = x.X
		case *ssa.IndexAddr:
			parts = append(parts, "[*]")
			v = x.X
		case *ssa.Index:
			parts = append(parts, "[*]")
			v = x.X
		default:
			return "", false
		}
	}
	return "", false
}

// paramRoot: predicate recognising parameter p or the local it is spilled into.
func paramRoot(fn *ssa.Function, p *ssa.Parameter) func(ssa.Value) bool {
	spills := map[ssa.Value]bool{}
	if p.Referrers() != nil {
		for _, ref := range *p.Referrers() {
			if st, ok := ref.(*ssa.Store); ok && st.Val == ssa.Value(p) {
				spills[st.Addr] = true
			}
		}
	}
	return func(v ssa.Value) bool { return v == ssa.Value(p) || spills[v] }
}

// argRoot: predicate recognising the storage the argument was loaded from (or the argument itself).
func argRoot(arg ssa.Value) func(ssa.Value) bool {
	var base ssa.Value
	if u, ok := arg.(*ssa.UnOp); ok && u.Op == token.MUL {
		base = u.X
	}
	return func(v ssa.Value) bool { return v == arg || (base != nil && v == base) }
}

// callerGuardsRelPath: at the call site, the value with relative path rp under the argument is known non-nil
// (nil test with failing edge dominating the call), or — for element paths — the elements were loop-checked.
func (w *World) callerGuardsRelPath(cs *Site, arg ssa.Value, rp string) bool {
	return w.callerGuardsRelPathD(cs, arg, rp, 0)
}

func (w *World) callerGuardsRelPathD(cs *Site, arg ssa.Value, rp string, depth int) bool {
	fn := cs.Caller
	isRoot := argRoot(arg)
	match := func(v ssa.Value) bool {
		got, ok := relPathTo(v, isRoot)
		return ok && got == rp
	}
	edges := EdgesWhere(fn, func(base ssa.Value) (bool, bool) {
		switch c := base.(type) {
		case *ssa.BinOp:
			if c.Op != token.EQL && c.Op != token.NEQ {
				return false, false
			}
			var o ssa.Value
			if isNilConst(c.Y) {
				o = c.X
			} else if isNilConst(c.X) {
				o = c.Y
			}
			if o != nil && match(o) {
				return c.Op == token.NEQ, true
			}
		case *ssa.Call:
			a := c.Common().Args
			if len(a) > 0 && hasSuffixAny(callName(c.Common()), ".IsNil") && match(a[0]) {
				return false, true
			}
		}
		return false, false
	})
	if MustPass(fn, edges, cs.Instr.Block()) {
		return true
	}
	// element path: "<container>[*]..." checked by a loop over <container>
	if i := strings.Index(rp, "[*]"); i >= 0 && strings.Count(rp, "[*]") == 1 && !strings.Contains(rp[i+3:], ".") {
		contPath := rp[:i]
		for _, ec := range elementLoopChecks(fn) {
			got, ok := relPathTo(ec.Over, isRoot)
			if ok && got == contPath && ec.Done.Dominates(cs.Instr.Block()) {
				return true
			}
			// the call itself sits inside the checking loop, after the check of the current element: not accepted
		}
	}
	// the check may have been extracted into a helper that is handed the same record before this call: the call lies
	// on the helper's success edge, and the helper rejects nil at the same relative path under its parameter (direct
	// test with an error exit, or an element-checking loop)
	for _, s2 := range w.CG().Sites[fn] {
		if s2 == cs || len(s2.Callees) != 1 || s2.Invoke {
			continue
		}
		h := s2.Callees[0]
		call := siteValue(s2)
		if call == nil || h.Blocks == nil {
			continue
		}
		for i, a2 := range s2.Common().Args {
			if i >= len(h.Params) {
				continue
			}
			same := a2 == arg || isRoot(a2)
			if u, ok := a2.(*ssa.UnOp); ok && u.Op == token.MUL && isRoot(u.X) {
				same = true
			}
			if !same || !OnSuccessEdge(fn, cs.Instr, call) {
				continue
			}
			prm := h.Params[i]
			hRoot := paramRoot(h, prm)
			if j := strings.Index(rp, "[*]"); j >= 0 && strings.Count(rp, "[*]") == 1 && !strings.Contains(rp[j+3:], ".") {
				for _, ec := range elementLoopChecks(h) {
					if got, ok := relPathTo(ec.Over, hRoot); ok && got == rp[:j] {
						return true
					}
				}
			}
			// direct test in the helper with a failing edge on every path to a nil-error return
			hm := func(v ssa.Value) bool {
				got, ok := relPathTo(v, hRoot)
				return ok && got == rp
			}
			hedges := EdgesWhere(h, func(base ssa.Value) (bool, bool) {
				switch c := base.(type) {
				case *ssa.BinOp:
					if c.Op != token.EQL && c.Op != token.NEQ {
						return false, false
					}
					var o ssa.Value
					if isNilConst(c.Y) {
						o = c.X
					} else if isNilConst(c.X) {
						o = c.Y
					}
					if o != nil && hm(o) {
						return c.Op == token.NEQ, true
					}
				case *ssa.Call:
					a := c.Common().Args
					if len(a) > 0 && hasSuffixAny(callName(c.Common()), ".IsNil") && hm(a[0]) {
						return false, true
					}
				}
				return false, false
			})
			if len(hedges) > 0 {
				allOK := true
				for _, ret := range Returns(h) {
					rv := retVals(ret)
					if len(rv) == 0 || !isNilConst(rv[len(rv)-1]) {
						continue
					}
					if !MustPass(h, hedges, ret.Block()) {
						allOK = false
					}
				}
				if allOK {
					return true
				}
			}
		}
	}
	// the check was extracted into a helper that is handed a component of the record (`validateMintersNotNil(params.Minters)`):
	// the call lies on the helper's success edge and the helper rejects nil at the rest of the path under its parameter
	for _, s2 := range w.CG().Sites[fn] {
		if s2 == cs || len(s2.Callees) != 1 || s2.Invoke {
			continue
		}
		h := s2.Callees[0]
		call := siteValue(s2)
		if call == nil || h.Blocks == nil || !OnSuccessEdge(fn, cs.Instr, call) {
			continue
		}
		for i, a2 := range s2.Common().Args {
			if i >= len(h.Params) {
				continue
			}
			pfx, ok := relPathTo(a2, isRoot)
			if !ok || pfx == "" || !strings.HasPrefix(rp, pfx) || len(rp) == len(pfx) {
				continue
			}
			rest := rp[len(pfx):]
			if rest == "[*]" {
				for _, ec := range elementLoopChecks(h) {
					if ec.Over == ssa.Value(h.Params[i]) {
						return true
					}
					if got, ok := relPathTo(ec.Over, paramRoot(h, h.Params[i])); ok && got == "" {
						return true
					}
				}
			}
			if w.helperRejectsNilAt(h, h.Params[i], rest) {
				return true
			}
		}
	}
	// element field: "<container>[*]<rest>": a loop over <container> hands every element to a helper that rejects a nil
	// <rest> under it, fails when the helper fails, and is finished before this call
	if i := strings.Index(rp, "[*]"); i >= 0 && strings.Count(rp, "[*]") == 1 && rp[i+3:] != "" {
		contPath, rest := rp[:i], rp[i+3:]
		for _, l := range rangeLoops(fn) {
			if l.Over == nil {
				continue
			}
			got, ok := relPathTo(l.Over, isRoot)
			if !ok || got != contPath || !l.Header.Succs[1].Dominates(cs.Instr.Block()) || loopEarlyExitOK(l) {
				continue
			}
			checked := func(b *ssa.BasicBlock) bool {
				for _, in := range b.Instrs {
					c, ok := in.(*ssa.Call)
					if !ok || c.Common().IsInvoke() {
						continue
					}
					h := c.Common().StaticCallee()
					if h == nil || h.Blocks == nil {
						continue
					}
					for j, a2 := range c.Common().Args {
						if j >= len(h.Params) {
							continue
						}
						ec := elementContainer(a2)
						if ec == nil {
							if u, isU := a2.(*ssa.UnOp); isU && u.Op == token.MUL {
								ec = elementContainer(u.X)
							}
						}
						if ec == nil || !(ec == l.Over || samePath(ec, l.Over)) {
							continue
						}
						if !w.helperRejectsNilAt(h, h.Params[j], rest) {
							continue
						}
						fail := NilEdges(fn, errValues(fn, c), false)
						good := len(fail) > 0
						for _, e := range fail {
							if !FailsFrom(e.To()) {
								good = false
							}
						}
						if good {
							return true
						}
					}
				}
				return false
			}
			if loopBodyMustPass(l, checked) {
				return true
			}
		}
	}
	// the caller only hands its own parameter (or a component of it) on: the composed path must be guarded before
	// every call of the caller
	if depth < 3 {
		for idx, cand := range fn.Params {
			rp2, ok := relPathTo(arg, paramRoot(fn, cand))
			if !ok {
				if arg == ssa.Value(cand) {
					rp2, ok = "", true
				}
			}
			if !ok {
				continue
			}
			callers := w.CG().Callers[fn]
			if len(callers) == 0 {
				return false
			}
			for _, cs2 := range callers {
				a := cs2.Common().Args
				var arg2 ssa.Value
				if cs2.Common().IsInvoke() {
					if idx == 0 {
						arg2 = cs2.Common().Value
					} else if idx-1 < len(a) {
						arg2 = a[idx-1]
					}
				} else if idx < len(a) {
					arg2 = a[idx]
				}
				if arg2 == nil || !w.callerGuardsRelPathD(cs2, arg2, rp2+rp, depth+1) {
					return false
				}
			}
			return true
		}
	}
	return false
}

// vbRejectedLabels: labels whose nil value makes ValidateBasic (or a validation function on its tree)
// return an error: pointer nil tests and IsNil tests with a failing edge, and element-checking loops.
func (ts *taintState) vbRejectedLabels(vbReach map[*ssa.Function]*ssa.Function) map[string]bool {
	out := map[string]bool{}
	for fn := range vbReach {
		if !ts.w.isProdFunc(fn) {
			continue
		}
		for _, b := range fn.Blocks {
			i := blockIf(b)
			if i == nil {
				continue
			}
			base, neg := stripNot(i.Cond)
			var o ssa.Value
			nilTrue := false
			switch c := base.(type) {
			case *ssa.BinOp:
				if c.Op != token.EQL && c.Op != token.NEQ {
					continue
				}
				if isNilConst(c.Y) {
					o = c.X
				} else if isNilConst(c.X) {
					o = c.Y
				}
				nilTrue = c.Op == token.EQL
			case *ssa.Call:
				n := callName(c.Common())
				if hasSuffixAny(n, ".IsNil") && len(c.Common().Args) > 0 {
					o = c.Common().Args[0]
					nilTrue = true
				}
				if hasSuffixAny(n, "types.Coins.IsAnyNil") && len(c.Common().Args) > 0 {
					// rejects nil amounts of every element
					if tv := ts.info[c.Common().Args[0]]; tv != nil {
						nilSucc := 0
						if neg {
							nilSucc = 1
						}
						if FailsFrom(b.Succs[nilSucc]) {
							for l := range tv.labels {
								out[l+"[*].Amount"] = true
							}
						}
					}
					continue
				}
			}
			if o == nil {
				continue
			}
			tv := ts.info[o]
			if tv == nil {
				continue
			}
			nilSucc := 1
			if nilTrue {
				nilSucc = 0
			}
			if neg {
				nilSucc = 1 - nilSucc
			}
			if FailsFrom(b.Succs[nilSucc]) {
				for l := range tv.labels {
					out[l] = true
				}
			}
		}
	}
	return out
}

// loopEarlyExitOK reports that the loop can be left before all elements were visited by something else than a failure.
func loopEarlyExitOK(l rangeLoop) bool {
	b := loopEarlyExit(l)
	return b != nil && !FailsFrom(b)
}

// helperRejectsNilAt: the error-returning helper h returns a nil error only after a nil test (comparison with nil or
// IsNil()) of the component at path rp under its parameter prm took the non-nil edge.
func (w *World) helperRejectsNilAt(h *ssa.Function, prm *ssa.Parameter, rp string) bool {
	hRoot := paramRoot(h, prm)
	hm := func(v ssa.Value) bool {
		got, ok := relPathTo(v, hRoot)
		return ok && got == rp
	}
	hedges := EdgesWhere(h, func(base ssa.Value) (bool, bool) {
		switch c := base.(type) {
		case *ssa.BinOp:
			if c.Op != token.EQL && c.Op != token.NEQ {
				return false, false
			}
			var o ssa.Value
			if isNilConst(c.Y) {
				o = c.X
			} else if isNilConst(c.X) {
				o = c.Y
			}
			if o != nil && hm(o) {
				return c.Op == token.NEQ, true
			}
		case *ssa.Call:
			a := c.Common().Args
			if len(a) > 0 && hasSuffixAny(callName(c.Common()), ".IsNil") && hm(a[0]) {
				return false, true
			}
		}
		return false, false
	})
	if len(hedges) == 0 {
		return false
	}
	n := 0
	for _, ret := range Returns(h) {
		rv := retVals(ret)
		if len(rv) == 0 || !isErrorType(rv[len(rv)-1].Type()) {
			return false
		}
		if nonNilAt(rv[len(rv)-1], ret.Block(), 0) {
			continue
		}
		n++
		if !MustPass(h, hedges, ret.Block()) {
			return false
		}
	}
	return n > 0
}
