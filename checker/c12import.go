package main

import (
	"fmt"
	"go/token"
	"go/types"
	"sort"
	"strings"

	"golang.org/x/tools/go/ssa"
)

// C12.importall: everything the genesis document lists is imported. Every state write on a module's InitGenesis tree
// is executed unconditionally: at every level of the call chain from InitGenesis down to the write, the call (or the
// write itself) lies on every completing path of its function, and when it stands in a loop every iteration passes it
// and the loop is never left early. The only branches that may go round it are the tests for an empty or absent list
// in front of the loop over that very list (`if list != nil { for ... }`) and exits that abort the import (panic,
// error return). A filter in front of the write (`if nothingLocked { continue }`) makes the imported state differ from
// the exported one.

// natLoop is a natural loop: its header, its blocks and the collection whose length bounds it (when the header tests
// an index against len(X)).
type natLoop struct {
	Header *ssa.BasicBlock
	In     map[*ssa.BasicBlock]bool
	Over   ssa.Value
}

// loopsAround lists the natural loops of b's function that contain b, outermost first.
func loopsAround(b *ssa.BasicBlock) []natLoop {
	var out []natLoop
	for _, h := range b.Parent().Blocks {
		isHeader := false
		for _, p := range h.Preds {
			if h.Dominates(p) {
				isHeader = true
			}
		}
		if !isHeader {
			continue
		}
		in := loopBlocks(h)
		if !in[b] {
			continue
		}
		l := natLoop{Header: h, In: in}
		if i := blockIf(h); i != nil {
			if bo, ok := i.Cond.(*ssa.BinOp); ok && bo.Op == token.LSS {
				if c, ok := bo.Y.(*ssa.Call); ok {
					if bi, ok := c.Common().Value.(*ssa.Builtin); ok && bi.Name() == "len" {
						l.Over = c.Common().Args[0]
					}
				}
			}
		}
		out = append(out, l)
	}
	sort.SliceStable(out, func(i, j int) bool { return len(out[i].In) > len(out[j].In) })
	return out
}

// emptySkipEdge: the successor index of block x's branch that is taken exactly when one of the collections is nil or
// empty (-1 when the branch is not such a test).
func emptySkipEdge(x *ssa.BasicBlock, overs []ssa.Value) int {
	i := blockIf(x)
	if i == nil {
		return -1
	}
	bo, ok := i.Cond.(*ssa.BinOp)
	if !ok {
		return -1
	}
	isOver := func(v ssa.Value) bool {
		for _, o := range overs {
			if o != nil && (v == o || sameValue(v, o) || sameAccessPath(v, o) || samePath(v, o)) {
				return true
			}
		}
		return false
	}
	lenOfOver := func(v ssa.Value) bool {
		c, ok := v.(*ssa.Call)
		if !ok {
			return false
		}
		bi, ok := c.Common().Value.(*ssa.Builtin)
		return ok && bi.Name() == "len" && isOver(c.Common().Args[0])
	}
	isZero := func(v ssa.Value) bool {
		c, ok := v.(*ssa.Const)
		return ok && c.Value != nil && c.Value.String() == "0"
	}
	switch {
	case (isOver(bo.X) && isNilConst(bo.Y)) || (isOver(bo.Y) && isNilConst(bo.X)):
		switch bo.Op {
		case token.EQL:
			return 0
		case token.NEQ:
			return 1
		}
	case lenOfOver(bo.X) && isZero(bo.Y):
		switch bo.Op {
		case token.EQL:
			return 0
		case token.NEQ, token.GTR:
			return 1
		}
	case lenOfOver(bo.Y) && isZero(bo.X):
		switch bo.Op {
		case token.EQL:
			return 0
		case token.NEQ, token.LSS:
			return 1
		}
	}
	return -1
}

// alwaysExecuted decides whether the instruction's block is passed on every completing run of its function (once per
// iteration of every loop around it); the reason names the way round it otherwise.
func alwaysExecuted(w *World, at ssa.Instruction) (bool, string) {
	b := at.Block()
	fn := b.Parent()
	loops := loopsAround(b)
	var overs []ssa.Value
	for _, l := range loops {
		overs = append(overs, l.Over)
	}
	// avoid: searches a path from the start blocks to a goal without entering `target` and without taking an
	// empty-collection edge; stays inside `within` when given
	avoid := func(starts []*ssa.BasicBlock, target *ssa.BasicBlock, within map[*ssa.BasicBlock]bool, goal func(*ssa.BasicBlock) bool) *ssa.BasicBlock {
		seen := map[*ssa.BasicBlock]bool{}
		var stack []*ssa.BasicBlock
		for _, s := range starts {
			if s != target {
				stack = append(stack, s)
			}
		}
		for len(stack) > 0 {
			x := stack[len(stack)-1]
			stack = stack[:len(stack)-1]
			if seen[x] {
				continue
			}
			seen[x] = true
			if goal(x) {
				return x
			}
			skip := emptySkipEdge(x, overs)
			for si, s := range x.Succs {
				if si == skip || s == target {
					continue
				}
				if within != nil && !within[s] {
					continue
				}
				stack = append(stack, s)
			}
		}
		return nil
	}
	for k, l := range loops {
		target := b
		if k+1 < len(loops) {
			target = loops[k+1].Header
		}
		var starts []*ssa.BasicBlock
		for _, s := range l.Header.Succs {
			if l.In[s] && s != l.Header {
				starts = append(starts, s)
			}
		}
		if target != l.Header {
			h := l.Header
			// goal: a block of the loop with an edge back to the header
			if x := avoid(starts, target, l.In, func(x *ssa.BasicBlock) bool {
				for _, s := range x.Succs {
					if s == h {
						return true
					}
				}
				return false
			}); x != nil {
				return false, "an iteration of the loop at " + w.Pos(lastPos(h)) + " can go round it (next iteration reached from " + w.Pos(lastPos(x)) + ")"
			}
		}
		for x := range l.In {
			if x == l.Header {
				continue
			}
			for _, s := range x.Succs {
				if !l.In[s] && !FailsFrom(s) {
					return false, "the loop at " + w.Pos(lastPos(l.Header)) + " can be left before every element was handled (" + w.Pos(lastPos(x)) + ")"
				}
			}
			if _, isRet := x.Instrs[len(x.Instrs)-1].(*ssa.Return); isRet && !FailsFrom(x) {
				return false, "the function returns from inside the loop at " + w.Pos(lastPos(l.Header))
			}
		}
	}
	target := b
	if len(loops) > 0 {
		target = loops[0].Header
	}
	if len(fn.Blocks) > 0 && fn.Blocks[0] != target {
		if x := avoid([]*ssa.BasicBlock{fn.Blocks[0]}, target, nil, func(x *ssa.BasicBlock) bool {
			_, isRet := x.Instrs[len(x.Instrs)-1].(*ssa.Return)
			return isRet && !FailsFrom(x)
		}); x != nil {
			return false, funcName(fn) + " can complete without reaching it (return at " + w.Pos(lastPos(x)) + ")"
		}
	}
	return true, ""
}

func lastPos(b *ssa.BasicBlock) token.Pos {
	for i := len(b.Instrs) - 1; i >= 0; i-- {
		if p := b.Instrs[i].Pos(); p.IsValid() {
			return p
		}
	}
	return b.Parent().Pos()
}

func importAllRule(w *World, r *Report, rule string) {
	cg := w.CG()
	ro := w.Roles()
	for _, m := range customModules {
		for _, root := range ro.INIT[m] {
			if !w.isProdFunc(root) {
				continue
			}
			for _, e := range w.effectsBelow(root, func(s *Site) bool { return cg.Atom(s) == StoreSet || s.Method == "SetParamSet" }, 4) {
				ok, why := true, ""
				for lvl := 0; lvl <= len(e.Chain) && ok; lvl++ {
					in := e.instrAt(lvl)
					if in == nil || in.Block() == nil {
						continue
					}
					ok, why = alwaysExecuted(w, in)
				}
				what := "state write"
				if loc := cg.StoreLocOf(e.Site); loc.Resolved {
					what = "write of " + printableLoc(loc.Prefix)
				} else if e.Site.Method == "SetParamSet" {
					what = "write of the parameter set"
				}
				construct := fmt.Sprintf("%s import: %s in %s, reached through %s", m, what, funcName(e.Site.Caller), chainString(e.Chain, nil))
				r.Check(ok, rule, construct, w.Pos(e.Top().Pos()), "on every completing path of every function of the chain, in every iteration of the loops around it", "the genesis data is not imported in full: "+why)
			}
		}
	}
}

// importedAsGiven (C12.verbatim, second half): where InitGenesis hands a keeper a value whose type is the type of a
// GenesisState field (or of the elements of a list field), the value is that field (resp. an element of that list) on
// every alternative - not something recomputed from other parts of the document (a counter derived from the last
// element, a default for an empty value): a value that export wrote and import replaces does not survive the round trip.
func importedAsGiven(w *World, r *Report, rule string) {
	cg := w.CG()
	ro := w.Roles()
	for _, m := range customModules {
		// the module's import function: the function of the module's root package that the AppModule's InitGenesis calls
		// with the decoded GenesisState
		var ig *ssa.Function
		for _, f := range ro.INIT[m] {
			for _, s := range cg.Sites[f] {
				if h := s.Static; h != nil && !s.Invoke && w.isProdFunc(h) {
					for _, p := range h.Params {
						if nt, ok := p.Type().(*types.Named); ok && nt.Obj().Name() == "GenesisState" {
							ig = h
						}
					}
				}
			}
		}
		if ig == nil {
			continue
		}
		// the import function and the step functions of its own package that are handed the whole GenesisState
		igs := []*ssa.Function{ig}
		seenIg := map[*ssa.Function]bool{ig: true}
		for i := 0; i < len(igs) && i < 8; i++ {
			for _, s := range cg.Sites[igs[i]] {
				h := s.Static
				if h == nil || s.Invoke || !w.isProdFunc(h) || h.Pkg != ig.Pkg || seenIg[h] {
					continue
				}
				for _, p := range h.Params {
					if nt, ok := p.Type().(*types.Named); ok && nt.Obj().Name() == "GenesisState" {
						seenIg[h] = true
						igs = append(igs, h)
					}
				}
			}
		}
		for _, ig := range igs {
			var gs *ssa.Parameter
			var st *types.Struct
			for _, p := range ig.Params {
				if nt, ok := p.Type().(*types.Named); ok && nt.Obj().Name() == "GenesisState" {
					gs = p
					st, _ = nt.Underlying().(*types.Struct)
				}
			}
			if gs == nil || st == nil {
				continue
			}
			isGS := func(v ssa.Value) bool {
				if v == ssa.Value(gs) {
					return true
				}
				if al, ok := v.(*ssa.Alloc); ok {
					return spilledValue(al) == ssa.Value(gs)
				}
				return false
			}
			// fieldOf: v is GenesisState field #i (elem=false) or an element of list field #i (elem=true)
			var fieldOf func(v ssa.Value, d int) (int, bool, bool)
			fieldOf = func(v ssa.Value, d int) (int, bool, bool) {
				if d > 6 {
					return 0, false, false
				}
				switch x := v.(type) {
				case *ssa.UnOp:
					if x.Op != token.MUL {
						return 0, false, false
					}
					if al, ok := x.X.(*ssa.Alloc); ok && !isGS(al) {
						if sv := spilledValue(al); sv != nil {
							return fieldOf(sv, d+1)
						}
						return 0, false, false
					}
					switch a := x.X.(type) {
					case *ssa.FieldAddr:
						if isGS(a.X) {
							return a.Field, false, true
						}
					case *ssa.IndexAddr:
						if i, elem, ok := fieldOf(a.X, d+1); ok && !elem {
							return i, true, true
						}
					case *ssa.UnOp:
						// element of a list of pointers, dereferenced
						if i, elem, ok := fieldOf(a, d+1); ok && elem {
							return i, true, true
						}
					}
				case *ssa.Field:
					if x.X == ssa.Value(gs) {
						return x.Field, false, true
					}
				}
				return 0, false, false
			}
			all := ReachUnder(ig, func(ssa.Value) (bool, bool) { return false, false })
			for _, s := range cg.Sites[ig] {
				h := s.Static
				if h == nil || s.Invoke || !w.isProdFunc(h) {
					continue
				}
				if len(cg.targetsBelow(h, func(x *Site) bool { return cg.Atom(x) == StoreSet || x.Method == "SetParamSet" }, map[*ssa.Function]bool{})) == 0 {
					continue
				}
				for ai, a := range s.Common().Args {
					at := a.Type()
					type cand struct {
						i    int
						elem bool
					}
					var cands []cand
					for i := 0; i < st.NumFields(); i++ {
						ft := st.Field(i).Type()
						if types.Identical(ft, at) {
							cands = append(cands, cand{i, false})
							continue
						}
						if sl, ok := ft.Underlying().(*types.Slice); ok {
							et := sl.Elem()
							if pt, isP := et.(*types.Pointer); isP {
								et = pt.Elem()
							}
							if types.Identical(et, at) {
								cands = append(cands, cand{i, true})
							}
						}
					}
					if len(cands) == 0 {
						continue
					}
					// every alternative is one and the same of the candidate fields
					ok, bad := true, ""
					alts := all.LiveValues(a)
					got := cand{-1, false}
					for _, alt := range alts {
						i, elem, is := fieldOf(alt, 0)
						isCand := false
						for _, c := range cands {
							if is && c.i == i && c.elem == elem {
								isCand = true
							}
						}
						if !isCand || (got.i >= 0 && (got.i != i || got.elem != elem)) {
							ok = false
							bad = w.Pos(alt.Pos())
							continue
						}
						got = cand{i, elem}
					}
					if got.i < 0 {
						got = cands[0]
					}
					want, wantElem := got.i, got.elem
					what := "GenesisState." + st.Field(want).Name()
					if wantElem {
						what = "an element of " + what
					}
					r.Check(ok && len(alts) > 0, rule, fmt.Sprintf("%s import: argument #%d of %s is %s", m, ai, funcName(h), what), w.Pos(s.Instr.Pos()), fmt.Sprintf("%d alternative(s), each the field as given", len(alts)), "InitGenesis stores something else than the value the genesis document gives for "+what+" ("+bad+"): an exported state is changed by its import")
				}
			}
		}
	}
}

// initOrderRule (C12.initorder): a chain must be able to start from its own export. The crisis module asserts every
// registered invariant while it is initialised from genesis; an invariant of a custom module compares that module's
// state with balances the bank has already restored - so every custom module that registers invariants is initialised
// BEFORE crisis in the application's genesis order (and after the bank and auth modules its initialisation reads).
func initOrderRule(w *World, r *Report, rule string) {
	cg := w.CG()
	ro := w.Roles()
	var site *Site
	for _, fn := range w.ProdFuncs() {
		for _, s := range cg.Sites[fn] {
			if s.Method == "SetOrderInitGenesis" || strings.HasSuffix(s.CalleeName(), "Manager.SetOrderInitGenesis") {
				site = s
			}
		}
	}
	if site == nil {
		r.Unk(rule, "the application's genesis initialisation order", "", "no call of SetOrderInitGenesis found")
		return
	}
	pos := w.Pos(site.Instr.Pos())
	args := site.Common().Args
	var names []string
	if len(args) > 0 {
		for _, el := range varargElems(args[len(args)-1]) {
			if s, ok := EvalString(el); ok {
				names = append(names, s)
			} else {
				names = append(names, "?")
			}
		}
	}
	idx := map[string]int{}
	for i, n := range names {
		idx[n] = i
	}
	crisis, okC := idx["crisis"]
	if !okC || len(names) < 5 {
		r.Unk(rule, "the application's genesis initialisation order", pos, fmt.Sprintf("the module list could not be read (%d names, crisis present: %v)", len(names), okC))
		return
	}
	for _, m := range customModules {
		// the module actually registers an invariant route
		registers := false
		for _, f := range ro.INV[m] {
			if len(cg.targetsBelow(f, func(x *Site) bool { return x.Method == "RegisterRoute" }, map[*ssa.Function]bool{})) > 0 {
				registers = true
			}
		}
		if !registers {
			continue
		}
		i, ok := idx[m]
		r.Check(ok && i < crisis, rule, m+" is initialised from genesis before crisis asserts its invariants", pos, fmt.Sprintf("position %d of %d, crisis at %d", i, len(names), crisis), "the module registers invariants but its genesis state is loaded after crisis has asserted them: an exported state whose invariant involves already restored balances (a distributor main account that holds coins) makes InitChain panic - the chain cannot start from its own export")
		for _, dep := range []string{"auth", "bank"} {
			if d, okD := idx[dep]; okD {
				r.Check(ok && d < i, rule, m+" is initialised after "+dep, pos, "order respected", "the module's genesis initialisation reads "+dep+" state that is not restored yet")
			}
		}
	}
}
