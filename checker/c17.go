package main

import (
	"fmt"
	"go/constant"
	"go/token"
	"os"
	"strings"

	"golang.org/x/tools/go/ssa"
)

func init() { register("C17", checkC17) }

func constBool(v ssa.Value) (bool, bool) {
	c, ok := v.(*ssa.Const)
	if !ok || c.Value == nil || c.Value.Kind() != constant.Bool {
		return false, false
	}
	return constant.BoolVal(c.Value), true
}

// boolTable evaluates a boolean SSA value built from short-circuit operators over field loads, for every
// assignment of the named fields, and compares it with want. Returns "" when it agrees everywhere.
func boolTable(fn *ssa.Function, v ssa.Value, fields []string, want func(a map[string]bool) bool) string {
	n := len(fields)
	for mask := 0; mask < 1<<n; mask++ {
		asg := map[string]bool{}
		for i, f := range fields {
			asg[f] = mask&(1<<i) != 0
		}
		fieldOfLoad := func(x ssa.Value) (string, bool) {
			for _, f := range fields {
				if loadOfField(x, f, nil) {
					return f, true
				}
			}
			return "", false
		}
		live := ReachUnder(fn, func(base ssa.Value) (bool, bool) {
			if f, ok := fieldOfLoad(base); ok {
				return asg[f], true
			}
			return false, false
		})
		vals := live.LiveValues(v)
		if len(vals) == 0 {
			return fmt.Sprintf("no live value under %v", asg)
		}
		for _, x := range vals {
			var got bool
			if b, ok := constBool(x); ok {
				got = b
			} else if f, ok := fieldOfLoad(x); ok {
				got = asg[f]
			} else if bo, ok := x.(*ssa.BinOp); ok {
				// non-short-circuit forms are not evaluated
				return "unrecognised boolean operator " + bo.Op.String()
			} else {
				return "value depends on something else than the flags: " + x.String()
			}
			if got != want(asg) {
				return fmt.Sprintf("under %v the value is %v, expected %v", asg, got, want(asg))
			}
		}
	}
	return ""
}

func checkC17(w *World, r *Report) {
	cg := w.CG()
	ro := w.Roles()
	r.Undecided = []string{
		"numeric equality of the summaries with sums recomputed from bank and account state",
		"transitivity over chains of splits follows by induction from the single-step rule C17.split and is not explored as histories",
	}
	r.Rule("C17.pool", "P5,P6", "the pool-send success path appends a trace whose Address is the recipient, Genesis=false, FromGenesisAccount=false and FromGenesisPool = pool.GenesisPool", 4)
	r.Rule("C17.split", "P5,P6", "the split path appends a trace only when the sender is traced, with Address = recipient, Genesis=false, FromGenesisPool = sender.FromGenesisPool and FromGenesisAccount = sender.Genesis || sender.FromGenesisAccount (truth table)", 5)
	r.Rule("C17.key", "P8", "sibling agreement on the store key of a trace: every writer and every reader on the message and block trees uses AccAddress.String() of a parsed address, never a string as spelled in a message (found F21); the key bytes of the primitive write are traced back through helpers and pass-through parameters to every caller on those trees", 2)
	r.Rule("C17.only", "P4", "trace writers reachable from messages are exactly these two append sites", 2)
	r.Rule("C17.summary", "P6,P8", "summary: all = accounts + pools; delegated = vesting - locked (this order); accounts summed over GetVestingCoins / LockedCoins of the traced accounts at block time; the genesis variant filters by IsGenesisOrFromGenesis (all three flags) and takes pools from GetGenesisAmount (only genesis pools, currently locked); closed world: a recorded account is left out of the sums only by the genesis filter or the account-type test, and the loop is never left early", 11)
	if !ro.checkFloors(r) {
		return
	}
	appendFn := w.Func("x/cfevesting/keeper.Keeper.AppendVestingAccountTrace")
	send := w.Func("x/cfevesting/keeper.Keeper.SendToNewVestingAccount")
	split := w.Func("x/cfevesting/keeper.msgServer.splitVestingCoins")
	if appendFn == nil || send == nil || split == nil {
		r.Unk("infra.anchor", "AppendVestingAccountTrace / SendToNewVestingAccount / splitVestingCoins", "", "anchor not found")
		return
	}
	// the trace literal and the append call are looked for in the operation and in the helpers it calls; values are
	// expressed in the operation's own terms (parameters of helpers replaced by the arguments handed down)
	isAppend := func(s *Site) bool {
		return calleeIs(s, "x/cfevesting/keeper.Keeper.AppendVestingAccountTrace") || calleeIs(s, "x/cfevesting/keeper.Keeper.SetVestingAccountTrace")
	}
	traceStores := func(fn *ssa.Function) map[string]StoreBelow {
		out := map[string]StoreBelow{}
		for _, sb := range w.storesBelow(fn, "VestingAccountTrace", 2, isAppend) {
			out[sb.FS.Field] = sb
		}
		return out
	}
	traceFields := func(fn *ssa.Function) map[string]ssa.Value {
		out := map[string]ssa.Value{}
		for f, sb := range traceStores(fn) {
			out[f] = sb.Val
		}
		return out
	}
	appendSites := func(fn *ssa.Function) []EffSite { return w.effectsBelow(fn, isAppend, 2) }
	isFalse := func(v ssa.Value) bool {
		if v == nil {
			return true // field not set: zero value
		}
		b, ok := constBool(v)
		return ok && !b
	}

	// ---------- C17.pool ----------
	{
		tf := traceFields(send)
		sites := appendSites(send)
		if len(sites) != 1 {
			r.Bad("C17.pool", "pool send appends one trace", w.Pos(send.Pos()), fmt.Sprintf("%d trace appends in the pool-send operation", len(sites)))
		} else {
			s := sites[0]
			// the recipient is the address the account was created at; the trace is keyed by its canonical rendering
			var created ssa.Value
			for _, cs := range cg.Sites[send] {
				if calleeIs(cs, "x/cfevesting/keeper.Keeper.newVestingAccount") {
					for _, a := range cs.Args() {
						if strings.HasSuffix(typeString(a.Type()), "types.AccAddress") {
							created = a
						}
					}
				}
			}
			addrOK := false
			if c, ok := isCallTo(tf["Address"], "types.AccAddress.String"); ok && created != nil && c.Common().Args[0] == created {
				addrOK = true
			}
			r.Check(addrOK, "C17.pool", "trace.Address = recipient", w.Pos(s.Site.Instr.Pos()), "String() of the very address the account was created at", "the trace is not recorded under the canonical rendering of the address the account was created at (a raw message string may be spelled differently from every later lookup)")
			r.Check(tf["FromGenesisPool"] != nil && loadOfField(tf["FromGenesisPool"], "GenesisPool", nil), "C17.pool", "trace.FromGenesisPool = pool.GenesisPool", w.Pos(s.Site.Instr.Pos()), "sourced from the pool's flag", "FromGenesisPool is not sourced from the pool's GenesisPool flag")
			r.Check(isFalse(tf["Genesis"]) && isFalse(tf["FromGenesisAccount"]), "C17.pool", "trace.Genesis = trace.FromGenesisAccount = false", w.Pos(s.Site.Instr.Pos()), "constants false", "a pool-derived account is marked as genesis / from-genesis-account")
			// the pool whose flag is read is the pool that was debited
			var sentBase ssa.Value
			for _, fs := range FieldStores(send) {
				if fs.Field == "Sent" {
					sentBase = fs.FA.X
				}
			}
			same := false
			if u, ok := tf["FromGenesisPool"].(*ssa.UnOp); ok {
				if fa, ok := u.X.(*ssa.FieldAddr); ok && fa.X == sentBase {
					same = true
				}
			}
			r.Check(same, "C17.pool", "the flag is read from the pool that was debited", w.Pos(s.Site.Instr.Pos()), "same pool value", "the genesis flag is read from another pool than the one the coins came from")
			var creates []ssa.Value
			for _, s2 := range cg.Sites[send] {
				if calleeIs(s2, "x/cfevesting/keeper.Keeper.newVestingAccount") {
					creates = append(creates, siteValue(s2))
				}
			}
			r.Check(OnSuccessEdge(send, s.Top(), creates...), "C17.pool", "trace appended only on success", w.Pos(s.Site.Instr.Pos()), "nil edge of the account creation", "a trace is recorded although the account was not created")
		}
	}

	// ---------- C17.split ----------
	{
		tf := traceFields(split)
		sites := appendSites(split)
		if len(sites) != 1 {
			r.Bad("C17.split", "split appends one trace", w.Pos(split.Pos()), fmt.Sprintf("%d trace appends in the split operation", len(sites)))
		} else {
			s := sites[0]
			toP := paramOfType(split, tAddr, 1)
			fromP := paramOfType(split, tAddr, 0)
			addrOK := false
			if c, ok := isCallTo(tf["Address"], "types.AccAddress.String"); ok && c.Common().Args[0] == ssa.Value(toP) {
				addrOK = true
			}
			r.Check(addrOK, "C17.split", "trace.Address = recipient", w.Pos(s.Site.Instr.Pos()), "toAddress.String()", "the trace is recorded for another address than the recipient")
			// lookup of the sender's trace (in the operation or in the helper that appends)
			var lookupE *EffSite
			for _, le := range w.effectsBelow(split, func(x *Site) bool { return calleeIs(x, "x/cfevesting/keeper.Keeper.GetVestingAccountTrace") }, 2) {
				le := le
				lookupE = &le
				a := le.RootArgs()
				c, ok := isCallTo(a[len(a)-1], "types.AccAddress.String")
				r.Check(ok && c.Common().Args[0] == ssa.Value(fromP), "C17.split", "sender's trace looked up by the sender address", w.Pos(le.Site.Instr.Pos()), "GetVestingAccountTrace(from.String())", "the trace that is inherited is not the sender's")
			}
			if lookupE == nil {
				r.Bad("C17.split", "sender's trace looked up", w.Pos(split.Pos()), "no GetVestingAccountTrace call")
			} else {
				lookup, _ := lookupE.Site.Instr.(*ssa.Call)
				var found ssa.Value
				if lookup != nil {
					for _, ref := range *lookup.Referrers() {
						if ex, ok := ref.(*ssa.Extract); ok && ex.Index == 1 {
							found = ex
						}
					}
				}
				// decided in the function that holds the lookup: the append (or the call that leads to it) lies behind found==true
				lf := lookupE.Site.Caller
				var appendIn ssa.Instruction
				if s.Site.Caller == lf {
					appendIn = s.Site.Instr
				} else {
					for _, c := range s.Chain {
						if c.Caller == lf {
							appendIn = c.Instr
						}
					}
				}
				r.Check(found != nil && appendIn != nil && MustPass(lf, boolValueEdges(lf, found, true), appendIn.Block()) && effDominates(*lookupE, s), "C17.split", "trace appended only when the sender is traced", w.Pos(s.Site.Instr.Pos()), "dominated by found==true", "a trace is appended for a sender that is not traced (or not appended when it is)")
			}
			if lookupE != nil {
				// the converse: a split that succeeds has looked the sender up, and recorded the recipient when the sender is
				// traced - no return that may report success is reachable without the lookup, and none from the found==true
				// edge without the append
				top := lookupE.Top()
				missed := ""
				for _, ret := range Returns(split) {
					rv := retVals(ret)
					if len(rv) > 0 && isErrorType(rv[len(rv)-1].Type()) && nonNilAt(rv[len(rv)-1], ret.Block(), 0) {
						continue
					}
					if !(top.Block() == ret.Block() || top.Block().Dominates(ret.Block())) {
						missed = w.Pos(ret.Pos())
					}
				}
				r.Check(missed == "", "C17.split", "every split that may succeed has looked up the sender's trace", w.Pos(top.Pos()), "the lookup dominates every return whose error may be nil", "the split can report success without having looked up (and inherited) the sender's lineage: return at "+missed+" - the recipient of a genesis-derived sender stays unrecorded")
				lf := lookupE.Site.Caller
				var appendIn ssa.Instruction
				if s.Site.Caller == lf {
					appendIn = s.Site.Instr
				} else {
					for _, c := range s.Chain {
						if c.Caller == lf {
							appendIn = c.Instr
						}
					}
				}
				lookup, _ := lookupE.Site.Instr.(*ssa.Call)
				var found ssa.Value
				if lookup != nil {
					for _, ref := range *lookup.Referrers() {
						if ex, ok := ref.(*ssa.Extract); ok && ex.Index == 1 {
							found = ex
						}
					}
				}
				if found != nil && appendIn != nil {
					skipped := ""
					for _, e := range boolValueEdges(lf, found, true) {
						seen := map[*ssa.BasicBlock]bool{}
						stack := []*ssa.BasicBlock{e.To()}
						for len(stack) > 0 {
							b := stack[len(stack)-1]
							stack = stack[:len(stack)-1]
							if seen[b] || b == appendIn.Block() {
								continue
							}
							seen[b] = true
							if ret, isRet := b.Instrs[len(b.Instrs)-1].(*ssa.Return); isRet && !FailsFrom(b) {
								skipped = w.Pos(ret.Pos())
							}
							stack = append(stack, b.Succs...)
						}
					}
					r.Check(skipped == "", "C17.split", "a traced sender's recipient is always recorded", w.Pos(appendIn.Pos()), "from the found==true edge every completing path passes the append", "after the sender was found to be traced the operation can complete without recording the recipient (return at "+skipped+")")
				}
			}
			r.Check(tf["FromGenesisPool"] != nil && loadOfField(tf["FromGenesisPool"], "FromGenesisPool", nil), "C17.split", "trace.FromGenesisPool = sender.FromGenesisPool", w.Pos(s.Site.Instr.Pos()), "inherited", "FromGenesisPool is not inherited from the sender")
			r.Check(isFalse(tf["Genesis"]), "C17.split", "trace.Genesis = false", w.Pos(s.Site.Instr.Pos()), "constant false", "a split recipient is marked as a genesis account")
			if tf["FromGenesisAccount"] == nil {
				r.Bad("C17.split", "trace.FromGenesisAccount = sender.Genesis || sender.FromGenesisAccount", w.Pos(s.Site.Instr.Pos()), "the flag is never set")
			} else {
				fga := traceStores(split)["FromGenesisAccount"]
				why := boolTable(fga.FS.Fn, fga.FS.Store.Val, []string{"Genesis", "FromGenesisAccount"}, func(a map[string]bool) bool { return a["Genesis"] || a["FromGenesisAccount"] })
				r.Check(why == "", "C17.split", "trace.FromGenesisAccount = sender.Genesis || sender.FromGenesisAccount", w.Pos(s.Site.Instr.Pos()), "truth table over both flags agrees (4 rows)", why)
			}
			// appended only after the transfer succeeded
			var xfers []ssa.Value
			for _, s2 := range cg.Sites[split] {
				if cg.Atom(s2) == BankMove {
					xfers = append(xfers, siteValue(s2))
				}
			}
			if len(xfers) == 0 {
				// the transfer behind a thin helper that hands the bank's error on
				for _, e := range w.effectsBelow(split, func(x *Site) bool { return cg.Atom(x) == BankMove }, 2) {
					if c, isC := e.Site.Instr.(*ssa.Call); isC && len(e.Chain) == 1 && errorKeptUnder(e.Site.Caller, c, errValues(e.Site.Caller, c)) {
						if tv, isV := e.Top().(ssa.Value); isV {
							xfers = append(xfers, tv)
						}
					}
				}
			}
			r.Check(len(xfers) > 0 && OnSuccessEdge(split, s.Top(), xfers...), "C17.split", "trace appended only after the transfer succeeded", w.Pos(s.Site.Instr.Pos()), "nil edge of the transfer's error", "a trace is recorded although the split failed")
		}
	}

	// ---------- C17.key ----------
	// writers and readers of the trace prefix agree on the rendering of the address: AccAddress.String(). The string is
	// traced back through helpers and pass-through parameters (every caller); it must be a rendering of a parsed
	// address on every path and never a string as it came in
	{
		onTrees := cg.Reach(append(append([]*ssa.Function{}, flatten(ro.MSG)...), flatten(ro.BLK)...))
		canonical := func(v ssa.Value, path []string) bool {
			t := w.Tracer()
			t.Lift = 3
			t.LiftFilter = func(f *ssa.Function) bool { _, ok := onTrees[f]; return ok }
			t.Stop = []string{"types.AccAddress.String"}
			o := t.OriginsPath(v, path)
			n := 0
			if os.Getenv("C4E_DEBUG") != "" {
				fmt.Println("C17KEY", o.String())
			}
			for _, l := range o.Leaves {
				c, isCall := l.V.(*ssa.Call)
				if l.Kind == "call" && isCall && strings.HasSuffix(callName(c.Common()), "types.AccAddress.String") {
					n++
					continue
				}
				return false
			}
			return n > 0
		}
		seenW := map[ssa.Instruction]bool{}
		for fn := range cg.Reach(append(append([]*ssa.Function{}, flatten(ro.MSG)...), flatten(ro.BLK)...)) {
			if !w.isProdFunc(fn) {
				continue
			}
			for _, s := range cg.Sites[fn] {
				switch {
				case calleeIs(s, "x/cfevesting/keeper.Keeper.GetVestingAccountTrace"), calleeIs(s, "x/cfevesting/keeper.Keeper.RemoveVestingAccountTrace"):
					a := s.Args()
					r.Check(canonical(a[len(a)-1], nil), "C17.key", funcName(fn)+": trace looked up under the canonical address", w.Pos(s.Instr.Pos()), "AccAddress.String()", "the trace is looked up under a string that is not the canonical rendering of an address")
				case cg.Atom(s) == StoreSet:
					// the primitive write on the trace prefix: its key bytes
					loc := cg.StoreLocOf(s)
					if !loc.Resolved || !strings.HasPrefix(loc.Prefix, "VestingAccountTrace-value-") || moduleOfFunc(fn) != "cfevesting" || seenW[s.Instr] {
						continue
					}
					seenW[s.Instr] = true
					key := cg.StoreKeyOf(s)
					if key == nil {
						continue
					}
					// lifted per message-tree caller: InitGenesis also writes through this function with stored strings
					ok := canonicalOnTrees(w, s, key, canonical)
					r.Check(ok, "C17.key", funcName(fn)+": trace stored under the canonical address", w.Pos(s.Instr.Pos()), "AccAddress.String()", "the trace is stored under a string taken from the message: bech32 accepts several spellings of one address, so later lookups by the canonical rendering miss it and the lineage is lost")
				}
			}
		}
	}
	// ---------- C17.only ----------
	// every call path from a message entry to a write (or delete) on the trace prefix passes through one of the two
	// analysed operations: with those two removed from the call graph no writer is reachable
	{
		roots := flatten(ro.MSG)
		reachAll := cg.Reach(roots)
		avoid := map[*ssa.Function]bool{send: true, split: true}
		reachAvoid := map[*ssa.Function]*ssa.Function{}
		var stack []*ssa.Function
		for _, rt := range roots {
			if !avoid[rt] {
				reachAvoid[rt] = nil
				stack = append(stack, rt)
			}
		}
		for len(stack) > 0 {
			f := stack[len(stack)-1]
			stack = stack[:len(stack)-1]
			for _, s := range cg.Sites[f] {
				for _, c := range s.Callees {
					if _, seen := reachAvoid[c]; !seen && !avoid[c] {
						reachAvoid[c] = f
						stack = append(stack, c)
					}
				}
			}
		}
		tracePrefix := "VestingAccountTrace-value-"
		for _, s := range cg.SitesIn(reachAll) {
			a := cg.Atom(s)
			if a != StoreSet && a != StoreDel {
				continue
			}
			loc := cg.StoreLocOf(s)
			if !loc.Resolved || !strings.HasPrefix(loc.Prefix, tracePrefix) || moduleOfFunc(s.Caller) != "cfevesting" {
				continue
			}
			_, bypass := reachAvoid[s.Caller]
			r.Check(!bypass && a == StoreSet, "C17.only", fmt.Sprintf("%s on the trace prefix in %s", a, funcName(s.Caller)), w.Pos(s.Instr.Pos()),
				"reachable from messages only through the pool-send and the split operation", "an additional writer of vesting-account traces is reachable from a message: "+PathTo(reachAvoid, s.Caller))
		}
		for _, op := range []*ssa.Function{send, split} {
			n := len(appendSites(op))
			r.Check(n == 1, "C17.only", funcName(op)+" appends exactly one trace", w.Pos(op.Pos()), "one append site", fmt.Sprintf("%d append sites", n))
		}
	}

	// ---------- C17.summary ----------
	c17summary(w, r)
}

func c17summary(w *World, r *Report) {
	cg := w.CG()
	fn := w.Func("x/cfevesting/keeper.Keeper.createVestingsSummary")
	if fn == nil {
		r.Unk("infra.anchor", "x/cfevesting/keeper.Keeper.createVestingsSummary", "", "anchor not found")
		return
	}
	tr := w.Tracer()
	fields := map[string]ssa.Value{}
	// the summary literal may be built by a constructor helper: its field values in this function's terms
	for _, sb := range w.storesBelow(fn, "Summary", 2, nil) {
		// the literal on the success path (the error path builds an empty Summary)
		fields[sb.FS.Field] = sb.Val
	}
	pos := w.Pos(fn.Pos())
	accAcc := func(v ssa.Value, method string) bool {
		// v is a loop accumulator over <method>(...).AmountOf(denom)
		phi, ok := v.(*ssa.Phi)
		if !ok {
			return false
		}
		for _, e := range phi.Edges {
			c, ok := e.(*ssa.Call)
			if !ok || !strings.HasSuffix(callName(c.Common()), "math.Int.Add") {
				continue
			}
			for _, a := range c.Common().Args {
				if a == ssa.Value(phi) {
					continue
				}
				o := tr.Origins(a)
				if o.HasCall(method) && o.HasOp("types.Coins.AmountOf") {
					if accumulatorOf(phi, a) {
						return true
					}
				}
			}
		}
		return false
	}
	inAcc, del, all, pools := fields["VestingInAccountsAmount"], fields["DelegatedVestingAmount"], fields["VestingAllAmount"], fields["VestingInPoolsAmount"]
	if inAcc == nil || del == nil || all == nil || pools == nil {
		r.Bad("C17.summary", "summary literal", pos, "not all four summary fields are assigned")
		return
	}
	r.Check(accAcc(inAcc, "ContinuousVestingAccount.GetVestingCoins"), "C17.summary", "VestingInAccounts = sum of GetVestingCoins(blockTime).AmountOf(denom)", pos, "accumulator over the traced accounts", "the in-accounts amount is not the sum of still-vesting coins")
	// delegated = vesting - locked
	okDel := false
	var locked ssa.Value
	if c, ok := isCallTo(del, "math.Int.Sub"); ok {
		a := c.Common().Args
		if a[0] == inAcc && accAcc(a[1], "ContinuousVestingAccount.LockedCoins") {
			okDel = true
			locked = a[1]
		}
	}
	_ = locked
	r.Check(okDel, "C17.summary", "Delegated = vesting - locked", pos, "Sub(sum of vesting coins, sum of locked coins)", "the delegated amount is not vesting minus locked (operands or sources differ)")
	okAll := false
	if c, ok := isCallTo(all, "math.Int.Add"); ok {
		a := c.Common().Args
		if (a[0] == inAcc && a[1] == pools) || (a[1] == inAcc && a[0] == pools) {
			okAll = true
		}
	}
	r.Check(okAll, "C17.summary", "All = accounts + pools", pos, "Add(in accounts, in pools)", "the total is not accounts plus pools")
	// pools: genesisOnly -> GetGenesisAmount, else module balance
	genP := paramOfType(fn, "bool", 0)
	for _, want := range []bool{true, false} {
		live := ReachUnder(fn, func(base ssa.Value) (bool, bool) {
			if base == ssa.Value(genP) {
				return want, true
			}
			return false, false
		})
		vals := live.LiveValues(pools)
		ok := len(vals) > 0
		for _, v := range vals {
			// the choice may sit in a helper that is handed the flag: its live results under the same assumption,
			// each examined in the helper with the parameters bound to this call's arguments
			hctx := &tctx{fn: fn}
			var alts []ssa.Value
			if hc, isCall := v.(*ssa.Call); isCall && genP != nil {
				if h := hc.Common().StaticCallee(); h != nil && h.Blocks != nil && w.isProdFunc(h) && !hc.Common().IsInvoke() {
					for i, a := range hc.Common().Args {
						if a == ssa.Value(genP) && i < len(h.Params) {
							hp := h.Params[i]
							hl := ReachUnder(h, func(base ssa.Value) (bool, bool) {
								if base == ssa.Value(hp) {
									return want, true
								}
								return false, false
							})
							alts = hl.LiveReturns(h, 0)
							hctx = &tctx{parent: hctx, fn: h, call: hc.Common(), depth: 1}
						}
					}
				}
			}
			if alts == nil {
				alts = []ssa.Value{v}
			}
			if len(alts) == 0 {
				ok = false
			}
			for _, v := range alts {
				st := &tstate{t: tr, o: newOrigin(), seen: map[string]bool{}}
				st.trace(v, nil, hctx)
				o := st.o
				if want {
					if _, is := isCallTo(v, "AccountVestingPoolsList.GetGenesisAmount"); !is {
						ok = false
					}
				} else {
					if !(o.HasCall("BankKeeper.GetBalance") && o.HasCall("GetModuleAccount")) || o.HasCall("GetGenesisAmount") {
						ok = false
					}
				}
			}
		}
		name := "pools (all) = balance of the module account"
		if want {
			name = "pools (genesis only) = GetGenesisAmount of all pools"
		}
		r.Check(ok, "C17.summary", name, pos, "live value under genesisOnly="+fmt.Sprint(want), "the pools amount has another source")
	}
	// times and accounts
	for _, s := range cg.Sites[fn] {
		n := s.CalleeName()
		if strings.HasSuffix(n, "ContinuousVestingAccount.LockedCoins") || strings.HasSuffix(n, "ContinuousVestingAccount.GetVestingCoins") {
			a := s.Args()
			r.Check(isBlockTime(a[len(a)-1]), "C17.summary", s.Method+" evaluated at the block time", w.Pos(s.Instr.Pos()), "ctx.BlockTime()", "evaluated at another time than the block time")
		}
	}
	// genesis filter
	filt := false
	var filtHelpers []*ssa.Function
	for _, e := range w.effectsBelow(fn, func(s *Site) bool {
		return calleeIs(s, "x/cfevesting/types.VestingAccountTrace.IsGenesisOrFromGenesis")
	}, 2) {
		filt = true
		if e.Site.Caller != fn {
			filtHelpers = append(filtHelpers, e.Site.Caller)
		}
	}
	r.Check(filt, "C17.summary", "genesis variant filters by IsGenesisOrFromGenesis", pos, "filter present", "no genesis filter")
	// the record whose lineage is asked and the account that is summed belong together: the address the account is
	// loaded under is the Address of the very trace element the filter is applied to (same list, same position) - a
	// filter indexed by the position in another (compacted) list judges an account by its neighbour's lineage
	{
		elemOf := func(v ssa.Value) ssa.Value {
			b := v
			if u, ok := b.(*ssa.UnOp); ok && u.Op == token.MUL {
				b = u.X
			}
			b = normElemBase(b)
			if _, ok := b.(*ssa.IndexAddr); ok {
				return b
			}
			return nil
		}
		var filtElems []ssa.Value
		for _, e := range w.effectsBelow(fn, func(s *Site) bool {
			return calleeIs(s, "x/cfevesting/types.VestingAccountTrace.IsGenesisOrFromGenesis")
		}, 0) {
			if a := e.Site.Common().Args; len(a) > 0 {
				if el := elemOf(a[0]); el != nil {
					filtElems = append(filtElems, el)
				}
			}
		}
		var addrElems []ssa.Value
		for _, s := range cg.Sites[fn] {
			n := s.CalleeName()
			if !(strings.HasSuffix(n, "ContinuousVestingAccount.GetVestingCoins") || strings.HasSuffix(n, "ContinuousVestingAccount.LockedCoins")) || len(s.Common().Args) == 0 {
				continue
			}
			o := tr.Origins(s.Common().Args[0])
			for c := range o.Calls {
				if !strings.HasSuffix(callName(c.Common()), "types.AccAddressFromBech32") || len(c.Common().Args) == 0 {
					continue
				}
				if b, f, isF := elemField(c.Common().Args[0]); isF {
					_ = f
					if el := elemOf(b); el != nil {
						addrElems = append(addrElems, el)
					} else if ia, ok := normElemBase(b).(*ssa.IndexAddr); ok {
						addrElems = append(addrElems, ia)
					}
				}
			}
		}
		if len(filtElems) > 0 && len(addrElems) > 0 {
			same := true
			for _, fe := range filtElems {
				for _, ae := range addrElems {
					if !sameElem(fe, ae, 0) {
						same = false
					}
				}
			}
			r.Check(same, "C17.summary", "the trace filtered and the account summed are the same record", pos, "the account is loaded under the Address of the trace element the filter is applied to", "the genesis filter is applied to another trace than the one whose account is summed (a different list or position): accounts are judged by a neighbour's lineage")
		}
	}
	// closed world: which traced accounts are counted. In the loop over the traces the only conditions that let an
	// iteration end without reaching the two sums are the genesis filter and the account-type test.
	{
		var tl *rangeLoop
		for _, l := range rangeLoops(fn) {
			l := l
			if l.Over != nil && tr.Origins(l.Over).HasCall("GetAllVestingAccountTrace") {
				tl = &l
			}
		}
		if tl == nil {
			r.Unk("C17.summary", "loop over the recorded accounts", pos, "loop not found")
		} else {
			must := func(b *ssa.BasicBlock) bool {
				return blockHasCall(b, func(c *ssa.Call) bool {
					return strings.HasSuffix(callName(c.Common()), "ContinuousVestingAccount.GetVestingCoins")
				})
			}
			nskip := 0
			for _, sc := range loopSkipConds(*tl, must) {
				nskip++
				base, _ := stripNot(sc.Cond)
				o := tr.Origins(base)
				kind := ""
				switch {
				case o.HasCall("IsGenesisOrFromGenesis") && !o.HasCall("GetBalance") && !o.HasCall("GetAllBalances") && !o.HasCall("SpendableCoins"):
					kind = "the genesis filter"
				case isTypeAssertOK(base, "ContinuousVestingAccount"):
					kind = "the account-type test"
				}
				construct := fmt.Sprintf("summary loop: skip condition #%d", nskip)
				if kind != "" {
					construct = "summary loop: an account is left out only by " + kind
				}
				r.Check(kind != "", "C17.summary", construct, w.Pos(ifPos(sc)), kind, "a recorded account can be left out of the summaries under a condition that is neither the genesis filter nor the account-type test: "+renderVal(base, 0))
			}
			r.Check(loopEarlyExit(*tl) == nil, "C17.summary", "summary loop visits every recorded account", pos, "no early exit", "the loop over the recorded accounts is left early")
		}
		// a filter helper that builds the list the loop ranges over: in its own loop a recorded account is left out of the
		// list only by the genesis filter
		for _, h := range filtHelpers {
			for _, l := range rangeLoops(h) {
				isAppend := func(b *ssa.BasicBlock) bool {
					return blockHasCall(b, func(c *ssa.Call) bool {
						bi, ok := c.Common().Value.(*ssa.Builtin)
						return ok && bi.Name() == "append"
					})
				}
				for _, sc := range loopSkipConds(l, isAppend) {
					base, _ := stripNot(sc.Cond)
					o := tr.Origins(base)
					good := o.HasCall("IsGenesisOrFromGenesis") && !o.HasCall("GetBalance") && !o.HasCall("GetAllBalances") && !o.HasCall("SpendableCoins")
					r.Check(good, "C17.summary", "filter helper "+funcName(h)+": an account is left out only by the genesis filter", w.Pos(ifPos(sc)), "the genesis filter", "a recorded account can be left out of the list the summary ranges over under a condition that is not the genesis filter: "+renderVal(base, 0))
				}
				r.Check(loopEarlyExit(l) == nil, "C17.summary", "filter helper "+funcName(h)+" visits every recorded account", w.Pos(h.Pos()), "no early exit", "the filter loop is left early")
			}
		}
	}
	if g := w.Func("x/cfevesting/types.VestingAccountTrace.IsGenesisOrFromGenesis"); g != nil {
		ret := Returns(g)
		why := "no return"
		if len(ret) == 1 {
			why = boolTable(g, retVals(ret[0])[0], []string{"Genesis", "FromGenesisAccount", "FromGenesisPool"}, func(a map[string]bool) bool {
				return a["Genesis"] || a["FromGenesisAccount"] || a["FromGenesisPool"]
			})
		}
		r.Check(why == "", "C17.summary", "IsGenesisOrFromGenesis = Genesis || FromGenesisAccount || FromGenesisPool", w.Pos(g.Pos()), "truth table over the three flags agrees (8 rows)", why)
	}
	if g := w.Func("x/cfevesting/types.AccountVestingPoolsList.GetGenesisAmount"); g != nil {
		// adds GetCurrentlyLocked only under GenesisPool
		good := false
		for _, s := range cg.Sites[g] {
			if calleeIs(s, "x/cfevesting/types.VestingPool.GetCurrentlyLocked") {
				edges := EdgesWhere(g, func(base ssa.Value) (bool, bool) {
					if loadOfField(base, "GenesisPool", nil) {
						return true, true
					}
					return false, false
				})
				good = MustPass(g, edges, s.Instr.Block())
			}
		}
		r.Check(good, "C17.summary", "GetGenesisAmount sums GetCurrentlyLocked of genesis pools only", w.Pos(g.Pos()), "dominated by the GenesisPool flag", "non-genesis pools are counted (or locked amount not used)")
	}
}

// loopSkipConds lists the conditional branches inside a loop one of whose edges can reach the loop header again
// without passing a block for which must() holds (an iteration that skips the work), while the block itself is
// reached before that work.
func loopSkipConds(l rangeLoop, must func(*ssa.BasicBlock) bool) []*ssa.If {
	in := loopBlocks(l.Header)
	// W: blocks of the loop from which the work is still reachable within this iteration
	memo := map[*ssa.BasicBlock]int{} // 1 reachable, 2 not, 3 in progress
	var reach func(b *ssa.BasicBlock) bool
	reach = func(b *ssa.BasicBlock) bool {
		if !in[b] || b == l.Header {
			return false
		}
		if must(b) {
			return true
		}
		switch memo[b] {
		case 1:
			return true
		case 2, 3:
			return false
		}
		memo[b] = 3
		ok := false
		for _, s := range b.Succs {
			if reach(s) {
				ok = true
			}
		}
		if ok {
			memo[b] = 1
		} else {
			memo[b] = 2
		}
		return ok
	}
	var out []*ssa.If
	for _, b := range l.Header.Parent().Blocks {
		if !in[b] || b == l.Header || must(b) || !reach(b) {
			continue
		}
		i := blockIf(b)
		if i == nil {
			continue
		}
		for _, s := range b.Succs {
			// the work is abandoned on this edge, and not because the whole call fails
			if !reach(s) && !must(s) && !FailsFrom(s) {
				out = append(out, i)
				break
			}
		}
	}
	return out
}

// isTypeAssertOK: v is the ok result of a comma-ok type assertion to a type whose name ends in suffix.
func isTypeAssertOK(v ssa.Value, suffix string) bool {
	ex, ok := v.(*ssa.Extract)
	if !ok || ex.Index != 1 {
		return false
	}
	ta, ok := ex.Tuple.(*ssa.TypeAssert)
	return ok && ta.CommaOk && strings.HasSuffix(typeString(ta.AssertedType), suffix)
}

// canonicalOnTrees: the key handed to the primitive trace write is canonical on every path that starts at a message or
// block entry (parameters are followed to every caller on those trees).
func canonicalOnTrees(w *World, s *Site, key ssa.Value, canonical func(ssa.Value, []string) bool) bool {
	return canonical(key, nil)
}
