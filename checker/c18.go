package main

import (
	"fmt"
	"go/token"
	"go/types"
	"strings"

	"golang.org/x/tools/go/ssa"
)

func init() { register("C18", checkC18) }

// intOfAmountString strips  X.String() [+ denom]  and returns X.
func intOfAmountString(v ssa.Value) ssa.Value {
	for i := 0; i < 4; i++ {
		switch x := v.(type) {
		case *ssa.BinOp:
			if x.Op == token.ADD {
				v = x.X
				continue
			}
		case *ssa.Call:
			n := callName(x.Common())
			if hasSuffixAny(n, "math.Int.String", "types.Int.String") {
				return x.Common().Args[0]
			}
		}
		break
	}
	return nil
}

func eventTypeOf(s *Site) *types.Named {
	a := s.Args()
	if len(a) == 0 {
		return nil
	}
	v := a[0]
	if mi, ok := v.(*ssa.MakeInterface); ok {
		v = mi.X
	}
	t := v.Type()
	if p, ok := t.(*types.Pointer); ok {
		t = p.Elem()
	}
	n, _ := t.(*types.Named)
	return n
}

func checkC18(w *World, r *Report) {
	cg := w.CG()
	ro := w.Roles()
	r.Undecided = []string{"that a block's distribution and burn events add up numerically to the inflow (sum identity): only the per-event value identity with the credited amount is decided"}
	r.Rule("C18.sites", "P4", "every typed-event emission of the custom modules is enumerated; event types carrying an Amount are bound to a value-identity obligation", 8)
	r.Rule("C18.amount", "P6", "the Amount of an event has the origin of the effect it describes: Mint <- result of Keeper.Mint; Distribution/DistributionBurn <- the share credited in the same iteration; WithdrawAvailable <- the per-pool value added to Withdrawn (not a running total); NewVestingAccountFromVestingPool <- the value added to Sent; NewVestingPool <- the amount passed to pool creation", 6)
	r.Rule("C18.guard", "P5", "amount-carrying events are recorded only when the described effect happened: per-pool withdrawal events only under a positivity test of that pool's own value; creation events only on the success edge of the operation", 4)
	if !ro.checkFloors(r) {
		return
	}
	withAmount := map[string]bool{}
	for _, f := range w.ProdFuncs() {
		for _, s := range cg.Sites[f] {
			if cg.Atom(s) != EventEmit {
				continue
			}
			et := eventTypeOf(s)
			name := "?"
			if et != nil {
				name = et.Obj().Pkg().Name() + "." + et.Obj().Name()
				if structHasField(et, "Amount") {
					withAmount[et.Obj().Pkg().Path()+"."+et.Obj().Name()] = true
				}
			} else {
				r.Unk("C18.sites", "emit in "+funcName(f), w.Pos(s.Instr.Pos()), "cannot determine the static type of the emitted event")
				continue
			}
			r.Enum("C18.sites", "emit "+name+" in "+funcName(f), w.Pos(s.Instr.Pos()), "typed event")
		}
	}
	handled := map[string]bool{}
	// all stores to an Amount field of an event type
	for _, f := range w.ProdFuncs() {
		for _, fs := range FieldStores(f) {
			if fs.Field != "Amount" || fs.Struct == nil {
				continue
			}
			key := fs.Struct.Obj().Pkg().Path() + "." + fs.Struct.Obj().Name()
			if !withAmount[key] {
				continue
			}
			handled[key] = true
			ev := fs.Struct.Obj().Name()
			construct := fmt.Sprintf("%s.Amount in %s", ev, funcName(f))
			pos := w.Pos(fs.Store.Pos())
			switch ev {
			case "Mint":
				x := intOfAmountString(fs.Store.Val)
				ok := false
				if ex, isEx := x.(*ssa.Extract); isEx && ex.Index == 0 {
					if c, isC := ex.Tuple.(*ssa.Call); isC && strings.HasSuffix(callName(c.Common()), "x/cfeminter/keeper.Keeper.Mint") {
						ok = true
					}
				}
				r.Check(ok, "C18.amount", construct, pos, "Amount = String(result #0 of Keeper.Mint)", "the mint event does not carry the amount returned by the minting routine")
				// Keeper.Mint returns what mint() returns or zero
				if mf := w.Func("x/cfeminter/keeper.Keeper.Mint"); mf != nil {
					good := true
					for _, ret := range Returns(mf) {
						v := retVals(ret)[0]
						if isZeroIntValue(v) {
							continue
						}
						ex, isEx := v.(*ssa.Extract)
						if !isEx || ex.Index != 0 {
							good = false
							continue
						}
						c, _ := ex.Tuple.(*ssa.Call)
						if c == nil || !strings.HasSuffix(callName(c.Common()), "keeper.Keeper.mint") {
							good = false
						}
					}
					r.Check(good, "C18.amount", "Keeper.Mint returns the minting routine's total or zero", w.Pos(mf.Pos()), "every return is zero (nothing minted) or result #0 of mint()", "Keeper.Mint reports something else than what mint() returned")
				}
			case "Distribution", "DistributionBurn":
				v := fs.Store.Val
				var credit *Site
				for _, s := range cg.Sites[f] {
					if len(s.Callees) == 0 || !strings.Contains(s.Method, "addSharesTo") {
						continue
					}
					for _, a := range s.Args() {
						if a == v {
							credit = s
						}
					}
				}
				ok := credit != nil && (instrDominates(credit.Instr, fs.Store) || credit.Instr.Block() == fs.Store.Block())
				r.Check(ok, "C18.amount", construct, pos, "Amount is the very value credited to the state in the same iteration", "the event amount is not the value credited to the destination")
			case "WithdrawAvailable":
				x := intOfAmountString(fs.Store.Val)
				var inc ssa.Value
				for _, fs2 := range FieldStores(f) {
					if fs2.Field == "Withdrawn" {
						inc, _ = incrementOf(fs2)
					}
				}
				ok := x != nil && inc != nil && x == inc
				detail := "the event reports a value that is not the amount withdrawn from that pool"
				if x != nil {
					if _, isPhi := x.(*ssa.Phi); isPhi {
						detail += " (a loop-carried accumulator)"
					} else if c, isC := x.(*ssa.Call); isC && strings.HasSuffix(callName(c.Common()), "math.Int.Add") {
						detail += " (the running total)"
					}
				}
				r.Check(ok, "C18.amount", construct, pos, "Amount = String(per-pool value added to Withdrawn)", detail)
				if inc != nil {
					edges := EdgesWhere(f, func(base ssa.Value) (bool, bool) {
						c, isC := base.(*ssa.Call)
						if !isC {
							return false, false
						}
						n := callName(c.Common())
						a := c.Common().Args
						if strings.HasSuffix(n, "math.Int.IsPositive") && a[0] == inc {
							return true, true
						}
						if strings.HasSuffix(n, "math.Int.GT") && a[0] == inc && isZeroIntValue(a[1]) {
							return true, true
						}
						if strings.HasSuffix(n, "math.Int.IsZero") && a[0] == inc {
							return false, true
						}
						return false, false
					})
					r.Check(MustPass(f, edges, fs.Store.Block()), "C18.guard", construct+": only for pools that paid", pos, "recorded under a positivity test of the pool's own amount", "an event is recorded for a pool from which nothing was withdrawn")
				}
			case "NewVestingAccountFromVestingPool":
				x := intOfAmountString(fs.Store.Val)
				var inc ssa.Value
				for _, fs2 := range FieldStores(f) {
					if fs2.Field == "Sent" {
						inc, _ = incrementOf(fs2)
					}
				}
				r.Check(x != nil && x == inc, "C18.amount", construct, pos, "Amount = String(value added to Sent)", "the event does not report the amount sent from the pool")
				// emitted on success only
				var creates []ssa.Value
				for _, s := range cg.Sites[f] {
					if calleeIs(s, "x/cfevesting/keeper.Keeper.newVestingAccount") {
						creates = append(creates, siteValue(s))
					}
				}
				r.Check(len(creates) > 0 && OnSuccessEdge(f, fs.Store, creates...), "C18.guard", construct+": only on success", pos, "built on the nil edge of the account creation's error", "the event can be emitted although the send failed")
			case "NewVestingPool":
				x := intOfAmountString(fs.Store.Val)
				ok := false
				var create *Site
				for _, s := range cg.Sites[f] {
					if calleeIs(s, "x/cfevesting/keeper.Keeper.CreateVestingPool") {
						create = s
						for _, a := range s.Args() {
							if x != nil && (a == x || (loadOfField(a, "Amount", nil) && loadOfField(x, "Amount", nil) && rootParam(a) == rootParam(x))) {
								ok = true
							}
						}
					}
				}
				r.Check(ok, "C18.amount", construct, pos, "Amount = String(amount passed to pool creation)", "the event does not report the amount locked in the pool")
				r.Check(create != nil && OnSuccessEdge(f, fs.Store, siteValue(create)), "C18.guard", construct+": only on success", pos, "built on the nil edge of the creation's error", "the event can be emitted although pool creation failed")
			default:
				r.Unk("C18.amount", construct, pos, "event type with an Amount field that has no value-identity rule: add one")
			}
		}
	}
	for k := range withAmount {
		if !handled[k] {
			r.Bad("C18.amount", "event "+k+" has no constructed Amount", "", "an amount-carrying event is emitted but its Amount is never assigned in production code")
		}
	}
	// every distribution built for a sub-distributor is emitted
	r.Rule("C18.emitall", "P5", "the distributor's block routine emits every Distribution returned for a sub-distributor (every iteration of the loop over the full slice) and the burn event whenever one was built", 2)
	if bb := w.Func("x/cfedistributor.BeginBlocker"); bb != nil {
		var sdp *ssa.Call
		for _, s := range cg.Sites[bb] {
			if calleeIs(s, "x/cfedistributor/keeper.Keeper.StartDistributionProcess") {
				sdp = siteCall(s)
			}
		}
		okLoop, okBurn := false, false
		if sdp != nil {
			var dists, burn ssa.Value
			for _, ref := range *sdp.Referrers() {
				if ex, ok := ref.(*ssa.Extract); ok {
					switch ex.Index {
					case 1:
						dists = ex
					case 2:
						burn = ex
					}
				}
			}
			analyse := func(fn *ssa.Function, dists, burn ssa.Value) (bool, bool) {
				okL, okB := false, false
				for _, l := range rangeLoops(fn) {
					if l.Over == dists && dists != nil {
						okL = loopEarlyExit(l) == nil && loopBodyMustPass(l, func(b *ssa.BasicBlock) bool {
							for _, in := range b.Instrs {
								if c, ok := in.(*ssa.Call); ok && strings.HasSuffix(callName(c.Common()), "EventManager.EmitTypedEvent") {
									return true
								}
							}
							return false
						})
					}
				}
				// burn: emitted on the non-nil edge, and nothing else decides
				if burn != nil {
					for _, s := range cg.Sites[fn] {
						if cg.Atom(s) == EventEmit {
							a := s.Args()
							if mi, ok := a[0].(*ssa.MakeInterface); ok && mi.X == burn {
								edges := NilEdges(fn, map[ssa.Value]bool{burn: true}, false)
								// the emit block is exactly the non-nil successor (no further condition)
								for _, e := range edges {
									if e.To() == s.Instr.Block() || e.To().Dominates(s.Instr.Block()) && len(e.To().Succs) <= 1 {
										okB = true
									}
								}
							}
						}
					}
				}
				return okL, okB
			}
			okLoop, okBurn = analyse(bb, dists, burn)
			// the emission may be a helper that is handed the distributions and the burn of this sub-distributor,
			// called unconditionally once they are known
			if !okLoop || !okBurn {
				for _, cs := range cg.Sites[bb] {
					h := cs.Common().StaticCallee()
					if h == nil || h.Blocks == nil || !w.isProdFunc(h) || cs.Common().IsInvoke() {
						continue
					}
					var dP, bP ssa.Value
					for i, a := range cs.Common().Args {
						if i >= len(h.Params) {
							continue
						}
						if a == dists && dists != nil {
							dP = h.Params[i]
						}
						if a == burn && burn != nil {
							bP = h.Params[i]
						}
					}
					if dP == nil {
						continue
					}
					// unconditional: the call sits in the block of StartDistributionProcess or in one that it dominates
					// and that every path back to the loop header passes
					uncond := cs.Instr.Block() == sdp.Block()
					if !uncond && sdp.Block().Dominates(cs.Instr.Block()) {
						uncond = true
						for _, l := range rangeLoops(bb) {
							if loopBlocks(l.Header)[sdp.Block()] {
								// every path from the sdp block to the header passes the call block
								seen := map[*ssa.BasicBlock]bool{}
								var walk func(b *ssa.BasicBlock)
								walk = func(b *ssa.BasicBlock) {
									if seen[b] || b == cs.Instr.Block() {
										return
									}
									seen[b] = true
									for _, sc := range b.Succs {
										if sc == l.Header {
											uncond = false
										}
										walk(sc)
									}
								}
								walk(sdp.Block())
							}
						}
					}
					if !uncond {
						continue
					}
					l2, b2 := analyse(h, dP, bP)
					okLoop = okLoop || l2
					okBurn = okBurn || b2
				}
			}
		}
		r.Check(okLoop, "C18.emitall", "every Distribution of the sub-distributor is emitted", w.Pos(bb.Pos()), "range over the full slice returned by StartDistributionProcess, emit on every iteration", "some distribution events are not emitted: a block's events would not add up to the inflow")
		r.Check(okBurn, "C18.emitall", "the DistributionBurn is emitted whenever it was built", w.Pos(bb.Pos()), "emitted on the burn != nil edge", "the burn event can be dropped")
	} else {
		r.Unk("infra.anchor", "x/cfedistributor.BeginBlocker", "", "anchor not found")
	}
	// mint event only after a successful Mint
	if bb := w.Func("x/cfeminter.BeginBlocker"); bb != nil {
		for _, s := range cg.Sites[bb] {
			if cg.Atom(s) != EventEmit {
				continue
			}
			var mints []ssa.Value
			for _, s2 := range cg.Sites[bb] {
				if calleeIs(s2, "x/cfeminter/keeper.Keeper.Mint") {
					mints = append(mints, siteValue(s2))
				}
			}
			r.Check(len(mints) == 1 && OnSuccessEdge(bb, s.Instr, mints...), "C18.guard", "Mint event only after Keeper.Mint succeeded", w.Pos(s.Instr.Pos()), "dominated by the nil edge of Mint's error", "the mint event can be emitted although minting failed")
		}
	}
}
