package main

import (
	"fmt"
	"go/token"
	"go/types"
	"sort"
	"strings"

	"golang.org/x/tools/go/ssa"
)

func init() { register("C18", checkC18) }

// intOfAmountString strips  X.String() [+ denom]  and returns X.
func intOfAmountString(v ssa.Value) ssa.Value {
	for i := 0; i < 4; i++ {
		switch x := v.(type) {
		case *ssa.BinOp:
			if x.Op == token.ADD {
				v = x.X
				continue
			}
		case *ssa.Call:
			n := callName(x.Common())
			if hasSuffixAny(n, "math.Int.String", "types.Int.String") {
				return x.Common().Args[0]
			}
		}
		break
	}
	return nil
}

// isCtxOrKeeper: the value is the SDK context or a keeper handle (what a call is made with, never an amount).
func isCtxOrKeeper(v ssa.Value) bool {
	if v == nil {
		return false
	}
	t := typeString(v.Type())
	return strings.HasSuffix(t, "cosmos-sdk/types.Context") || strings.HasSuffix(t, "keeper.Keeper") || strings.HasSuffix(t, "keeper.msgServer") || strings.HasSuffix(t, ".AppModule")
}

// eventTypesOf: the concrete event types a typed-event emission can be handed: the static type of the argument, or -
// when the emission sits in a helper that takes the event as an interface - the types converted to that interface at
// the helper's call sites (parameters followed to every caller).
func eventTypesOf(w *World, s *Site) []*types.Named {
	if et := eventTypeOf(s); et != nil {
		if _, isStruct := et.Underlying().(*types.Struct); isStruct {
			return []*types.Named{et}
		}
	}
	a := s.Args()
	if len(a) == 0 {
		return nil
	}
	tr := w.Tracer()
	tr.Lift = 3
	o := tr.Origins(a[0])
	seen := map[*types.Named]bool{}
	var out []*types.Named
	for v := range o.Values {
		mi, ok := v.(*ssa.MakeInterface)
		if !ok {
			continue
		}
		t := mi.X.Type()
		if p, ok := t.(*types.Pointer); ok {
			t = p.Elem()
		}
		n, _ := t.(*types.Named)
		if n == nil || seen[n] {
			continue
		}
		if _, isStruct := n.Underlying().(*types.Struct); !isStruct {
			continue
		}
		seen[n] = true
		out = append(out, n)
	}
	sort.Slice(out, func(i, j int) bool { return out[i].Obj().Name() < out[j].Obj().Name() })
	return out
}

func eventTypeOf(s *Site) *types.Named {
	a := s.Args()
	if len(a) == 0 {
		return nil
	}
	v := a[0]
	if mi, ok := v.(*ssa.MakeInterface); ok {
		v = mi.X
	}
	t := v.Type()
	if p, ok := t.(*types.Pointer); ok {
		t = p.Elem()
	}
	n, _ := t.(*types.Named)
	return n
}

func checkC18(w *World, r *Report) {
	cg := w.CG()
	ro := w.Roles()
	r.Undecided = []string{"that a block's distribution and burn events add up numerically to the inflow (sum identity): only the per-event value identity with the credited amount is decided"}
	r.Rule("C18.sites", "P4", "every typed-event emission of the custom modules is enumerated; event types carrying an Amount are bound to a value-identity obligation", 8)
	r.Rule("C18.amount", "P6", "the Amount of an event has the origin of the effect it describes: Mint <- result of Keeper.Mint; Distribution/DistributionBurn <- the share credited in the same iteration; WithdrawAvailable <- the per-pool value added to Withdrawn (not a running total); NewVestingAccountFromVestingPool <- the value added to Sent; NewVestingPool <- the amount passed to pool creation", 6)
	r.Rule("C18.guard", "P5", "amount-carrying events are recorded only when the described effect happened: per-pool withdrawal events only under a positivity test of that pool's own value; creation events only on the success edge of the operation", 4)
	r.Rule("C18.total", "P6", "= C02.carry (last clause): the amount the minting routine reports for a block - which the mint event carries - loses no term: every successful return carries this period's amount and what was handed in, and after a hand-over also what the successor returned", 1)
	if !ro.checkFloors(r) {
		return
	}
	mintTotalRule(w, r, "C18.total")
	withAmount := map[string]bool{}
	for _, f := range w.ProdFuncs() {
		for _, s := range cg.Sites[f] {
			if cg.Atom(s) != EventEmit {
				continue
			}
			ets := eventTypesOf(w, s)
			if len(ets) == 0 {
				r.Unk("C18.sites", "emit in "+funcName(f), w.Pos(s.Instr.Pos()), "cannot determine the static type of the emitted event")
				continue
			}
			for _, et := range ets {
				if structHasField(et, "Amount") {
					withAmount[et.Obj().Pkg().Path()+"."+et.Obj().Name()] = true
				}
				// one obligation per event type and emitting function: an emission helper shared by several event types
				// counts once per type
				r.Enum("C18.sites", "emit "+et.Obj().Pkg().Name()+"."+et.Obj().Name()+" in "+funcName(f), w.Pos(s.Instr.Pos()), "typed event")
			}
		}
	}
	handled := map[string]bool{}
	// all stores to an Amount field of an event type
	for _, f := range w.ProdFuncs() {
		for _, fs := range FieldStores(f) {
			if fs.Field != "Amount" || fs.Struct == nil {
				continue
			}
			key := fs.Struct.Obj().Pkg().Path() + "." + fs.Struct.Obj().Name()
			if !withAmount[key] {
				continue
			}
			handled[key] = true
			ev := fs.Struct.Obj().Name()
			construct := fmt.Sprintf("%s.Amount in %s", ev, funcName(f))
			pos := w.Pos(fs.Store.Pos())
			switch ev {
			case "Mint":
				// value identity through helpers: the string stored is a rendering of result #0 of Keeper.Mint and of
				// nothing else, wherever the event literal is built (parameters are followed to every caller)
				mt := w.Tracer()
				mt.Lift = 2
				mt.Opaque["x/cfeminter/keeper.Keeper.Mint"] = true
				o := mt.Origins(fs.Store.Val)
				okM, nMint := true, 0
				why := "the mint event does not carry the amount returned by the minting routine"
				for _, l := range o.Leaves {
					switch {
					case l.Kind == "const" || isCtxOrKeeper(l.V):
					case l.Kind == "call":
						c, _ := l.V.(*ssa.Call)
						if c != nil && strings.HasSuffix(callName(c.Common()), "x/cfeminter/keeper.Keeper.Mint") {
							nMint++
						} else if c != nil && hasSuffixAny(callName(c.Common()), "math.Int.String") {
						} else {
							okM = false
							why += ": " + l.String()
						}
					default:
						okM = false
						why += ": " + l.String()
					}
				}
				for op := range o.Ops {
					// "+" can only append constant text here: every leaf is a constant or the Mint call
					if !hasSuffixAny(op, "math.Int.String", "x/cfeminter/keeper.Keeper.Mint") && op != "op+" {
						okM = false
						why += " (operation " + shortCallee(op) + " on the way)"
					}
				}
				r.Check(okM && nMint == 1 && len(o.Phis) == 0, "C18.amount", construct, pos, "Amount = String(result #0 of Keeper.Mint)", why)
				// Keeper.Mint returns what mint() returns or zero
				if mf := w.Func("x/cfeminter/keeper.Keeper.Mint"); mf != nil {
					good := true
					for _, ret := range Returns(mf) {
						v := retVals(ret)[0]
						if isZeroIntValue(v) {
							continue
						}
						ex, isEx := v.(*ssa.Extract)
						if !isEx || ex.Index != 0 {
							good = false
							continue
						}
						c, _ := ex.Tuple.(*ssa.Call)
						if c == nil || !strings.HasSuffix(callName(c.Common()), "keeper.Keeper.mint") {
							good = false
						}
					}
					r.Check(good, "C18.amount", "Keeper.Mint returns the minting routine's total or zero", w.Pos(mf.Pos()), "every return is zero (nothing minted) or result #0 of mint()", "Keeper.Mint reports something else than what mint() returned")
				}
			case "Distribution", "DistributionBurn":
				// the amount stored is the very value handed to the crediting helper before, in the same function - or, when
				// the event literal is built by a constructor helper, in every caller of that helper (parameter followed up)
				var creditedAt func(fn *ssa.Function, v ssa.Value, at ssa.Instruction, depth int) bool
				creditedAt = func(fn *ssa.Function, v ssa.Value, at ssa.Instruction, depth int) bool {
					for _, s := range cg.Sites[fn] {
						if len(s.Callees) == 0 || !strings.Contains(s.Method, "addSharesTo") {
							continue
						}
						cands := append([]ssa.Value{}, s.Args()...)
						for _, a := range s.Args() {
							for _, lv := range literalArgFields(a) {
								cands = append(cands, lv) // the amount travels in a struct literal built at the call
							}
						}
						for _, a := range cands {
							if (a == v || sameCellValue(a, v)) && (instrDominates(s.Instr, at) || s.Instr.Block() == at.Block()) {
								return true
							}
						}
					}
					prm, isParam := v.(*ssa.Parameter)
					if !isParam || depth >= 2 {
						return false
					}
					idx := -1
					for i, q := range fn.Params {
						if q == prm {
							idx = i
						}
					}
					callers := cg.Callers[fn]
					if idx < 0 || len(callers) == 0 {
						return false
					}
					for _, cs := range callers {
						if cs.Common().IsInvoke() || idx >= len(cs.Common().Args) || !creditedAt(cs.Caller, cs.Common().Args[idx], cs.Instr, depth+1) {
							return false
						}
					}
					return true
				}
				ok := creditedAt(f, fs.Store.Val, fs.Store, 0)
				r.Check(ok, "C18.amount", construct, pos, "Amount is the very value credited to the state in the same iteration", "the event amount is not the value credited to the destination")
			case "WithdrawAvailable":
				x := intOfAmountString(fs.Store.Val)
				var inc ssa.Value
				for _, fs2 := range FieldStores(f) {
					if fs2.Field == "Withdrawn" {
						inc, _ = incrementOf(fs2)
					}
				}
				ok := x != nil && inc != nil && x == inc
				detail := "the event reports a value that is not the amount withdrawn from that pool"
				if x != nil {
					if _, isPhi := x.(*ssa.Phi); isPhi {
						detail += " (a loop-carried accumulator)"
					} else if c, isC := x.(*ssa.Call); isC && strings.HasSuffix(callName(c.Common()), "math.Int.Add") {
						detail += " (the running total)"
					}
				}
				r.Check(ok, "C18.amount", construct, pos, "Amount = String(per-pool value added to Withdrawn)", detail)
				if inc != nil {
					edges := EdgesWhere(f, func(base ssa.Value) (bool, bool) {
						c, isC := base.(*ssa.Call)
						if !isC {
							return false, false
						}
						n := callName(c.Common())
						a := c.Common().Args
						if strings.HasSuffix(n, "math.Int.IsPositive") && a[0] == inc {
							return true, true
						}
						if strings.HasSuffix(n, "math.Int.GT") && a[0] == inc && isZeroIntValue(a[1]) {
							return true, true
						}
						if strings.HasSuffix(n, "math.Int.IsZero") && a[0] == inc {
							return false, true
						}
						return false, false
					})
					r.Check(MustPass(f, edges, fs.Store.Block()), "C18.guard", construct+": only for pools that paid", pos, "recorded under a positivity test of the pool's own amount", "an event is recorded for a pool from which nothing was withdrawn")
					// the converse: a pool that paid is reported - assuming the pool's own amount positive, no live path of the
					// iteration goes round the event (a second condition in front of it, e.g. on the lock time, would leave a
					// withdrawal unreported)
					positive := func(base ssa.Value) (bool, bool) {
						c, isC := base.(*ssa.Call)
						if !isC {
							return false, false
						}
						n := callName(c.Common())
						a := c.Common().Args
						switch {
						case strings.HasSuffix(n, "math.Int.IsPositive") && a[0] == inc:
							return true, true
						case strings.HasSuffix(n, "math.Int.GT") && a[0] == inc && isZeroIntValue(a[1]):
							return true, true
						case strings.HasSuffix(n, "math.Int.IsZero") && a[0] == inc, strings.HasSuffix(n, "math.Int.IsNegative") && a[0] == inc:
							return false, true
						case strings.HasSuffix(n, "math.Int.LTE") && a[0] == inc && isZeroIntValue(a[1]), strings.HasSuffix(n, "math.Int.Equal") && a[0] == inc && isZeroIntValue(a[1]):
							return false, true
						}
						return false, false
					}
					live := ReachUnder(f, positive)
					evB := fs.Store.Block()
					loops := loopsAround(evB)
					if len(loops) > 0 {
						l := loops[len(loops)-1]
						round := ""
						seen := map[*ssa.BasicBlock]bool{}
						var stack []*ssa.BasicBlock
						for si, sc := range l.Header.Succs {
							if l.In[sc] && sc != l.Header && live.Edges[Edge{l.Header, si}] {
								stack = append(stack, sc)
							}
						}
						for len(stack) > 0 {
							b := stack[len(stack)-1]
							stack = stack[:len(stack)-1]
							if seen[b] || b == evB {
								continue
							}
							seen[b] = true
							for si, sc := range b.Succs {
								if !live.Edges[Edge{b, si}] {
									continue
								}
								if sc == l.Header {
									round = w.Pos(lastPos(b))
									continue
								}
								if l.In[sc] {
									stack = append(stack, sc)
								}
							}
						}
						r.Check(round == "", "C18.guard", construct+": every pool that paid is reported", pos, "with the pool's own amount positive no path of the iteration goes round the event", "a pool from which coins were withdrawn can go unreported: with a positive amount the iteration can still skip the event (next iteration reached from "+round+")")
					}
				}
			case "NewVestingAccountFromVestingPool":
				// the operation: the function that books Sent; the event may be built there or in a helper the operation
				// calls after the send (`k.recordVestingAccountFromPool(ctx, ..., amount, ...)`): the amount is then what the
				// operation hands in, and the call stands where the event stood
				type opSite struct {
					fn *ssa.Function
					x  ssa.Value
					at ssa.Instruction
				}
				var lift func(fn *ssa.Function, x ssa.Value, at ssa.Instruction, depth int) []opSite
				lift = func(fn *ssa.Function, x ssa.Value, at ssa.Instruction, depth int) []opSite {
					for _, fs2 := range FieldStores(fn) {
						if fs2.Field == "Sent" {
							return []opSite{{fn, x, at}}
						}
					}
					p, isP := x.(*ssa.Parameter)
					callers := cg.Callers[fn]
					if !isP || depth >= 2 || len(callers) == 0 {
						return []opSite{{fn, x, at}}
					}
					idx := paramIndex(fn, p)
					var out []opSite
					for _, cs := range callers {
						if cs.Common().IsInvoke() || cs.Static != fn || idx < 0 || idx >= len(cs.Common().Args) {
							return []opSite{{fn, x, at}}
						}
						out = append(out, lift(cs.Caller, cs.Common().Args[idx], cs.Instr, depth+1)...)
					}
					return out
				}
				okAmount, okGuard := true, true
				for _, o := range lift(f, intOfAmountString(fs.Store.Val), fs.Store, 0) {
					var inc ssa.Value
					for _, fs2 := range FieldStores(o.fn) {
						if fs2.Field == "Sent" {
							inc, _ = incrementOf(fs2)
						}
					}
					if o.x == nil || o.x != inc {
						okAmount = false
					}
					// emitted on success only
					var creates []ssa.Value
					for _, s := range cg.Sites[o.fn] {
						if calleeIs(s, "x/cfevesting/keeper.Keeper.newVestingAccount") {
							creates = append(creates, siteValue(s))
						}
					}
					if !(len(creates) > 0 && OnSuccessEdge(o.fn, o.at, creates...)) {
						okGuard = false
					}
				}
				r.Check(okAmount, "C18.amount", construct, pos, "Amount = String(value added to Sent)", "the event does not report the amount sent from the pool")
				r.Check(okGuard, "C18.guard", construct+": only on success", pos, "built on the nil edge of the account creation's error", "the event can be emitted although the send failed")
			case "NewVestingPool":
				x := intOfAmountString(fs.Store.Val)
				ok := false
				var create *Site
				for _, s := range cg.Sites[f] {
					if calleeIs(s, "x/cfevesting/keeper.Keeper.CreateVestingPool") {
						create = s
						for _, a := range s.Args() {
							if x != nil && (a == x || (loadOfField(a, "Amount", nil) && loadOfField(x, "Amount", nil) && rootParam(a) == rootParam(x))) {
								ok = true
							}
						}
					}
				}
				r.Check(ok, "C18.amount", construct, pos, "Amount = String(amount passed to pool creation)", "the event does not report the amount locked in the pool")
				r.Check(create != nil && OnSuccessEdge(f, fs.Store, siteValue(create)), "C18.guard", construct+": only on success", pos, "built on the nil edge of the creation's error", "the event can be emitted although pool creation failed")
			default:
				r.Unk("C18.amount", construct, pos, "event type with an Amount field that has no value-identity rule: add one")
			}
		}
	}
	for k := range withAmount {
		if !handled[k] {
			r.Bad("C18.amount", "event "+k+" has no constructed Amount", "", "an amount-carrying event is emitted but its Amount is never assigned in production code")
		}
	}
	// every distribution built for a sub-distributor is emitted
	r.Rule("C18.inflow", "P5,P6,P7", "= C14.sweep: the inflow whose distribution the events report is what really arrived - nothing is returned as swept after a failed transfer from a source (events for coins that never left the source do not add up to the sub-distributor's inflow)", 7)
	sweepRule(w, r, "C18.inflow")
	r.Rule("C18.maininflow", "P6", "= C03.inflow: the main-source inflow the events split is the current balance minus the current sum of all remains", 3)
	shareRule(w, r, checkC03, "C03.inflow", "C18.maininflow", nil)
	r.Rule("C18.emitall", "P5", "the distributor's block routine emits every Distribution returned for a sub-distributor (every iteration of the loop over the full slice) and the burn event whenever one was built", 2)
	if bb := w.Func("x/cfedistributor.BeginBlocker"); bb != nil {
		// the call that builds the events is looked for in the block routine and in its helpers
		var sdpE *EffSite
		for _, e := range w.effectsBelow(bb, func(s *Site) bool {
			return calleeIs(s, "x/cfedistributor/keeper.Keeper.StartDistributionProcess")
		}, 2) {
			e := e
			sdpE = &e
		}
		okLoop, okBurn := false, false
		if sdpE != nil {
			sdp := siteCall(sdpE.Site)
			var dists, burn ssa.Value
			for _, ref := range *sdp.Referrers() {
				if ex, ok := ref.(*ssa.Extract); ok {
					switch ex.Index {
					case 1:
						dists = ex
					case 2:
						burn = ex
					}
				}
			}
			// emitsIn: the block contains an emission - the SDK call itself or a call of a module helper that emits on
			// every path to its return
			var alwaysEmits func(h *ssa.Function, depth int) bool
			emitsIn := func(b *ssa.BasicBlock, depth int) bool {
				for _, in := range b.Instrs {
					c, ok := in.(*ssa.Call)
					if !ok {
						continue
					}
					if strings.HasSuffix(callName(c.Common()), "EventManager.EmitTypedEvent") {
						return true
					}
					if h := c.Common().StaticCallee(); h != nil && h.Blocks != nil && w.isProdFunc(h) && depth < 3 && alwaysEmits(h, depth+1) {
						return true
					}
				}
				return false
			}
			alwaysEmits = func(h *ssa.Function, depth int) bool {
				return funcMustPass(h, func(b *ssa.BasicBlock) bool { return emitsIn(b, depth) })
			}
			// valuesWhere: the parameters and instruction values of fn that satisfy pred
			valuesWhere := func(fn *ssa.Function, pred func(ssa.Value) bool) []ssa.Value {
				var out []ssa.Value
				for _, p := range fn.Params {
					if pred(p) {
						out = append(out, p)
					}
				}
				for _, b := range fn.Blocks {
					for _, in := range b.Instrs {
						if v, ok := in.(ssa.Value); ok && pred(v) {
							out = append(out, v)
						}
					}
				}
				return out
			}
			// emitCallOf: the calls in fn that emit a value satisfying isV (directly or through an always-emitting helper)
			emitCallOf := func(fn *ssa.Function, isV func(ssa.Value) bool) []*ssa.Call {
				var out []*ssa.Call
				for _, b := range fn.Blocks {
					for _, in := range b.Instrs {
						c, ok := in.(*ssa.Call)
						if !ok {
							continue
						}
						hasV := false
						for _, a := range c.Common().Args {
							if isV(a) {
								hasV = true
							}
							if mi, ok := a.(*ssa.MakeInterface); ok && isV(mi.X) {
								hasV = true
							}
						}
						if !hasV {
							continue
						}
						if strings.HasSuffix(callName(c.Common()), "EventManager.EmitTypedEvent") {
							out = append(out, c)
						} else if h := c.Common().StaticCallee(); h != nil && h.Blocks != nil && w.isProdFunc(h) && alwaysEmits(h, 1) {
							out = append(out, c)
						}
					}
				}
				return out
			}
			never := func(ssa.Value) bool { return false }
			var analyseP func(fn *ssa.Function, isD, isB func(ssa.Value) bool, from *ssa.BasicBlock, depth int) (bool, bool)
			analyseP = func(fn *ssa.Function, isD, isB func(ssa.Value) bool, from *ssa.BasicBlock, depth int) (bool, bool) {
				okL, okB := false, false
				for _, l := range rangeLoops(fn) {
					if l.Over != nil && isD(l.Over) {
						okL = loopEarlyExit(l) == nil && loopBodyMustPass(l, func(b *ssa.BasicBlock) bool { return emitsIn(b, 0) }) && mustFollow(from, l.Header)
					}
				}
				// burn: emitted on the non-nil edge, and nothing else decides
				burnVals := map[ssa.Value]bool{}
				for _, v := range valuesWhere(fn, isB) {
					burnVals[v] = true
				}
				if len(burnVals) > 0 {
					for _, c := range emitCallOf(fn, isB) {
						edges := NilEdges(fn, burnVals, false)
						for _, e := range edges {
							// the emit block is exactly the non-nil successor (no further condition), and the test is always reached
							if (e.To() == c.Block() || e.To().Dominates(c.Block()) && len(e.To().Succs) <= 1) && mustFollow(from, e.From) {
								okB = true
							}
						}
					}
				}
				if (okL && okB) || depth >= 3 {
					return okL, okB
				}
				// the emission may be a helper that is handed the distributions and the burn (as arguments or inside a small
				// struct built at the call), called unconditionally
				for _, cs := range cg.Sites[fn] {
					h := cs.Common().StaticCallee()
					call, isCall := cs.Instr.(*ssa.Call)
					if h == nil || !isCall || h.Blocks == nil || !w.isProdFunc(h) || cs.Common().IsInvoke() {
						continue
					}
					carriesD, carriesB := false, false
					for _, a := range flatArgs(cs) {
						if isD(a) {
							carriesD = true
						}
						if isB(a) {
							carriesB = true
						}
					}
					if !carriesD && !carriesB {
						continue
					}
					if !mustFollow(from, cs.Instr.Block()) {
						continue
					}
					bind := bindParams(h, call)
					isD2, isB2 := never, never
					if carriesD {
						isD2 = func(v ssa.Value) bool { tv := translateValue(v, bind, 0); return tv != v && isD(tv) }
					}
					if carriesB {
						isB2 = func(v ssa.Value) bool { tv := translateValue(v, bind, 0); return tv != v && isB(tv) }
					}
					l2, b2 := analyseP(h, isD2, isB2, h.Blocks[0], depth+1)
					okL = okL || (carriesD && l2)
					okB = okB || (carriesB && b2)
				}
				return okL, okB
			}
			analyse := func(fn *ssa.Function, dists, burn ssa.Value, from *ssa.BasicBlock, depth int) (bool, bool) {
				isD, isB := never, never
				if dists != nil {
					isD = func(v ssa.Value) bool { return v == dists }
				}
				if burn != nil {
					isB = func(v ssa.Value) bool { return v == burn }
				}
				return analyseP(fn, isD, isB, from, depth)
			}
			okLoop, okBurn = analyse(sdpE.Site.Caller, dists, burn, sdp.Block(), 0)
			// the events may be handed UP: the function that calls the distribution routine returns them (nil where
			// nothing was distributed) and its caller emits them
			curFn, curD, curB := sdpE.Site.Caller, dists, burn
			for lvl := len(sdpE.Chain) - 1; lvl >= 0 && !(okLoop && okBurn); lvl-- {
				di, bi := -1, -1
				clean := true
				for _, ret := range Returns(curFn) {
					rv := retVals(ret)
					for idx, v := range rv {
						if v == curD && curD != nil {
							di = idx
						}
						if v == curB && curB != nil {
							bi = idx
						}
					}
				}
				for _, ret := range Returns(curFn) {
					rv := retVals(ret)
					for _, idx := range []int{di, bi} {
						if idx < 0 || idx >= len(rv) {
							continue
						}
						if v := rv[idx]; v != curD && v != curB && !isNilConst(v) {
							clean = false // something else than the events (or nothing) is returned in their place
						}
					}
				}
				up := sdpE.Chain[lvl]
				call, isCall := up.Instr.(*ssa.Call)
				if !clean || !isCall || (di < 0 && bi < 0) || call.Referrers() == nil {
					break
				}
				var nd, nb ssa.Value
				for _, ref := range *call.Referrers() {
					if ex, ok := ref.(*ssa.Extract); ok {
						if ex.Index == di {
							nd = ex
						}
						if ex.Index == bi {
							nb = ex
						}
					}
				}
				l2, b2 := analyse(up.Caller, nd, nb, call.Block(), 0)
				okLoop = okLoop || (nd != nil && l2)
				okBurn = okBurn || (nb != nil && b2)
				curFn, curD, curB = up.Caller, nd, nb
			}
			// the function holding the call is itself reached unconditionally from the loop over the sub-distributors: its
			// chain calls are not inside a branch that depends on the events (nothing to check: the events do not exist yet)
		}
		r.Check(okLoop, "C18.emitall", "every Distribution of the sub-distributor is emitted", w.Pos(bb.Pos()), "range over the full slice returned by StartDistributionProcess, emit on every iteration", "some distribution events are not emitted: a block's events would not add up to the inflow")
		r.Check(okBurn, "C18.emitall", "the DistributionBurn is emitted whenever it was built", w.Pos(bb.Pos()), "emitted on the burn != nil edge", "the burn event can be dropped")
	} else {
		r.Unk("infra.anchor", "x/cfedistributor.BeginBlocker", "", "anchor not found")
	}
	// mint event only after a successful Mint: the emission and the call of Mint are looked for in the block routine and
	// its helpers; on every path the failure of Mint ends the block (C01.abort) before the emission can run
	if bb := w.Func("x/cfeminter.BeginBlocker"); bb != nil {
		isMint := func(s *Site) bool { return calleeIs(s, "x/cfeminter/keeper.Keeper.Mint") }
		effs := w.effectsBelow(bb, func(s *Site) bool { return isMint(s) || cg.Atom(s) == EventEmit }, 2)
		var mints, emits []EffSite
		for _, e := range effs {
			if isMint(e.Site) {
				mints = append(mints, e)
			} else {
				emits = append(emits, e)
			}
		}
		for _, e := range emits {
			ok := len(mints) == 1 && effDominates(mints[0], e)
			if ok {
				// the failure edge of Mint never continues: in the function that calls Mint every failing edge ends in
				// a panic / error return; when that function is a helper its error result (if any) is checked likewise
				m := mints[0]
				fn := m.Site.Caller
				ev := errValues(fn, siteValue(m.Site))
				fail := NilEdges(fn, ev, false)
				if len(fail) == 0 {
					ok = false
				}
				for _, fe := range fail {
					if !FailsFrom(fe.To()) {
						ok = false
					}
				}
				if len(m.Chain) > 0 && ok {
					// the helper must not return normally on the failure edge with a swallowed error: FailsFrom demands a
					// panic or a non-nil error return; a returned error must fail in the caller too
					for lvl := len(m.Chain) - 1; lvl >= 0; lvl-- {
						cs := m.Chain[lvl]
						cev := errValues(cs.Caller, siteValue(cs))
						if len(cev) == 0 {
							continue // the helper has no error result: it can only have panicked
						}
						cf := NilEdges(cs.Caller, cev, false)
						if len(cf) == 0 {
							ok = false
						}
						for _, fe := range cf {
							if !FailsFrom(fe.To()) {
								ok = false
							}
						}
					}
				}
			}
			r.Check(ok, "C18.guard", "Mint event only after Keeper.Mint succeeded", w.Pos(e.Site.Instr.Pos()), "Mint precedes the emission and its failure edge ends the block", "the mint event can be emitted although minting failed")
		}
	}
}

// funcMustPass: every path from the entry of fn to a return passes a block satisfying has (paths that end in a
// panic are not counted).
func funcMustPass(fn *ssa.Function, has func(*ssa.BasicBlock) bool) bool {
	if len(fn.Blocks) == 0 {
		return false
	}
	seen := map[*ssa.BasicBlock]bool{}
	stack := []*ssa.BasicBlock{fn.Blocks[0]}
	for len(stack) > 0 {
		b := stack[len(stack)-1]
		stack = stack[:len(stack)-1]
		if seen[b] || b == fn.Recover {
			continue
		}
		seen[b] = true
		if has(b) {
			continue
		}
		if len(b.Instrs) > 0 {
			if _, isRet := b.Instrs[len(b.Instrs)-1].(*ssa.Return); isRet {
				return false
			}
		}
		stack = append(stack, b.Succs...)
	}
	return true
}

// mustFollow: once block `from` has executed, block `target` executes before the function returns and before `from`
// executes again (target == from counts).
func mustFollow(from, target *ssa.BasicBlock) bool {
	if from == target {
		return true
	}
	seen := map[*ssa.BasicBlock]bool{}
	stack := append([]*ssa.BasicBlock{}, from.Succs...)
	for len(stack) > 0 {
		b := stack[len(stack)-1]
		stack = stack[:len(stack)-1]
		if b == target || seen[b] {
			continue
		}
		if b == from {
			return false
		}
		seen[b] = true
		if len(b.Instrs) > 0 {
			if _, isRet := b.Instrs[len(b.Instrs)-1].(*ssa.Return); isRet {
				return false
			}
		}
		stack = append(stack, b.Succs...)
	}
	return true
}

// paramIndex: the position of p among fn's parameters (-1 when it is not one of them).
func paramIndex(fn *ssa.Function, p *ssa.Parameter) int {
	for i, q := range fn.Params {
		if q == p {
			return i
		}
	}
	return -1
}
