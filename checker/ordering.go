package main

import (
	"go/constant"
	"go/token"
	"go/types"
	"strings"

	"golang.org/x/tools/go/ssa"
)

// CondFn evaluates a NOT-stripped branch condition under an abstract assumption (P7).
type CondFn func(base ssa.Value) (val bool, known bool)

// Live is the result of exploring a function's CFG under an abstract assumption: every condition the
// assumption decides is followed on one side only, every other condition on both sides.
type Live struct {
	Blocks map[*ssa.BasicBlock]bool
	Edges  map[Edge]bool
	evalc  func(base ssa.Value, depth int) (bool, bool)
}

// EvalBool decides a boolean value of the explored function under the assumption (after exploration).
func (l *Live) EvalBool(v ssa.Value) (bool, bool) {
	if l.evalc == nil {
		return false, false
	}
	base, neg := stripNot(v)
	val, known := l.evalc(base, 0)
	if neg {
		val = !val
	}
	return val, known
}

func ReachUnder(fn *ssa.Function, eval CondFn) *Live { return reachUnderD(fn, eval, 0) }

// evalBoolHelper decides a call of a bool-returning module helper under the assumption: the helper is explored with
// its parameters bound to the call's arguments (values translated into the caller's terms, ssafab.go); the call is
// decided when every live return carries the same decided value. Two helper levels at most.
func evalBoolHelper(c *ssa.Call, eval CondFn, hdepth int) (bool, bool) {
	if hdepth >= 2 {
		return false, false
	}
	fn := boolHelper(c)
	if fn == nil {
		return false, false
	}
	bind := bindParams(fn, c)
	lifted := func(base ssa.Value) (bool, bool) { return eval(translateValue(base, bind, 0)) }
	live := reachUnderD(fn, lifted, hdepth+1)
	first, have := false, false
	for _, v := range live.LiveReturns(fn, 0) {
		val, known := live.EvalBool(v)
		if !known || (have && val != first) {
			return false, false
		}
		first, have = val, true
	}
	return first, have
}

// evalErrHelper: is the error value (the result of a call of a module helper) nil under the assumption? The helper is
// explored with its parameters bound to the call's arguments; decided when every live return agrees.
func evalErrHelper(ev ssa.Value, eval CondFn, hdepth int) (isNil bool, known bool) {
	if hdepth >= 2 {
		return false, false
	}
	var c *ssa.Call
	switch y := ev.(type) {
	case *ssa.Call:
		c = y
	case *ssa.Extract:
		c, _ = y.Tuple.(*ssa.Call)
		if c != nil {
			if tup, ok := c.Type().(*types.Tuple); !ok || y.Index != tup.Len()-1 {
				return false, false
			}
		}
	}
	if c == nil || c.Common().IsInvoke() {
		return false, false
	}
	fn := c.Common().StaticCallee()
	if fn == nil || len(fn.Blocks) == 0 || fn.Pkg == nil || fn.Pkg.Pkg == nil || !strings.HasPrefix(fn.Pkg.Pkg.Path(), modPath) {
		return false, false
	}
	bind := bindParams(fn, c)
	lifted := func(base ssa.Value) (bool, bool) { return eval(translateValue(base, bind, 0)) }
	live := reachUnderD(fn, lifted, hdepth+1)
	nNil, nErr := 0, 0
	for _, ret := range Returns(fn) {
		if !live.Blocks[ret.Block()] {
			continue
		}
		rv := retVals(ret)
		if len(rv) == 0 {
			return false, false
		}
		for _, v := range live.LiveValues(rv[len(rv)-1]) {
			switch {
			case isNilConst(v):
				nNil++
			case nonNilAt(v, ret.Block(), 0):
				nErr++
			default:
				// the error of a helper one level further down
				in, k := evalErrHelper(v, lifted, hdepth+1)
				if !k {
					return false, false
				}
				if in {
					nNil++
				} else {
					nErr++
				}
			}
		}
	}
	if nNil > 0 && nErr == 0 {
		return true, true
	}
	if nErr > 0 && nNil == 0 {
		return false, true
	}
	return false, false
}

func reachUnderD(fn *ssa.Function, eval CondFn, hdepth int) *Live {
	l := &Live{Blocks: map[*ssa.BasicBlock]bool{}, Edges: map[Edge]bool{}}
	if len(fn.Blocks) == 0 {
		return l
	}
	// evalCond decides a (NOT-stripped) condition: directly, or - for a boolean phi (short-circuit && / ||, switch
	// cases) - when every incoming edge that is live so far carries the same decided value.
	var evalCond func(base ssa.Value, depth int) (bool, bool)
	evalCond = func(base ssa.Value, depth int) (bool, bool) {
		if v, known := eval(base); known {
			return v, true
		}
		if depth > 4 {
			return false, false
		}
		switch x := base.(type) {
		case *ssa.Const:
			if x.Value != nil && x.Value.Kind() == constant.Bool {
				return constant.BoolVal(x.Value), true
			}
		case *ssa.UnOp:
			if x.Op == token.NOT {
				if v, known := evalCond(x.X, depth+1); known {
					return !v, true
				}
			}
		case *ssa.Call:
			return evalBoolHelper(x, eval, hdepth)
		case *ssa.BinOp:
			// `err != nil` where err is the error of a module helper: decided when, under the assumption translated into
			// the helper, every live return of the helper is a failure (or every one is nil)
			if (x.Op == token.EQL || x.Op == token.NEQ) && (isNilConst(x.X) || isNilConst(x.Y)) {
				ev := x.X
				if isNilConst(x.X) {
					ev = x.Y
				}
				if isErrorType(ev.Type()) {
					if isNil, known := evalErrHelper(ev, eval, hdepth); known {
						return isNil == (x.Op == token.EQL), true
					}
				}
			}
		case *ssa.Phi:
			first, have := false, false
			for i, e := range x.Edges {
				if !l.PredLive(x.Block(), i) {
					continue
				}
				v, known := evalCond(e, depth+1)
				if !known {
					return false, false
				}
				if have && v != first {
					return false, false
				}
				first, have = v, true
			}
			if have {
				return first, true
			}
		}
		return false, false
	}
	l.evalc = evalCond
	// liveness only grows; iterate until no edge is added (a phi condition decided on the edges seen so far may
	// become undecided when another incoming edge turns out to be live)
	for {
		before := len(l.Edges)
		seen := map[*ssa.BasicBlock]bool{fn.Blocks[0]: true}
		stack := []*ssa.BasicBlock{fn.Blocks[0]}
		l.Blocks[fn.Blocks[0]] = true
		for len(stack) > 0 {
			b := stack[len(stack)-1]
			stack = stack[:len(stack)-1]
			take := func(i int) {
				l.Edges[Edge{b, i}] = true
				s := b.Succs[i]
				l.Blocks[s] = true
				if !seen[s] {
					seen[s] = true
					stack = append(stack, s)
				}
			}
			decided := false
			if i := blockIf(b); i != nil {
				base, neg := stripNot(i.Cond)
				if v, known := evalCond(base, 0); known {
					if neg {
						v = !v
					}
					if v {
						take(0)
					} else {
						take(1)
					}
					decided = true
				}
			}
			// edges taken in an earlier round stay taken
			for i := range b.Succs {
				if !decided || l.Edges[Edge{b, i}] {
					take(i)
				}
			}
		}
		if len(l.Edges) == before {
			break
		}
	}
	return l
}

// PredLive reports whether the edge from the i-th predecessor of b into b is live.
func (l *Live) PredLive(b *ssa.BasicBlock, i int) bool {
	pred := b.Preds[i]
	for si, s := range pred.Succs {
		if s == b && l.Edges[Edge{pred, si}] {
			return true
		}
	}
	return false
}

// LiveValues expands phis along live edges only and returns the non-phi values v may take.
func (l *Live) LiveValues(v ssa.Value) []ssa.Value {
	var out []ssa.Value
	seen := map[ssa.Value]bool{}
	var walk func(x ssa.Value)
	walk = func(x ssa.Value) {
		if seen[x] {
			return
		}
		seen[x] = true
		if phi, ok := x.(*ssa.Phi); ok {
			b := phi.Block()
			for i, e := range phi.Edges {
				pred := b.Preds[i]
				// the edge pred->b must be live
				liveEdge := false
				for si, s := range pred.Succs {
					if s == b && l.Edges[Edge{pred, si}] {
						liveEdge = true
					}
				}
				if liveEdge {
					walk(e)
				}
			}
			return
		}
		out = append(out, x)
	}
	walk(v)
	return out
}

// LiveReturns lists the results (#idx) of the live returns, phis expanded along live edges.
func (l *Live) LiveReturns(fn *ssa.Function, idx int) []ssa.Value {
	var out []ssa.Value
	for _, r := range Returns(fn) {
		if !l.Blocks[r.Block()] {
			continue
		}
		rv := retVals(r)
		if idx < len(rv) {
			out = append(out, l.LiveValues(rv[idx])...)
		}
	}
	return out
}

// LiveInstr reports whether the instruction's block is live.
func (l *Live) LiveInstr(in ssa.Instruction) bool { return l.Blocks[in.Block()] }

// OrderEval builds a CondFn from a term naming function and a comparison oracle.
// termOf maps an SSA value to a term name ("" = not a term). cmp returns sign(a-b) for two terms.
// Recognised atoms: time.Time.Before/After/Equal, math.Int / sdk.Dec LT/LTE/GT/GTE/Equal,
// integer comparisons, and `p == nil` for terms registered as pointer terms via nilOf.
func OrderEval(termOf func(ssa.Value) string, cmp func(a, b string) (int, bool), nilOf func(term string) (isNil bool, known bool)) CondFn {
	return func(base ssa.Value) (bool, bool) {
		switch x := base.(type) {
		case *ssa.Call:
			cc := x.Common()
			fn := cc.StaticCallee()
			if fn == nil || len(cc.Args) != 2 {
				return false, false
			}
			q := qualifiedFuncName(fn)
			a, b := termOf(cc.Args[0]), termOf(cc.Args[1])
			if a == "" || b == "" {
				return false, false
			}
			s, ok := cmp(a, b)
			if !ok {
				return false, false
			}
			switch {
			case q == "time.Time.Before" || hasSuffixAny(q, "math.Int.LT", "types.Dec.LT"):
				return s < 0, true
			case q == "time.Time.After" || hasSuffixAny(q, "math.Int.GT", "types.Dec.GT"):
				return s > 0, true
			case q == "time.Time.Equal" || hasSuffixAny(q, "math.Int.Equal", "types.Dec.Equal"):
				return s == 0, true
			case hasSuffixAny(q, "math.Int.LTE", "types.Dec.LTE"):
				return s <= 0, true
			case hasSuffixAny(q, "math.Int.GTE", "types.Dec.GTE"):
				return s >= 0, true
			}
		case *ssa.BinOp:
			if nilOf != nil && (x.Op == token.EQL || x.Op == token.NEQ) {
				var t string
				if isNilConst(x.Y) {
					t = termOf(x.X)
				} else if isNilConst(x.X) {
					t = termOf(x.Y)
				}
				if t != "" {
					if isNil, known := nilOf(t); known {
						if x.Op == token.EQL {
							return isNil, true
						}
						return !isNil, true
					}
				}
			}
			a, b := termOf(x.X), termOf(x.Y)
			if a == "" || b == "" {
				return false, false
			}
			s, ok := cmp(a, b)
			if !ok {
				return false, false
			}
			switch x.Op {
			case token.LSS:
				return s < 0, true
			case token.GTR:
				return s > 0, true
			case token.LEQ:
				return s <= 0, true
			case token.GEQ:
				return s >= 0, true
			case token.EQL:
				return s == 0, true
			case token.NEQ:
				return s != 0, true
			}
		}
		return false, false
	}
}

// twoTermCmp returns a comparison oracle for two terms a,b with sign(a-b)=s.
func twoTermCmp(a, b string, s int) func(x, y string) (int, bool) {
	return func(x, y string) (int, bool) {
		switch {
		case x == a && y == b:
			return s, true
		case x == b && y == a:
			return -s, true
		case x == y:
			return 0, true
		}
		return 0, false
	}
}

var orderNames = map[int]string{-1: "before", 0: "equal", 1: "after"}

// isCallTo reports whether v is a call (or conversion of a call) to a function whose qualified name ends with suffix.
func isCallTo(v ssa.Value, suffix string) (*ssa.Call, bool) {
	for {
		switch x := v.(type) {
		case *ssa.ChangeType:
			v = x.X
			continue
		case *ssa.Convert:
			v = x.X
			continue
		}
		break
	}
	c, ok := v.(*ssa.Call)
	if !ok {
		return nil, false
	}
	if strings.HasSuffix(callName(c.Common()), suffix) {
		return c, true
	}
	return nil, false
}

// loadOfField reports whether v is a load of field `field` (by name) from a base satisfying basePred.
func loadOfField(v ssa.Value, field string, basePred func(ssa.Value) bool) bool {
	switch x := v.(type) {
	case *ssa.UnOp:
		if x.Op != token.MUL {
			return false
		}
		fa, ok := x.X.(*ssa.FieldAddr)
		if !ok {
			return false
		}
		_, f := fieldOf(fa)
		if f != field {
			return false
		}
		return basePred == nil || basePred(fa.X)
	case *ssa.Field:
		el := fieldElem(x.X.Type(), x.Field)
		if !strings.HasSuffix(el, "."+field) {
			return false
		}
		return basePred == nil || basePred(x.X)
	}
	return false
}

// baseIsParam: the base pointer/struct is (a spill of) the named parameter.
func baseIsParam(name string) func(ssa.Value) bool {
	return func(b ssa.Value) bool {
		return rootParam(b) == name
	}
}

// rootParam follows a base value back to a parameter name through spills, loads and field selections.
func rootParam(b ssa.Value) string {
	for i := 0; i < 10; i++ {
		switch x := b.(type) {
		case *ssa.Parameter:
			return x.Name()
		case *ssa.Alloc:
			// spill of a parameter: single store of a Parameter
			var p *ssa.Parameter
			n := 0
			for _, ref := range *x.Referrers() {
				if s, ok := ref.(*ssa.Store); ok && s.Addr == x {
					n++
					p, _ = s.Val.(*ssa.Parameter)
				}
			}
			if n == 1 && p != nil {
				return p.Name()
			}
			return ""
		case *ssa.UnOp:
			if x.Op == token.MUL {
				b = x.X
				continue
			}
			return ""
		case *ssa.FieldAddr:
			b = x.X
			continue
		case *ssa.Field:
			b = x.X
			continue
		}
		return ""
	}
	return ""
}

// ---- constants by construction (mode flags in option structs) ----

// constOfValue resolves v to a constant when it is one by construction: a constant, a conversion of one, or a field of
// a composite-literal local (a struct built in place and only read afterwards) that is assigned one constant - the
// zero value when the literal does not mention the field.
func constOfValue(v ssa.Value, depth int) (constant.Value, bool) {
	if depth > 6 || v == nil {
		return nil, false
	}
	switch x := v.(type) {
	case *ssa.Const:
		if x.Value == nil {
			return nil, false
		}
		return x.Value, true
	case *ssa.Convert:
		return constOfValue(x.X, depth+1)
	case *ssa.ChangeType:
		return constOfValue(x.X, depth+1)
	case *ssa.Field:
		if u, ok := x.X.(*ssa.UnOp); ok && u.Op == token.MUL {
			if al, ok := u.X.(*ssa.Alloc); ok {
				return literalFieldConst(al, x.Field)
			}
		}
	case *ssa.UnOp:
		if x.Op == token.MUL {
			if fa, ok := x.X.(*ssa.FieldAddr); ok {
				if al, ok := fa.X.(*ssa.Alloc); ok {
					return literalFieldConst(al, fa.Field)
				}
			}
		}
	}
	return nil, false
}

func literalFieldConst(al *ssa.Alloc, field int) (constant.Value, bool) {
	if al.Referrers() == nil {
		return nil, false
	}
	st, ok := al.Type().Underlying().(*types.Pointer).Elem().Underlying().(*types.Struct)
	if !ok || field >= st.NumFields() {
		return nil, false
	}
	var val constant.Value
	n := 0
	for _, ref := range *al.Referrers() {
		switch r := ref.(type) {
		case *ssa.FieldAddr:
			if r.Referrers() == nil {
				continue
			}
			for _, r2 := range *r.Referrers() {
				switch y := r2.(type) {
				case *ssa.Store:
					if y.Addr != ssa.Value(r) {
						return nil, false // the field's address is stored somewhere
					}
					if r.Field == field {
						c, isC := y.Val.(*ssa.Const)
						if !isC || c.Value == nil {
							return nil, false
						}
						val = c.Value
						n++
					}
				case *ssa.UnOp:
				case *ssa.DebugRef:
				default:
					return nil, false
				}
			}
		case *ssa.UnOp:
			if r.Op != token.MUL {
				return nil, false
			}
		case *ssa.DebugRef:
		default:
			return nil, false // the struct's address escapes
		}
	}
	switch n {
	case 1:
		return val, true
	case 0:
		b, isBasic := st.Field(field).Type().Underlying().(*types.Basic)
		if !isBasic {
			return nil, false
		}
		switch {
		case b.Info()&types.IsInteger != 0:
			return constant.MakeInt64(0), true
		case b.Info()&types.IsBoolean != 0:
			return constant.MakeBool(false), true
		case b.Info()&types.IsString != 0:
			return constant.MakeString(""), true
		}
	}
	return nil, false
}

// ConstEval decides comparisons between constants-by-construction (and a bare boolean one).
func ConstEval(base ssa.Value) (bool, bool) {
	if bo, ok := base.(*ssa.BinOp); ok {
		switch bo.Op {
		case token.EQL, token.NEQ, token.LSS, token.LEQ, token.GTR, token.GEQ:
			x, okx := constOfValue(bo.X, 0)
			y, oky := constOfValue(bo.Y, 0)
			if okx && oky && x.Kind() == y.Kind() && x.Kind() != constant.Unknown {
				return constant.Compare(x, bo.Op, y), true
			}
		}
		return false, false
	}
	if c, ok := constOfValue(base, 0); ok && c.Kind() == constant.Bool {
		return constant.BoolVal(c), true
	}
	return false, false
}

// EvalAlong translates an evaluator of the chain's root function into the function the chain leads to.
func EvalAlong(eval CondFn, chain []*Site) CondFn {
	cur := eval
	for _, c := range chain {
		cur = liftEval(cur, c.Static, c.Instr)
	}
	return cur
}
