package main

import "golang.org/x/tools/go/ssa"

func init() { register("C20", checkC20) }

// Vetted residuals of the message / ValidateBasic / query inventory (g4), closed table.
var c20Vetted = map[string]string{
	"coinsub @ x/cfevesting/keeper.Keeper.UnlockUnbondedContinuousVestingAccountCoins : sdk/types.Coins.Sub":    "OriginalVesting minus amount*OV/vesting (truncated): amount <= locked <= vesting by the IsAllLTE guard, so the difference is <= OV (numeric part of C07)",
	"coinsub @ x/cfevesting/keeper.Keeper.UnlockUnbondedContinuousVestingAccountCoins : sdk/types.Coins.Sub #2": "the one-unit compensation is subtracted only when less than the requested amount was unlocked, which implies OriginalVesting is still positive (numeric part of C07)",
	"index @ x/cfeminter/types.Params.validateMintersEndTimeValue : index []*x/cfeminter/types.Minter":           "index i-1 under 0 < i < lastPos, i being the caller's range-loop index over the same slice",
	"index @ x/cfeminter/types.Params.validateMintersEndTimeValue : index []*x/cfeminter/types.Minter #2":        "same position (second comparison)",
	"index @ x/cfeminter/types.Params.validateMintersEndTimeValue : index []*x/cfeminter/types.Minter #3":        "same position (error message)",
	"int64 @ x/cfevesting/keeper.Keeper.WithdrawAllAvailable$1 : math.Int.Int64":                                 "the deferred gauge is registered only under toWithdraw.IsInt64(); the named result it reads is NewCoin(denom, toWithdraw) on the only return that follows",
	"newcoin @ x/cfevesting/keeper.Keeper.UnlockUnbondedContinuousVestingAccountCoins : sdk/types.NewCoin":       "amount = truncated quotient of non-negative quantities (numeric part of C07); denomination is that of a validated coin",
	"newcoin @ x/cfevesting/keeper.Keeper.WithdrawAllAvailable : sdk/types.NewCoin #2":                           "sum of GetCurrentlyLocked of matured pools: non-negative by the pool ledger invariant (C05: withdrawn+sent <= initially locked)",
	"newcoin @ x/cfevesting/keeper.Keeper.newVestingAccount : sdk/types.NewCoin #2":                              "amount*(1-free) truncated with 0 <= free <= 1 (vesting-type validation) and amount validated non-negative",
	"panic @ x/cfeminter/keeper.Keeper.GetMinterState : panic(\"stored minter state should not have bee...)":     "the minter state key is written by InitGenesis and never deleted",
	"quo @ x/cfeminter/types.LinearMinting.CalculateInflation : sdk/types.Dec.QuoInt64":                          "divisor = period length in ns; validation orders end strictly after start",
	"quo @ x/cfevesting/keeper.Keeper.UnlockUnbondedContinuousVestingAccountCoins : sdk/types.Dec.Quo":           "divisor = still-vesting amount of the denomination; under coin.Amount > 0 and amount <= locked <= vesting it is positive",
}

func checkC20(w *World, r *Report) {
	ro := w.Roles()
	r.Rule("C20.inventory", "P4,P5,P9", "every panic-capable operation reachable from a message handler, ValidateBasic or query handler is discharged (g1..g5)", 60)
	if !ro.checkFloors(r) {
		return
	}
	iv := newInv(w, r, "C20.inventory", c20Vetted)
	roots := append(append(append([]*ssa.Function{}, flatten(ro.MSG)...), flatten(ro.VB)...), flatten(ro.QRY)...)
	iv.Run(roots, "MSG+VB+QRY")
	iv.Finish()
}
