package main

import (
	"fmt"
	"go/token"
	"go/types"
	"strings"

	"golang.org/x/tools/go/ssa"
)

func init() { register("C20", checkC20) }

// Vetted residuals of the message / ValidateBasic / query inventory (g4), closed table.
var c20Vetted = map[string]string{
	"index @ x/cfeminter/types.Params.validateMintersEndTimeValue : index []*x/cfeminter/types.Minter":       "index i-1 under 0 < i < lastPos, i being the caller's range-loop index over the same slice",
	"index @ x/cfeminter/types.Params.validateMintersEndTimeValue : index []*x/cfeminter/types.Minter #2":    "same position (second comparison)",
	"index @ x/cfeminter/types.Params.validateMintersEndTimeValue : index []*x/cfeminter/types.Minter #3":    "same position (error message)",
	"panic @ x/cfeminter/keeper.Keeper.GetMinterState : panic(\"stored minter state should not have bee...)": "the minter state key is written by InitGenesis and never deleted",
}

// Vetted non-local nil guards (C20.nilfield), closed table.
var c20VettedNil = map[string]string{
	"*time.Time @ x/cfeminter/types.Params.validateMintersEndTimeValue : dereference": "EndTime of a non-last period: validateEndTimeExistance, called just before in the same loop iteration, returns an error when EndTime is nil and the position is below lastPos; both dereferencing branches require position < lastPos",
	// " : *" = whatever the use is (field read, dereference, method call): the argument is about the value, not the use
	"*x/cfedistributor/types.Account @ x/cfedistributor/types.getId : *":                                                          "accounts reach the ordering validation only after SubDistributor.Validate / Destinations.Validate ran over every sub-distributor (first loop of validateSubDistributors) and rejected nil sources",
	"*x/cfedistributor/types.Account @ x/cfedistributor/types.setOccurrence : *":                                                  "same argument",
	"*x/cfedistributor/types.DestinationShare @ x/cfedistributor/types.validateDestinationsShares : *":                            "shares were nil-checked by Destinations.Validate for every sub-distributor before ValidateSubDistributors runs",
	"sdk/types.Dec @ x/cfedistributor/types.Destinations.CheckIfSharesSumIsBetween0And1 : argument of Add (possibly-nil Int/Dec)": "argument share.Share: each share passed DestinationShare.validate (which rejects a nil Share) in the loop of Destinations.Validate that precedes this call",
}

var nilableResultAPIs = []string{"AccountKeeper.GetAccount", "AccountI.GetPubKey", "encoding/pem.Decode", "AccountKeeper.GetModuleAccount"}

func checkC20(w *World, r *Report) {
	ro := w.Roles()
	cg := w.CG()
	r.Undecided = []string{
		"panics inside the SDK / standard library on arguments that satisfy their documented preconditions (trusted)",
		"resource exhaustion (unbounded JSON, very long slices)",
		"the numeric facts behind the vetted sites of the vesting split arithmetic (C07)",
	}
	r.Rule("C20.inventory", "P4,P5,P9", "every panic-capable operation reachable from a message handler, ValidateBasic or query handler is discharged (g1..g5)", 60)
	r.Rule("C20.nilfield", "P5", "nil-able components of messages (pointer fields, elements of pointer slices, math.Int / sdk.Dec fields) are dereferenced or used with a non-nil-safe method only under a nil test of the same access path, a rejecting validation call, or a preceding element-checking loop, inside the handler's own tree and inside ValidateBasic", 20)
	r.Rule("C20.nilresult", "P5", "results of the nilable-result API table (GetAccount, GetPubKey, pem.Decode, GetModuleAccount) are tested before being dereferenced or invoked", 6)
	r.Rule("C20.nilreq", "P5", "every query handler dereferences its request only behind a nil test of it", 18)
	r.Rule("C20.nilness", "P5", "the x/tools nilness analysis, run on the same SSA, reports no provable nil dereference in production scope", 1)
	r.Rule("C20.signers", "P8", "for every message type, each field parsed by GetSigners is validated as a bech32 address in ValidateBasic", 17)
	if !ro.checkFloors(r) {
		return
	}
	iv := newInv(w, r, "C20.inventory", c20Vetted)
	roots := append(append(append([]*ssa.Function{}, flatten(ro.MSG)...), flatten(ro.VB)...), flatten(ro.QRY)...)
	iv.Run(roots, "MSG+VB+QRY")
	r.Rule("C20.zerolit", "P4", "every composite literal of a module struct type built on a message, ValidateBasic, query or block tree assigns each of its math.Int / sdk.Dec fields (the zero value holds a nil big.Int and arithmetic on it panics), or is a reviewed literal whose number fields are never read", 2)
	zeroLitRule(w, r, "C20.zerolit", append(append([]*ssa.Function{}, roots...), flatten(ro.BLK)...))
	iv.Finish()
	if w.Tier == "thorough" {
		r.Rule("C20.discovery", "P4", "thorough tier: every distinct dependency function called on the message / ValidateBasic / query trees is either an inventory class or in the reviewed table (the allow-list is closed)", 100)
		iv.Discover(roots, "C20.discovery", "MSG+VB+QRY")
	}

	// ---------- C20.nilfield ----------
	nsinks, nderived := 0, 0
	seenKey := map[string]int{}
	for _, m := range customModules {
		for _, h := range ro.MSG[m] {
			mp := msgParam(h)
			if mp == nil {
				continue
			}
			T, _ := mp.Type().Underlying().(*types.Pointer).Elem().(*types.Named)
			if T == nil {
				continue
			}
			vb := w.methodOf(T, "ValidateBasic")
			tname := m + "." + T.Obj().Name()
			troots := map[ssa.Value]string{mp: tname}
			var vbReach map[*ssa.Function]*ssa.Function
			if vb != nil && vb.Blocks != nil && len(vb.Params) > 0 {
				troots[vb.Params[0]] = tname
				vbReach = cg.Reach([]*ssa.Function{vb})
			}
			ts := w.runNilTaint(troots)
			rejected := ts.vbRejectedLabels(vbReach)
			nderived += len(ts.info)
			for _, sk := range ts.sinks() {
				nsinks++
				key := tname + ": " + sk.key()
				seenKey[key]++
				if n := seenKey[key]; n > 1 {
					key = fmt.Sprintf("%s #%d", key, n)
				}
				pos := w.Pos(sk.instr.Pos())
				if !sk.instr.Pos().IsValid() {
					pos = w.Pos(sk.v.Pos())
				}
				ok, how := w.guardedSink(sk, ts, 0)
				if ok {
					r.OK("C20.nilfield", key, pos, how)
					continue
				}
				// g6: ValidateBasic of this message type rejects the message when the component is nil
				if _, inVB := vbReach[sk.fn]; !inVB && len(sk.labels) > 0 {
					all := true
					for _, l := range sk.labels {
						if !rejected[l] {
							all = false
						}
					}
					if all {
						r.OK("C20.nilfield", key, pos, fmt.Sprintf("ValidateBasic of %s returns an error when %v is nil (it runs before the handler)", tname, sk.labels))
						continue
					}
				}
				if why, ok := c20VettedNil[sk.key()]; ok {
					r.Assume("C20.nilfield", key, pos, "vetted: "+why)
					continue
				}
				if why, ok := c20VettedNil[sk.key()[:strings.LastIndex(sk.key(), " : ")]+" : *"]; ok {
					r.Assume("C20.nilfield", key, pos, "vetted: "+why)
					continue
				}
				if why, ok := vettedBelowRoot(w, sk, roots); ok {
					r.Assume("C20.nilfield", key, pos, "vetted: "+why)
					continue
				}
				// the use sits in a small helper that is handed the value (`notAfter(a, b *time.Time)`): the vetted argument
				// is about the value in the function that hands it in - every caller of the helper must be vetted for it
				if why, ok := vettedAtCallers(w, sk, 0); ok {
					r.Assume("C20.nilfield", key, pos, "vetted at every call site: "+why)
					continue
				}
				r.Bad("C20.nilfield", key, pos, fmt.Sprintf("message component %v is nil when absent on the wire and is used without a nil test: %s", sk.labels, how))
			}
		}
	}
	r.Analysed["niltaint"] = map[string]int{"derived_values": nderived, "sinks": nsinks}

	// ---------- C20.nilresult ----------
	reach := cg.Reach(roots)
	for _, s := range cg.SitesIn(reach) {
		if !w.isProdFunc(s.Caller) {
			continue
		}
		call := siteCall(s)
		if call == nil {
			continue
		}
		n := callName(call.Common())
		if s.Invoke {
			n = typeString(s.RecvType) + "." + s.Method
		}
		if !hasSuffixAny(n, nilableResultAPIs...) {
			continue
		}
		var v ssa.Value = call
		if tup, ok := call.Type().(*types.Tuple); ok && tup.Len() > 1 {
			for _, ref := range *call.Referrers() {
				if ex, ok := ref.(*ssa.Extract); ok && ex.Index == 0 {
					v = ex
				}
			}
		}
		fn := s.Caller
		construct := fmt.Sprintf("%s result in %s", s.Method, funcName(fn))
		// constant module account registered in maccPerms: never nil
		if s.Method == "GetModuleAccount" {
			a := s.Args()
			if names, ok := w.resolveStrings(a[len(a)-1], 3); ok {
				all := len(names) > 0
				for _, nm := range names {
					if strings.HasPrefix(nm, "field:") {
						if T := w.NamedType("x/cfedistributor/types.Account"); T != nil && strings.HasSuffix(nm, "Id") {
							if ok2, _ := iv.fieldValidated(T, "Id", reqMacc); ok2 {
								continue
							}
						}
						all = false
						continue
					}
					if _, in := iv.macc[nm]; !in {
						all = false
					}
				}
				if all {
					r.OK("C20.nilresult", construct, w.Pos(s.Instr.Pos()), fmt.Sprintf("g3: module account %v is registered in maccPerms, the keeper creates it on demand", names))
					continue
				}
			}
		}
		uses := 0
		bad := 0
		vals := map[ssa.Value]bool{v: true}
		// follow phis / local spills one level
		for _, ref := range *v.Referrers() {
			if phi, ok := ref.(*ssa.Phi); ok {
				vals[phi] = true
			}
		}
		edges := NilEdges(fn, vals, false)
		for x := range vals {
			if x.Referrers() == nil {
				continue
			}
			for _, ref := range *x.Referrers() {
				in := ref.(ssa.Instruction)
				deref := false
				switch y := ref.(type) {
				case ssa.CallInstruction:
					cc := y.Common()
					if cc.IsInvoke() && cc.Value == x {
						deref = true
					}
					if !cc.IsInvoke() && cc.Signature().Recv() != nil && len(cc.Args) > 0 && cc.Args[0] == x {
						deref = true
					}
				case *ssa.UnOp:
					deref = y.Op == token.MUL && y.X == x
				case *ssa.FieldAddr:
					deref = y.X == x
				case *ssa.TypeAssert:
					deref = !y.CommaOk
				}
				if !deref {
					continue
				}
				uses++
				if !MustPass(fn, edges, in.Block()) {
					bad++
					r.Bad("C20.nilresult", construct, w.Pos(in.Pos()), s.Method+" may return nil and the result is used without a nil test")
				}
			}
		}
		if bad == 0 {
			r.OK("C20.nilresult", construct, w.Pos(s.Instr.Pos()), fmt.Sprintf("%d dereferencing uses, all dominated by a non-nil test", uses))
		}
	}

	// ---------- C20.nilreq ----------
	for _, q := range flatten(ro.QRY) {
		req := msgParam(q)
		if req == nil {
			continue
		}
		// the nil test of the request: in the handler, or in an error-returning helper that is handed the request
		reqSpec := GuardSpec{Name: "request != nil", IsVal: func(v ssa.Value) bool { return v == ssa.Value(req) },
			Edges: func(fn *ssa.Function, bind Bind, isVal func(ssa.Value) bool) []Edge {
				return EdgesWhere(fn, func(base ssa.Value) (bool, bool) {
					bo, ok := base.(*ssa.BinOp)
					if !ok || (bo.Op != token.EQL && bo.Op != token.NEQ) {
						return false, false
					}
					if (isNilConst(bo.Y) && isVal(bo.X)) || (isNilConst(bo.X) && isVal(bo.Y)) {
						return bo.Op == token.NEQ, true
					}
					return false, false
				})
			}}
		edges, _ := cg.guardEdgesIn(q, Bind{}, reqSpec, 0)
		bad := 0
		uses := 0
		for _, ref := range *req.Referrers() {
			in := ref.(ssa.Instruction)
			deref := false
			switch x := ref.(type) {
			case *ssa.FieldAddr:
				deref = x.X == ssa.Value(req)
			case *ssa.UnOp:
				deref = x.Op == token.MUL && x.X == ssa.Value(req)
			}
			if !deref {
				continue
			}
			uses++
			if !MustPass(q, edges, in.Block()) {
				bad++
			}
		}
		r.Check(bad == 0, "C20.nilreq", funcName(q)+": request dereferenced only after the nil test", w.Pos(q.Pos()), fmt.Sprintf("%d dereferences, all behind req != nil", uses), "a query handler dereferences its request without testing it for nil")
	}

	// ---------- C20.nilness ----------
	runNilness(w, r, "C20.nilness")

	// ---------- C20.signers ----------
	for _, m := range customModules {
		for _, T := range ro.MsgTyp[m] {
			signers := w.signerFields(T)
			vb := w.methodOf(T, "ValidateBasic")
			construct := m + "." + T.Obj().Name()
			if len(signers) == 0 || vb == nil {
				r.Bad("C20.signers", construct, w.Pos(T.Obj().Pos()), "GetSigners does not parse a message field with AccAddressFromBech32 (or ValidateBasic is missing)")
				continue
			}
			for _, f := range signers {
				ok, how := iv.guardRejectsBech32(vb, f, 0)
				if !ok {
					// compared with the governance authority (a valid bech32 string by construction, C13.gov)
					edges := eqEdges(vb, func(v ssa.Value) bool { _, ff, okf := fieldOfValue(v); return okf && ff == f },
						func(v ssa.Value) bool { _, is := isCallTo(v, "app/params.GetAuthority"); return is })
					for _, e := range edges {
						other := e.From.Succs[1-e.Succ]
						if FailsFrom(other) {
							ok, how = true, "compared with appparams.GetAuthority(); any other value is rejected"
						}
					}
				}
				if !ok {
					// the comparison sits in an error-returning helper that is handed the field: every return of
					// ValidateBasic that may carry a nil error lies behind the helper's success
					fld := f
					authSpec := GuardSpec{Name: "field == authority",
						IsVal: func(v ssa.Value) bool { _, ff, okf := fieldOfValue(v); return okf && ff == fld },
						Edges: func(fn *ssa.Function, bind Bind, isVal func(ssa.Value) bool) []Edge {
							return eqEdges(fn, isVal, func(v ssa.Value) bool { _, is := isCallTo(v, "app/params.GetAuthority"); return is })
						}}
					if cg.successRequires(vb, Bind{}, authSpec, 0) {
						ok, how = true, "compared with appparams.GetAuthority() in a helper whose error ValidateBasic returns; any other value is rejected"
					}
				}
				r.Check(ok, "C20.signers", construct+"."+f, w.Pos(vb.Pos()), "ValidateBasic rejects a malformed address: "+how, "GetSigners parses "+f+" (and panics on a malformed value) but ValidateBasic does not validate it as a bech32 address")
			}
		}
	}
}

// guardRejectsBech32: fn (or a module callee that receives the field) calls AccAddressFromBech32(field)
// and fails on its error.
func (iv *Inv) guardRejectsBech32(fn *ssa.Function, field string, depth int) (bool, string) {
	cg := iv.w.CG()
	var isField func(v ssa.Value) bool
	isField = func(v ssa.Value) bool {
		_, f, ok := fieldOfValue(v)
		return ok && f == field
	}
	return iv.bech32Rejects(fn, isField, depth, cg)
}

// successReturnsBehind: every return of fn that may carry a nil error is reached only through the success
// edge of the validating call (or returns that call's error itself).
func successReturnsBehind(fn *ssa.Function, call *ssa.Call) bool {
	ev := errValues(fn, call)
	for _, ret := range Returns(fn) {
		rv := retVals(ret)
		if len(rv) == 0 {
			return false
		}
		last := rv[len(rv)-1]
		if ev[last] || nonNilAt(last, ret.Block(), 0) {
			continue
		}
		if !OnSuccessEdge(fn, ret, call) {
			return false
		}
	}
	return true
}

func (iv *Inv) bech32Rejects(fn *ssa.Function, isField func(ssa.Value) bool, depth int, cg *CallGraph) (bool, string) {
	for _, s := range cg.Sites[fn] {
		call := siteCall(s)
		if call == nil {
			continue
		}
		if hasSuffixAny(callName(call.Common()), "types.AccAddressFromBech32") && isField(call.Common().Args[0]) {
			if successReturnsBehind(fn, call) {
				return true, "in " + funcName(fn)
			}
		}
		if depth >= 4 || len(s.Callees) != 1 || s.Invoke {
			continue
		}
		callee := s.Callees[0]
		for i, a := range s.Common().Args {
			if i < len(callee.Params) && isField(a) {
				p := callee.Params[i]
				ok, how := iv.bech32Rejects(callee, func(v ssa.Value) bool { return v == ssa.Value(p) }, depth+1, cg)
				if !ok {
					continue
				}
				if successReturnsBehind(fn, call) {
					return true, how + " via " + funcName(fn)
				}
			}
		}
	}
	return false, ""
}

// vettedAtCallers: the sink's value is a parameter of its function, and for every static caller the vetted table has an
// entry for a value of that type in the calling function (same use, or any use).
func vettedAtCallers(w *World, sk nilSink, depth int) (string, bool) {
	p, isP := sk.v.(*ssa.Parameter)
	if !isP || depth > 1 {
		return "", false
	}
	callers := w.CG().Callers[sk.fn]
	if len(callers) == 0 {
		return "", false
	}
	why := ""
	for _, cs := range callers {
		if cs.Invoke || cs.Static != sk.fn {
			return "", false
		}
		k := fmt.Sprintf("%s @ %s : ", shortType(p.Type()), funcName(cs.Caller))
		if x, ok := c20VettedNil[k+sk.what]; ok {
			why = x
			continue
		}
		if x, ok := c20VettedNil[k+"*"]; ok {
			why = x
			continue
		}
		return "", false
	}
	return why, why != ""
}

// Vetted nil guards that hold for a whole phase of a validation: every value of the type used below the root function
// was nil-checked by the per-element validation that its callers complete before they call the root. Keyed by type and
// root (an exported function), not by the helpers the phase is cut into; the structural part - every chain from an
// entry to the use passes the root, and every such caller of the root finishes a loop of the element validation first -
// is checked on every run.
var c20VettedNilBelow = []struct{ typ, root, elemValidate, why string }{
	{"*x/cfedistributor/types.Account", "x/cfedistributor/types.ValidateSubDistributors", "types.SubDistributor.Validate",
		"accounts reach the ordering validation only after SubDistributor.Validate / Destinations.Validate ran over every sub-distributor and rejected nil sources"},
	{"*x/cfedistributor/types.DestinationShare", "x/cfedistributor/types.ValidateSubDistributors", "types.SubDistributor.Validate",
		"shares were nil-checked by Destinations.Validate for every sub-distributor before ValidateSubDistributors runs"},
}

func vettedBelowRoot(w *World, sk nilSink, entries []*ssa.Function) (string, bool) {
	cg := w.CG()
	for _, ve := range c20VettedNilBelow {
		if shortType(sk.v.Type()) != ve.typ {
			continue
		}
		root := w.Func(ve.root)
		if root == nil {
			continue
		}
		// below the root: reachable from it, and not reachable from the entries when the root is not entered
		if _, below := cg.Reach([]*ssa.Function{root})[sk.fn]; !below {
			continue
		}
		seen := map[*ssa.Function]bool{root: true}
		var q []*ssa.Function
		for _, e := range entries {
			if e != nil && !seen[e] {
				seen[e] = true
				q = append(q, e)
			}
		}
		outside := false
		for len(q) > 0 && !outside {
			f := q[0]
			q = q[1:]
			if f == sk.fn {
				outside = true
				break
			}
			next := func(g *ssa.Function) {
				if g != nil && !seen[g] {
					seen[g] = true
					q = append(q, g)
				}
			}
			for _, s := range cg.Sites[f] {
				for _, c := range s.Callees {
					next(c)
				}
			}
			for _, g := range cg.Refs[f] {
				next(g)
			}
		}
		if outside {
			continue
		}
		// every caller of the root on the entry trees completes the per-element validation first
		entryReach := cg.Reach(entries)
		okCallers, n := true, 0
		for _, cs := range cg.Callers[root] {
			if _, on := entryReach[cs.Caller]; !on {
				continue
			}
			n++
			found := false
			for _, l := range rangeLoops(cs.Caller) {
				validates := loopBodyMustPass(l, func(b *ssa.BasicBlock) bool {
					return blockHasCall(b, func(c *ssa.Call) bool { return strings.HasSuffix(callName(c.Common()), ve.elemValidate) })
				})
				if validates && loopEarlyExit(l) == nil && l.Header.Succs[1].Dominates(cs.Instr.Block()) {
					found = true
				}
			}
			if !found {
				okCallers = false
			}
		}
		if okCallers && n > 0 {
			return ve.why + " (every chain to this use passes " + funcName(root) + ", whose callers finish the per-element validation first)", true
		}
	}
	return "", false
}
