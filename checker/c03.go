package main

import (
	"fmt"
	"go/constant"
	"go/token"
	"go/types"
	"sort"
	"strings"

	"golang.org/x/tools/go/ssa"
)

func init() {
	register("C03", checkC03)
	register("C04", checkC04)
	register("C14", checkC14)
}

// rangeLoops returns the (header, bodyEntry) pairs of the range-over-slice loops of fn, with the slice ranged over.
type rangeLoop struct {
	Header, Body *ssa.BasicBlock
	Over         ssa.Value // the slice whose len bounds the loop
}

func rangeLoops(fn *ssa.Function) []rangeLoop {
	var out []rangeLoop
	for _, b := range fn.Blocks {
		if !strings.HasPrefix(b.Comment, "rangeindex.loop") {
			continue
		}
		i := blockIf(b)
		if i == nil {
			continue
		}
		rl := rangeLoop{Header: b, Body: b.Succs[0]}
		if bo, ok := i.Cond.(*ssa.BinOp); ok && bo.Op == token.LSS {
			if c, ok := bo.Y.(*ssa.Call); ok {
				if bi, ok := c.Common().Value.(*ssa.Builtin); ok && bi.Name() == "len" {
					rl.Over = c.Common().Args[0]
				}
			}
		}
		out = append(out, rl)
	}
	return out
}

// loopBodyMustPass: every path from the body entry back to the loop header passes a block satisfying has.
func loopBodyMustPass(l rangeLoop, has func(*ssa.BasicBlock) bool) bool {
	if has(l.Body) {
		return true
	}
	seen := map[*ssa.BasicBlock]bool{l.Body: true}
	stack := []*ssa.BasicBlock{l.Body}
	for len(stack) > 0 {
		b := stack[len(stack)-1]
		stack = stack[:len(stack)-1]
		for _, s := range b.Succs {
			if s == l.Header {
				return false
			}
			if seen[s] || has(s) {
				continue
			}
			seen[s] = true
			stack = append(stack, s)
		}
	}
	return true
}

// loopEarlyExit returns a block of the loop body that leaves the loop other than through the header's exit edge
// (a break, or a return that is not an error exit); nil when every element is visited.
func loopEarlyExit(l rangeLoop) *ssa.BasicBlock {
	in := loopBlocks(l.Header)
	for b := range in {
		if b == l.Header {
			continue
		}
		for _, s := range b.Succs {
			if !in[s] && !FailsFrom(s) {
				return b
			}
		}
		if len(b.Succs) == 0 {
			// a return inside the loop
			if _, isRet := b.Instrs[len(b.Instrs)-1].(*ssa.Return); isRet && !FailsFrom(b) {
				return b
			}
		}
	}
	// blocks dominated by the body that return without going back (not part of the natural loop)
	fn := l.Header.Parent()
	for _, b := range fn.Blocks {
		if in[b] || !l.Body.Dominates(b) {
			continue
		}
		if _, isRet := b.Instrs[len(b.Instrs)-1].(*ssa.Return); isRet && !FailsFrom(b) {
			return b
		}
	}
	return nil
}

func blockHasCall(b *ssa.BasicBlock, pred func(*ssa.Call) bool) bool {
	for _, in := range b.Instrs {
		if c, ok := in.(*ssa.Call); ok && pred(c) {
			return true
		}
	}
	return false
}

type distAnchors struct {
	start, prepare, prepMain, sendStates, findAcc, remSum, calcPct *ssa.Function
	ok                                                             bool
}

func distributorAnchors(w *World, r *Report) distAnchors {
	var a distAnchors
	get := func(s string) *ssa.Function {
		f := w.Func(s)
		if f == nil {
			r.Unk("infra.anchor", s, "", "anchor not found")
		}
		return f
	}
	a.start = get("x/cfedistributor/keeper.Keeper.StartDistributionProcess")
	a.prepare = get("x/cfedistributor/keeper.Keeper.PrepareCoinsToDistribute")
	a.prepMain = get("x/cfedistributor/keeper.Keeper.prepareCoinToDistributeForMainAccount")
	a.sendStates = get("x/cfedistributor/keeper.Keeper.SendCoinsFromStates")
	a.findAcc = get("x/cfedistributor/keeper.findAccountState")
	a.remSum = get("x/cfedistributor/keeper.getRamainsSum")
	a.calcPct = get("x/cfedistributor/keeper.calculatePercentage")
	a.ok = a.start != nil && a.prepare != nil && a.prepMain != nil && a.sendStates != nil && a.findAcc != nil && a.remSum != nil && a.calcPct != nil
	return a
}

// ---- shared obligations ----

// orderRule (C03.order / C04.order): the Main branch of the source loop must see what earlier iterations collected.
func orderRule(w *World, r *Report, rule string, a distAnchors) {
	cg := w.CG()
	fn := a.prepare
	// loop-carried accumulator of DecCoins
	var acc *ssa.Phi
	for _, l := range rangeLoops(fn) {
		for _, in := range l.Header.Instrs {
			phi, ok := in.(*ssa.Phi)
			if !ok || !strings.HasSuffix(typeString(phi.Type()), "types.DecCoins") {
				continue
			}
			for _, e := range phi.Edges {
				if c, ok := e.(*ssa.Call); ok && strings.HasSuffix(callName(c.Common()), "types.DecCoins.Add") && c.Common().Args[0] == ssa.Value(phi) {
					acc = phi
				}
			}
		}
	}
	if acc == nil {
		r.Unk(rule, "source loop accumulator", w.Pos(fn.Pos()), "the loop over sources no longer has a recognisable DecCoins accumulator")
		return
	}
	n := 0
	// the Main branch may be called directly in the loop or through a dispatching helper: arguments are compared in the
	// loop function's terms
	for _, e := range w.effectsBelow(fn, func(s *Site) bool {
		return calleeIs(s, "x/cfedistributor/keeper.Keeper.prepareCoinToDistributeForMainAccount")
	}, 2) {
		s := e.Site
		n++
		sees := false
		rootArgs := make([]ssa.Value, len(s.Common().Args))
		for i, arg := range s.Common().Args {
			rootArgs[i] = e.ToRoot(arg)
		}
		for _, arg := range rootArgs {
			if arg == ssa.Value(acc) {
				sees = true
			} else if strings.HasSuffix(typeString(arg.Type()), "types.DecCoins") {
				if w.Tracer().Origins(arg).Phis[acc] {
					sees = true
				}
			}
		}
		uses := false
		if sees {
			// and the callee subtracts it from the balance
			callee := a.prepMain
			for i, arg := range rootArgs {
				if arg != ssa.Value(acc) || i >= len(callee.Params) {
					continue
				}
				p := callee.Params[i]
				for _, cs := range cg.Sites[callee] {
					if c := siteCall(cs); c != nil && strings.HasSuffix(callName(c.Common()), "types.DecCoins.Sub") {
						for _, sa := range c.Common().Args[1:] {
							if sa == ssa.Value(p) || w.Tracer().Origins(sa).Visited(p) {
								uses = true
							}
						}
					}
				}
			}
		}
		r.Check(sees && uses, rule, "PrepareCoinsToDistribute: main-account inflow is independent of the order of sources", w.Pos(s.Instr.Pos()),
			"the Main branch receives the loop-carried sum of what this sub-distributor already swept into the main account and subtracts it",
			"sources are swept into the main account before the Main source reads its balance, and the Main branch does not subtract what earlier iterations collected: with sources [module, main] the swept coins are counted twice (validation accepts any order)")
	}
	if n == 0 {
		r.Unk(rule, "Main branch of the source loop", w.Pos(fn.Pos()), "no call of prepareCoinToDistributeForMainAccount in the source loop")
	}
}

// persistRule (C03.persist / C14.persist): every element of the state list reaches SetState on every path.
func persistRule(w *World, r *Report, rule string, a distAnchors) {
	fn := a.sendStates
	loops := rangeLoops(fn)
	if len(loops) != 1 {
		r.Unk(rule, "end-of-block loop over states", w.Pos(fn.Pos()), fmt.Sprintf("%d range loops found", len(loops)))
		return
	}
	l := loops[0]
	okOver := false
	if p, ok := l.Over.(*ssa.Parameter); ok && strings.HasSuffix(typeString(p.Type()), "types.State") {
		okOver = true
	}
	r.Check(okOver, rule, "SendCoinsFromStates ranges over the whole state list", w.Pos(fn.Pos()), "the loop is bounded by len of the parameter", "the loop does not range over the full list passed in")
	ok := loopBodyMustPass(l, func(b *ssa.BasicBlock) bool {
		return blockHasCall(b, func(c *ssa.Call) bool { return strings.HasSuffix(callName(c.Common()), "keeper.Keeper.SetState") })
	})
	if ok {
		if ex := loopEarlyExit(l); ex != nil {
			ok = false
		}
	}
	r.Check(ok, rule, "every iteration persists its state", w.Pos(fn.Pos()), "every path through the loop body passes SetState (success and failure branches alike) and the loop is never left early", "some path through the loop body skips SetState, or the loop is left early: that state's remains would be lost")
	// the BeginBlocker passes the full, updated list
	if bb := w.Func("x/cfedistributor.BeginBlocker"); bb != nil {
		for _, s := range w.CG().Sites[bb] {
			if calleeIs(s, "x/cfedistributor/keeper.Keeper.SendCoinsFromStates") {
				arg := s.Args()[len(s.Args())-1]
				o := w.Tracer().Origins(arg)
				r.Check(o.HasCall("Keeper.GetAllStates") || o.HasCall("StartDistributionProcess"), rule, "BeginBlocker persists the list it distributed into", w.Pos(s.Instr.Pos()), "the list originates from GetAllStates / StartDistributionProcess", "the list persisted is not the one that was updated")
			}
		}
	}
}

// successRule (C14.success): Remains stored only on the success edge with the change of what was sent.
func successRule(w *World, r *Report, rule string) {
	cg := w.CG()
	for _, anchor := range []string{"x/cfedistributor/keeper.Keeper.burnCoins", "x/cfedistributor/keeper.Keeper.sendCoinsToModuleAccount", "x/cfedistributor/keeper.Keeper.sendCoinsToBaseAccount"} {
		fn := w.Func(anchor)
		if fn == nil {
			r.Unk("infra.anchor", anchor, "", "anchor not found")
			continue
		}
		var xfer *Site
		for _, s := range cg.Sites[fn] {
			for _, c := range s.Callees {
				if len(cg.targetsBelow(c, func(x *Site) bool { a := cg.Atom(x); return a == BankMove || a == BankBurn }, map[*ssa.Function]bool{})) > 0 {
					xfer = s
				}
			}
			if a := cg.Atom(s); a == BankMove || a == BankBurn {
				xfer = s
			}
		}
		if xfer == nil {
			r.Bad(rule, funcName(fn)+": pays out", w.Pos(fn.Pos()), "no bank operation found in the pay-out function")
			continue
		}
		coins := coinsArg(xfer)
		ex, ok := coins.(*ssa.Extract)
		var tc *ssa.Call
		if ok && ex.Index == 0 {
			tc, _ = ex.Tuple.(*ssa.Call)
		}
		good := tc != nil && strings.HasSuffix(callName(tc.Common()), "types.DecCoins.TruncateDecimal") && loadOfField(tc.Common().Args[0], "Remains", nil)
		r.Check(good, rule, funcName(fn)+": amount sent = integer part of this state's remains", w.Pos(xfer.Instr.Pos()), "TruncateDecimal()#0 of state.Remains", "the amount sent is not the truncated remains of the state")
		// the state's fields written by the pay-out function or a helper it calls (values in the pay-out function's terms)
		n := 0
		for _, sb := range w.storesBelow(fn, "State", 2, nil) {
			fs := sb.FS
			n++
			ex2, ok := sb.Val.(*ssa.Extract)
			same := ok && tc != nil && ex2.Tuple == ssa.Value(tc) && ex2.Index == 1 && fs.Field == "Remains"
			r.Check(same, rule, fmt.Sprintf("%s: State.%s := change of the amount sent", funcName(fn), fs.Field), w.Pos(fs.Store.Pos()), "TruncateDecimal()#1 of the same call", "the state is updated with something else than the fractional change of what was sent")
			// the state written is the one whose remains were paid
			sameState := tc != nil && sameStateBase(sb.Base, tc.Common().Args[0])
			r.Check(sameState, rule, fmt.Sprintf("%s: State.%s written on the state that was paid", funcName(fn), fs.Field), w.Pos(fs.Store.Pos()), "same state pointer as the remains that were truncated", "the remainder is reduced on another state than the one whose coins were sent")
			okAll := OnSuccessEdge(fn, sb.Top(), siteValue(xfer))
			r.Check(okAll, rule, fmt.Sprintf("%s: State.%s updated only when the transfer succeeded", funcName(fn), fs.Field), w.Pos(fs.Store.Pos()), "dominated by the nil edge of the bank operation's error", "the recorded remainder is reduced although the coins may not have moved")
		}
		if n == 0 {
			r.Bad(rule, funcName(fn)+": remains reduced after paying", w.Pos(fn.Pos()), "coins are paid out but the recorded remainder is never reduced (they would be paid again)")
		} else {
			// the converse: coins that left the main account are always booked out - from the success edge of the bank
			// operation no path reaches the end of the pay-out function without the store of the remainder (an early
			// return slipped between the transfer and the book-keeping leaves the coins owed a second time)
			var storeBlocks []*ssa.BasicBlock
			for _, sb := range w.storesBelow(fn, "State", 2, nil) {
				if sb.FS.Field == "Remains" {
					storeBlocks = append(storeBlocks, sb.Top().Block())
				}
			}
			isStore := func(b *ssa.BasicBlock) bool {
				for _, x := range storeBlocks {
					if x == b {
						return true
					}
				}
				return false
			}
			skipped := ""
			for _, e := range NilEdges(fn, errValues(fn, siteCall(xfer)), true) {
				seen := map[*ssa.BasicBlock]bool{}
				stack := []*ssa.BasicBlock{e.To()}
				for len(stack) > 0 {
					b := stack[len(stack)-1]
					stack = stack[:len(stack)-1]
					if seen[b] || isStore(b) {
						continue
					}
					seen[b] = true
					if _, isRet := b.Instrs[len(b.Instrs)-1].(*ssa.Return); isRet {
						skipped = w.Pos(lastPos(b))
					}
					stack = append(stack, b.Succs...)
				}
			}
			r.Check(skipped == "", rule, funcName(fn)+": a successful pay-out is always booked out of the state", w.Pos(xfer.Instr.Pos()), "from the success edge of the bank operation every path to the end of the function passes the store of the remainder", "after a successful transfer the function can return without reducing the state ("+skipped+"): the coins have left the main account but are still recorded as owed and will be paid again")
		}
	}
}

// sameStateBase: the struct pointer a field is stored through and the operand `load base.Remains` name the same state.
func sameStateBase(base ssa.Value, remainsLoad ssa.Value) bool {
	u, ok := remainsLoad.(*ssa.UnOp)
	if !ok || u.Op != token.MUL {
		return false
	}
	fa, ok := u.X.(*ssa.FieldAddr)
	if !ok {
		return false
	}
	return fa.X == base || samePath(fa.X, base)
}

func checkC03(w *World, r *Report) {
	ro := w.Roles()
	r.Undecided = []string{
		"the numeric identity sum(remains) == balance of the main account, non-negativity and integrality of the sum (arithmetic over DecCoins)",
	}
	r.Rule("C03.inflow", "P6", "main-source inflow = balance(DistributorMainAccount) minus the sum of ALL states' remains (the full state list, summed over every element)", 3)
	r.Rule("C03.conserve", "P5,P6", "in StartDistributionProcess every value credited to a state other than the final remainder was subtracted from the remainder on the same path; the final remainder is credited exactly once, unless the primary destination is Main; shares are computed with MulDecTruncate only", 4)
	r.Rule("C03.writers", "P4", "closed world: every store to State.Remains on the distributor's block tree is the initial empty value of a new state, a credit Remains.Add(share passed in), the change of the TruncateDecimal whose integer part was paid out, or a clearing whose old value is returned as inflow", 6)
	r.Rule("C03.burnkey", "P5,P8", "the burn state's lookup agrees with its store key: it selects by the Burn flag alone, for every element, whatever the shape of the Account field", 1)
	r.Rule("C03.sweep", "P5", "= C14.sweep", 7)
	r.Rule("C03.wrapper", "P4,P6", "= C14.wrapper: bank wrappers of the distributor pass amount, accounts and result through unchanged", 4)
	r.Rule("C03.persist", "P5", "in the end-of-block loop every element of the state list reaches SetState on every path", 3)
	r.Rule("C03.loopvar", "P4", "the module declares a Go version with one variable per loop: no address of such a variable (or of a field of it) and no function literal over it outlives the iteration in which it was taken (stored, put into a map, flowing out of the loop, deferred, handed to a function that stores it) - otherwise the matching element silently becomes the last element; positive and negative controls", 6)
	r.Rule("C03.order", "P4,P6", "source-order independence: the Main source must see what earlier sources of the same sub-distributor swept into the main account", 1)
	if !ro.checkFloors(r) {
		return
	}
	a := distributorAnchors(w, r)
	if !a.ok {
		return
	}
	cg := w.CG()
	mainAcc, _ := constOf(w, "x/cfedistributor/types", "DistributorMainAccount")
	wrapperRule(w, r, "C03.wrapper")
	sweepRule(w, r, "C03.sweep")
	burnLookupRule(w, r, "C03.burnkey")
	remainsWritersRule(w, r, "C03.writers")
	// ---------- C03.inflow ----------
	{
		fn := a.prepMain
		var sub *ssa.Call
		for _, s := range cg.Sites[fn] {
			if c := siteCall(s); c != nil && strings.HasSuffix(callName(c.Common()), "types.DecCoins.Sub") {
				if sub == nil {
					sub = c
				}
			}
		}
		// follow chained Subs back to the first operand
		if sub == nil {
			r.Bad("C03.inflow", "main inflow = balance - remains", w.Pos(fn.Pos()), "no subtraction found")
		} else {
			first := sub
			var subtrahends []ssa.Value
			for {
				subtrahends = append(subtrahends, first.Common().Args[1])
				if c, ok := first.Common().Args[0].(*ssa.Call); ok && strings.HasSuffix(callName(c.Common()), "types.DecCoins.Sub") {
					first = c
					continue
				}
				break
			}
			// also later Subs chained on the result
			for _, s := range cg.Sites[fn] {
				if c := siteCall(s); c != nil && c != sub && strings.HasSuffix(callName(c.Common()), "types.DecCoins.Sub") {
					subtrahends = append(subtrahends, c.Common().Args[1])
				}
			}
			t := w.Tracer()
			t.Opaque["x/cfedistributor/keeper.Keeper.GetAccountCoinsForModuleAccount"] = true
			ob := t.Origins(first.Common().Args[0])
			names := []string{}
			balCalls := 0
			for c := range ob.Calls {
				isBal := false
				for _, s := range cg.Sites[fn] {
					if s.Instr == ssa.Instruction(c) && len(s.Callees) == 1 {
						if len(cg.targetsBelow(s.Callees[0], func(x *Site) bool { return cg.Atom(x) == BankRead && x.Method == "GetAllBalances" }, map[*ssa.Function]bool{})) > 0 {
							isBal = true
						}
					}
				}
				if !isBal {
					continue
				}
				balCalls++
				for _, arg := range c.Common().Args {
					if v, ok := EvalString(arg); ok {
						names = append(names, v)
					}
				}
			}
			okBal := balCalls == 1 && len(names) == 1 && names[0] == mainAcc
			r.Check(okBal, "C03.inflow", "minuend = balance of the distributor main account", w.Pos(first.Pos()), "GetAllBalances(address of "+mainAcc+")", fmt.Sprintf("the minuend is not the main account's balance (accounts: %v)", names))
			okSum := false
			why := "the sum subtracted does not cover the full state list"
			fullList := func(c *ssa.Call) bool {
				// argument: &states where states is a []State parameter, not a sub-slice
				// (the list may travel inside a small struct built by a caller: the argument is followed to the callers, one
				// level at a time, until it is a []State parameter)
				for lift := 0; lift <= 2; lift++ {
					tl := *t
					tl.Lift = lift
					o := tl.Origins(c.Common().Args[0])
					isParamList := false
					for _, l := range o.Leaves {
						if l.Kind == "param" && strings.HasSuffix(typeString(l.V.Type()), "types.State") {
							isParamList = true
						}
					}
					if isParamList {
						return !sliceOnPath(o)
					}
				}
				return false
			}
			for _, sv := range subtrahends {
				if c, ok := sv.(*ssa.Call); ok && strings.HasSuffix(callName(c.Common()), "keeper.getRamainsSum") {
					if fullList(c) {
						okSum = true
					}
				}
				// the sum handed in by the caller: it must be computed in the same loop iteration, because the
				// other source branches take remains out of the list in place (prepareLeftCoinToDistribute)
				if p, ok := sv.(*ssa.Parameter); ok {
					idx := -1
					for i, x := range fn.Params {
						if x == p {
							idx = i
						}
					}
					all := len(cg.Callers[fn]) > 0
					for _, cs := range cg.Callers[fn] {
						arg := cs.Common().Args[idx]
						c, isCall := arg.(*ssa.Call)
						if !isCall || !strings.HasSuffix(callName(c.Common()), "keeper.getRamainsSum") || !fullList(c) {
							all = false
							continue // another subtrahend (e.g. what was already collected)
						}
						inLoop := false
						for _, l := range rangeLoops(cs.Caller) {
							if l.Body.Dominates(c.Block()) {
								inLoop = true
							}
						}
						if !inLoop {
							all = false
							why = "the remains sum is computed before the source loop, but earlier sources take their recorded remains out of the list in place: listed before MAIN, their remains are subtracted twice (stale sum)"
						}
					}
					if all {
						okSum = true
					}
				}
			}
			r.Check(okSum, "C03.inflow", "subtrahend = sum of the remains of the full, current state list", w.Pos(sub.Pos()), "getRamainsSum(&states) evaluated when the Main source is processed", why)
		}
		// getRamainsSum sums every element's Remains
		loops := rangeLoops(a.remSum)
		okLoop := len(loops) == 1
		if okLoop {
			okLoop = loopBodyMustPass(loops[0], func(b *ssa.BasicBlock) bool {
				return blockHasCall(b, func(c *ssa.Call) bool {
					if !strings.HasSuffix(callName(c.Common()), "types.DecCoins.Add") {
						return false
					}
					o := w.Tracer().Origins(c.Common().Args[1])
					return o.HasPath("State.Remains")
				})
			})
		}
		if okLoop && loopEarlyExit(loops[0]) != nil {
			okLoop = false
		}
		r.Check(okLoop, "C03.inflow", "getRamainsSum adds Remains of every element", w.Pos(a.remSum.Pos()), "every iteration adds state.Remains", "some states are left out of the sum")
	}
	conserveRule(w, r, "C03.conserve", a)
	persistRule(w, r, "C03.persist", a)
	orderRule(w, r, "C03.order", a)
	keyPurityRule(w, r, "C03.burnkey")
	loopVarRule(w, r, "C03.loopvar", "cfedistributor")
}

func sliceOnPath(o *Origin) bool {
	for v := range o.Values {
		if s, ok := v.(*ssa.Slice); ok && (s.Low != nil || s.High != nil) {
			return true
		}
	}
	return false
}

// remainderChain: the SSA values that denote the running remainder in StartDistributionProcess
// (the inflow parameter, phis over it and Sub results over it).
func remainderChain(fn *ssa.Function, inflow *ssa.Parameter) map[ssa.Value]bool {
	// greatest fixed point: start from every candidate and remove those with an operand outside the set
	chain := map[ssa.Value]bool{inflow: true}
	for _, b := range fn.Blocks {
		for _, in := range b.Instrs {
			switch x := in.(type) {
			case *ssa.Phi:
				if types.Identical(x.Type(), inflow.Type()) {
					chain[x] = true
				}
			case *ssa.Call:
				if strings.HasSuffix(callName(x.Common()), "types.DecCoins.Sub") {
					chain[x] = true
				}
			}
		}
	}
	changed := true
	for changed {
		changed = false
		for v := range chain {
			switch x := v.(type) {
			case *ssa.Phi:
				for _, e := range x.Edges {
					if !chain[e] {
						delete(chain, v)
						changed = true
						break
					}
				}
			case *ssa.Call:
				if !chain[x.Common().Args[0]] {
					delete(chain, v)
					changed = true
				}
			}
		}
	}
	return chain
}

// remainderChainTree: the remainder chain over a function and the helpers it calls (interprocedural greatest fixed
// point): the inflow parameter; phis all of whose edges are on the chain; Sub(x, ...) with x on the chain; a helper's
// DecCoins parameter when every call site passes a chain value; result #i of a helper call when every return of the
// helper yields a chain value at #i.
func (w *World) remainderChainTree(root *ssa.Function, inflow *ssa.Parameter, fns []*ssa.Function) map[ssa.Value]bool {
	cg := w.CG()
	inTree := map[*ssa.Function]bool{}
	for _, f := range fns {
		inTree[f] = true
	}
	isDC := func(t types.Type) bool { return strings.HasSuffix(typeString(t), "types.DecCoins") }
	chain := map[ssa.Value]bool{inflow: true}
	for _, fn := range fns {
		if fn != root {
			for _, prm := range fn.Params {
				if isDC(prm.Type()) {
					chain[prm] = true
				}
			}
		}
		for _, b := range fn.Blocks {
			for _, in := range b.Instrs {
				switch x := in.(type) {
				case *ssa.Phi:
					if isDC(x.Type()) {
						chain[x] = true
					}
				case *ssa.Call:
					if strings.HasSuffix(callName(x.Common()), "types.DecCoins.Sub") {
						chain[x] = true
					} else if h := x.Common().StaticCallee(); h != nil && inTree[h] && isDC(x.Type()) {
						chain[x] = true
					}
				case *ssa.Extract:
					if c, ok := x.Tuple.(*ssa.Call); ok && isDC(x.Type()) {
						if h := c.Common().StaticCallee(); h != nil && inTree[h] {
							chain[x] = true
						}
					}
				}
			}
		}
	}
	// cells: the running value kept in a field of the routine's own state object (`d.left = d.left.Sub(share)`): a load
	// of field F of struct T is on the chain when every store to T.F anywhere in the module stores a chain value
	type cellKey struct {
		T *types.Named
		F string
	}
	cellOf := func(v ssa.Value) (cellKey, bool) {
		u, ok := v.(*ssa.UnOp)
		if !ok || u.Op != token.MUL || !isDC(u.Type()) {
			return cellKey{}, false
		}
		fa, ok := u.X.(*ssa.FieldAddr)
		if !ok {
			return cellKey{}, false
		}
		T, f := fieldOf(fa)
		if T == nil || T.Obj().Pkg() == nil || !strings.HasPrefix(T.Obj().Pkg().Path(), modPath) || T.Obj().Exported() {
			return cellKey{}, false // only an unexported helper struct of the module (not a stored / protobuf type)
		}
		return cellKey{T, f}, true
	}
	cellStores := map[cellKey][]ssa.Value{}
	cellForeign := map[cellKey]bool{}
	cellLoads := map[ssa.Value]cellKey{}
	for _, fn := range fns {
		for _, b := range fn.Blocks {
			for _, in := range b.Instrs {
				if u, ok := in.(*ssa.UnOp); ok {
					if k, ok := cellOf(u); ok {
						cellLoads[u] = k
						chain[u] = true
					}
				}
			}
		}
	}
	if len(cellLoads) > 0 {
		for _, f := range w.ProdFuncs() {
			for _, fs := range FieldStores(f) {
				if fs.Struct == nil {
					continue
				}
				k := cellKey{fs.Struct, fs.Field}
				used := false
				for _, k2 := range cellLoads {
					if k2 == k {
						used = true
					}
				}
				if !used {
					continue
				}
				if !inTree[f] {
					cellForeign[k] = true
				}
				cellStores[k] = append(cellStores[k], fs.Store.Val)
			}
		}
	}
	retOK := func(h *ssa.Function, idx int) bool {
		rets := Returns(h)
		for _, ret := range rets {
			rv := retVals(ret)
			if idx >= len(rv) || !chain[rv[idx]] {
				return false
			}
		}
		return len(rets) > 0
	}
	changed := true
	for changed {
		changed = false
		for v := range chain {
			keep := true
			switch x := v.(type) {
			case *ssa.Parameter:
				if x == inflow {
					continue
				}
				idx := -1
				for i, q := range x.Parent().Params {
					if q == x {
						idx = i
					}
				}
				callers := cg.Callers[x.Parent()]
				keep = idx >= 0 && len(callers) > 0
				for _, cs := range callers {
					if cs.Common().IsInvoke() || idx >= len(cs.Common().Args) || !chain[cs.Common().Args[idx]] {
						keep = false
					}
				}
			case *ssa.Phi:
				for _, e := range x.Edges {
					if !chain[e] {
						keep = false
					}
				}
			case *ssa.Call:
				if strings.HasSuffix(callName(x.Common()), "types.DecCoins.Sub") {
					keep = chain[x.Common().Args[0]]
				} else {
					keep = retOK(x.Common().StaticCallee(), 0)
				}
			case *ssa.Extract:
				keep = retOK(x.Tuple.(*ssa.Call).Common().StaticCallee(), x.Index)
			case *ssa.UnOp:
				k := cellLoads[x]
				keep = !cellForeign[k] && len(cellStores[k]) > 0
				for _, sv := range cellStores[k] {
					if !chain[sv] {
						keep = false
					}
				}
			}
			if !keep {
				delete(chain, v)
				changed = true
			}
		}
	}
	return chain
}

func isCreditSite(s *Site) bool {
	return len(s.Callees) > 0 && strings.Contains(s.Method, "addSharesTo")
}

// distTree: the distribution routine and the helpers among which a refactoring may have split it (the crediting
// helpers and the percentage helper are not entered: they are the effects / the share formula). Returns the credit and
// percentage sites with their call chains, the functions of the tree, and for each function the chain that leads to it.
func (w *World) distTree(fn *ssa.Function) ([]EffSite, []*ssa.Function, map[*ssa.Function][]*Site) {
	credits := w.effectsBelow(fn, func(s *Site) bool {
		return isCreditSite(s) || calleeIs(s, "x/cfedistributor/keeper.calculatePercentage")
	}, 2)
	chainOf := map[*ssa.Function][]*Site{fn: nil}
	fns := []*ssa.Function{fn}
	for _, e := range credits {
		for i, c := range e.Chain {
			if _, ok := chainOf[c.Static]; !ok {
				chainOf[c.Static] = e.Chain[:i+1]
				fns = append(fns, c.Static)
			}
		}
	}
	return credits, fns, chainOf
}

func conserveRule(w *World, r *Report, rule string, a distAnchors) {
	cg := w.CG()
	fn := a.start
	inflow := paramOfType(fn, "github.com/cosmos/cosmos-sdk/types.DecCoins", 0)
	if inflow == nil {
		r.Unk(rule, "inflow parameter", w.Pos(fn.Pos()), "no DecCoins parameter")
		return
	}
	isCredit := isCreditSite
	credits, fns, _ := w.distTree(fn)
	chain := w.remainderChainTree(fn, inflow, fns)
	// every subtraction on the chain, anywhere in the tree
	var subs []*ssa.Call
	for _, f := range fns {
		for _, s2 := range cg.Sites[f] {
			if c2 := siteCall(s2); c2 != nil && strings.HasSuffix(callName(c2.Common()), "types.DecCoins.Sub") && chain[c2] {
				subs = append(subs, c2)
			}
		}
	}
	finals := 0
	for _, e := range credits {
		s := e.Site
		if !isCredit(s) {
			continue
		}
		cf := s.Caller
		x := creditedValue(s)
		pos := w.Pos(s.Instr.Pos())
		// a computed share: the percentage call itself, or the result of a tree helper every return of which yields one
		// (`share := d.takeShare(pct)`)
		inTreeFn := map[*ssa.Function]bool{}
		for _, f := range fns {
			inTreeFn[f] = true
		}
		shareCalls := func(v ssa.Value, depth int) ([]*ssa.Call, bool) { return shareCallsOf(v, inTreeFn, depth) }
		// a credit in a step helper that is handed the value (`k.distributeToShare(ctx, ..., share, calculatedShare)`):
		// the value is judged in the terms of the function that computed it
		xr := x
		if _, isP := x.(*ssa.Parameter); isP && len(e.Chain) > 0 {
			xr = e.ToRoot(x)
		}
		// the instruction of function g through which this credit is reached
		reachedVia := func(g *ssa.Function) ssa.Instruction {
			if g == cf {
				return s.Instr
			}
			for _, c := range e.Chain {
				if c.Caller == g {
					return c.Instr
				}
			}
			return nil
		}
		if pcs, ok := shareCalls(xr, 0); ok {
			// must have been subtracted from the remainder, dominating the credit (in the crediting function, or in the
			// helper that computes the share before it returns it)
			sub := true
			for _, pc := range pcs {
				g := pc.Parent()
				found := false
				for _, c2 := range subs {
					if c2.Parent() != g || c2.Common().Args[1] != ssa.Value(pc) || !chain[c2.Common().Args[0]] {
						continue
					}
					dom := false
					if via := reachedVia(g); via != nil {
						dom = instrDominates(c2, via)
					} else {
						dom = true
						for _, ret := range Returns(g) {
							if !instrDominates(c2, ret) {
								dom = false
							}
						}
					}
					// and the subtraction's result must flow on (be part of the chain feeding later phis / the state cell)
					if dom && c2.Referrers() != nil && len(*c2.Referrers()) > 0 {
						found = true
					}
				}
				if !found {
					sub = false
				}
			}
			r.Check(sub, rule, "share credited in "+s.Method+" was subtracted from the remainder", pos, "Sub(remainder, share) dominates the credit and flows on", "a share is credited to a destination without being taken from the remainder: coins would be counted twice")
			continue
		}
		if chain[xr] {
			finals++
			// only when the primary destination is not Main (tested in the function of the credit or in one of its callers
			// on the way down)
			notMainAt := func(f *ssa.Function, via ssa.Instruction) bool {
				edges := EdgesWhere(f, func(base ssa.Value) (bool, bool) {
					bo, ok := base.(*ssa.BinOp)
					if !ok || (bo.Op != token.EQL && bo.Op != token.NEQ) {
						return false, false
					}
					isType := func(v ssa.Value) bool { return loadOfField(v, "Type", nil) }
					isMain := func(v ssa.Value) bool { s, ok := EvalString(v); return ok && s == "MAIN" }
					if (isType(bo.X) && isMain(bo.Y)) || (isType(bo.Y) && isMain(bo.X)) {
						return bo.Op == token.NEQ, true
					}
					return false, false
				})
				return MustPass(f, edges, via.Block())
			}
			notMain := notMainAt(cf, s.Instr)
			for _, c := range e.Chain {
				if notMainAt(c.Caller, c.Instr) {
					notMain = true
				}
			}
			edges := EdgesWhere(cf, func(base ssa.Value) (bool, bool) {
				bo, ok := base.(*ssa.BinOp)
				if !ok || (bo.Op != token.EQL && bo.Op != token.NEQ) {
					return false, false
				}
				isType := func(v ssa.Value) bool { return loadOfField(v, "Type", nil) }
				isMain := func(v ssa.Value) bool { s, ok := EvalString(v); return ok && s == "MAIN" }
				if (isType(bo.X) && isMain(bo.Y)) || (isType(bo.Y) && isMain(bo.X)) {
					return bo.Op == token.NEQ, true
				}
				return false, false
			})
			once := !inCycle(s.Instr.Block())
			for _, c := range e.Chain {
				if inCycle(c.Instr.Block()) {
					once = false
				}
			}
			_ = edges
			r.Check(notMain && once, rule, "final remainder credited once, to a non-Main primary destination", pos, "outside any loop, under Type != MAIN", "the remainder is credited inside a loop or also when the primary destination is the main account")
			// it is the last value of the chain: every subtraction made on the remainder is on its backward slice
			o := w.Tracer().OriginsVia(e, x, nil)
			missing := ""
			for _, c2 := range subs {
				if !o.Calls[c2] {
					missing = w.Pos(c2.Pos())
				}
			}
			// ... and it is credited on every path: at each level of the call chain down to the credit, every path to a
			// return passes the next call (resp. the credit itself) - except, in the function of the credit, behind the test
			// that the primary destination is the main account (then the remainder stays un-booked in the main account)
			everyPath := ""
			for lvl := 0; lvl <= len(e.Chain); lvl++ {
				var f *ssa.Function
				var via ssa.Instruction
				if lvl < len(e.Chain) {
					f, via = e.Chain[lvl].Caller, e.Chain[lvl].Instr
				} else {
					f, via = cf, s.Instr
				}
				mainEdges := map[Edge]bool{}
				{
					for _, me := range EdgesWhere(f, func(base ssa.Value) (bool, bool) {
						bo, ok := base.(*ssa.BinOp)
						if !ok || (bo.Op != token.EQL && bo.Op != token.NEQ) {
							return false, false
						}
						isType := func(v ssa.Value) bool { return loadOfField(v, "Type", nil) }
						isMain := func(v ssa.Value) bool { s, ok := EvalString(v); return ok && s == "MAIN" }
						if (isType(bo.X) && isMain(bo.Y)) || (isType(bo.Y) && isMain(bo.X)) {
							return bo.Op == token.EQL, true
						}
						return false, false
					}) {
						mainEdges[me] = true
					}
				}
				// search a path entry -> return that avoids the block of `via` and the MAIN edges
				seen := map[*ssa.BasicBlock]bool{}
				stack := []*ssa.BasicBlock{f.Blocks[0]}
				for len(stack) > 0 && everyPath == "" {
					b := stack[len(stack)-1]
					stack = stack[:len(stack)-1]
					if seen[b] || b == via.Block() || b == f.Recover {
						continue
					}
					seen[b] = true
					if len(b.Instrs) > 0 {
						if ret, isRet := b.Instrs[len(b.Instrs)-1].(*ssa.Return); isRet {
							everyPath = funcName(f) + " can return at " + w.Pos(ret.Pos())
							continue
						}
					}
					for i, sc := range b.Succs {
						if !mainEdges[Edge{b, i}] {
							stack = append(stack, sc)
						}
					}
				}
			}
			r.Check(everyPath == "", rule, "the remainder is credited on every path (unless the primary destination is the main account)", pos, "no return of the distribution routine is reached without the final credit", "the inflow handed to the distribution routine can be dropped: "+everyPath+" without crediting what is left to the primary destination - the sources were already emptied, so those coins are in no state's books")
			r.Check(missing == "", rule, "the remainder credited is what is left after every subtraction", pos, fmt.Sprintf("all %d subtractions of shares are on the backward slice of the credited remainder", len(subs)), "the value credited to the primary destination was taken before the subtraction at "+missing+": that share is paid twice")
			continue
		}
		r.Bad(rule, "value credited in "+s.Method, pos, "a value that is neither a computed share nor the running remainder is credited to a state")
	}
	// between the collection of the inflow (which empties the sources and zeroes their leftovers) and the distribution
	// routine nothing but "nothing was collected" may skip the distribution
	if bb := w.Func("x/cfedistributor.BeginBlocker"); bb != nil {
		var prepE, startE *EffSite
		for _, e := range w.effectsBelow(bb, func(s *Site) bool {
			return calleeIs(s, "x/cfedistributor/keeper.Keeper.PrepareCoinsToDistribute") || calleeIs(s, "x/cfedistributor/keeper.Keeper.StartDistributionProcess")
		}, 2) {
			e := e
			if calleeIs(e.Site, "x/cfedistributor/keeper.Keeper.PrepareCoinsToDistribute") {
				prepE = &e
			} else {
				startE = &e
			}
		}
		if prepE == nil || startE == nil || prepE.Site.Caller != startE.Site.Caller {
			r.Unk(rule, "collection and distribution of a sub-distributor's inflow", w.Pos(bb.Pos()), "the calls of PrepareCoinsToDistribute and StartDistributionProcess were not found in one function of the block routine")
		} else {
			f := prepE.Site.Caller
			prep := siteValue(prepE.Site)
			zeroEdges := map[Edge]bool{}
			for _, ze := range EdgesWhere(f, func(base ssa.Value) (bool, bool) {
				c, ok := base.(*ssa.Call)
				if ok && hasSuffixAny(callName(c.Common()), "types.DecCoins.IsZero", "types.DecCoins.Empty") && len(c.Common().Args) > 0 && c.Common().Args[0] == prep {
					return true, true
				}
				return false, false
			}) {
				zeroEdges[ze] = true
			}
			skipped := ""
			from, target := prepE.Site.Instr.Block(), startE.Site.Instr.Block()
			if from != target {
				seen := map[*ssa.BasicBlock]bool{}
				var stack []*ssa.BasicBlock
				for i, sc := range from.Succs {
					if !zeroEdges[Edge{from, i}] {
						stack = append(stack, sc)
					}
				}
				for len(stack) > 0 && skipped == "" {
					b := stack[len(stack)-1]
					stack = stack[:len(stack)-1]
					if seen[b] || b == target {
						continue
					}
					seen[b] = true
					if b == from {
						skipped = "the next sub-distributor is reached"
						continue
					}
					if len(b.Instrs) > 0 {
						if _, isRet := b.Instrs[len(b.Instrs)-1].(*ssa.Return); isRet {
							skipped = "the function returns"
							continue
						}
					}
					for i, sc := range b.Succs {
						if !zeroEdges[Edge{b, i}] {
							stack = append(stack, sc)
						}
					}
				}
			}
			r.Check(skipped == "", rule, "a collected inflow is always distributed", w.Pos(startE.Site.Instr.Pos()), "between collection and distribution only the test 'nothing was collected' skips the distribution", "after the sources were emptied "+skipped+" without the distribution routine having run, on a path that is not the 'nothing collected' edge: the collected coins are in no state's books")
		}
	}
	r.Check(finals == 1, rule, "the remainder is credited exactly once", w.Pos(fn.Pos()), "one credit of the running remainder", fmt.Sprintf("%d credits of the running remainder", finals))
	// rounding discipline
	okTrunc := true
	n := 0
	for _, s := range cg.Sites[a.calcPct] {
		c := siteCall(s)
		if c == nil {
			continue
		}
		nm := callName(c.Common())
		if strings.Contains(nm, "types.DecCoins.Mul") || strings.Contains(nm, "types.DecCoins.Quo") {
			n++
			if !strings.HasSuffix(nm, "types.DecCoins.MulDecTruncate") {
				okTrunc = false
			}
		}
	}
	r.Check(okTrunc && n == 1, rule, "shares are computed with MulDecTruncate", w.Pos(a.calcPct.Pos()), "single multiplication, truncating", "a share is computed with a rounding multiplication: the sum of shares could exceed the inflow")
}

func checkC04(w *World, r *Report) {
	ro := w.Roles()
	r.Undecided = []string{"'cumulative receipts never drift by more than one base unit from share x cumulative inflow' is arithmetic and is not decided"}
	r.Rule("C04.key", "P8,P6", "lookup key = persistence key: the in-memory state lookup compares every Account field that determines the store key (GetStateKey/GetAccountKey); the burn state is looked up by its Burn flag alone", 2)
	r.Rule("C04.sameshape", "P7", "= C12.sameshape for State.Account: the burn destination is served whatever shape its (unused) Account field has - no pay-out or burn is control-dependent on the nil-ness of a field that validation accepts nil (imported) and the runtime creates non-nil", 1)
	r.Rule("C04.everyshare", "P5", "in the loop over Destinations.Shares every iteration path subtracts that share's calculatePercentage(share.Share, inflow) from the remainder, whatever the destination type", 1)
	r.Rule("C04.conserve", "P5,P6", "= C03.conserve: the primary destination receives exactly what is left after every named share and the burn share were taken off - on every path, once, and a collected inflow is always distributed", 6)
	r.Rule("C04.fraction", "P6", "the fraction used for a destination is that destination's own Share (resp. the sub-distributor's BurnShare), applied to the sub-distributor's total inflow, and credited to that same destination", 4)
	r.Rule("C04.inflow", "P6", "= C03.inflow: the inflow of which every destination receives its fraction is the main account's balance minus the sum of the remains of the full, current state list (an inflow computed from a stale sum or balance under- or overstates what every destination of that sub-distributor gets)", 3)
	r.Rule("C04.carry", "P5", "= C14.success: what a destination is owed stays in its state until the transfer that pays it succeeded: the state is reduced only on the success edge of the bank call, by exactly what was sent (a state emptied before a transfer that then fails forgets the destination's share and hands it to the others as fresh inflow)", 9)
	r.Rule("C04.threshold", "P7", "a destination is paid as soon as one whole unit is due: the predicate that decides whether a state is paid out this block answers yes exactly when some coin's amount is at least one (ordering table over the coin amount and the constant one: below => never yes, equal and above => yes)", 3)
	r.Rule("C04.order", "P4,P6", "= C03.order: the outcome must not depend on the order in which sources are listed", 1)
	if !ro.checkFloors(r) {
		return
	}
	a := distributorAnchors(w, r)
	if !a.ok {
		return
	}
	cg := w.CG()
	tr := w.Tracer()
	// ---------- C04.key ----------
	{
		keyFn := w.Func("x/cfedistributor/types.Account.GetAccountKey")
		stateKeyFn := w.Func("x/cfedistributor/types.State.GetStateKey")
		if keyFn == nil || stateKeyFn == nil {
			r.Unk("infra.anchor", "Account.GetAccountKey / State.GetStateKey", "", "anchor not found")
		} else {
			keyFields := map[string]bool{}
			for _, ret := range Returns(keyFn) {
				o := tr.Origins(retVals(ret)[0])
				for _, l := range o.Leaves {
					if i := strings.LastIndex(l.Path, "Account."); i >= 0 {
						keyFields[l.Path[i+len("Account."):]] = true
					}
				}
			}
			keyPurityRule(w, r, "C04.key")
			uses := false
			for _, s := range cg.Sites[stateKeyFn] {
				if calleeIs(s, "x/cfedistributor/types.Account.GetAccountKey") {
					uses = true
				}
			}
			cmp := map[string]bool{}
			accP := a.findAcc.Params[1]
			// decided by exploration: assuming that field f of the state's account differs from field f of the account
			// looked for (every ==/!= between the two decided accordingly, in the lookup or in a predicate helper it
			// calls), no position may be returned - whatever the comparison is spelled like
			for f := range keyFields {
				f := f
				nCmp := 0
				live := ReachUnder(a.findAcc, func(base ssa.Value) (bool, bool) {
					bo, ok := base.(*ssa.BinOp)
					if !ok || (bo.Op != token.EQL && bo.Op != token.NEQ) {
						return false, false
					}
					_, f1, ok1 := fieldOfValue(bo.X)
					_, f2, ok2 := fieldOfValue(bo.Y)
					if !ok1 || !ok2 || f1 != f2 || f1 != f {
						return false, false
					}
					// one side from the parameter account, the other from a state's Account
					px, py := rootParam(bo.X) == accP.Name(), rootParam(bo.Y) == accP.Name()
					if px == py {
						return false, false
					}
					nCmp++
					return bo.Op == token.NEQ, true
				})
				found := false
				for _, v := range live.LiveReturns(a.findAcc, 0) {
					c, isC := v.(*ssa.Const)
					if !isC || c.Value == nil || constant.Sign(constant.ToInt(c.Value)) >= 0 {
						found = true
					}
				}
				if nCmp > 0 && !found {
					cmp[f] = true
				}
			}
			// comparison through the key function also counts
			for _, s := range cg.Sites[a.findAcc] {
				if calleeIs(s, "x/cfedistributor/types.Account.GetAccountKey") {
					for k := range keyFields {
						cmp[k] = true
					}
				}
			}
			var missing []string
			for k := range keyFields {
				if !cmp[k] {
					missing = append(missing, k)
				}
			}
			sort.Strings(missing)
			r.Check(uses && len(keyFields) >= 2 && len(missing) == 0, "C04.key", "findAccountState compares every field of the persistence key", w.Pos(a.findAcc.Pos()),
				fmt.Sprintf("key fields %v all compared", keysOf(keyFields)), fmt.Sprintf("the store key is built from %v but the lookup does not compare %v: accounts of different types sharing an id are merged into one state", keysOf(keyFields), missing))
		}
	}
	burnLookupRule(w, r, "C04.key")
	// ---------- C04.sameshape ----------
	for _, nf := range w.mayBeNilFields(flatten(ro.EXPORT)) {
		if nf.Field != "Account" {
			continue
		}
		w.checkSameShape(r, "C04.sameshape", nf, ro.BLK["cfedistributor"])
	}
	// ---------- C04.everyshare / fraction ----------
	{
		root := a.start
		inflow := paramOfType(root, "github.com/cosmos/cosmos-sdk/types.DecCoins", 0)
		sites, fns, chainOf := w.distTree(root)
		chain := w.remainderChainTree(root, inflow, fns)
		// isInflow: the value (of tree function f) is the sub-distributor's total inflow handed down unchanged
		inTree := map[*ssa.Function]bool{}
		for _, f := range fns {
			inTree[f] = true
		}
		isInflow := func(f *ssa.Function, v ssa.Value) bool {
			if (EffSite{Chain: chainOf[f]}).ToRoot(v) == ssa.Value(inflow) {
				return true
			}
			// a field of the routine's own state object that is only ever assigned the inflow
			u, ok := v.(*ssa.UnOp)
			if !ok || u.Op != token.MUL {
				return false
			}
			fa, ok := u.X.(*ssa.FieldAddr)
			if !ok {
				return false
			}
			T, fld := fieldOf(fa)
			if T == nil || T.Obj().Exported() || T.Obj().Pkg() == nil || !strings.HasPrefix(T.Obj().Pkg().Path(), modPath) {
				return false
			}
			n := 0
			for _, g := range w.ProdFuncs() {
				for _, fs := range FieldStores(g) {
					if fs.Struct != T || fs.Field != fld {
						continue
					}
					n++
					if !inTree[g] || (EffSite{Chain: chainOf[g]}).ToRoot(fs.Store.Val) != ssa.Value(inflow) {
						return false
					}
				}
			}
			return n > 0
		}
		var shareLoop *rangeLoop
		var fn *ssa.Function
		for _, f := range fns {
			for _, l := range rangeLoops(f) {
				l := l
				if l.Over != nil && loadOfField(l.Over, "Shares", nil) {
					shareLoop, fn = &l, f
				}
			}
		}
		if shareLoop == nil {
			r.Unk("C04.everyshare", "loop over Destinations.Shares", w.Pos(root.Pos()), "loop not found")
		} else {
			// the value finally credited to the primary destination, as a signed combination of loop-carried
			// accumulators: V = (+)remainder (-)kept-aside ... ; on every iteration path the share must enter one of
			// them with the sign that takes it off V (Sub on a positive accumulator, Add on a subtracted one)
			signs := map[*ssa.Phi]int{}
			var credited ssa.Value
			for _, s := range cg.Sites[fn] {
				if strings.Contains(s.Method, "addSharesToAccountState") && !inLoopOf(shareLoop, s.Instr.Block()) {
					for _, a2 := range s.Args() {
						if types.Identical(a2.Type(), inflow.Type()) {
							credited = a2
						}
					}
				}
			}
			if credited != nil {
				accumulatorSigns(credited, +1, shareLoop.Header, signs, map[ssa.Value]bool{})
			} else {
				// the remainder is credited by another function of the tree: the loop-carried values on the remainder chain
				for v := range chain {
					if phi, isPhi := v.(*ssa.Phi); isPhi && phi.Block() == shareLoop.Header {
						signs[phi] = +1
					}
				}
			}
			isShareVal := func(v ssa.Value) bool {
				pc, ok := v.(*ssa.Call)
				if !ok || !strings.HasSuffix(callName(pc.Common()), "keeper.calculatePercentage") {
					return false
				}
				return loadOfField(pc.Common().Args[0], "Share", nil) && isInflow(fn, pc.Common().Args[1])
			}
			isShareSub := func(c *ssa.Call) bool {
				n := callName(c.Common())
				args := c.Common().Args
				if len(args) < 2 {
					return false
				}
				phi, isPhi := args[0].(*ssa.Phi)
				if !isPhi {
					// the running value inside the iteration may already be a Sub/Add result of the accumulator
					return false
				}
				sg, tracked := signs[phi]
				if !tracked {
					return false
				}
				arg := stripSlice(args[1])
				if !isShareVal(arg) {
					// variadic Add(x...) passes the coins as a slice conversion of the share value
					if ct, ok := args[1].(*ssa.ChangeType); !ok || !isShareVal(ct.X) {
						return false
					}
				}
				return sg > 0 && strings.HasSuffix(n, "types.DecCoins.Sub") || sg < 0 && strings.HasSuffix(n, "types.DecCoins.Add")
			}
			// the subtraction may sit in a helper the iteration calls (a method of the routine's state object that takes the
			// share off the remainder cell): every path through that helper must pass it
			var helperMustSub func(h *ssa.Function, toLoop func(ssa.Value) ssa.Value, depth int) bool
			subInBlock := func(f *ssa.Function, b *ssa.BasicBlock, toLoop func(ssa.Value) ssa.Value, depth int) bool {
				for _, in := range b.Instrs {
					c, isC := in.(*ssa.Call)
					if !isC {
						continue
					}
					if strings.HasSuffix(callName(c.Common()), "types.DecCoins.Sub") && len(c.Common().Args) == 2 {
						a0, a1 := c.Common().Args[0], c.Common().Args[1]
						pc, isP := stripSlice(a1).(*ssa.Call)
						if isP && chain[a0] && strings.HasSuffix(callName(pc.Common()), "keeper.calculatePercentage") &&
							loadOfField(toLoop(pc.Common().Args[0]), "Share", nil) && isInflow(f, pc.Common().Args[1]) {
							// the result must flow on: stored back into the cell it was loaded from, or used further
							if c.Referrers() != nil && len(*c.Referrers()) > 0 {
								return true
							}
						}
					}
					if h := c.Common().StaticCallee(); h != nil && inTree[h] && h != f && !c.Common().IsInvoke() && depth < 3 {
						bind := bindParams(h, c)
						if helperMustSub(h, func(v ssa.Value) ssa.Value { return toLoop(translateValue(v, bind, 0)) }, depth+1) {
							return true
						}
					}
				}
				return false
			}
			helperMustSub = func(h *ssa.Function, toLoop func(ssa.Value) ssa.Value, depth int) bool {
				// no path entry -> return that avoids every subtracting block
				seen := map[*ssa.BasicBlock]bool{}
				stack := []*ssa.BasicBlock{h.Blocks[0]}
				for len(stack) > 0 {
					b := stack[len(stack)-1]
					stack = stack[:len(stack)-1]
					if seen[b] || subInBlock(h, b, toLoop, depth) {
						continue
					}
					seen[b] = true
					if len(b.Instrs) > 0 {
						if _, isRet := b.Instrs[len(b.Instrs)-1].(*ssa.Return); isRet {
							return false
						}
					}
					stack = append(stack, b.Succs...)
				}
				return true
			}
			ident := func(v ssa.Value) ssa.Value { return v }
			ok := loopBodyMustPass(*shareLoop, func(b *ssa.BasicBlock) bool {
				return blockHasCall(b, isShareSub) || subInBlock(fn, b, ident, 0)
			}) && loopEarlyExit(*shareLoop) == nil
			r.Check(ok, "C04.everyshare", "every share is taken from the remainder", w.Pos(shareLoop.Body.Instrs[0].Pos()), "every path through the loop body subtracts calculatePercentage(share.Share, inflow)",
				"some iteration path (a share whose destination is the main account) skips the subtraction: that share is silently added to the primary destination")
		}
		// fraction: per calculatePercentage call, wherever in the tree it stands
		for _, e := range sites {
			s := e.Site
			if !calleeIs(s, "x/cfedistributor/keeper.calculatePercentage") {
				continue
			}
			f := s.Caller
			c := siteCall(s)
			args := c.Common().Args
			// the fraction in the terms of the routine (a helper that takes the share is handed the fraction by its callers)
			frac := e.ToRoot(args[0])
			isShare := loadOfField(frac, "Share", nil)
			isBurn := loadOfField(frac, "BurnShare", nil)
			okInflow := isInflow(f, args[1])
			r.Check((isShare || isBurn) && okInflow, "C04.fraction", "fraction applied to the total inflow", w.Pos(s.Instr.Pos()), "calculatePercentage(own share, inflow parameter)", "the share is not the destination's own fraction of the sub-distributor's total inflow")
			// credited to the same destination: the credit sites of the functions on this call's chain whose share operand
			// stands for this very call
			onChain := map[*ssa.Function]int{f: len(e.Chain)}
			for k, cs := range e.Chain {
				onChain[cs.Caller] = k
			}
			for _, e2 := range sites {
				s2 := e2.Site
				if len(s2.Callees) == 0 || !strings.Contains(s2.Method, "addSharesTo") {
					continue
				}
				lvl, on := onChain[s2.Caller]
				args2 := flatArgs(s2)
				if !on && len(e2.Chain) > len(e.Chain) && e2.Chain[len(e.Chain)].Caller == f {
					// the credit stands in a step helper below the function that computes the share and is handed the
					// share and its destination (`k.distributeToShare(ctx, ..., share, calculatedShare)`): its arguments
					// are read in the terms of that function
					lvl, on = len(e.Chain), true
					below := EffSite{Site: s2, Chain: e2.Chain[len(e.Chain):]}
					args2 = nil
					for _, a2 := range flatArgs(s2) {
						args2 = append(args2, below.ToRoot(a2))
					}
				} else if !on || len(e2.Chain) != lvl {
					continue
				}
				samePrefix := true
				for k := 0; k < lvl; k++ {
					if e2.Chain[k] != e.Chain[k] {
						samePrefix = false
					}
				}
				if !samePrefix {
					continue
				}
				hit := false
				for _, a2 := range args2 {
					if a2 == ssa.Value(c) {
						hit = true
					}
					if pcs, ok := shareCallsOf(a2, inTree, 0); ok && lvl < len(e.Chain) {
						// the helper call through which this percentage call is reached from the crediting function
						if cc, isC := a2.(*ssa.Call); isC && ssa.CallInstruction(cc) == e.Chain[lvl].Instr {
							for _, pc := range pcs {
								if pc == c {
									hit = true
								}
							}
						}
					}
				}
				if !hit {
					continue
				}
				// the fraction in the crediting function's terms
				fracAt := EffSite{Chain: e.Chain[lvl:]}.ToRoot(args[0])
				if isShare {
					okDest := false
					shareElem := derefRoot(fracAt)
					for _, a2 := range args2 {
						if fa, ok := a2.(*ssa.FieldAddr); ok {
							if _, f := fieldOf(fa); f == "Destination" && derefRoot(fa.X) == shareElem {
								okDest = true
							}
						}
					}
					r.Check(okDest, "C04.fraction", "share credited to its own destination", w.Pos(s2.Instr.Pos()), "&share.Destination of the same element", "a share is credited to another destination than its own")
				} else {
					burnCredit := strings.Contains(s2.Method, "Burn")
					for _, a2 := range args2 {
						if fnv, isF := a2.(*ssa.Function); isF && strings.Contains(fnv.Name(), "Burn") {
							burnCredit = true // the burn-state finder handed to a shared crediting helper
						}
						if bv, isB := constBool(a2); isB && bv {
							burnCredit = true // the burn flag of a shared crediting helper
						}
					}
					r.Check(burnCredit, "C04.fraction", "burn share credited to the burn state", w.Pos(s2.Instr.Pos()), "addSharesToBurnState", "the burn share is credited to an account state")
				}
			}
		}
	}
	orderRule(w, r, "C04.order", a)
	shareRule(w, r, checkC03, "C03.inflow", "C04.inflow", nil)
	successRule(w, r, "C04.carry")
	payoutThresholdRule(w, r, "C04.threshold")
	conserveRule(w, r, "C04.conserve", a)
}

func keysOf(m map[string]bool) []string {
	var out []string
	for k := range m {
		out = append(out, k)
	}
	sort.Strings(out)
	return out
}

func checkC14(w *World, r *Report) {
	ro := w.Roles()
	cg := w.CG()
	r.Undecided = []string{"'every destination ends up with what it would have received, up to one base unit' is numeric; only the structural conditions without which it cannot hold are decided"}
	r.Rule("C14.success", "P5", "in each pay-out function state.Remains is stored only on the success edge of the bank call, with result #1 of the TruncateDecimal whose result #0 was sent; on the failure edge no field of the state is stored", 9)
	r.Rule("C14.sweep", "P5,P6,P7", "in each source sweep, evaluated under 'transfer failed' / 'transfer succeeded' (origins restricted to live edges): nothing returned after a failed transfer depends on the coins that were to be moved, everything returned after a successful one contains them; the sweep goes to the main account; leftovers that were cleared from the source's own state reach the returned inflow on every path", 7)
	r.Rule("C14.retry", "P5", "the end-of-block pay-out over the stored states is on every path of the distributor's block routine (no early return when nothing arrived): leftovers of failed transfers are retried in every block", 2)
	r.Rule("C14.wrapper", "P4,P6", "every bank transfer or burn in the distributor's block tree sits in a keeper wrapper that passes its amount and account parameters to the bank unchanged and returns the bank's result: callers reason about the amount they passed", 4)
	r.Rule("C14.inflow", "P6", "= C03.inflow: leftovers of failed transfers stay in the main account and in the states; the main inflow subtracts the current sum of all of them from the current balance, so that they are neither distributed a second time nor dropped", 3)
	r.Rule("C14.conserve", "P5,P6", "= C03.conserve: whatever a sub-distributor collected - leftovers of failed transfers included - is credited to destinations on every path, once", 6)
	r.Rule("C14.persist", "P5", "= C03.persist", 3)
	r.Rule("C14.noerrorexit", "P5", "= C10.swallow: bank errors in the distributor's block tree are logged and never escalate to a panic or an error return", 5)
	if !ro.checkFloors(r) {
		return
	}
	a := distributorAnchors(w, r)
	if !a.ok {
		return
	}
	successRule(w, r, "C14.success")
	// direction of the pay-outs: out of the main account, to the state's own account
	r.Rule("C14.direction", "P4,P6", "every pay-out moves coins out of the distributor main account to the account recorded in the state (module name / parsed address of state.Account.Id); the burn burns from the main account", 3)
	mainAcc, _ := constOf(w, "x/cfedistributor/types", "DistributorMainAccount")
	for _, anchor := range []string{"x/cfedistributor/keeper.Keeper.burnCoins", "x/cfedistributor/keeper.Keeper.sendCoinsToModuleAccount", "x/cfedistributor/keeper.Keeper.sendCoinsToBaseAccount"} {
		fn := w.Func(anchor)
		if fn == nil {
			continue
		}
		for _, s := range cg.Sites[fn] {
			if len(s.Callees) != 1 {
				continue
			}
			below := cg.targetsBelow(s.Callees[0], func(x *Site) bool { a := cg.Atom(x); return a == BankMove || a == BankBurn }, map[*ssa.Function]bool{})
			if len(below) != 1 {
				continue
			}
			atom := below[0]
			wrapper := s.Callees[0]
			// map the atom's module/address arguments back to this call's arguments
			argOfParam := func(v ssa.Value) ssa.Value {
				if p, ok := v.(*ssa.Parameter); ok {
					for i, x := range wrapper.Params {
						if x == p && i < len(s.Common().Args) {
							return s.Common().Args[i]
						}
					}
				}
				return v
			}
			var srcs, dsts []ssa.Value
			aa := atom.Args()
			switch atom.Method {
			case "BurnCoins":
				srcs = []ssa.Value{argOfParam(aa[1])}
			case "SendCoinsFromModuleToModule", "SendCoinsFromModuleToAccount":
				srcs = []ssa.Value{argOfParam(aa[1])}
				dsts = []ssa.Value{argOfParam(aa[2])}
			default:
				r.Bad("C14.direction", funcName(fn)+": pay-out operation", w.Pos(s.Instr.Pos()), "unexpected bank operation "+atom.Method)
				continue
			}
			okSrc := len(srcs) == 1
			for _, v := range srcs {
				if c, ok := EvalString(v); !ok || c != mainAcc {
					okSrc = false
				}
			}
			okDst := true
			for _, v := range dsts {
				o := w.Tracer().Origins(v)
				if !o.HasPath("Account.Id") || o.HasLeaf("const", mainAcc) {
					okDst = false
				}
			}
			r.Check(okSrc && okDst, "C14.direction", funcName(fn)+": from the main account to the state's account", w.Pos(s.Instr.Pos()), atom.Method+"(main account -> state.Account.Id)", "the pay-out does not move coins from the distributor main account to the account recorded in the state")
		}
	}
	sweepRule(w, r, "C14.sweep")
	// ---------- C14.retry ----------
	// what a failed pay-out leaves in a state is retried by the end-of-block pay-out of a later block: that step must
	// run in every block, whether or not anything new arrived
	if bb := w.Func("x/cfedistributor.BeginBlocker"); bb != nil {
		var callBlocks = map[*ssa.BasicBlock]bool{}
		for _, s := range cg.Sites[bb] {
			if calleeIs(s, "x/cfedistributor/keeper.Keeper.SendCoinsFromStates") {
				callBlocks[s.Instr.Block()] = true
			}
		}
		// is a return reachable from the entry without passing a block that makes the call?
		skipped := false
		seen := map[*ssa.BasicBlock]bool{}
		var walk func(b *ssa.BasicBlock)
		walk = func(b *ssa.BasicBlock) {
			if seen[b] || callBlocks[b] {
				return
			}
			seen[b] = true
			if _, isRet := b.Instrs[len(b.Instrs)-1].(*ssa.Return); isRet {
				skipped = true
			}
			for _, sc := range b.Succs {
				walk(sc)
			}
		}
		walk(bb.Blocks[0])
		r.Check(len(callBlocks) > 0 && !skipped, "C14.retry", "the pay-out of the states runs in every block", w.Pos(bb.Pos()), "every path of BeginBlocker to its end passes SendCoinsFromStates", "some path of the block routine ends without the end-of-block pay-out (for example when nothing arrived): what a failed transfer left in a state is not retried in such blocks, so it is not made up until new coins happen to arrive")
		// and it pays out the full current state list
		for _, s := range cg.Sites[bb] {
			if calleeIs(s, "x/cfedistributor/keeper.Keeper.SendCoinsFromStates") {
				a := s.Args()
				o := w.Tracer().Origins(a[len(a)-1])
				r.Check(o.HasCall("GetAllStates"), "C14.retry", "the pay-out ranges over the stored states", w.Pos(s.Instr.Pos()), "the list passed originates from GetAllStates", "the end-of-block pay-out is not given the stored states")
			}
		}
	} else {
		r.Unk("infra.anchor", "x/cfedistributor.BeginBlocker", "", "anchor not found")
	}
	wrapperRule(w, r, "C14.wrapper")
	persistRule(w, r, "C14.persist", a)
	conserveRule(w, r, "C14.conserve", a)
	shareRule(w, r, checkC03, "C03.inflow", "C14.inflow", nil)
	// ---------- C14.noerrorexit ----------
	dreach := cg.Reach(ro.BLK["cfedistributor"])
	for _, s := range cg.SitesIn(dreach) {
		at := cg.Atom(s)
		if at != BankMove && at != BankBurn {
			continue
		}
		wf := s.Caller
		for _, cs := range cg.Callers[wf] {
			if _, ok := dreach[cs.Caller]; !ok {
				continue
			}
			call := siteValue(cs)
			construct := fmt.Sprintf("%s via %s in %s", s.Method, funcName(wf), funcName(cs.Caller))
			if call == nil {
				r.Bad("C14.noerrorexit", construct, w.Pos(cs.Instr.Pos()), "bank error dropped in a deferred call")
				continue
			}
			ev := errValues(cs.Caller, call)
			tested := len(NilEdges(cs.Caller, ev, false)) > 0
			res := cs.Caller.Signature.Results()
			returnsErr := res.Len() > 0 && isErrorType(res.At(res.Len()-1).Type())
			panics := false
			for _, e := range NilEdges(cs.Caller, ev, false) {
				if reachesPanic(e.To()) {
					panics = true
				}
			}
			r.Check(tested && !returnsErr && !panics, "C14.noerrorexit", construct, w.Pos(cs.Instr.Pos()), "error tested, logged, block processing continues", "a failed transfer escalates (panic or error return) instead of being made up later")
		}
	}
}

func reachesPanic(b *ssa.BasicBlock) bool {
	seen := map[*ssa.BasicBlock]bool{}
	var walk func(x *ssa.BasicBlock) bool
	walk = func(x *ssa.BasicBlock) bool {
		if seen[x] {
			return false
		}
		seen[x] = true
		if _, ok := x.Instrs[len(x.Instrs)-1].(*ssa.Panic); ok {
			return true
		}
		for _, s := range x.Succs {
			if walk(s) {
				return true
			}
		}
		return false
	}
	return walk(b)
}

// wrapperRule: the distributor keeper's bank wrappers are transparent: what the caller asked to move is what the
// bank is asked to move, and the bank's verdict is what the caller gets back.
func wrapperRule(w *World, r *Report, rule string) {
	cg := w.CG()
	ro := w.Roles()
	for _, s := range cg.SitesIn(cg.Reach(ro.BLK["cfedistributor"])) {
		at := cg.Atom(s)
		if at != BankMove && at != BankBurn {
			continue
		}
		fn := s.Caller
		amt := coinsArg(s)
		_, isParam := amt.(*ssa.Parameter)
		okRet := true
		for _, ret := range Returns(fn) {
			vs := retVals(ret)
			if len(vs) != 1 || vs[0] != siteValue(s) {
				okRet = false
			}
		}
		okArgs := true
		for _, a := range s.Args() {
			if a == amt {
				continue
			}
			if _, ok := a.(*ssa.Parameter); !ok {
				okArgs = false
			}
		}
		r.Check(isParam && okRet && okArgs, rule, funcName(fn)+": transparent bank wrapper", w.Pos(s.Instr.Pos()),
			"amount, accounts and result are passed through unchanged", "the wrapper changes the amount or accounts, or hides the bank's result: its callers book the amount they asked for on a nil result")
	}
}

// sweepRule: a source sweep reports as inflow exactly what it moved into the main account, and nothing when the
// transfer failed.
func sweepRule(w *World, r *Report, rule string) {
	cg := w.CG()
	for _, anchor := range []string{"x/cfedistributor/keeper.Keeper.prepareCoinToDistributeForModuleAccount", "x/cfedistributor/keeper.Keeper.prepareCoinToDistributeForBaseAccount"} {
		fn := w.Func(anchor)
		if fn == nil {
			r.Unk("infra.anchor", anchor, "", "anchor not found")
			continue
		}
		var xfer *Site
		for _, s := range cg.Sites[fn] {
			for _, c := range s.Callees {
				if len(cg.targetsBelow(c, func(x *Site) bool { return cg.Atom(x) == BankMove }, map[*ssa.Function]bool{})) > 0 {
					xfer = s
				}
			}
		}
		if xfer == nil {
			r.Bad(rule, funcName(fn)+": sweeps the source", w.Pos(fn.Pos()), "no transfer found")
			continue
		}
		ev := errValues(fn, siteValue(xfer))
		// a sweeping helper that logs the bank's error and answers with a bool (`if !k.sweep(...) { return nil }`): the
		// truth value that stands for "the transfer succeeded"
		xv := siteValue(xfer)
		boolSweep, okMeans := false, false
		if xv != nil && strings.HasSuffix(typeString(xv.Type()), "bool") {
			if v, isDecided := w.boolErrPolarity(xfer); isDecided {
				boolSweep, okMeans = true, v
			}
		}
		sent := coinsArg(xfer)
		dependsOnSent := func(o *Origin) bool {
			if c, ok := sent.(*ssa.Call); ok && o.Calls[c] {
				return true
			}
			return o.Visited(sent)
		}
		for _, failed := range []bool{true, false} {
			failed := failed
			errEval := OrderEval(func(v ssa.Value) string {
				if ev[v] {
					return "err"
				}
				return ""
			}, func(a, b string) (int, bool) { return 0, false }, func(t string) (bool, bool) { return !failed, t == "err" })
			live := ReachUnder(fn, func(base ssa.Value) (bool, bool) {
				if boolSweep && base == xv {
					return okMeans != failed, true
				}
				return errEval(base)
			})
			lt := w.Tracer()
			lt.Live, lt.LiveFn = live, fn
			nret, ok := 0, true
			// returns reachable after the transfer along live edges
			after := map[*ssa.BasicBlock]bool{}
			var fwd func(b *ssa.BasicBlock)
			fwd = func(b *ssa.BasicBlock) {
				if after[b] {
					return
				}
				after[b] = true
				for i, sc := range b.Succs {
					if live.Edges[Edge{b, i}] {
						fwd(sc)
					}
				}
			}
			if live.Blocks[xfer.Instr.Block()] {
				fwd(xfer.Instr.Block())
			}
			for _, ret := range Returns(fn) {
				if !after[ret.Block()] {
					continue
				}
				nret++
				dep := dependsOnSent(lt.Origins(retVals(ret)[0]))
				if failed && dep || !failed && !dep {
					ok = false
				}
			}
			if failed {
				r.Check(ok && nret > 0, rule, funcName(fn)+": failed sweep contributes nothing", w.Pos(xfer.Instr.Pos()), "no value returned on the failure edge depends on the coins that were to be moved", "a failed sweep still reports the coins as inflow: they would be distributed without having arrived")
			} else {
				r.Check(ok && nret > 0, rule, funcName(fn)+": inflow reported = coins transferred", w.Pos(fn.Pos()), "every value returned on the success edge contains the very coins sent", "the inflow reported after a successful sweep does not contain the coins that were moved into the main account")
			}
		}
		// the coins sent are the balance of the source, moved into the main account
		names := w.bankStringArgs(xfer)
		toMain := false
		for _, ns := range names {
			for _, n := range ns {
				if n == "distributor_main_account" {
					toMain = true
				}
			}
		}
		if !toMain && xfer.Static != nil && !xfer.Invoke && w.isProdFunc(xfer.Static) {
			// the destination named inside a sweeping helper of the module (one level)
			for _, s2 := range cg.Sites[xfer.Static] {
				moves := cg.Atom(s2) == BankMove
				for _, c := range s2.Callees {
					if len(cg.targetsBelow(c, func(x *Site) bool { return cg.Atom(x) == BankMove }, map[*ssa.Function]bool{})) > 0 {
						moves = true
					}
				}
				if !moves {
					continue
				}
				for _, ns := range w.bankStringArgs(s2) {
					for _, n := range ns {
						if n == "distributor_main_account" {
							toMain = true
						}
					}
				}
			}
		}
		r.Check(toMain, rule, funcName(fn)+": swept into the distributor main account", w.Pos(xfer.Instr.Pos()), "destination constant", fmt.Sprintf("sweep destination %v", names))
	}
	// leftovers taken over from a source's own state reach the inflow on every path (they were cleared in the state)
	if nm := w.Func("x/cfedistributor/keeper.Keeper.prepareCoinToDistributeForNotMainAccount"); nm != nil {
		for _, s := range cg.Sites[nm] {
			if !calleeIs(s, "x/cfedistributor/keeper.prepareLeftCoinToDistribute") {
				continue
			}
			l := siteValue(s)
			ok := true
			for _, ret := range Returns(nm) {
				if !mustDerive(w, retVals(ret)[0], l, 0) {
					ok = false
				}
			}
			r.Check(ok && l != nil, rule, funcName(nm)+": leftovers cleared from the source's state reach the inflow on every path", w.Pos(s.Instr.Pos()), "every return carries the result of prepareLeftCoinToDistribute", "on some path the leftovers that were cleared from the state are dropped (for example when the sweep fails): the coins stay in the main account with no state recording them")
		}
	} else {
		r.Unk("infra.anchor", "x/cfedistributor/keeper.Keeper.prepareCoinToDistributeForNotMainAccount", "", "anchor not found")
	}
}

// mustDerive: on every path the value v contains target: v is target, an Add/append-like call with a must-derived
// argument, a phi all of whose edges must-derive, or a module call whose every return must-derives from a parameter
// bound to a must-derived argument.
func mustDerive(w *World, v, target ssa.Value, depth int) bool {
	if v == target {
		return true
	}
	if depth > 3 {
		return false
	}
	switch x := v.(type) {
	case *ssa.Phi:
		for _, e := range x.Edges {
			if !mustDerive(w, e, target, depth+1) {
				return false
			}
		}
		return len(x.Edges) > 0
	case *ssa.Extract:
		return mustDerive(w, x.Tuple, target, depth)
	case *ssa.ChangeType:
		return mustDerive(w, x.X, target, depth)
	case *ssa.Slice:
		return mustDerive(w, x.X, target, depth)
	case *ssa.Call:
		n := callName(x.Common())
		if hasSuffixAny(n, "types.DecCoins.Add", "types.Coins.Add") {
			for _, a := range x.Common().Args {
				if mustDerive(w, a, target, depth+1) {
					return true
				}
			}
			return false
		}
		callee := x.Common().StaticCallee()
		if callee == nil || callee.Blocks == nil || !w.isProdFunc(callee) {
			return false
		}
		for i, a := range x.Common().Args {
			if i >= len(callee.Params) || !mustDerive(w, a, target, depth+1) {
				continue
			}
			all := true
			for _, ret := range Returns(callee) {
				if !mustDerive(w, retVals(ret)[0], callee.Params[i], depth+1) {
					all = false
				}
			}
			if all {
				return true
			}
		}
	}
	return false
}

// burnLookupRule: the burn state is stored under a key of its own, chosen by nothing but the Burn flag
// (State.Validate: Burn <=> no account); the in-memory lookup must select by that flag alone, whatever shape the
// Account field has (nil after a genesis import or migration, empty when created at run time).
func burnLookupRule(w *World, r *Report, rule string) {
	fn := w.Func("x/cfedistributor/keeper.findBurnState")
	if fn == nil {
		r.Unk("infra.anchor", "x/cfedistributor/keeper.findBurnState", "", "anchor not found")
		return
	}
	// follow "return g(...)" delegation
	for depth := 0; depth < 2; depth++ {
		rets := Returns(fn)
		if len(rets) != 1 {
			break
		}
		c, ok := retVals(rets[0])[0].(*ssa.Call)
		if !ok || c.Common().StaticCallee() == nil || c.Common().StaticCallee().Blocks == nil || !w.isProdFunc(c.Common().StaticCallee()) {
			break
		}
		fn = c.Common().StaticCallee()
	}
	construct := "burn state lookup selects by the Burn flag alone"
	var burnLoads []ssa.Value
	for _, b := range fn.Blocks {
		for _, in := range b.Instrs {
			if v, ok := in.(ssa.Value); ok && loadOfField(v, "Burn", nil) {
				burnLoads = append(burnLoads, v)
			}
		}
	}
	if len(burnLoads) == 0 {
		r.Bad(rule, construct, w.Pos(fn.Pos()), "the lookup ("+funcName(fn)+") never reads State.Burn: a burn state stored without an account (after genesis import or migration) and one created at run time (empty account) are not both found, and a second burn state overwrites the first under the same key")
		return
	}
	var edges []Edge
	loadBlocks := map[*ssa.BasicBlock]bool{}
	for _, v := range burnLoads {
		edges = append(edges, boolValueEdges(fn, v, true)...)
		loadBlocks[v.(ssa.Instruction).Block()] = true
	}
	ok := true
	why := ""
	for _, ret := range Returns(fn) {
		v := retVals(ret)[0]
		if c, isC := v.(*ssa.Const); isC && c.Value != nil && c.Int64() < 0 {
			continue
		}
		if !MustPass(fn, edges, ret.Block()) {
			ok = false
			why = "a position is returned for a state whose Burn flag was not tested true"
		}
	}
	loops := rangeLoops(fn)
	if len(loops) != 1 {
		ok = false
		why = "no single loop over the states"
	} else if !loopBodyMustPass(loops[0], func(b *ssa.BasicBlock) bool { return loadBlocks[b] }) {
		// leaving the loop with the found position is fine; skipping an element before its flag is read is not
		skip := false
		in := loopBlocks(loops[0].Header)
		var walk func(b *ssa.BasicBlock, seen map[*ssa.BasicBlock]bool)
		walk = func(b *ssa.BasicBlock, seen map[*ssa.BasicBlock]bool) {
			if seen[b] || loadBlocks[b] || !in[b] {
				return
			}
			seen[b] = true
			for _, s := range b.Succs {
				if s == loops[0].Header {
					skip = true
				}
				walk(s, seen)
			}
		}
		walk(loops[0].Body, map[*ssa.BasicBlock]bool{})
		if skip {
			ok = false
			why = "some states are skipped before their Burn flag is read"
		}
	}
	r.Check(ok, rule, construct, w.Pos(fn.Pos()), "every element's Burn flag is read; a position is returned only on its true edge", why)
}

// remainsWritersRule (closed world): every store to State.Remains on the distributor's block tree is one of the
// four book-keeping moves; anything else would change the books without a matching movement of coins.
func remainsWritersRule(w *World, r *Report, rule string) {
	cg := w.CG()
	ro := w.Roles()
	tr := w.Tracer()
	n := map[string]int{}
	for fn := range cg.Reach(ro.BLK["cfedistributor"]) {
		if !w.isProdFunc(fn) {
			continue
		}
		for _, fs := range FieldStores(fn) {
			if fs.Field != "Remains" || !namedIs(fs.Struct, "x/cfedistributor/types", "State") {
				continue
			}
			// a value handed in as a parameter is classified at every call site of the helper
			type inst struct {
				fn  *ssa.Function
				val ssa.Value
			}
			insts := []inst{{fn, fs.Store.Val}}
			if prm, isP := fs.Store.Val.(*ssa.Parameter); isP {
				idx := -1
				for i, q := range fn.Params {
					if q == prm {
						idx = i
					}
				}
				if callers := cg.Callers[fn]; idx >= 0 && len(callers) > 0 {
					var lifted []inst
					for _, cs := range callers {
						if !cs.Common().IsInvoke() && idx < len(cs.Common().Args) {
							lifted = append(lifted, inst{cs.Caller, cs.Common().Args[idx]})
						} else {
							lifted = nil
							break
						}
					}
					if lifted != nil {
						insts = lifted
					}
				}
			}
			for _, it := range insts {
				val := it.val
				kind := ""
				switch {
				case isEmptyDecCoins(val):
					// zeroing: either a new state's initial value, or the old value is carried into the returned inflow
					if _, isAlloc := fs.FA.X.(*ssa.Alloc); isAlloc {
						kind = "initial value of a new state"
					} else {
						carried := false
						for _, ret := range Returns(fn) {
							for _, rv := range retVals(ret) {
								if tr.Origins(rv).HasPath("State.Remains") {
									carried = true
								}
							}
						}
						if carried {
							kind = "cleared and carried into the inflow returned"
						}
					}
				default:
					if c, ok := isCallTo(val, "types.DecCoins.Add"); ok && loadOfField(c.Common().Args[0], "Remains", nil) {
						// credit: Remains = Remains.Add(share parameter)
						o := tr.Origins(c.Common().Args[1])
						if _, isP := stripSlice(c.Common().Args[1]).(*ssa.Parameter); isP || o.HasLeaf("param", "") {
							kind = "credit of the share passed in"
						}
					}
					if ex, ok := val.(*ssa.Extract); ok && ex.Index == 1 {
						if c, ok := ex.Tuple.(*ssa.Call); ok && strings.HasSuffix(callName(c.Common()), "DecCoins.TruncateDecimal") {
							kind = "change left after a pay-out"
						}
					}
				}
				where := funcName(fn)
				if it.fn != fn {
					where += " (value from " + funcName(it.fn) + ")"
				}
				construct := fmt.Sprintf("%s: State.Remains := %s", where, map[bool]string{true: kind, false: "?"}[kind != ""])
				n[where+kind]++
				if kind == "" {
					r.Bad(rule, fmt.Sprintf("%s: unclassified store to State.Remains #%d", where, n[where+kind]), w.Pos(fs.Store.Pos()), "this write of a state's leftover is neither the initial value, a credit of the share passed in, the change after a pay-out, nor a clearing whose old value is returned as inflow: the books change without coins moving")
				} else {
					r.Enum(rule, fmt.Sprintf("%s #%d", construct, n[where+kind]), w.Pos(fs.Store.Pos()), kind)
				}
			}
		}
	}
}

func isEmptyDecCoins(v ssa.Value) bool {
	c, ok := v.(*ssa.Call)
	if !ok || !strings.HasSuffix(callName(c.Common()), "types.NewDecCoins") {
		return false
	}
	a := c.Common().Args
	return len(a) == 0 || isNilConst(a[0])
}

func stripSlice(v ssa.Value) ssa.Value {
	for {
		switch x := v.(type) {
		case *ssa.Slice:
			v = x.X
		case *ssa.ChangeType:
			v = x.X
		default:
			return v
		}
	}
}

func inLoopOf(l *rangeLoop, b *ssa.BasicBlock) bool {
	if l == nil {
		return false
	}
	return loopBlocks(l.Header)[b]
}

// accumulatorSigns walks the expression of v through DecCoins.Sub / Add and phis and records, for every phi of the
// given loop header it meets, the sign with which that accumulator enters v (+1 minuend side, -1 subtracted).
func accumulatorSigns(v ssa.Value, sign int, header *ssa.BasicBlock, out map[*ssa.Phi]int, seen map[ssa.Value]bool) {
	if v == nil || seen[v] {
		return
	}
	seen[v] = true
	switch x := v.(type) {
	case *ssa.Phi:
		if x.Block() == header {
			if _, has := out[x]; !has {
				out[x] = sign
			}
			return
		}
		for _, e := range x.Edges {
			accumulatorSigns(e, sign, header, out, seen)
		}
	case *ssa.Call:
		n := callName(x.Common())
		args := x.Common().Args
		switch {
		case strings.HasSuffix(n, "types.DecCoins.Sub") && len(args) == 2:
			accumulatorSigns(args[0], sign, header, out, seen)
			accumulatorSigns(args[1], -sign, header, out, seen)
		case strings.HasSuffix(n, "types.DecCoins.Add") && len(args) == 2:
			accumulatorSigns(args[0], sign, header, out, seen)
			accumulatorSigns(args[1], sign, header, out, seen)
		}
	case *ssa.ChangeType:
		accumulatorSigns(x.X, sign, header, out, seen)
	case *ssa.Slice:
		accumulatorSigns(x.X, sign, header, out, seen)
	}
}

// shareCallsOf: the calculatePercentage calls a value stands for: the call itself, or - for the result of a helper of
// the distribution tree - the percentage calls every return of the helper yields (`share := d.takeShare(pct)`).
func shareCallsOf(v ssa.Value, inTree map[*ssa.Function]bool, depth int) ([]*ssa.Call, bool) {
	if depth > 3 {
		return nil, false
	}
	idx := 0
	var c *ssa.Call
	switch y := v.(type) {
	case *ssa.Call:
		c = y
	case *ssa.Extract:
		c, _ = y.Tuple.(*ssa.Call)
		idx = y.Index
	}
	if c == nil {
		return nil, false
	}
	if strings.HasSuffix(callName(c.Common()), "keeper.calculatePercentage") {
		return []*ssa.Call{c}, true
	}
	h := c.Common().StaticCallee()
	if h == nil || !inTree[h] || c.Common().IsInvoke() {
		return nil, false
	}
	var out []*ssa.Call
	rets := Returns(h)
	for _, ret := range rets {
		rv := retVals(ret)
		if idx >= len(rv) {
			return nil, false
		}
		cs, ok := shareCallsOf(rv[idx], inTree, depth+1)
		if !ok {
			return nil, false
		}
		out = append(out, cs...)
	}
	return out, len(rets) > 0
}

// creditedValue: the coins a crediting call adds to a state: its DecCoins argument, or the DecCoins field of a small
// struct literal built at the call site to carry the arguments.
func creditedValue(s *Site) ssa.Value {
	var x ssa.Value
	for _, arg := range s.Args() {
		if strings.HasSuffix(typeString(arg.Type()), "types.DecCoins") {
			x = arg
		}
	}
	if x != nil {
		return x
	}
	for _, arg := range s.Args() {
		for _, v := range literalArgFields(arg) {
			if strings.HasSuffix(typeString(v.Type()), "types.DecCoins") {
				x = v
			}
		}
	}
	return x
}

// flatArgs: the call's arguments, with the fields of small struct literals built at the call site added.
func flatArgs(s *Site) []ssa.Value {
	out := append([]ssa.Value{}, s.Args()...)
	for _, a := range s.Args() {
		lf := literalArgFields(a)
		var idx []int
		for i := range lf {
			idx = append(idx, i)
		}
		sort.Ints(idx)
		for _, i := range idx {
			out = append(out, lf[i])
		}
	}
	return out
}

// payoutThresholdRule: cumulative receipts stay within one base unit of share x inflow only if a state is paid out as
// soon as its remains reach one whole unit. The pay-out predicate (the bool function of the distributor's keeper that
// the end-of-block loop asks about a state's remains) is explored under amount < 1, amount == 1, amount > 1.
func payoutThresholdRule(w *World, r *Report, rule string) {
	fn := w.Func("x/cfedistributor/keeper.checkIfAnyCoinIsGTE1")
	if fn == nil {
		r.Unk("infra.anchor", "x/cfedistributor/keeper.checkIfAnyCoinIsGTE1", "", "anchor not found")
		return
	}
	isOne := func(v ssa.Value) bool {
		c, ok := v.(*ssa.Call)
		if !ok {
			return false
		}
		n := callName(c.Common())
		switch {
		case strings.HasSuffix(n, "types.OneDec"):
			return true
		case strings.HasSuffix(n, "types.NewDec"):
			k, ok := stripConv(c.Common().Args[0]).(*ssa.Const)
			return ok && k.Value != nil && k.Value.ExactString() == "1"
		}
		return false
	}
	term := func(v ssa.Value) string {
		switch {
		case isOne(v):
			return "one"
		case loadOfField(v, "Amount", nil):
			return "amount"
		}
		if f, ok := v.(*ssa.Field); ok {
			if st, isSt := f.X.Type().Underlying().(*types.Struct); isSt && st.Field(f.Field).Name() == "Amount" {
				return "amount"
			}
		}
		return ""
	}
	for s := -1; s <= 1; s++ {
		live := ReachUnder(fn, OrderEval(term, twoTermCmp("amount", "one", s), nil))
		yes, no := false, false
		for _, v := range live.LiveReturns(fn, 0) {
			if b, ok := constBool(v); ok {
				if b {
					yes = true
				} else {
					no = true
				}
			} else {
				yes, no = true, true
			}
		}
		_ = no
		construct := fmt.Sprintf("pay-out predicate: coin amount %s one", orderNames[s])
		if s < 0 {
			r.Check(!yes, rule, construct, w.Pos(fn.Pos()), "never answers yes", "a state can be paid out although less than one unit is due, or the predicate is not a comparison of the coin amount with one")
		} else {
			r.Check(yes, rule, construct, w.Pos(fn.Pos()), "answers yes", "a state to which a whole unit is due is not paid out this block: the destination lags behind its share by more than one unit")
		}
	}
}

// keyPurityRule: the store key of a state is built from the account's fields as they are spelled: the in-memory lookup
// (and the uniqueness checks of validation) compare those very strings, so a key that parses or normalises a field
// first maps two accounts that every other site keeps apart to one store entry.
func keyPurityRule(w *World, r *Report, rule string) {
	keyFn := w.Func("x/cfedistributor/types.Account.GetAccountKey")
	if keyFn == nil {
		r.Unk("infra.anchor", "x/cfedistributor/types.Account.GetAccountKey", "", "anchor not found")
		return
	}
	tr := w.Tracer()
	pure, bad := true, ""
	for _, ret := range Returns(keyFn) {
		o := tr.Origins(retVals(ret)[0])
		for c := range o.Calls {
			n := callName(c.Common())
			if strings.Contains(n, "Bech32") || strings.HasSuffix(n, "AccAddress.String") || strings.HasPrefix(n, "strings.To") || strings.HasPrefix(n, "strings.Trim") {
				pure = false
				bad = n
			}
		}
	}
	r.Check(pure, rule, "the persistence key is built from the account's fields as spelled", w.Pos(keyFn.Pos()), "no parsing or normalising call on the key's backward slice", "the store key of a state is computed from a parsed / normalised rendering ("+bad+") while the in-memory lookup compares the fields as spelled: two accounts that validation and the block routine keep apart share one store entry, and one state's leftovers overwrite the other's")
}

// boolErrPolarity: the site calls a module helper with a single bool result that contains exactly one call below which
// the bank moves coins; the helper answers one constant on every path on which that call failed and the other constant
// on every path on which it succeeded. Returns the constant that stands for success.
func (w *World) boolErrPolarity(site *Site) (okMeans bool, decided bool) {
	cg := w.CG()
	h := site.Static
	if h == nil || site.Invoke || h.Blocks == nil || !w.isProdFunc(h) {
		return false, false
	}
	var inner *ssa.Call
	for _, s := range cg.Sites[h] {
		moves := cg.Atom(s) == BankMove
		for _, c := range s.Callees {
			if len(cg.targetsBelow(c, func(x *Site) bool { return cg.Atom(x) == BankMove }, map[*ssa.Function]bool{})) > 0 {
				moves = true
			}
		}
		if !moves {
			continue
		}
		c, isC := s.Instr.(*ssa.Call)
		if !isC || inner != nil {
			return false, false
		}
		inner = c
	}
	if inner == nil {
		return false, false
	}
	ev := errValues(h, inner)
	if len(ev) == 0 {
		return false, false
	}
	answer := func(failed bool) (bool, bool) {
		live := ReachUnder(h, OrderEval(func(v ssa.Value) string {
			if ev[v] {
				return "err"
			}
			return ""
		}, func(a, b string) (int, bool) { return 0, false }, func(t string) (bool, bool) { return !failed, t == "err" }))
		after := map[*ssa.BasicBlock]bool{}
		var fwd func(b *ssa.BasicBlock)
		fwd = func(b *ssa.BasicBlock) {
			if after[b] {
				return
			}
			after[b] = true
			for i, sc := range b.Succs {
				if live.Edges[Edge{b, i}] {
					fwd(sc)
				}
			}
		}
		if !live.Blocks[inner.Block()] {
			return false, false
		}
		fwd(inner.Block())
		first, have := false, false
		for _, ret := range Returns(h) {
			if !after[ret.Block()] {
				continue
			}
			rv := retVals(ret)
			if len(rv) != 1 {
				return false, false
			}
			for _, a := range live.LiveValues(rv[0]) {
				c, isC := constBool(a)
				if !isC || (have && c != first) {
					return false, false
				}
				first, have = c, true
			}
		}
		return first, have
	}
	onFail, ok1 := answer(true)
	onOK, ok2 := answer(false)
	if !ok1 || !ok2 || onFail == onOK {
		return false, false
	}
	return onOK, true
}
