package main

import (
	"fmt"
	"go/constant"
	"go/token"
	"go/types"
	"os"
	"sort"
	"strings"

	"golang.org/x/tools/go/ssa"
)

func init() { register("C12", checkC12) }

func printableLoc(s string) string {
	allPrint := len(s) > 0
	for _, c := range []byte(s) {
		if c < 0x20 || c > 0x7e {
			allPrint = false
		}
	}
	if allPrint {
		return fmt.Sprintf("%q", s)
	}
	return fmt.Sprintf("0x%x", s)
}

// storeLocs collects the store locations touched with the given atoms in the functions of module m reachable from roots.
func (w *World) storeLocs(r *Report, rule, m string, roots []*ssa.Function, atoms ...string) map[string][]*Site {
	cg := w.CG()
	reach := cg.Reach(roots)
	out := map[string][]*Site{}
	want := map[string]bool{}
	for _, a := range atoms {
		want[a] = true
	}
	for _, s := range cg.SitesIn(reach) {
		if !w.isProdFunc(s.Caller) || moduleOfFunc(s.Caller) != m {
			continue
		}
		if !want[cg.Atom(s)] {
			continue
		}
		loc := cg.StoreLocOf(s)
		if !loc.Resolved {
			r.Unk(rule, fmt.Sprintf("%s: %s in %s", m, cg.Atom(s), funcName(s.Caller)), w.Pos(s.Instr.Pos()), "cannot resolve the store location: "+loc.Why)
			continue
		}
		out[loc.Prefix] = append(out[loc.Prefix], s)
	}
	return out
}

func covered(w string, set map[string][]*Site) bool {
	for e := range set {
		if strings.HasPrefix(w, e) || strings.HasPrefix(e, w) {
			if e == "" && w != "" {
				continue
			}
			return true
		}
	}
	return false
}

func checkC12(w *World, r *Report) {
	cg := w.CG()
	ro := w.Roles()
	r.Undecided = []string{
		"'behaves identically from then on' (same mints, distributions, balances, query answers after import) is behavioural and is not decided",
		"that exported values re-import to equal values field by field (marshalling is trusted)",
	}
	r.Rule("C12.prefix", "P4", "per module: every store location written from a message or block routine is read on the ExportGenesis tree and written on the InitGenesis tree", 10)
	r.Rule("C12.fields", "P8", "every field of each module's GenesisState is assigned in ExportGenesis (from keeper state) and read on the InitGenesis tree", 8)
	r.Rule("C12.validate", "P5", "each module's ValidateGenesis reaches GenesisState.Validate, which reaches the Validate of the parameters and of every element type that has one", 8)
	r.Rule("C12.lossless", "P8", "the unit conversion applied on export has its inverse applied on import: every unit UnitsFromDuration can return is handled by DurationFromUnits with the same factor", 4)
	r.Rule("C12.verbatim", "P4,P6", "InitGenesis stores the genesis data as given: no field of the GenesisState parameter, or of a local copy of a part of it, is assigned (no default-filling, reset or normalisation on import)", 4)
	r.Rule("C12.getall", "P5", "closed world: every keeper function that lists a store prefix with an iterator (the getters behind ExportGenesis, the summaries and the block routines) appends the decoded record in every iteration and never leaves the loop early", 3)
	r.Rule("C12.accepts", "P4,P8", "inventory of rejecting conditions of each module's genesis validation: a condition on the Params.Validate tree is discharged because every stored parameter set passed that validation (C13.validated); every other one is reduced to (field of a module type, kind of constraint) - independent of spelling and of the function it lives in - and must be in the reviewed table (23 entries, one reason each: why no state written at run time meets it); a new, unreviewed rejecting condition is reported - a validator stricter than the runtime makes an exported genesis un-importable", 60)
	r.Rule("C12.sameshape", "P7", "a record has two accepted shapes when export nils out a pointer field that the runtime keeps non-nil (the burn state's Account): on the block trees no effectful call may be reachable for one shape and unreachable for the other, i.e. effects must not be control-dependent on the nil-ness of that field", 1)
	r.Rule("C12.shape", "P8,P5", "= C10.maybenil for fields that export sets to nil: what ExportGenesis writes must be dereferenceable by the block routines", 1)
	if !ro.checkFloors(r) {
		return
	}
	// ---------- C12.prefix ----------
	for _, m := range customModules {
		roots := append(append([]*ssa.Function{}, ro.MSG[m]...), ro.BLK[m]...)
		W := w.storeLocs(r, "C12.prefix", m, roots, StoreSet)
		E := w.storeLocs(r, "C12.prefix", m, ro.EXPORT[m], StoreGet, StoreIter)
		I := w.storeLocs(r, "C12.prefix", m, ro.INIT[m], StoreSet)
		var locs []string
		for l := range W {
			locs = append(locs, l)
		}
		sort.Strings(locs)
		for _, l := range locs {
			s0 := W[l][0]
			construct := fmt.Sprintf("%s: store location %s", m, printableLoc(l))
			inE, inI := covered(l, E), covered(l, I)
			switch {
			case inE && inI:
				r.OK("C12.prefix", construct, w.Pos(s0.Instr.Pos()), fmt.Sprintf("written by %d site(s); exported and re-imported", len(W[l])))
			default:
				miss := []string{}
				if !inE {
					miss = append(miss, "not read by ExportGenesis")
				}
				if !inI {
					miss = append(miss, "not written by InitGenesis")
				}
				r.Bad("C12.prefix", construct, w.Pos(s0.Instr.Pos()), fmt.Sprintf("state written under this location by %s is lost by export/import: %s", funcName(s0.Caller), strings.Join(miss, ", ")))
			}
		}
	}
	// ---------- C12.fields ----------
	for _, m := range customModules {
		T := w.NamedType("x/" + m + "/types.GenesisState")
		exp := w.Func("x/" + m + ".ExportGenesis")
		if T == nil || exp == nil {
			r.Unk("infra.anchor", "x/"+m+" GenesisState / ExportGenesis", "", "anchor not found")
			continue
		}
		st := T.Underlying().(*types.Struct)
		assigned := map[string]ssa.Value{}
		for _, fs := range FieldStores(exp) {
			if fs.Struct != nil && fs.Struct.Obj() == T.Obj() {
				assigned[fs.Field] = fs.Store.Val
			}
		}
		initReach := cg.Reach(ro.INIT[m])
		read := map[string]bool{}
		for f := range initReach {
			if !w.isProdFunc(f) {
				continue
			}
			for _, b := range f.Blocks {
				for _, in := range b.Instrs {
					switch x := in.(type) {
					case *ssa.FieldAddr:
						if n, name := fieldOf(x); n != nil && n.Obj() == T.Obj() {
							read[name] = true
						}
					case *ssa.Field:
						if n, ok := x.X.Type().(*types.Named); ok && n.Obj() == T.Obj() {
							read[n.Underlying().(*types.Struct).Field(x.Field).Name()] = true
						}
					}
				}
			}
		}
		tr := w.Tracer()
		// fields whose value flows into a state-writing call of InitGenesis (reading a field for a log line is not importing it)
		imported := map[string]bool{}
		if ig := w.Func("x/" + m + ".InitGenesis"); ig != nil {
			// InitGenesis and the step functions of its own package it is cut into (`initVestingAccountTraces(ctx, k, genState)`)
			steps := []*ssa.Function{ig}
			seenStep := map[*ssa.Function]bool{ig: true}
			for i := 0; i < len(steps) && i < 16; i++ {
				for _, s := range cg.Sites[steps[i]] {
					if h := s.Static; h != nil && !s.Invoke && w.isProdFunc(h) && h.Pkg == ig.Pkg && !seenStep[h] {
						seenStep[h] = true
						steps = append(steps, h)
					}
				}
			}
			var stepSites []*Site
			for _, f := range steps {
				stepSites = append(stepSites, cg.Sites[f]...)
			}
			for _, s := range stepSites {
				writes := false
				for _, c := range s.Callees {
					if len(cg.targetsBelow(c, func(x *Site) bool { return isStateEffect(cg.Atom(x)) }, map[*ssa.Function]bool{})) > 0 {
						writes = true
					}
				}
				if !writes {
					continue
				}
				for _, a := range s.Common().Args {
					o := tr.Origins(a)
					for _, l := range o.Leaves {
						if i := strings.Index(l.Path, ".GenesisState."); i >= 0 {
							f := l.Path[i+len(".GenesisState."):]
							if j := strings.IndexAny(f, ".["); j >= 0 {
								f = f[:j]
							}
							imported[f] = true
						}
					}
				}
			}
		}
		for k := range read {
			if !imported[k] {
				read[k] = false
			}
		}
		for i := 0; i < st.NumFields(); i++ {
			f := st.Field(i).Name()
			construct := fmt.Sprintf("%s: GenesisState.%s", m, f)
			v, okA := assigned[f]
			fromState := false
			if okA {
				o := tr.Origins(v)
				fromState = o.HasCall("KVStore.Get", "prefix.Store.Get", "Iterator.Value", "KVStorePrefixIterator") || o.HasLeaf("outparam", "")
				if !fromState && os.Getenv("C4E_DEBUG") != "" {
					var cs []string
					for c := range o.Calls {
						cs = append(cs, callName(c.Common()))
					}
					fmt.Println("C12FIELDS", f, o.String(), o.Truncated, cs, v.String())
				}
			}
			r.Check(okA && fromState && read[f], "C12.fields", construct, w.Pos(exp.Pos()), "assigned from keeper state in ExportGenesis and read on the InitGenesis tree",
				fmt.Sprintf("assigned in ExportGenesis from state: %v; read on the InitGenesis tree: %v", okA && fromState, read[f]))
		}
	}
	// ---------- C12.validate ----------
	for _, m := range customModules {
		T := w.NamedType("x/" + m + "/types.GenesisState")
		if T == nil {
			continue
		}
		gv := w.methodOf(T, "Validate")
		if gv == nil || gv.Blocks == nil {
			r.Bad("C12.validate", m+": GenesisState.Validate exists", "", "no Validate method")
			continue
		}
		okReach := false
		vr := cg.Reach(ro.VALGEN[m])
		if _, ok := vr[gv]; ok {
			okReach = true
		}
		r.Check(okReach, "C12.validate", m+": ValidateGenesis reaches GenesisState.Validate", w.Pos(gv.Pos()), "reachable", "ValidateGenesis does not validate the genesis state")
		gr := cg.Reach([]*ssa.Function{gv})
		st := T.Underlying().(*types.Struct)
		for i := 0; i < st.NumFields(); i++ {
			ft := st.Field(i).Type()
			for {
				switch x := ft.(type) {
				case *types.Slice:
					ft = x.Elem()
					continue
				case *types.Pointer:
					ft = x.Elem()
					continue
				}
				break
			}
			n, ok := ft.(*types.Named)
			if !ok || n.Obj().Pkg() == nil || !strings.HasPrefix(n.Obj().Pkg().Path(), modPath) {
				continue
			}
			ev := w.methodOf(n, "Validate")
			if ev == nil || ev.Blocks == nil {
				continue
			}
			_, reached := gr[ev]
			r.Check(reached, "C12.validate", fmt.Sprintf("%s: GenesisState.%s validated by %s.Validate", m, st.Field(i).Name(), n.Obj().Name()), w.Pos(gv.Pos()), "reachable from GenesisState.Validate", "the element type has a Validate method that genesis validation never calls")
		}
	}
	r.Rule("C12.paired", "P6", "vesting periods travel through genesis as (value, unit) pairs: every import conversion receives the unit that belongs to its value and is stored as that very period; every export conversion of a period is stored as that period's own value and unit", 7)
	// ---------- C12.lossless ----------
	from := w.Func("x/cfevesting/types.UnitsFromDuration")
	to := w.Func("x/cfevesting/types.DurationFromUnits")
	if from == nil || to == nil {
		r.Unk("infra.anchor", "x/cfevesting/types.UnitsFromDuration / DurationFromUnits", "", "anchor not found")
	} else {
		fromUnits := map[string]int64{}
		// table form: both conversions range over one package-level table of (unit, length) rows
		type tableUse struct {
			g           *ssa.Global
			fUnit, fLen int
		}
		var fromTable, toTable *tableUse
		for _, ret := range Returns(from) {
			rv := retVals(ret)
			if g, fu, bu, okU := tableFieldOf(rv[0]); okU {
				// (row.unit, duration / row.length) of one and the same row
				if bo, isBo := stripConv(rv[1]).(*ssa.BinOp); isBo && bo.Op == token.QUO {
					if g2, fl, bl, okL := tableFieldOf(bo.Y); okL && g2 == g && sameElem(bu, bl, 0) {
						if rows, n, okT := constTable(w, g); okT && int64(len(rows)) == n {
							fromTable = &tableUse{g, fu, fl}
							for _, row := range rows {
								if cu, cl := row[fu], row[fl]; cu != nil && cl != nil && cu.Value != nil && cl.Value != nil && cu.Value.Kind() == constant.String {
									d, _ := constant.Int64Val(constant.ToInt(cl.Value))
									fromUnits[constant.StringVal(cu.Value)] = d
								}
							}
							continue
						}
					}
				}
			}
			u, ok := EvalString(rv[0])
			if !ok {
				r.Unk("C12.lossless", "UnitsFromDuration returns constant units", w.Pos(from.Pos()), "non-constant unit")
				continue
			}
			// value = duration / const
			var div int64
			if bo, ok := stripConv(rv[1]).(*ssa.BinOp); ok && bo.Op == token.QUO {
				if c, ok := bo.Y.(*ssa.Const); ok && c.Value != nil {
					div, _ = constant.Int64Val(c.Value)
				}
			}
			fromUnits[u] = div
		}
		// the factor applied on import for unit u: the import function is explored under "unit == u" (every comparison
		// of the unit parameter with a constant decided), and the live result must be value x constant
		toUnits := map[string]int64{}
		unitP := to.Params[0]
		for u := range fromUnits {
			u := u
			live := ReachUnder(to, func(base ssa.Value) (bool, bool) {
				bo, ok := base.(*ssa.BinOp)
				if !ok || (bo.Op != token.EQL && bo.Op != token.NEQ) {
					return false, false
				}
				var other ssa.Value
				switch {
				case stripConv(bo.X) == ssa.Value(unitP):
					other = bo.Y
				case stripConv(bo.Y) == ssa.Value(unitP):
					other = bo.X
				default:
					return false, false
				}
				s, ok := EvalString(other)
				if !ok {
					return false, false
				}
				return (s == u) == (bo.Op == token.EQL), true
			})
			for _, ret := range Returns(to) {
				if !live.Blocks[ret.Block()] {
					continue
				}
				rv := retVals(ret)
				if len(rv) == 2 && !isNilConst(rv[1]) {
					continue // the unknown-unit error return
				}
				for _, v := range live.LiveValues(rv[0]) {
					mul, ok := stripConv(v).(*ssa.BinOp)
					if !ok || mul.Op != token.MUL {
						toUnits[u] = 0
						continue
					}
					for _, side := range []ssa.Value{mul.X, mul.Y} {
						for _, sv := range live.LiveValues(stripConv(side)) {
							if c, ok := stripConv(sv).(*ssa.Const); ok && c.Value != nil {
								if f, exact := constant.Int64Val(constant.ToInt(c.Value)); exact {
									toUnits[u] = f
								}
							}
						}
					}
				}
			}
		}
		// table form of the import: the row whose unit equals the parameter is selected (equality edge dominating the
		// return) and its length multiplies the value: the factor of a unit is the length of its row
		for _, ret := range Returns(to) {
			rv := retVals(ret)
			if len(rv) == 2 && !isNilConst(rv[1]) {
				continue
			}
			mul, isMul := stripConv(rv[0]).(*ssa.BinOp)
			if !isMul || mul.Op != token.MUL {
				continue
			}
			for _, side := range []ssa.Value{mul.X, mul.Y} {
				g, fl, bl, okL := tableFieldOf(side)
				if !okL {
					continue
				}
				fu := -1
				edges := EdgesWhere(to, func(b ssa.Value) (bool, bool) {
					bo, isBo := b.(*ssa.BinOp)
					if !isBo || bo.Op != token.EQL {
						return false, false
					}
					for _, pair := range [][2]ssa.Value{{bo.X, bo.Y}, {bo.Y, bo.X}} {
						if stripConv(pair[1]) != ssa.Value(unitP) {
							continue
						}
						if g2, f2, b2, ok2 := tableFieldOf(pair[0]); ok2 && g2 == g && sameElem(b2, bl, 0) {
							fu = f2
							return true, true
						}
					}
					return false, false
				})
				if fu < 0 || !MustPass(to, edges, ret.Block()) {
					continue
				}
				if rows, n, okT := constTable(w, g); okT && int64(len(rows)) == n {
					toTable = &tableUse{g, fu, fl}
					seen := map[string]bool{}
					for i := int64(0); i < n; i++ {
						row := rows[i]
						if cu, cl := row[fu], row[fl]; cu != nil && cl != nil && cu.Value != nil && cl.Value != nil && cu.Value.Kind() == constant.String {
							name := constant.StringVal(cu.Value)
							if seen[name] {
								continue // the first row with the unit wins
							}
							seen[name] = true
							d, _ := constant.Int64Val(constant.ToInt(cl.Value))
							if _, asked := fromUnits[name]; asked {
								toUnits[name] = d
							}
						}
					}
				}
			}
		}
		_, _ = fromTable, toTable
		var us []string
		for u := range fromUnits {
			us = append(us, u)
		}
		sort.Strings(us)
		for _, u := range us {
			r.Check(fromUnits[u] != 0 && toUnits[u] == fromUnits[u], "C12.lossless", "unit "+u, w.Pos(to.Pos()), fmt.Sprintf("exported with divisor %d, imported with factor %d", fromUnits[u], toUnits[u]),
				fmt.Sprintf("unit %q is exported with divisor %d but imported with factor %d", u, fromUnits[u], toUnits[u]))
		}
		// used on both sides
		expReach := cg.Reach(ro.EXPORT["cfevesting"])
		initReach := cg.Reach(ro.INIT["cfevesting"])
		_, a := expReach[from]
		_, b := initReach[to]
		r.Check(a && b, "C12.lossless", "export applies UnitsFromDuration, import applies DurationFromUnits", w.Pos(from.Pos()), "both on their trees", "the conversions are not paired on the export / import trees")
	}
	// ---------- C12.paired ----------
	// a period travels through genesis as (value, unit): on import each conversion is given the unit that belongs to
	// the value and its result is stored as that period; on export each period's conversion results are stored as its
	// own value and unit
	{
		suffixOf := func(o *Origin, cands []string) (string, bool) {
			got := ""
			for _, l := range o.Leaves {
				if l.Path == "" {
					continue
				}
				hit := ""
				for _, c := range cands {
					if strings.HasSuffix(l.Path, "."+c) {
						hit = c
					}
				}
				if hit == "" {
					continue
				}
				if got != "" && got != hit {
					return "", false
				}
				got = hit
			}
			return got, got != ""
		}
		periods := []string{"LockupPeriod", "VestingPeriod"}
		units := []string{"LockupPeriodUnit", "VestingPeriodUnit"}
		mkTr := func() *Tracer {
			t := w.Tracer()
			t.NoIndex = true
			t.Lift = 2
			t.Opaque["x/cfevesting/types.DurationFromUnits"] = true
			t.Opaque["x/cfevesting/types.UnitsFromDuration"] = true
			t.Stop = []string{"types.DurationFromUnits", "types.UnitsFromDuration"}
			return t
		}
		nImp, nExp := 0, 0
		for fn := range cg.Reach(ro.INIT["cfevesting"]) {
			if !w.isProdFunc(fn) {
				continue
			}
			for _, s := range cg.Sites[fn] {
				if !calleeIs(s, "x/cfevesting/types.DurationFromUnits") {
					continue
				}
				a := s.Common().Args
				// the conversion may sit in a helper that is handed (unit, value): one instance per call of the helper on
				// the import tree, the arguments traced with the helper's parameters bound to that call
				type inst struct {
					ctx *tctx
					via *ssa.CallCommon
				}
				insts := []inst{{&tctx{fn: fn}, nil}}
				onlyParams := func(o *Origin) bool {
					n := 0
					for _, l := range o.Leaves {
						if l.Kind == "const" {
							continue
						}
						if p, isP := l.V.(*ssa.Parameter); !(l.Kind == "param" && isP && p.Parent() == fn && l.Path == "") {
							return false
						}
						n++
					}
					return n > 0
				}
				t0 := mkTr()
				t0.Lift = 0
				if onlyParams(t0.Origins(a[0])) && onlyParams(t0.Origins(a[1])) {
					insts = nil
					for _, cs := range cg.Callers[fn] {
						if _, on := cg.Reach(ro.INIT["cfevesting"])[cs.Caller]; !on || cs.Common().IsInvoke() || cs.Common().StaticCallee() != fn {
							continue
						}
						insts = append(insts, inst{&tctx{parent: &tctx{fn: cs.Caller}, fn: fn, call: cs.Common(), depth: 1}, cs.Common()})
					}
				}
				for _, in := range insts {
					nImp++
					trace := func(v ssa.Value) *Origin {
						st := &tstate{t: mkTr(), o: newOrigin(), seen: map[string]bool{}}
						st.trace(v, nil, in.ctx)
						return st.o
					}
					u, okU := suffixOf(trace(a[0]), units)
					v, okV := suffixOf(trace(a[1]), periods)
					r.Check(okU && okV && u == v+"Unit", "C12.paired", fmt.Sprintf("import: %s converted with its own unit", v), w.Pos(s.Instr.Pos()), "DurationFromUnits("+u+", "+v+")", fmt.Sprintf("a period is converted with the unit of another one on import (value %q, unit %q): an exported state whose two periods are rendered in different units comes back with another period", v, u))
					// where the result is stored
					for _, f2 := range w.ProdFuncs() {
						if _, on := cg.Reach(ro.INIT["cfevesting"])[f2]; !on {
							continue
						}
						for _, fs := range FieldStores(f2) {
							if !namedIs(fs.Struct, "x/cfevesting/types", "VestingType") || (fs.Field != "LockupPeriod" && fs.Field != "VestingPeriod") {
								continue
							}
							o := mkTr().Origins(fs.Store.Val)
							if !o.Calls[siteCall(s)] {
								continue
							}
							if in.via != nil {
								// the instance whose result this store receives: the helper call the conversion was reached through
								if c := o.CallCtx[siteCall(s)]; c == nil || c.call != in.via {
									continue
								}
							}
							r.Check(fs.Field == v, "C12.paired", fmt.Sprintf("import: the converted %s is stored as %s", v, fs.Field), w.Pos(fs.Store.Pos()), "same period", "the converted "+v+" is stored as "+fs.Field)
						}
					}
				}
			}
		}
		for fn := range cg.Reach(ro.EXPORT["cfevesting"]) {
			if !w.isProdFunc(fn) {
				continue
			}
			for _, s := range cg.Sites[fn] {
				if !calleeIs(s, "x/cfevesting/types.UnitsFromDuration") {
					continue
				}
				nExp++
				v, okV := suffixOf(mkTr().Origins(s.Common().Args[0]), periods)
				r.Check(okV, "C12.paired", "export: conversion of a stored period", w.Pos(s.Instr.Pos()), "UnitsFromDuration("+v+")", "the exported value is not one of the stored periods")
				call := siteCall(s)
				for _, fs := range FieldStores(fn) {
					if !namedIs(fs.Struct, "x/cfevesting/types", "GenesisVestingType") {
						continue
					}
					isP, isU := fs.Field == "LockupPeriod" || fs.Field == "VestingPeriod", fs.Field == "LockupPeriodUnit" || fs.Field == "VestingPeriodUnit"
					if !isP && !isU {
						continue
					}
					o := mkTr().Origins(fs.Store.Val)
					if !o.Calls[call] {
						continue
					}
					want := v
					if isU {
						want = v + "Unit"
					}
					r.Check(fs.Field == want, "C12.paired", fmt.Sprintf("export: the conversion of %s is stored as %s", v, fs.Field), w.Pos(fs.Store.Pos()), "own value / own unit", "the converted "+v+" is exported as "+fs.Field)
				}
			}
		}
		r.Check(nImp >= 2 && nExp >= 2, "C12.paired", "both periods are converted on import and on export", "", fmt.Sprintf("%d conversions on import, %d on export", nImp, nExp), fmt.Sprintf("%d conversions on import, %d on export (expected two each)", nImp, nExp))
	}
	// ---------- C12.verbatim ----------
	checkVerbatim(w, r, "C12.verbatim", flatten(ro.INIT))
	importedAsGiven(w, r, "C12.verbatim")
	r.Rule("C12.exportverbatim", "P4", "closed world: on the export trees no record obtained from a keeper is modified in place before it is exported, except the reviewed blanking of the burn state's account", 2)
	checkExportVerbatim(w, r, "C12.exportverbatim", flatten(ro.EXPORT))
	r.Rule("C12.importall", "P5", "every state write on a module's InitGenesis tree is executed unconditionally: at every level of the call chain it lies on every completing path of its function, every iteration of a loop around it passes it and the loop is never left early; only a test for an empty or absent list in front of the loop over that list, and exits that abort the import, may go round it", 8)
	r.Rule("C12.initorder", "P8", "a chain can start from its own export: every custom module that registers invariants is initialised from genesis before the crisis module asserts them, and after the auth and bank modules its initialisation reads (the application's SetOrderInitGenesis list)", 4)
	initOrderRule(w, r, "C12.initorder")
	importAllRule(w, r, "C12.importall")
	if vg := w.Func("x/cfevesting.ValidateAccountsOnGenesis"); vg != nil {
		genesisDenomRule(w, r, "C12.importall", vg)
	}
	// ---------- C12.getall ----------
	checkGetAll(w, r, "C12.getall", append(append(flatten(ro.EXPORT), flatten(ro.BLK)...), flatten(ro.QRY)...))
	// ---------- C12.accepts ----------
	checkGenesisRejections(w, r, "C12.accepts")
	// ---------- C12.shape ----------
	for _, nf := range w.mayBeNilFields(flatten(ro.EXPORT)) {
		if !strings.Contains(nf.Why, "export") && nf.CorrField == "" {
			continue
		}
		w.checkMayBeNil(r, "C12.shape", nf, flatten(ro.BLK), c10VettedNil)
		w.checkSameShape(r, "C12.sameshape", nf, flatten(ro.BLK))
	}
}

// checkSameShape: in every function on the tree that tests the nil-ness of the two-shaped field, the set of
// live effectful call sites is the same under "field == nil" and "field != nil" (the correlated flag, if any,
// fixed to the value under which nil is accepted).
func (w *World) checkSameShape(r *Report, rule string, nf nilField, roots []*ssa.Function) {
	cg := w.CG()
	reach := cg.Reach(roots)
	isField := func(v ssa.Value) bool {
		T, f, ok := fieldOfValue(v)
		if ok && f == nf.Field && T.Obj() == nf.T.Obj() {
			return true
		}
		// a local copy: account := state.Account
		if phi, ok := v.(*ssa.Phi); ok {
			for _, e := range phi.Edges {
				T, f, ok := fieldOfValue(e)
				if !(ok && f == nf.Field && T.Obj() == nf.T.Obj()) {
					return false
				}
			}
			return len(phi.Edges) > 0
		}
		return false
	}
	isCorr := func(v ssa.Value) bool {
		if nf.CorrField == "" {
			return false
		}
		T, f, ok := fieldOfValue(v)
		return ok && f == nf.CorrField && T.Obj() == nf.T.Obj()
	}
	effectful := map[*ssa.Function]int{}
	var hasEffect func(f *ssa.Function) bool
	hasEffect = func(f *ssa.Function) bool {
		switch effectful[f] {
		case 1:
			return true
		case 2, 3:
			return false
		}
		effectful[f] = 3
		res := false
		for _, s := range cg.Sites[f] {
			a := cg.Atom(s)
			if isStateEffect(a) || a == EventEmit {
				res = true
			}
			for _, c := range s.Callees {
				if hasEffect(c) {
					res = true
				}
			}
		}
		if res {
			effectful[f] = 1
		} else {
			effectful[f] = 2
		}
		return res
	}
	n := 0
	var fns []*ssa.Function
	for f := range reach {
		if w.isProdFunc(f) {
			fns = append(fns, f)
		}
	}
	sort.Slice(fns, func(i, j int) bool { return funcName(fns[i]) < funcName(fns[j]) })
	for _, fn := range fns {
		tests := false
		for _, b := range fn.Blocks {
			if i := blockIf(b); i != nil {
				base, _ := stripNot(i.Cond)
				if bo, ok := base.(*ssa.BinOp); ok && (bo.Op == token.EQL || bo.Op == token.NEQ) {
					if (isNilConst(bo.Y) && isField(bo.X)) || (isNilConst(bo.X) && isField(bo.Y)) {
						tests = true
					}
				}
			}
		}
		if !tests {
			continue
		}
		n++
		mk := func(isNil bool) CondFn {
			return func(base ssa.Value) (bool, bool) {
				if bo, ok := base.(*ssa.BinOp); ok && (bo.Op == token.EQL || bo.Op == token.NEQ) {
					var o ssa.Value
					if isNilConst(bo.Y) {
						o = bo.X
					} else if isNilConst(bo.X) {
						o = bo.Y
					}
					if o != nil && isField(o) {
						if bo.Op == token.EQL {
							return isNil, true
						}
						return !isNil, true
					}
				}
				if isCorr(base) {
					return !nf.CorrVal, true // the flag value under which nil is an accepted shape
				}
				return false, false
			}
		}
		liveNil, liveSet := ReachUnder(fn, mk(true)), ReachUnder(fn, mk(false))
		bad := 0
		for _, s := range cg.Sites[fn] {
			eff := isStateEffect(cg.Atom(s)) || cg.Atom(s) == EventEmit
			for _, c := range s.Callees {
				if hasEffect(c) {
					eff = true
				}
			}
			if !eff {
				continue
			}
			a, b := liveNil.LiveInstr(s.Instr), liveSet.LiveInstr(s.Instr)
			if a != b {
				bad++
				r.Bad(rule, fmt.Sprintf("%s.%s: effect %s in %s", nf.T.Obj().Name(), nf.Field, s.Method, funcName(fn)), w.Pos(s.Instr.Pos()),
					fmt.Sprintf("this effect is reachable when %s.%s is %s but not when it is %s: a record restored from an exported genesis (nil) is processed differently from the one the runtime created (non-nil)", nf.T.Obj().Name(), nf.Field, map[bool]string{true: "nil", false: "set"}[a], map[bool]string{true: "nil", false: "set"}[b]))
			}
		}
		if bad == 0 {
			r.OK(rule, fmt.Sprintf("%s.%s: nil test in %s", nf.T.Obj().Name(), nf.Field, funcName(fn)), w.Pos(fn.Pos()), "the same effectful calls are live for both shapes")
		}
	}
	if n == 0 {
		r.OK(rule, fmt.Sprintf("%s.%s: no effectful function branches on its nil-ness", nf.T.Obj().Name(), nf.Field), "", "no nil test of the field on the block trees guards an effect")
	}
}
