package main

import (
	"encoding/json"
	"fmt"
	"os"
	"path/filepath"
	"sort"
	"strings"
	"time"
)

// Status of an obligation.
const (
	Discharged = "discharged"
	Violated   = "violated"
	Known      = "known"
	Undecided  = "undecided"
	Assumed    = "assumed" // residual assumption from a vetted table: printed, not a failure
)

// Obligation is one decided instance of a rule, keyed by rule + construct (never by line).
type Obligation struct {
	Rule      string `json:"rule"`
	Construct string `json:"construct"`
	Status    string `json:"status"`
	Pos       string `json:"pos,omitempty"`
	Detail    string `json:"detail,omitempty"`
	// NonTrivial marks obligations that needed a path or value argument (not mere enumeration).
	NonTrivial bool `json:"nontrivial,omitempty"`
}

func (o Obligation) Key() string { return o.Rule + " : " + o.Construct }

type RuleInfo struct {
	ID        string `json:"id"`
	Statement string `json:"statement"`
	Primitive string `json:"primitive,omitempty"`
	Floor     int    `json:"floor,omitempty"` // minimal number of obligations confirmed by hand
}

type Report struct {
	Prop        string
	Tier        string
	Rules       []RuleInfo
	Obls        []Obligation
	Assumptions []string
	Undecided   []string // clauses of the property not decided by this family
	Analysed    map[string]interface{}
	keys        map[string]int
	start       time.Time
	w           *World
}

func NewReport(prop, tier string, w *World) *Report {
	return &Report{Prop: prop, Tier: tier, keys: map[string]int{}, start: time.Now(), w: w, Analysed: map[string]interface{}{}}
}

func (r *Report) Rule(id, primitive, statement string, floor int) {
	r.Rules = append(r.Rules, RuleInfo{ID: id, Statement: statement, Primitive: primitive, Floor: floor})
}

func (r *Report) add(o Obligation) {
	if o.Pos == "" {
		o.Pos = "-"
	}
	// make constructs unique per rule by ordinal suffix
	k := o.Key()
	r.keys[k]++
	if n := r.keys[k]; n > 1 {
		o.Construct = fmt.Sprintf("%s #%d", o.Construct, n)
	}
	r.Obls = append(r.Obls, o)
}

func (r *Report) OK(rule, construct, pos, detail string) {
	r.add(Obligation{Rule: rule, Construct: construct, Status: Discharged, Pos: pos, Detail: detail, NonTrivial: true})
}

// Enum records an enumeration-only obligation (counted, but not as non-trivial).
func (r *Report) Enum(rule, construct, pos, detail string) {
	r.add(Obligation{Rule: rule, Construct: construct, Status: Discharged, Pos: pos, Detail: detail})
}

func (r *Report) Bad(rule, construct, pos, detail string) {
	r.add(Obligation{Rule: rule, Construct: construct, Status: Violated, Pos: pos, Detail: detail, NonTrivial: true})
}

func (r *Report) Unk(rule, construct, pos, detail string) {
	r.add(Obligation{Rule: rule, Construct: construct, Status: Undecided, Pos: pos, Detail: detail, NonTrivial: true})
}

func (r *Report) Assume(rule, construct, pos, detail string) {
	r.add(Obligation{Rule: rule, Construct: construct, Status: Assumed, Pos: pos, Detail: detail})
}

// Check is a convenience: discharge when cond holds, violate otherwise.
func (r *Report) Check(cond bool, rule, construct, pos, okDetail, badDetail string) bool {
	if cond {
		r.OK(rule, construct, pos, okDetail)
	} else {
		r.Bad(rule, construct, pos, badDetail)
	}
	return cond
}

// ---- known findings ----

type Finding struct {
	Property  string `json:"property"`
	Rule      string `json:"rule"`
	Construct string `json:"construct"`
	What      string `json:"what"`
	Status    string `json:"status"` // "known" | "fixed"
	Commit    string `json:"commit,omitempty"`
}

func loadFindings(path string) ([]Finding, error) {
	b, err := os.ReadFile(path)
	if err != nil {
		if os.IsNotExist(err) {
			return nil, nil
		}
		return nil, err
	}
	var fs []Finding
	if err := json.Unmarshal(b, &fs); err != nil {
		return nil, err
	}
	return fs, nil
}

// Finish applies floors and known findings, prints the report, writes evidence and replay, returns exit code.
func (r *Report) Finish(findingsDir, verifDir string, seed int64) int {
	// floors
	count := map[string]int{}
	for _, o := range r.Obls {
		count[o.Rule]++
	}
	for _, ri := range r.Rules {
		if count[ri.ID] < ri.Floor {
			r.add(Obligation{Rule: "infra.floor", Construct: ri.ID, Status: Undecided, NonTrivial: true,
				Detail: fmt.Sprintf("rule %s produced %d obligations, below the floor %d confirmed by hand: the rule no longer sees the constructs it was written for", ri.ID, count[ri.ID], ri.Floor)})
		}
		if count[ri.ID] == 0 && ri.Floor == 0 {
			// rules registered with floor 0 are "expected zero" rules; nothing to do
		}
	}
	// every obligation must belong to a registered rule
	reg := map[string]bool{"infra.floor": true, "infra.undecided": true, "infra.anchor": true}
	for _, ri := range r.Rules {
		reg[ri.ID] = true
	}
	for _, o := range r.Obls {
		if !reg[o.Rule] {
			fmt.Fprintf(os.Stderr, "internal: obligation for unregistered rule %s\n", o.Rule)
			reg[o.Rule] = true
			r.Rules = append(r.Rules, RuleInfo{ID: o.Rule, Statement: "(unregistered)"})
		}
	}

	findings, ferr := loadFindings(filepath.Join(findingsDir, "known_findings.json"))
	if ferr != nil {
		r.add(Obligation{Rule: "infra.undecided", Construct: "known_findings.json", Status: Undecided, Detail: ferr.Error()})
	}
	for i := range r.Obls {
		o := &r.Obls[i]
		if o.Status != Violated {
			continue
		}
		for _, f := range findings {
			if f.Status == "known" && f.Property == r.Prop && f.Rule == o.Rule && f.Construct == o.Construct {
				o.Status = Known
				o.Detail = o.Detail + " [known finding: " + f.What + "]"
			}
		}
	}

	sort.SliceStable(r.Obls, func(i, j int) bool {
		if r.Obls[i].Rule != r.Obls[j].Rule {
			return r.Obls[i].Rule < r.Obls[j].Rule
		}
		return r.Obls[i].Construct < r.Obls[j].Construct
	})

	// ---- print ----
	var viol, undec, known, disch, assumed, nontriv int
	ntKeys := map[string]bool{}
	for _, o := range r.Obls {
		switch o.Status {
		case Violated:
			viol++
		case Undecided:
			undec++
		case Known:
			known++
		case Discharged:
			disch++
		case Assumed:
			assumed++
		}
		if o.NonTrivial {
			ntKeys[o.Key()] = true
		}
	}
	nontriv = len(ntKeys)
	fmt.Printf("== %s (%s): %d obligations over %d rules: %d discharged, %d assumed(vetted), %d known, %d violated, %d undecided\n",
		r.Prop, r.Tier, len(r.Obls), len(r.Rules), disch, assumed, known, viol, undec)
	perRule := map[string]map[string]int{}
	for _, o := range r.Obls {
		if perRule[o.Rule] == nil {
			perRule[o.Rule] = map[string]int{}
		}
		perRule[o.Rule][o.Status]++
	}
	for _, ri := range r.Rules {
		m := perRule[ri.ID]
		fmt.Printf("   rule %-22s obligations=%d discharged=%d assumed=%d known=%d violated=%d undecided=%d\n", ri.ID,
			m[Discharged]+m[Assumed]+m[Known]+m[Violated]+m[Undecided], m[Discharged], m[Assumed], m[Known], m[Violated], m[Undecided])
	}
	for _, o := range r.Obls {
		switch o.Status {
		case Violated:
			fmt.Printf("VIOLATED  %s  rule=%s  construct=%q\n          %s\n", o.Pos, o.Rule, o.Construct, o.Detail)
		case Undecided:
			fmt.Printf("UNDECIDED %s  rule=%s  construct=%q\n          %s\n", o.Pos, o.Rule, o.Construct, o.Detail)
		}
	}
	for _, o := range r.Obls {
		if o.Status == Known {
			fmt.Printf("KNOWN-FINDING: property=%s rule=%s construct=%q %s %s\n", r.Prop, o.Rule, o.Construct, o.Pos, o.Detail)
		}
	}

	// ---- replay file ----
	exit := 0
	replay := ""
	if viol+undec > 0 {
		exit = 1
		os.MkdirAll(filepath.Join(verifDir, "replay"), 0o755)
		replay = filepath.Join(verifDir, "replay", fmt.Sprintf("%s-%s.json", r.Prop, r.Tier))
		var bad []Obligation
		for _, o := range r.Obls {
			if o.Status == Violated || o.Status == Undecided {
				bad = append(bad, o)
			}
		}
		b, _ := json.MarshalIndent(bad, "", " ")
		os.WriteFile(replay, b, 0o644)
		seen := map[string]bool{}
		for _, o := range bad {
			if seen[o.Rule] {
				continue
			}
			seen[o.Rule] = true
			fmt.Printf("VIOLATION property=%s replay=%s rule=%s\n", r.Prop, replay, o.Rule)
		}
	}

	// ---- evidence ----
	var samples []Obligation
	perRuleSample := map[string]int{}
	for _, o := range r.Obls {
		if perRuleSample[o.Rule] < 3 || o.Status != Discharged {
			samples = append(samples, o)
			perRuleSample[o.Rule]++
		}
	}
	type ruleEv struct {
		RuleInfo
		Obligations int `json:"obligations"`
		Discharged  int `json:"discharged"`
		Assumed     int `json:"assumed"`
		Known       int `json:"known"`
		Violated    int `json:"violated"`
		Undecided   int `json:"undecided"`
	}
	var rules []ruleEv
	for _, ri := range r.Rules {
		m := perRule[ri.ID]
		rules = append(rules, ruleEv{ri, m[Discharged] + m[Assumed] + m[Known] + m[Violated] + m[Undecided], m[Discharged], m[Assumed], m[Known], m[Violated], m[Undecided]})
	}
	var resid []Obligation
	for _, o := range r.Obls {
		if o.Status == Assumed {
			resid = append(resid, o)
		}
	}
	r.Analysed["module_packages_production"] = len(r.w.Mod)
	r.Analysed["module_packages_all"] = len(r.w.ModAll)
	r.Analysed["packages_total"] = len(r.w.All)
	r.Analysed["module_functions_with_bodies"] = r.w.NFuncs
	r.Analysed["load_s"] = r.w.LoadS
	r.Analysed["ssa_s"] = r.w.SSAS
	r.Analysed["captured_locals_promoted"] = r.w.Promoted
	if len(r.w.Renamed) > 0 {
		r.Analysed["renamed_helpers_recognised"] = r.w.Renamed
	}
	ruleIDs := []string{}
	for _, ri := range r.Rules {
		ruleIDs = append(ruleIDs, ri.ID)
	}
	expl := fmt.Sprintf("Static analysis of /repo's current source (go/packages + go/types + go/ssa, x/tools v0.29.0): "+
		"the structural clauses of %s are decided as %d obligations keyed by rule:construct over rules [%s]; "+
		"each obligation is a must-pass-through / who-may-call / value-identity / ordering-table argument over the SSA form, universally quantified over inputs by construction. "+
		"Not decided by this family (see 'undecided_clauses'): the numeric clauses of the property.",
		r.Prop, len(r.Obls), strings.Join(ruleIDs, ", "))
	ev := map[string]interface{}{
		"property_id": r.Prop,
		"tier":        r.Tier,
		"seed":        seed,
		"level":       "other",
		"wall_s":      time.Since(r.start).Seconds() + r.w.LoadS + r.w.SSAS,
		"violations":  viol + undec,
		"assumptions": append([]string{
			"go/types, go/ssa, go/packages at x/tools v0.29.0 and the Go toolchain's view of build tags",
			"cosmos-sdk v0.46.10 semantics as summarised in DESIGN.md section 4 (bank supply==sum of balances; baseapp discards a message's writes when its handler returns an error or panics)",
			"generated protobuf code marshals every field",
		}, r.Assumptions...),
		"coverage": map[string]interface{}{
			"explanation":          expl,
			"evaluations":          len(r.Obls),
			"distinct_nontrivial":  nontriv,
			"rule":                 "one obligation per rule instance found in the loaded program (function + resolved callee/field/prefix + ordinal); non-trivial = needed a dominance, path or value-origin argument rather than mere enumeration; distinct = distinct rule:construct key",
			"obligations":          len(r.Obls),
			"discharged":           disch + assumed,
			"known":                known,
			"violated":             viol,
			"undecided":            undec,
			"rules":                rules,
			"samples":              samples,
			"all_obligations":      r.Obls,
			"residual_assumptions": resid,
			"undecided_clauses":    r.Undecided,
			"analysed":             r.Analysed,
			"exhaustive":           true,
			"checker_cmd":          fmt.Sprintf("./check %s %s", r.Prop, r.Tier),
		},
	}
	os.MkdirAll(filepath.Join(verifDir, "evidence"), 0o755)
	b, _ := json.MarshalIndent(ev, "", " ")
	if err := os.WriteFile(filepath.Join(verifDir, "evidence", r.Prop+".json"), b, 0o644); err != nil {
		fmt.Fprintf(os.Stderr, "cannot write evidence: %v\n", err)
		return 1
	}
	if exit == 0 {
		fmt.Printf("PASS property=%s tier=%s obligations=%d known=%d\n", r.Prop, r.Tier, len(r.Obls), known)
	}
	return exit
}

// shareRule runs another property's rules into a scratch report and copies the obligations of rule `from` that the
// filter accepts into r under the name `to` (a clause that two properties have in common is decided once, by the same
// code, and reported under both).
func shareRule(w *World, r *Report, check func(*World, *Report), from, to string, filter func(Obligation) bool) int {
	sub := NewReport("shared", r.Tier, w)
	check(w, sub)
	n := 0
	for _, o := range sub.Obls {
		if o.Rule != from || (filter != nil && !filter(o)) {
			continue
		}
		o.Rule = to
		r.add(o)
		n++
	}
	return n
}

// HasRule: the rule was declared for this report.
func (r *Report) HasRule(name string) bool {
	for _, x := range r.Rules {
		if x.ID == name {
			return true
		}
	}
	return false
}
