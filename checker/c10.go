package main

import (
	"fmt"
	"go/token"
	"go/types"
	"sort"
	"strings"

	"golang.org/x/tools/go/ssa"
)

func init() { register("C10", checkC10) }

// Vetted residuals of the BeginBlock inventory (g4): one named construct and one line of reason each.
// The table is closed: a site that is neither discharged nor listed fails the check.
var c10Vetted = map[string]string{
	"index @ x/cfedistributor/keeper.Keeper.addSharesToState : index []x/cfedistributor/types.State":         "pos is the >=0 result of the state search over the same list (closures built over the list that is passed in) or len-1 right after append",
	"index @ x/cfedistributor/keeper.Keeper.addSharesToState : index []x/cfedistributor/types.State #2":      "same position as above (read-modify-write of the same element)",
	"panic @ x/cfeminter/keeper.Keeper.GetMinterState : panic(\"stored minter state should not have bee...)": "the minter state key is written by InitGenesis (C12.fields) and never deleted (no STORE.delete on it)",
}

// Vetted dereferences of may-be-nil fields.
var c10VettedNil = map[string]string{
	"Minter.EndTime @ x/cfeminter/types.LinearMinting.AmountToMint":       "Minter.validate requires EndTime for a LinearMinting period",
	"Minter.EndTime @ x/cfeminter/types.LinearMinting.CalculateInflation": "Minter.validate requires EndTime for a LinearMinting period",
}

type nilField struct {
	T     *types.Named
	Field string
	Why   string
	// NonNilWhen: validation rejects nil whenever the sibling bool field has this value
	// (e.g. State.Account must be set when State.Burn is false).
	CorrField string
	CorrVal   bool
}

// mayBeNilFields discovers pointer fields for which a validation function *requires* nil in some accepted
// state, or which an export function sets to nil.
func (w *World) mayBeNilFields(exportRoots []*ssa.Function) []nilField {
	var out []nilField
	seen := map[string]bool{}
	add := func(T *types.Named, f, why string) {
		k := T.Obj().Name() + "." + f
		if !seen[k] {
			seen[k] = true
			out = append(out, nilField{T: T, Field: f, Why: why})
		}
	}
	for _, fn := range w.ProdFuncs() {
		name := strings.ToLower(fn.Name())
		if !strings.HasPrefix(name, "validate") || !strings.Contains(funcName(fn), "/types.") {
			continue
		}
		for _, b := range fn.Blocks {
			i := blockIf(b)
			if i == nil {
				continue
			}
			base, neg := stripNot(i.Cond)
			bo, ok := base.(*ssa.BinOp)
			if !ok || (bo.Op != token.EQL && bo.Op != token.NEQ) {
				continue
			}
			var fv ssa.Value
			if isNilConst(bo.Y) {
				fv = bo.X
			} else if isNilConst(bo.X) {
				fv = bo.Y
			}
			if fv == nil {
				continue
			}
			T, f, ok := fieldOfValue(fv)
			if !ok {
				continue
			}
			if _, isPtr := fv.Type().Underlying().(*types.Pointer); !isPtr {
				continue
			}
			// edge on which the field is non-nil
			nonNilSucc := 0
			if bo.Op == token.EQL {
				nonNilSucc = 1
			}
			if neg {
				nonNilSucc = 1 - nonNilSucc
			}
			if FailsFrom(b.Succs[nonNilSucc]) {
				// non-nil rejected on this path: but only "requires nil in some state" if that edge is conditional
				// on something else too (otherwise the field could never be set). Either way nil is an accepted value.
				add(T, f, "validation in "+funcName(fn)+" rejects a non-nil value on some path, so nil is an accepted (mandatory) value there")
			}
		}
	}
	reach := w.CG().Reach(exportRoots)
	for fn := range reach {
		for _, fs := range FieldStores(fn) {
			if isNilConst(fs.Store.Val) && fs.Struct != nil {
				if _, isPtr := fs.Store.Val.Type().Underlying().(*types.Pointer); isPtr {
					add(fs.Struct, fs.Field, "genesis export in "+funcName(fn)+" writes nil")
				}
			}
		}
	}
	sort.Slice(out, func(i, j int) bool { return out[i].T.Obj().Name()+out[i].Field < out[j].T.Obj().Name()+out[j].Field })
	// correlation: validation rejects (B == want && F == nil) for a bool field B of the same struct  =>  F is non-nil
	// whenever B == want. Decided semantically: the validator is explored under that assumption and every live
	// return must carry a non-nil error (whatever the spelling: if-chain, switch, early returns).
	for k := range out {
		nf := &out[k]
		st, isStruct := nf.T.Underlying().(*types.Struct)
		if !isStruct {
			continue
		}
		for _, fn := range w.ProdFuncs() {
			if !strings.HasPrefix(strings.ToLower(fn.Name()), "validate") || !strings.Contains(funcName(fn), "/types.") {
				continue
			}
			// the validator must look at the field at all
			tests := false
			for _, b := range fn.Blocks {
				for _, in := range b.Instrs {
					if v, ok := in.(ssa.Value); ok {
						if T, f, ok := fieldOfValue(v); ok && f == nf.Field && T.Obj() == nf.T.Obj() {
							tests = true
						}
					}
				}
			}
			if !tests {
				continue
			}
			for fi := 0; fi < st.NumFields(); fi++ {
				bf := st.Field(fi)
				if bt, ok := bf.Type().Underlying().(*types.Basic); !ok || bt.Kind() != types.Bool {
					continue
				}
				for _, want := range []bool{true, false} {
					want := want
					live := ReachUnder(fn, func(base ssa.Value) (bool, bool) {
						if T2, f2, ok := fieldOfValue(base); ok && f2 == bf.Name() && T2.Obj() == nf.T.Obj() {
							return want, true
						}
						if bo, ok := base.(*ssa.BinOp); ok && (bo.Op == token.EQL || bo.Op == token.NEQ) {
							var fv ssa.Value
							if isNilConst(bo.Y) {
								fv = bo.X
							} else if isNilConst(bo.X) {
								fv = bo.Y
							}
							if fv != nil {
								if T2, f2, ok := fieldOfValue(fv); ok && f2 == nf.Field && T2.Obj() == nf.T.Obj() {
									return bo.Op == token.EQL, true // F == nil is assumed
								}
							}
						}
						return false, false
					})
					nret, allFail := 0, true
					for _, ret := range Returns(fn) {
						if !live.Blocks[ret.Block()] {
							continue
						}
						nret++
						rv := retVals(ret)
						if len(rv) == 0 || !nonNilAt(rv[len(rv)-1], ret.Block(), 0) {
							allFail = false
						}
					}
					if nret > 0 && allFail {
						nf.CorrField, nf.CorrVal = bf.Name(), want
					}
				}
			}
		}
	}
	return out
}

// corrGuarded: the instruction is dominated by the edge on which base.CorrField == CorrVal, in the
// function itself or (when base is a parameter) at every call site for the argument passed.
func (w *World) corrGuarded(nf nilField, fn *ssa.Function, in ssa.Instruction, base ssa.Value, depth int) bool {
	if nf.CorrField == "" || depth > 2 {
		return false
	}
	edgesFor := func(f *ssa.Function, b ssa.Value) []Edge {
		return EdgesWhere(f, func(c ssa.Value) (bool, bool) {
			c = stripConv(c)
			var fbase ssa.Value
			switch x := c.(type) {
			case *ssa.UnOp:
				if fa, ok := x.X.(*ssa.FieldAddr); ok {
					if _, name := fieldOf(fa); name == nf.CorrField {
						fbase = fa.X
					}
				}
			case *ssa.Field:
				if strings.HasSuffix(fieldElem(x.X.Type(), x.Field), "."+nf.CorrField) {
					fbase = x.X
				}
			}
			if fbase == nil {
				return false, false
			}
			if fbase == b || samePath(fbase, b) || derefRoot(fbase) == derefRoot(b) {
				return nf.CorrVal, true
			}
			return false, false
		})
	}
	if MustPass(fn, edgesFor(fn, base), in.Block()) {
		return true
	}
	root := derefRoot(base)
	p, ok := root.(*ssa.Parameter)
	if !ok {
		return false
	}
	idx := -1
	for i, x := range fn.Params {
		if x == p {
			idx = i
		}
	}
	callers := w.CG().Callers[fn]
	if len(callers) == 0 || idx < 0 {
		return false
	}
	for _, cs := range callers {
		a := cs.Common().Args
		if cs.Common().IsInvoke() || idx >= len(a) {
			return false
		}
		if !w.corrGuarded(nf, cs.Caller, cs.Instr, a[idx], depth+1) {
			return false
		}
	}
	return true
}

// nilDerefs finds, in the functions reachable from roots, dereferences of values loaded from the given
// field (followed into callee parameters), and reports whether each is dominated by a non-nil test.
func (w *World) checkMayBeNil(r *Report, rule string, nf nilField, roots []*ssa.Function, vetted map[string]string) {
	cg := w.CG()
	reach := cg.Reach(roots)
	tainted := map[ssa.Value]bool{}
	var work []ssa.Value
	push := func(v ssa.Value) {
		if !tainted[v] {
			tainted[v] = true
			work = append(work, v)
		}
	}
	var fns []*ssa.Function
	for fn := range reach {
		if w.isProdFunc(fn) {
			fns = append(fns, fn)
		}
	}
	sort.Slice(fns, func(i, j int) bool { return funcName(fns[i]) < funcName(fns[j]) })
	for _, fn := range fns {
		for _, b := range fn.Blocks {
			for _, in := range b.Instrs {
				v, ok := in.(ssa.Value)
				if !ok {
					continue
				}
				if T, f, ok := fieldOfValue(v); ok && f == nf.Field && T.Obj() == nf.T.Obj() {
					if _, isPtr := v.Type().Underlying().(*types.Pointer); isPtr {
						push(v)
					}
				}
			}
		}
	}
	for len(work) > 0 {
		v := work[len(work)-1]
		work = work[:len(work)-1]
		refs := v.Referrers()
		if refs == nil {
			continue
		}
		for _, ref := range *refs {
			switch x := ref.(type) {
			case *ssa.Phi:
				push(x)
			case ssa.CallInstruction:
				// passed as argument to a module callee: taint the parameter
				var site *Site
				for _, s := range cg.Sites[x.Parent()] {
					if s.Instr == x {
						site = s
					}
				}
				if site == nil {
					continue
				}
				args := x.Common().Args
				// a call behind a non-nil test of the value hands a non-nil argument on (`if acc != nil && same(acc, other)`)
				if MustPass(x.Parent(), nonNilEdgesOf(x.Parent(), v), x.Block()) {
					continue
				}
				for _, c := range site.Callees {
					off := 0
					if x.Common().IsInvoke() {
						off = 1
					}
					for i, a := range args {
						if a == v && i+off < len(c.Params) {
							push(c.Params[i+off])
						}
					}
				}
			}
		}
	}
	nsites := 0
	perFn := map[string]bool{}
	var vals []ssa.Value
	for v := range tainted {
		vals = append(vals, v)
	}
	sort.Slice(vals, func(i, j int) bool { return vals[i].Pos() < vals[j].Pos() })
	for _, v := range vals {
		refs := v.Referrers()
		if refs == nil {
			continue
		}
		for _, ref := range *refs {
			deref := false
			switch x := ref.(type) {
			case *ssa.UnOp:
				deref = x.Op == token.MUL && x.X == v
			case *ssa.FieldAddr:
				deref = x.X == v
			case *ssa.IndexAddr:
				deref = x.X == v
			case ssa.CallInstruction:
				cc := x.Common()
				if !cc.IsInvoke() && cc.Signature().Recv() != nil && len(cc.Args) > 0 && cc.Args[0] == v {
					// method with pointer receiver: generated getters are nil-safe, module methods are followed via parameters
					callee := cc.StaticCallee()
					if callee != nil && callee.Blocks != nil && w.CG().isModuleFunc(callee) && !isGeneratedFile(w.FileOf(callee.Pos())) {
						deref = false // followed through the tainted parameter
					} else if callee != nil && strings.HasPrefix(callee.Name(), "Get") {
						deref = false
					} else {
						deref = true
					}
				}
			}
			if !deref {
				continue
			}
			in := ref.(ssa.Instruction)
			fn := in.Parent()
			if _, ok := reach[fn]; !ok || !w.isProdFunc(fn) {
				continue
			}
			nsites++
			// guard: non-nil edge on the same path
			edges := nonNilEdgesOf(fn, v)
			key := fmt.Sprintf("%s.%s @ %s", nf.T.Obj().Name(), nf.Field, funcName(fn))
			pos := w.Pos(in.Pos())
			if !in.Pos().IsValid() {
				pos = w.Pos(v.Pos())
			}
			if MustPass(fn, edges, in.Block()) {
				r.OK(rule, key, pos, "dereference dominated by a non-nil test of the same access path")
				continue
			}
			if fa := fieldAddrOfLoad(v); fa != nil && w.corrGuarded(nf, fn, in, fa.X, 0) {
				r.OK(rule, key, pos, fmt.Sprintf("dereference dominated by %s == %v on the same record; validation rejects nil in that case", nf.CorrField, nf.CorrVal))
				continue
			}
			// the previous period always has an end: only a non-last period can be 'previous', and
			// validateEndTimeExistance requires EndTime on every non-last period. Recognised by origin (result #1 of
			// the shared selection, directly or through a parameter at every call site), not by function name.
			if nf.Field == "EndTime" && nf.T.Obj().Name() == "Minter" {
				if fa := fieldAddrOfLoad(v); fa != nil && w.isPreviousMinter(fn, fa.X, 0) {
					pkey := fmt.Sprintf("%s.%s of the previous period @ %s", nf.T.Obj().Name(), nf.Field, funcName(fn))
					if !perFn[pkey] {
						perFn[pkey] = true
						r.Assume(rule, pkey, pos, "vetted: previous period: only a non-last period can be 'previous', and validateEndTimeExistance requires EndTime on every non-last period")
					}
					continue
				}
			}
			if why, ok := vetted[key]; ok {
				if !perFn[key] {
					perFn[key] = true
					r.Assume(rule, key, pos, "vetted: "+why)
				}
				continue
			}
			r.Bad(rule, key, pos, fmt.Sprintf("%s.%s may be nil (%s) and is dereferenced here without a nil test; reached via %s", nf.T.Obj().Name(), nf.Field, nf.Why, PathTo(reach, fn)))
		}
	}
	if nsites == 0 {
		r.Enum(rule, fmt.Sprintf("%s.%s (no dereference on the tree)", nf.T.Obj().Name(), nf.Field), "", nf.Why)
	}
}

func fieldAddrOfLoad(v ssa.Value) *ssa.FieldAddr {
	if u, ok := v.(*ssa.UnOp); ok && u.Op == token.MUL {
		fa, _ := u.X.(*ssa.FieldAddr)
		return fa
	}
	return nil
}

func checkCurrentPeriod(w *World, r *Report, rule string) {
	cg := w.CG()
	ro := w.Roles()
	pkey, ok := w.paramsKeyOf("cfeminter")
	if !ok {
		r.Unk("infra.anchor", "x/cfeminter/types.ParamsKey", "", "cannot evaluate")
		return
	}
	containsGuard := GuardSpec{Name: "ContainsMinter(state.SequenceId)",
		Edges: func(fn *ssa.Function, bind Bind, isVal func(ssa.Value) bool) []Edge {
			return boolCallEdges(fn, func(c *ssa.Call) bool {
				if !strings.HasSuffix(callName(c.Common()), "x/cfeminter/types.Params.ContainsMinter") {
					return false
				}
				args := c.Common().Args
				o := w.Tracer().Origins(args[len(args)-1])
				return o.HasPath("MinterState.SequenceId") && o.HasCall("Keeper.GetMinterState", "codec.BinaryCodec.MustUnmarshal")
			}, true)
		}}
	containsMinterRule(w, r, rule)
	for _, h := range ro.MSG["cfeminter"] {
		res := cg.GuardCover(h, func(s *Site) bool {
			if cg.Atom(s) != StoreSet {
				return false
			}
			loc := cg.StoreLocOf(s)
			return loc.Resolved && loc.Prefix == pkey
		}, containsGuard, 3)
		for _, cr := range res {
			construct := funcName(h) + " : parameter write in " + funcName(cr.Site.Caller)
			if cr.Covered {
				r.OK(rule, construct, w.Pos(cr.Site.Instr.Pos()), "dominated by the true edge of ContainsMinter(current SequenceId) in "+cr.By)
			} else {
				r.Bad(rule, construct, w.Pos(cr.Site.Instr.Pos()), "parameters can be stored without checking that the current period exists in them; chain: "+chainString(cr.Chain, cr.Site))
			}
		}
	}
}

// containsMinterRule: the membership predicate used by the parameter updates and by genesis validation means what its
// name says for a list in ANY order (shared by C10.currentperiod and C13.current).
func containsMinterRule(w *World, r *Report, rule string) {
	// the predicate itself: membership decided by comparing the id of every configured period, whatever the order of
	// the list (the update handlers call it on the message's list before validation sorts it)
	cm := w.Func("x/cfeminter/types.Params.ContainsMinter")
	if cm == nil {
		r.Unk("infra.anchor", "x/cfeminter/types.Params.ContainsMinter", "", "anchor not found")
		return
	}
	// membershipLoop decides, for function f with id parameter idP: "found" results only on an equal comparison of an
	// element's SequenceId with the id, "not found" results only once the loop over Params.Minters is exhausted.
	// classify tells what a returned value means: +1 found, -1 not found, 0 something else.
	membershipLoop := func(f *ssa.Function, idP *ssa.Parameter, classify func(v ssa.Value) int) string {
		var loop *rangeLoop
		for _, l := range rangeLoops(f) {
			l := l
			if l.Over != nil && loadOfField(l.Over, "Minters", nil) {
				loop = &l
			}
		}
		if idP == nil || loop == nil {
			return "no loop over Params.Minters (or no id parameter)"
		}
		eq := eqEdges(f, func(v ssa.Value) bool { return v == ssa.Value(idP) }, func(v ssa.Value) bool {
			_, fld, ok := fieldOfValue(v)
			return ok && fld == "SequenceId" && elementContainer(v) != nil
		})
		in := loopBlocks(loop.Header)
		why := ""
		nFound := 0
		for _, ret := range Returns(f) {
			rv := retVals(ret)
			switch classify(rv[0]) {
			case 0:
				why = "a result is computed from something else than an id comparison per period (" + renderVal(rv[0], 0) + ")"
			case 1:
				nFound++
				if !MustPass(f, eq, ret.Block()) {
					why = "a positive answer is returned without an element's SequenceId having compared equal to the id"
				}
			default:
				if in[ret.Block()] {
					why = "a negative answer is returned before every period was compared"
				}
			}
		}
		if nFound == 0 && why == "" {
			why = "never answers positively"
		}
		// the loop may be left early only on an equal comparison
		isEq := map[Edge]bool{}
		for _, e := range eq {
			isEq[e] = true
		}
		for bb := range in {
			if bb == loop.Header {
				continue
			}
			for si, sc := range bb.Succs {
				if !in[sc] && !isEq[Edge{bb, si}] && !MustPass(f, eq, bb) && why == "" {
					why = "the loop over the periods is left before every period was compared"
				}
			}
		}
		return why
	}
	idP := paramOfType(cm, "uint32", 0)
	boolClass := func(v ssa.Value) int {
		val, isConst := constBool(v)
		switch {
		case !isConst:
			return 0
		case val:
			return 1
		}
		return -1
	}
	why := membershipLoop(cm, idP, boolClass)
	if why != "" {
		// `return params.find(id) != nil`: the search sits in a finder that returns the element or nil
		rets := Returns(cm)
		if len(rets) == 1 {
			if bo, ok := retVals(rets[0])[0].(*ssa.BinOp); ok && bo.Op == token.NEQ && (isNilConst(bo.X) || isNilConst(bo.Y)) {
				other := bo.X
				if isNilConst(bo.X) {
					other = bo.Y
				}
				if c, isC := other.(*ssa.Call); isC && !c.Common().IsInvoke() {
					if h := c.Common().StaticCallee(); h != nil && h.Blocks != nil && w.isProdFunc(h) {
						var hid *ssa.Parameter
						for i, a := range c.Common().Args {
							if a == ssa.Value(idP) && i < len(h.Params) {
								hid = h.Params[i]
							}
						}
						why = membershipLoop(h, hid, func(v ssa.Value) int {
							if isNilConst(v) {
								return -1
							}
							if elementContainer(v) != nil {
								return 1
							}
							return 0
						})
					}
				}
			}
		}
	}
	r.Check(why == "", rule, "ContainsMinter(id): true exactly when some configured period has that sequence id", w.Pos(cm.Pos()), "every period's SequenceId is compared with the id; true only on an equal comparison, false only after the whole list", "the membership predicate does not compare the id of every configured period: "+why+" - it is applied to lists in the sender's order, so an update can be accepted although the stored (sorted) configuration lacks the current period")
}

func checkC10(w *World, r *Report) {
	cg := w.CG()
	ro := w.Roles()
	r.Undecided = []string{
		"resource exhaustion (the exponential minter loops once per elapsed step) and Dec overflow beyond 315 bits (out of reach below the stated 10^36 bound)",
		"the numeric facts behind the vetted DecCoins.Sub sites (C03/C04) and the period-length divisors",
		"panics inside the SDK on well-formed arguments (trusted)",
	}
	r.Rule("C10.inventory", "P4,P5,P9", "every panic-capable operation on the BeginBlock/EndBlock trees of the custom modules is discharged by a dominating guard (g1), a validated configuration field (g2), constant evaluation (g3), the closed vetted table (g4) or a well-formed origin (g5)", 40)
	r.Rule("C10.maybenil", "P8,P5", "a pointer field that validation requires to be nil in some accepted state, or that genesis export sets to nil, is dereferenced on the block trees only under a nil test of the same access path (or a vetted reason)", 3)
	r.Rule("C10.select", "P7", "= C02.select: ContainsMinter guarantees that a period with the state's sequence id is configured; the block routine finds it only if the selection is by sequence id over all periods (a selection by list position returns 'not found' - and BeginBlock panics - for accepted lists whose ids do not start at 1)", 18)
	r.Rule("C10.currentperiod", "P5", "every minter parameter write reachable from a message is dominated by ContainsMinter(current SequenceId); the genesis validator contains the same predicate", 3)
	r.Rule("C10.swallow", "P5", "the distributor's block tree contains no explicit panic and its bank operations return their errors to callers that log and continue", 5)
	r.Rule("C10.wrapper", "P4,P6", "= C14.wrapper: the distributor's bank wrappers move exactly what they are asked to and report failure; a wrapper that quietly moves less lets the books exceed the balance, and the next block's balance - remains subtraction panics", 4)
	r.Rule("C10.perm", "P8", "module accounts named in distributor parameters are validated against maccPerms (membership predicate on the ModuleAccount case), and the table handed to the validator is app.maccPerms", 2)
	if !ro.checkFloors(r) {
		return
	}
	wrapperRule(w, r, "C10.wrapper")
	iv := newInv(w, r, "C10.inventory", c10Vetted)
	iv.Run(flatten(ro.BLK), "BLK")
	iv.Finish()
	if w.Tier == "thorough" {
		r.Rule("C10.discovery", "P4", "thorough tier: every distinct dependency function called on the block trees is either an inventory class or in the reviewed table (the allow-list is closed)", 60)
		iv.Discover(flatten(ro.BLK), "C10.discovery", "BLK")
	}

	// ---------- C10.maybenil ----------
	nfs := w.mayBeNilFields(flatten(ro.EXPORT))
	var names []string
	for _, nf := range nfs {
		names = append(names, nf.T.Obj().Name()+"."+nf.Field)
		w.checkMayBeNil(r, "C10.maybenil", nf, flatten(ro.BLK), c10VettedNil)
	}
	r.Analysed["maybe_nil_fields"] = names
	wantNil := map[string]bool{"State.Account": false, "Minter.EndTime": false}
	for _, n := range names {
		if _, ok := wantNil[n]; ok {
			wantNil[n] = true
		}
	}
	for n, ok := range wantNil {
		if !ok {
			r.Unk("C10.maybenil", "discovery of "+n, "", "the may-be-nil discovery no longer finds "+n+" (confirmed by hand): the rule lost its instance")
		}
	}

	// ---------- C10.select ----------
	minterSelectRule(w, r, "C10.select")
	// ---------- C10.currentperiod ----------
	checkCurrentPeriod(w, r, "C10.currentperiod")
	if gv := w.Func("x/cfeminter/types.GenesisState.Validate"); gv != nil {
		edges := boolCallEdges(gv, func(c *ssa.Call) bool {
			if !strings.HasSuffix(callName(c.Common()), "x/cfeminter/types.Params.ContainsMinter") {
				return false
			}
			a := c.Common().Args
			_, f, ok := fieldOfValue(a[len(a)-1])
			return ok && f == "SequenceId"
		}, false)
		good := len(edges) > 0
		for _, e := range edges {
			if !FailsFrom(e.To()) {
				good = false
			}
		}
		if len(edges) == 0 {
			// the predicate sits in a validation helper whose error the validator checks or returns
			isSeq := func(c *ssa.Call) bool {
				if !strings.HasSuffix(callName(c.Common()), "x/cfeminter/types.Params.ContainsMinter") {
					return false
				}
				a := c.Common().Args
				_, f, ok := fieldOfValue(a[len(a)-1])
				return ok && f == "SequenceId"
			}
			spec := GuardSpec{Name: "ContainsMinter(MinterState.SequenceId)", ValueFree: true,
				Edges: func(fn *ssa.Function, bind Bind, isVal func(ssa.Value) bool) []Edge {
					return boolCallEdges(fn, isSeq, true)
				}}
			good = w.CG().successRequires(gv, Bind{}, spec, 0)
		}
		r.Check(good, "C10.currentperiod", "genesis validation: current period must be among the configured periods", w.Pos(gv.Pos()), "ContainsMinter(MinterState.SequenceId)==false leads to an error", "a genesis whose minter state points to a missing period is accepted")
	} else {
		r.Unk("infra.anchor", "x/cfeminter/types.GenesisState.Validate", "", "anchor not found")
	}

	// ---------- C10.swallow ----------
	dreach := cg.Reach(ro.BLK["cfedistributor"])
	for f := range dreach {
		if !w.isProdFunc(f) {
			continue
		}
		for _, b := range f.Blocks {
			for _, in := range b.Instrs {
				if _, ok := in.(*ssa.Panic); ok {
					r.Bad("C10.swallow", "explicit panic in "+funcName(f), w.Pos(in.Pos()), "the distributor's block routine can panic explicitly: "+PathTo(dreach, f))
				}
			}
		}
	}
	for _, s := range cg.SitesIn(dreach) {
		a := cg.Atom(s)
		if a != BankMove && a != BankBurn && a != BankMint {
			continue
		}
		// the wrapper returns the error; every caller of the wrapper tests it and continues
		wf := s.Caller
		for _, cs := range cg.Callers[wf] {
			if _, ok := dreach[cs.Caller]; !ok {
				continue
			}
			call := siteValue(cs)
			construct := fmt.Sprintf("%s via %s in %s", s.Method, funcName(wf), funcName(cs.Caller))
			if call == nil {
				r.Bad("C10.swallow", construct, w.Pos(cs.Instr.Pos()), "bank error dropped in a deferred call")
				continue
			}
			ev := errValues(cs.Caller, call)
			tested := len(NilEdges(cs.Caller, ev, false)) > 0
			res := cs.Caller.Signature.Results()
			returnsErr := res.Len() > 0 && isErrorType(res.At(res.Len()-1).Type())
			r.Check(tested && !returnsErr, "C10.swallow", construct, w.Pos(cs.Instr.Pos()), "error tested, logged, not propagated upwards", "bank error is untested or propagated upwards towards the block routine")
		}
	}

	// ---------- C10.perm ----------
	accT := w.NamedType("x/cfedistributor/types.Account")
	if accT == nil {
		r.Unk("infra.anchor", "x/cfedistributor/types.Account", "", "anchor not found")
	} else {
		ok, how := iv.fieldValidated(accT, "Id", reqMacc)
		r.Check(ok, "C10.perm", "Account.Validate: module accounts must be keys of maccPerms", w.Pos(accT.Obj().Pos()), "membership test with error exit in "+how, "module account names in distributor parameters are not validated against maccPerms")
	}
	setM := w.Func("x/cfedistributor/types.SetMaccPerms")
	okSet := false
	if setM != nil {
		for _, cs := range cg.Callers[setM] {
			if strings.HasPrefix(funcName(cs.Caller), "app.") {
				a := cs.Common().Args[0]
				if u, ok := a.(*ssa.UnOp); ok {
					if g, ok := u.X.(*ssa.Global); ok && g.Name() == "maccPerms" {
						okSet = true
					}
				}
			}
		}
		// the synthetic package init of app calls app.init#1 which calls SetMaccPerms; Callers covers declared functions only
		if !okSet {
			if ap := w.Pkg("app"); ap != nil {
				for _, m := range ap.Members {
					if f, ok := m.(*ssa.Function); ok && strings.HasPrefix(f.Name(), "init") {
						for _, b := range f.Blocks {
							for _, in := range b.Instrs {
								if c, ok := in.(*ssa.Call); ok && c.Common().StaticCallee() == setM {
									if u, ok := c.Common().Args[0].(*ssa.UnOp); ok {
										if g, ok := u.X.(*ssa.Global); ok && g.Name() == "maccPerms" {
											okSet = true
										}
									}
								}
							}
						}
					}
				}
			}
		}
	}
	r.Check(okSet, "C10.perm", "the validator's table is app.maccPerms", "", "SetMaccPerms(maccPerms) is called from the app package", "the distributor's module-account table is not set from app.maccPerms")
}

// isPreviousMinter: v is result #1 of getCurrentAndPreviousMinter, in fn or - when v is a parameter - at every call site.
func (w *World) isPreviousMinter(fn *ssa.Function, v ssa.Value, depth int) bool {
	if depth > 2 {
		return false
	}
	if ex, ok := v.(*ssa.Extract); ok && ex.Index == 1 {
		if c, ok := ex.Tuple.(*ssa.Call); ok && w.isSelectionCall(c.Common()) {
			return true
		}
	}
	p, ok := v.(*ssa.Parameter)
	if !ok {
		return false
	}
	idx := -1
	for i, x := range fn.Params {
		if x == p {
			idx = i
		}
	}
	callers := w.CG().Callers[fn]
	if idx < 0 || len(callers) == 0 {
		return false
	}
	for _, cs := range callers {
		a := cs.Common().Args
		if cs.Common().IsInvoke() || idx >= len(a) || !w.isPreviousMinter(cs.Caller, a[idx], depth+1) {
			return false
		}
	}
	return true
}

// nonNilEdgesOf: the edges of fn on which v (or a value with the same access path) is known to be non-nil: the
// non-nil side of a comparison with nil, and the side of a call of a bool-returning module helper that the helper
// cannot produce when the corresponding parameter is nil (the helper is explored under "parameter == nil", P7).
func nonNilEdgesOf(fn *ssa.Function, v ssa.Value) []Edge {
	return EdgesWhere(fn, func(base ssa.Value) (bool, bool) {
		switch x := base.(type) {
		case *ssa.BinOp:
			if x.Op != token.EQL && x.Op != token.NEQ {
				return false, false
			}
			var o ssa.Value
			if isNilConst(x.Y) {
				o = x.X
			} else if isNilConst(x.X) {
				o = x.Y
			} else {
				return false, false
			}
			if o == v || samePath(o, v) {
				return x.Op == token.NEQ, true
			}
		case *ssa.Call:
			h := boolHelper(x)
			if h == nil {
				return false, false
			}
			// the helper explored under "v is nil" (its conditions read in this function's terms: the helper may be
			// handed the pointer itself or the record that contains it): when it then always gives one answer, the
			// other answer implies v != nil
			assumeNil := func(b ssa.Value) (bool, bool) {
				bo, ok := b.(*ssa.BinOp)
				if !ok || (bo.Op != token.EQL && bo.Op != token.NEQ) {
					return false, false
				}
				var o ssa.Value
				if isNilConst(bo.Y) {
					o = bo.X
				} else if isNilConst(bo.X) {
					o = bo.Y
				} else {
					return false, false
				}
				if o == v || samePath(o, v) || sameAccessPath(o, v) {
					return bo.Op == token.EQL, true
				}
				return false, false
			}
			mentions := false
			for _, a := range x.Common().Args {
				if a == v || samePath(a, v) || containsPathOf(a, v) {
					mentions = true
				}
			}
			if !mentions {
				return false, false
			}
			live := ReachUnder(h, liftEval(assumeNil, h, x))
			first, have, all := false, false, true
			for _, rv := range live.LiveReturns(h, 0) {
				val, known := live.EvalBool(rv)
				if !known || (have && val != first) {
					all = false
					break
				}
				first, have = val, true
			}
			if all && have {
				return !first, true
			}
		}
		return false, false
	})
}

// accessPath: a value as (root, field indices): `*(&x.A).B`, `(*x).A.B`, Field(Field(load x, A), B) all give (x, [A B]).
// Roots are allocs (the cell), pointer values and plain values.
func accessPath(v ssa.Value) (root ssa.Value, fields []int, ok bool) {
	var ptrPath func(p ssa.Value, d int) (ssa.Value, []int, bool)
	ptrPath = func(p ssa.Value, d int) (ssa.Value, []int, bool) {
		if d > 8 {
			return nil, nil, false
		}
		switch x := p.(type) {
		case *ssa.FieldAddr:
			r, f, ok := ptrPath(x.X, d+1)
			if !ok {
				return nil, nil, false
			}
			return r, append(f, x.Field), true
		default:
			return p, nil, true // an alloc (the cell) or a pointer value
		}
	}
	var valPath func(x ssa.Value, d int) (ssa.Value, []int, bool)
	valPath = func(x ssa.Value, d int) (ssa.Value, []int, bool) {
		if d > 8 {
			return nil, nil, false
		}
		switch y := x.(type) {
		case *ssa.UnOp:
			if y.Op != token.MUL {
				return nil, nil, false
			}
			return ptrPath(y.X, d+1)
		case *ssa.Field:
			r, f, ok := valPath(y.X, d+1)
			if !ok {
				return nil, nil, false
			}
			return r, append(f, y.Field), true
		}
		return x, nil, true
	}
	return valPath(v, 0)
}

func sameAccessPath(a, b ssa.Value) bool {
	ra, fa, oka := accessPath(a)
	rb, fb, okb := accessPath(b)
	if !oka || !okb || ra != rb || len(fa) != len(fb) || len(fa) == 0 {
		return false
	}
	for i := range fa {
		if fa[i] != fb[i] {
			return false
		}
	}
	return true
}

// containsPathOf: v is selected (by field accesses) from the record a stands for.
func containsPathOf(a, v ssa.Value) bool {
	ra, fa, oka := accessPath(a)
	rv, fv, okv := accessPath(v)
	if !oka || !okv || ra != rv || len(fa) >= len(fv) {
		return false
	}
	for i := range fa {
		if fa[i] != fv[i] {
			return false
		}
	}
	return true
}
