package main

import (
	"fmt"
	"sort"

	"golang.org/x/tools/go/ssa"
)

func init() { register("DBG-callees", dbgCallees) }

func dbgCallees(w *World, r *Report) {
	cg := w.CG()
	ro := w.Roles()
	sets := map[string][]*ssa.Function{"BLK": flatten(ro.BLK), "MSG": flatten(ro.MSG), "VB": flatten(ro.VB), "QRY": flatten(ro.QRY)}
	all := map[string]map[string]int{}
	for name, roots := range sets {
		reach := cg.Reach(roots)
		n := 0
		for f := range reach {
			if !w.isProdFunc(f) {
				continue
			}
			n++
			for _, s := range cg.Sites[f] {
				if len(s.Callees) > 0 && !s.Invoke {
					continue
				}
				k := s.CalleeName()
				if s.Static == nil && !s.Invoke {
					k = "dyn:" + callName(s.Common())
				}
				if all[k] == nil {
					all[k] = map[string]int{}
				}
				all[k][name]++
			}
		}
		fmt.Println(name, "functions", n)
	}
	var ks []string
	for k := range all {
		ks = append(ks, k)
	}
	sort.Strings(ks)
	for _, k := range ks {
		fmt.Println(k, all[k])
	}
	r.Rule("dbg", "", "", 0)
}

func init() {
	register("DBG-rejections", func(w *World, r *Report) {
		for _, m := range []string{"cfevesting", "cfeminter", "cfedistributor", "cfesignature"} {
			fn := w.Func("x/" + m + "/types.GenesisState.Validate")
			if fn == nil {
				fmt.Println("no GenesisState.Validate for", m)
				continue
			}
			for _, rj := range genesisRejections(w, fn) {
				fmt.Println(m, "|", w.Pos(rj.If.Pos()), "|", rj.Key)
			}
		}
	})
}

func init() {
	register("DBG-rejections2", func(w *World, r *Report) {
		for _, m := range []string{"cfevesting", "cfeminter", "cfedistributor", "cfesignature"} {
			fn := w.Func("x/" + m + "/types.GenesisState.Validate")
			if fn == nil {
				continue
			}
			inParams := map[*ssa.Function]bool{}
			if pv := w.Func("x/" + m + "/types.Params.Validate"); pv != nil {
				for f := range w.CG().Reach([]*ssa.Function{pv}) {
					inParams[f] = true
				}
			}
			for _, rj := range genesisRejections(w, fn) {
				fmt.Println("RJ", m, "|", inParams[rj.Fn], "|", rj.Key, "|", funcName(rj.Fn))
			}
		}
	})
}
