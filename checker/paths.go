package main

import (
	"go/token"
	"go/types"
	"strings"

	"golang.org/x/tools/go/ssa"
)

// Edge is a CFG edge: successor #Succ of block From.
type Edge struct {
	From *ssa.BasicBlock
	Succ int
}

func (e Edge) To() *ssa.BasicBlock { return e.From.Succs[e.Succ] }

// reachAvoiding computes blocks reachable from the entry without taking the given edges.
func reachAvoiding(fn *ssa.Function, avoid map[Edge]bool) map[*ssa.BasicBlock]bool {
	seen := map[*ssa.BasicBlock]bool{}
	if len(fn.Blocks) == 0 {
		return seen
	}
	var stack []*ssa.BasicBlock
	stack = append(stack, fn.Blocks[0])
	seen[fn.Blocks[0]] = true
	for len(stack) > 0 {
		b := stack[len(stack)-1]
		stack = stack[:len(stack)-1]
		for i, s := range b.Succs {
			if avoid[Edge{b, i}] {
				continue
			}
			if !seen[s] {
				seen[s] = true
				stack = append(stack, s)
			}
		}
	}
	return seen
}

// MustPass reports whether every path from the entry to the target block takes one of the edges
// (edge-dominance: the target is unreachable once the edges are removed). With no edges it is false
// unless the target is unreachable anyway.
func MustPass(fn *ssa.Function, edges []Edge, target *ssa.BasicBlock) bool {
	if len(edges) == 0 {
		return false
	}
	av := map[Edge]bool{}
	for _, e := range edges {
		av[e] = true
	}
	return !reachAvoiding(fn, av)[target]
}

// instrBefore reports whether a is executed before b on every path reaching b (a dominates b).
func instrDominates(a, b ssa.Instruction) bool {
	ba, bb := a.Block(), b.Block()
	if ba == bb {
		for _, in := range ba.Instrs {
			if in == a {
				return true
			}
			if in == b {
				return false
			}
		}
		return false
	}
	return ba.Dominates(bb)
}

func stripNot(v ssa.Value) (ssa.Value, bool) {
	neg := false
	for {
		u, ok := v.(*ssa.UnOp)
		if !ok || u.Op != token.NOT {
			return v, neg
		}
		neg = !neg
		v = u.X
	}
}

// ifPos gives a printable position for an If (which itself carries none): its condition or the block's first positioned instruction.
func ifPos(i *ssa.If) token.Pos {
	if i == nil {
		return token.NoPos
	}
	if in, ok := i.Cond.(ssa.Instruction); ok && in.Pos().IsValid() {
		return in.Pos()
	}
	b := i.Block()
	for k := len(b.Instrs) - 1; k >= 0; k-- {
		if b.Instrs[k].Pos().IsValid() {
			return b.Instrs[k].Pos()
		}
	}
	return token.NoPos
}

func blockIf(b *ssa.BasicBlock) *ssa.If {
	if len(b.Instrs) == 0 {
		return nil
	}
	i, _ := b.Instrs[len(b.Instrs)-1].(*ssa.If)
	return i
}

// EdgesWhere collects, over all If instructions of fn, the edge on which the (NOT-stripped) condition has
// the truth value chosen by pred. pred returns (want, true) when it recognises the base condition and the
// passing truth value is `want`.
func EdgesWhere(fn *ssa.Function, pred func(base ssa.Value) (bool, bool)) []Edge {
	out := edgesWhereIfs(fn, pred)
	out = append(out, edgesThroughBoolHelpers(fn, pred, 0)...)
	// a condition handed to a require-style helper (`if err := requireX(cond); err != nil { return err }`): on the nil
	// edge of the helper's error the condition has the truth value the helper insists on
	for _, b := range fn.Blocks {
		for _, in := range b.Instrs {
			call, ok := in.(*ssa.Call)
			if !ok {
				continue
			}
			h := call.Common().StaticCallee()
			if h == nil || h.Blocks == nil || h == fn || call.Common().IsInvoke() {
				continue
			}
			pol := requireStyle(h)
			if len(pol) == 0 {
				continue
			}
			for i, a := range call.Common().Args {
				insists, ok := pol[i]
				if !ok {
					continue
				}
				base, neg := stripNot(a)
				want, known := pred(base)
				if !known {
					continue
				}
				if neg {
					want = !want
				}
				if want == insists {
					vals := errValues(fn, call)
					out = append(out, edgesWhereIfs(fn, func(base ssa.Value) (bool, bool) {
						bo, ok := base.(*ssa.BinOp)
						if !ok || (bo.Op != token.EQL && bo.Op != token.NEQ) {
							return false, false
						}
						if !((vals[bo.X] && isNilConst(bo.Y)) || (vals[bo.Y] && isNilConst(bo.X))) {
							return false, false
						}
						return bo.Op == token.EQL, true
					})...)
				}
			}
		}
	}
	return out
}

// edgesThroughBoolHelpers: a branch on the result of a bool-returning module helper (`if noInflation(supply, end, now)`)
// passes the guard on the edge for answer r when, inside the helper (its conditions read in fn's terms), every way of
// answering r lies behind a passing edge of the guard: each return whose value may be r - per incoming edge of a
// short-circuit phi - is dominated by one.
func edgesThroughBoolHelpers(fn *ssa.Function, pred func(base ssa.Value) (bool, bool), depth int) []Edge {
	if depth > 1 {
		return nil
	}
	var out []Edge
	for _, b := range fn.Blocks {
		i := blockIf(b)
		if i == nil {
			continue
		}
		base, neg := stripNot(i.Cond)
		call, ok := base.(*ssa.Call)
		if !ok {
			continue
		}
		h := boolHelper(call)
		if h == nil || h == fn {
			continue
		}
		bind := bindParams(h, call)
		lifted := func(v ssa.Value) (bool, bool) {
			tv := translateValue(v, bind, 0)
			if tv == v {
				if _, isConst := v.(*ssa.Const); !isConst {
					// not expressed over the helper's parameters: not a statement about the caller's values
					if _, isCall := v.(*ssa.Call); !isCall {
						return false, false
					}
				}
			}
			return pred(tv)
		}
		inner := edgesWhereIfs(h, lifted)
		inner = append(inner, edgesThroughBoolHelpers(h, lifted, depth+1)...)
		if len(inner) == 0 {
			continue
		}
		for _, r := range []bool{true, false} {
			all, n := true, 0
			for _, ret := range Returns(h) {
				rv := retVals(ret)
				if len(rv) != 1 {
					all = false
					break
				}
				// the ways this return can yield r
				type way struct {
					blk *ssa.BasicBlock
				}
				var ways []way
				if phi, isPhi := rv[0].(*ssa.Phi); isPhi && phi.Block() == ret.Block() {
					for k, e := range phi.Edges {
						if c, isC := constBool(e); isC && c != r {
							continue
						}
						ways = append(ways, way{phi.Block().Preds[k]})
					}
				} else {
					if c, isC := constBool(rv[0]); isC && c != r {
						continue
					}
					ways = append(ways, way{ret.Block()})
				}
				for _, wy := range ways {
					n++
					if !MustPass(h, inner, wy.blk) {
						all = false
					}
				}
			}
			if all && n > 0 {
				// answer r: the true edge of the branch when r (xor negation)
				succ := 0
				if r == neg {
					succ = 1
				}
				out = append(out, Edge{b, succ})
			}
		}
	}
	return out
}

func edgesWhereIfs(fn *ssa.Function, pred func(base ssa.Value) (bool, bool)) []Edge {
	var out []Edge
	for _, b := range fn.Blocks {
		i := blockIf(b)
		if i == nil {
			continue
		}
		base, neg := stripNot(i.Cond)
		want, ok := pred(base)
		if !ok {
			continue
		}
		if neg {
			want = !want
		}
		if want {
			out = append(out, Edge{b, 0})
		} else {
			out = append(out, Edge{b, 1})
		}
	}
	return out
}

var requireStyleMemo = map[*ssa.Function]map[int]bool{}

// requireStyle: for an error-returning function, the bool parameters it insists on: index -> truth value that the
// parameter is known to have whenever the function returns a nil error (every return whose error may be nil lies
// behind the corresponding edge of a test of the parameter itself).
func requireStyle(h *ssa.Function) map[int]bool {
	if m, ok := requireStyleMemo[h]; ok {
		return m
	}
	requireStyleMemo[h] = nil
	res := h.Signature.Results()
	if res.Len() == 0 || !isErrorType(res.At(res.Len()-1).Type()) {
		return nil
	}
	var out map[int]bool
	for i, p := range h.Params {
		if b, ok := p.Type().Underlying().(*types.Basic); !ok || b.Kind() != types.Bool {
			continue
		}
		for _, truth := range []bool{true, false} {
			edges := edgesWhereIfs(h, func(base ssa.Value) (bool, bool) {
				if base == ssa.Value(p) {
					return truth, true
				}
				return false, false
			})
			if len(edges) == 0 {
				continue
			}
			all, n := true, 0
			for _, ret := range Returns(h) {
				rv := retVals(ret)
				if len(rv) == 0 {
					continue
				}
				if nonNilAt(rv[len(rv)-1], ret.Block(), 0) {
					continue
				}
				n++
				if !MustPass(h, edges, ret.Block()) {
					all = false
				}
			}
			if all && n > 0 {
				if out == nil {
					out = map[int]bool{}
				}
				out[i] = truth
			}
		}
	}
	requireStyleMemo[h] = out
	return out
}

func isNilConst(v ssa.Value) bool {
	c, ok := v.(*ssa.Const)
	return ok && c.Value == nil
}

// NilEdges returns the edges on which one of the values is nil (wantNil) or non-nil (!wantNil).
func NilEdges(fn *ssa.Function, vals map[ssa.Value]bool, wantNil bool) []Edge {
	return EdgesWhere(fn, func(base ssa.Value) (bool, bool) {
		bo, ok := base.(*ssa.BinOp)
		if !ok || (bo.Op != token.EQL && bo.Op != token.NEQ) {
			return false, false
		}
		var other ssa.Value
		if vals[bo.X] {
			other = bo.Y
		} else if vals[bo.Y] {
			other = bo.X
		} else {
			return false, false
		}
		if !isNilConst(other) {
			return false, false
		}
		// EQL true means nil
		if bo.Op == token.EQL {
			return wantNil, true
		}
		return !wantNil, true
	})
}

// errValues returns the SSA values carrying the error result of the given calls: the call itself
// (single result), the Extract of the last tuple element, and phis whose every edge is such a value.
func errValues(fn *ssa.Function, calls ...ssa.Value) map[ssa.Value]bool {
	vals := map[ssa.Value]bool{}
	for _, c := range calls {
		if c == nil {
			continue
		}
		if tup, ok := c.Type().(*types.Tuple); ok {
			if tup.Len() == 0 || !isErrorType(tup.At(tup.Len()-1).Type()) {
				continue
			}
			for _, ref := range *c.Referrers() {
				if ex, ok := ref.(*ssa.Extract); ok && ex.Index == tup.Len()-1 {
					vals[ex] = true
				}
			}
		} else if isErrorType(c.Type()) {
			vals[c] = true
		}
	}
	// sibling calls: alternative calls of the same callee whose error results are merged by a phi
	callees := map[string]bool{}
	for _, c := range calls {
		if call, ok := c.(*ssa.Call); ok {
			callees[callName(call.Common())] = true
		}
	}
	siblingErr := func(v ssa.Value) bool {
		var call *ssa.Call
		switch x := v.(type) {
		case *ssa.Call:
			call = x
		case *ssa.Extract:
			call, _ = x.Tuple.(*ssa.Call)
			if call != nil {
				if tup, ok := call.Type().(*types.Tuple); !ok || x.Index != tup.Len()-1 {
					return false
				}
			}
		}
		return call != nil && callees[callName(call.Common())] && isErrorType(v.Type())
	}
	changed := true
	for changed {
		changed = false
		for _, b := range fn.Blocks {
			for _, in := range b.Instrs {
				phi, ok := in.(*ssa.Phi)
				if !ok || vals[phi] {
					continue
				}
				all := len(phi.Edges) > 0
				any := false
				for _, e := range phi.Edges {
					if vals[e] {
						any = true
					} else if !siblingErr(e) {
						all = false
					}
				}
				all = all && any
				if all {
					vals[phi] = true
					changed = true
				}
			}
		}
	}
	return vals
}

// OnSuccessEdge: the instruction is reached only through an edge on which the error result of one of
// the calls is nil.
func OnSuccessEdge(fn *ssa.Function, in ssa.Instruction, calls ...ssa.Value) bool {
	vals := errValues(fn, calls...)
	return MustPass(fn, NilEdges(fn, vals, true), in.Block())
}

// retVals resolves the results of a Return through the spill slots used by functions with defers.
func retVals(ret *ssa.Return) []ssa.Value {
	out := make([]ssa.Value, len(ret.Results))
	for i, r := range ret.Results {
		out[i] = r
		u, ok := r.(*ssa.UnOp)
		if !ok || u.Op != token.MUL {
			continue
		}
		a, ok := u.X.(*ssa.Alloc)
		if !ok {
			continue
		}
		// a slot captured by a function literal (or whose address escapes into a call) can be written elsewhere: the load
		// stays the value
		escapes := false
		for _, ref := range *a.Referrers() {
			switch x := ref.(type) {
			case *ssa.MakeClosure:
				escapes = true
			case ssa.CallInstruction:
				for _, arg := range x.Common().Args {
					if arg == ssa.Value(a) {
						escapes = true
					}
				}
			}
		}
		if escapes {
			continue
		}
		// last store to the slot in the same block before the load
		blk := ret.Block()
		var last ssa.Value
		for _, in := range blk.Instrs {
			if in == ssa.Instruction(u) {
				break
			}
			if st, ok := in.(*ssa.Store); ok && st.Addr == a {
				last = st.Val
			}
		}
		if last != nil {
			out[i] = last
		} else {
			// named result slot written in earlier blocks: unique reaching store if there is exactly one store overall
			var stores []ssa.Value
			for _, ref := range *a.Referrers() {
				if st, ok := ref.(*ssa.Store); ok && st.Addr == a {
					stores = append(stores, st.Val)
				}
			}
			if len(stores) == 1 {
				out[i] = stores[0]
			}
		}
	}
	return out
}

// Returns lists the Return instructions of a function, excluding the recover block.
func Returns(fn *ssa.Function) []*ssa.Return {
	var out []*ssa.Return
	for _, b := range fn.Blocks {
		if b == fn.Recover {
			continue
		}
		if len(b.Instrs) == 0 {
			continue
		}
		if r, ok := b.Instrs[len(b.Instrs)-1].(*ssa.Return); ok {
			out = append(out, r)
		}
	}
	return out
}

var errCtorNames = map[string]bool{
	"fmt.Errorf": true, "errors.New": true,
	"google.golang.org/grpc/status.Error": true, "google.golang.org/grpc/status.Errorf": true,
}

var errWrapNames = map[string]bool{
	"github.com/cosmos/cosmos-sdk/types/errors.Wrap": true, "github.com/cosmos/cosmos-sdk/types/errors.Wrapf": true,
	"cosmossdk.io/errors.Wrap": true, "cosmossdk.io/errors.Wrapf": true,
}

// nonNilAt: is the error value v provably non-nil when control is in block b?
func nonNilAt(v ssa.Value, b *ssa.BasicBlock, depth int) bool {
	if depth > 6 || v == nil {
		return false
	}
	switch x := v.(type) {
	case *ssa.MakeInterface:
		return true
	case *ssa.Const:
		return x.Value != nil
	case *ssa.Call:
		{
			q := callName(x.Common())
			if errCtorNames[q] {
				return true
			}
			if errWrapNames[q] && len(x.Common().Args) > 0 {
				blk := x.Block()
				if blk == nil {
					blk = b // a detached value (a helper's expression in the caller's terms): judged where the call stands
				}
				if nonNilAt(x.Common().Args[0], blk, depth+1) {
					return true
				}
			}
			// a wrapping helper of the module (`wrapCause(kind, err, text)`): every return of the helper, with its
			// parameters replaced by this call's arguments, is non-nil
			if h := x.Common().StaticCallee(); h != nil && h.Blocks != nil && !x.Common().IsInvoke() && h.Pkg != nil && h.Pkg.Pkg != nil && strings.HasPrefix(h.Pkg.Pkg.Path(), modPath) && depth < 4 {
				res := h.Signature.Results()
				if res.Len() > 0 && isErrorType(res.At(res.Len()-1).Type()) {
					bind := bindParams(h, x)
					rets := Returns(h)
					all := len(rets) > 0
					for _, ret := range rets {
						rv := retVals(ret)
						if len(rv) == 0 {
							all = false
							break
						}
						last := rv[len(rv)-1]
						tv := translateValue(last, bind, 0)
						if tv == last {
							// not expressed over the parameters: judged inside the helper
							if !nonNilAt(last, ret.Block(), depth+1) {
								all = false
							}
						} else if !nonNilAt(tv, b, depth+1) {
							all = false
						}
					}
					if all {
						return true
					}
				}
			}
		}
	case *ssa.Phi:
		all := len(x.Edges) > 0
		for _, e := range x.Edges {
			if !nonNilAt(e, b, depth+1) {
				all = false
			}
		}
		if all {
			return true
		}
	case *ssa.ChangeInterface:
		return nonNilAt(x.X, b, depth+1)
	}
	// dominated by the non-nil edge of a test of v
	if b == nil {
		return false
	}
	fn := b.Parent()
	edges := NilEdges(fn, map[ssa.Value]bool{v: true}, false)
	if MustPass(fn, edges, b) {
		return true
	}
	return false
}

// FailsFrom reports whether every path starting in block b ends in a panic or in a return whose last
// result (an error) is provably non-nil.
func FailsFrom(b *ssa.BasicBlock) bool {
	fn := b.Parent()
	seen := map[*ssa.BasicBlock]bool{}
	var walk func(x *ssa.BasicBlock) bool
	walk = func(x *ssa.BasicBlock) bool {
		if seen[x] {
			return true // loops back: decided by the other exits
		}
		seen[x] = true
		if len(x.Instrs) == 0 {
			return false
		}
		switch t := x.Instrs[len(x.Instrs)-1].(type) {
		case *ssa.Panic:
			return true
		case *ssa.Return:
			rv := retVals(t)
			if len(rv) == 0 {
				return false
			}
			last := rv[len(rv)-1]
			if !isErrorType(last.Type()) {
				return false
			}
			return nonNilAt(last, x, 0)
		}
		if len(x.Succs) == 0 {
			return false
		}
		for _, s := range x.Succs {
			if !walk(s) {
				return false
			}
		}
		return true
	}
	_ = fn
	return walk(b)
}

func isErrorType(t types.Type) bool {
	return types.Identical(t, types.Universe.Lookup("error").Type())
}

// callsIn returns the call sites of fn (module call graph) whose static or interface callee name matches.
func (cg *CallGraph) callsIn(fn *ssa.Function, match func(s *Site) bool) []*Site {
	var out []*Site
	for _, s := range cg.Sites[fn] {
		if match(s) {
			out = append(out, s)
		}
	}
	return out
}

func siteCall(s *Site) *ssa.Call {
	c, _ := s.Instr.(*ssa.Call)
	return c
}

func siteValue(s *Site) ssa.Value {
	if c, ok := s.Instr.(*ssa.Call); ok {
		return c
	}
	return nil
}

// calleeIs matches a static module callee by its short name, e.g. "x/cfeminter/keeper.Keeper.MintCoins".
func calleeIs(s *Site, short string) bool {
	for _, c := range s.Callees {
		if funcName(c) == short {
			return true
		}
	}
	if s.Static != nil && funcName(s.Static) == short {
		return true
	}
	return false
}

func hasSuffixAny(s string, suf ...string) bool {
	for _, x := range suf {
		if strings.HasSuffix(s, x) {
			return true
		}
	}
	return false
}
