package main

import (
	"fmt"
	"go/token"
	"go/types"
	"sort"
	"strings"

	"golang.org/x/tools/go/ssa"
)

// Semantic signature of an operand (P10): the set of arithmetic operation classes and the set of leaves (fields,
// non-arithmetic calls, constants, parameter types) in its expression. It is what a numeric vetting argument is
// about, and it is stable under the rewrites that do not change the argument: naming an intermediate, extracting
// the formula into a helper with one caller (parameters are lifted to the caller's arguments), MulInt(x) for
// Mul(NewDecFromInt(x)), reordered commutative operands. It changes when an operation or a source is added or
// removed (x / time.Minute adds "quo" and a constant).
type sigCtx struct {
	w      *World
	lift   int // how many call levels parameters may be lifted through (single static caller)
	ops    map[string]bool
	leaves map[string]bool
	seen   map[string]bool
}

var arithClass = map[string]string{
	"Mul": "mul", "MulInt": "mul", "MulInt64": "mul", "MulTruncate": "mul", "MulRaw": "mul", "MulDec": "mul", "MulDecTruncate": "mul",
	"Quo": "quo", "QuoInt": "quo", "QuoInt64": "quo", "QuoTruncate": "quo-trunc", "QuoRoundUp": "quo-up", "QuoRaw": "quo", "QuoDec": "quo",
	"Add": "add", "AddRaw": "add", "Sub": "sub", "SubRaw": "sub", "Neg": "neg", "Abs": "abs",
	"TruncateInt": "trunc", "TruncateDec": "trunc", "TruncateInt64": "trunc", "RoundInt": "round", "RoundInt64": "round", "Ceil": "ceil",
	"TruncateDecimal": "trunc",
}

var transparentCalls = map[string]bool{
	"NewDecFromInt": true, "NewDec": true, "NewInt": true, "ToDec": true, "NewDecFromIntWithPrec": true, "NewIntFromUint64": true,
	"NewCoins": true, "NewCoin": true, "NewDecCoins": true, "NewDecCoinsFromCoins": true, "Sort": true,
}

func (c *sigCtx) walk(v ssa.Value, env map[*ssa.Parameter]ssa.Value, fn *ssa.Function, depth int) {
	if v == nil || depth > 14 {
		return
	}
	// context-sensitive: the same helper body is walked once per binding of its parameters
	sk := fmt.Sprintf("%p|%p|%d", v, env, c.lift)
	if c.seen[sk] {
		return
	}
	c.seen[sk] = true
	switch x := v.(type) {
	case *ssa.Const:
		if x.Value == nil {
			c.leaves["nil"] = true
		} else {
			c.leaves["const:"+x.Value.ExactString()] = true
		}
	case *ssa.Parameter:
		if a, ok := env[x]; ok {
			c.walk(a, nil, parentOf(a), depth+1)
			return
		}
		// lift through the callers (the union over all static call sites when there are several: a helper shared by
		// two formulas has, lifted, the sources of both)
		if fn != nil && c.w != nil && c.lift > 0 {
			callers := c.w.CG().Callers[x.Parent()]
			idx := -1
			for i, p := range x.Parent().Params {
				if p == x {
					idx = i
				}
			}
			all := len(callers) > 0 && len(callers) <= 4 && idx >= 0 && depth < 10
			for _, cs := range callers {
				if cs.Common().IsInvoke() || cs.Static != x.Parent() || idx >= len(cs.Common().Args) {
					all = false
				}
			}
			if all {
				c.lift--
				defer func() { c.lift++ }()
				for _, cs := range callers {
					c.walk(cs.Common().Args[idx], nil, cs.Caller, depth+1)
				}
				return
			}
		}
		c.leaves["<"+shortType(x.Type())+">"] = true
	case *ssa.UnOp:
		if x.Op == token.MUL {
			if fa, ok := x.X.(*ssa.FieldAddr); ok {
				T, f := fieldOf(fa)
				// a field of an unexported helper struct of the module (values grouped to travel between the functions of
				// a routine): what is stored into it, wherever
				if T != nil && c.w != nil && !T.Obj().Exported() && T.Obj().Pkg() != nil && strings.HasPrefix(T.Obj().Pkg().Path(), modPath) && depth < 8 {
					n := 0
					for _, g := range c.w.ProdFuncs() {
						for _, fs := range FieldStores(g) {
							if fs.Struct == T && fs.Field == f {
								n++
								c.walk(fs.Store.Val, nil, g, depth+1)
							}
						}
					}
					if n > 0 {
						return
					}
				}
				if T != nil {
					c.leaves[T.Obj().Name()+"."+f] = true
					return
				}
			}
			c.walk(x.X, env, fn, depth+1)
			return
		}
		c.ops["un"+x.Op.String()] = true
		c.walk(x.X, env, fn, depth+1)
	case *ssa.Field:
		if st, ok := x.X.Type().Underlying().(*types.Struct); ok && x.Field < st.NumFields() {
			if nt, ok := x.X.Type().(*types.Named); ok {
				c.leaves[nt.Obj().Name()+"."+st.Field(x.Field).Name()] = true
				return
			}
		}
		c.walk(x.X, env, fn, depth+1)
	case *ssa.FieldAddr:
		T, f := fieldOf(x)
		if T != nil {
			c.leaves[T.Obj().Name()+"."+f] = true
			return
		}
		c.walk(x.X, env, fn, depth+1)
	case *ssa.BinOp:
		switch x.Op {
		case token.ADD:
			c.ops["add"] = true
		case token.SUB:
			c.ops["sub"] = true
		case token.MUL:
			c.ops["mul"] = true
		case token.QUO:
			c.ops["quo"] = true
		case token.REM:
			c.ops["rem"] = true
		default:
			c.ops[x.Op.String()] = true
		}
		c.walk(x.X, env, fn, depth+1)
		c.walk(x.Y, env, fn, depth+1)
	case *ssa.Phi:
		for _, e := range x.Edges {
			c.walk(e, env, fn, depth+1)
		}
	case *ssa.Extract:
		// result #i of a module helper: only that result's expression
		if call, ok := x.Tuple.(*ssa.Call); ok {
			if callee := call.Common().StaticCallee(); callee != nil && callee.Blocks != nil && c.w != nil && c.w.isProdFunc(callee) && depth < 8 && !isGeneratedFile(c.w.FileOf(callee.Pos())) {
				e2 := map[*ssa.Parameter]ssa.Value{}
				for i, p := range callee.Params {
					if i < len(call.Common().Args) {
						e2[p] = call.Common().Args[i]
					}
				}
				for _, ret := range Returns(callee) {
					if rv := retVals(ret); x.Index < len(rv) {
						c.walk(rv[x.Index], e2, callee, depth+1)
					}
				}
				return
			}
		}
		c.walk(x.Tuple, env, fn, depth+1)
	case *ssa.Convert:
		c.walk(x.X, env, fn, depth+1)
	case *ssa.ChangeType:
		c.walk(x.X, env, fn, depth+1)
	case *ssa.MakeInterface:
		c.walk(x.X, env, fn, depth+1)
	case *ssa.Slice:
		c.walk(x.X, env, fn, depth+1)
	case *ssa.IndexAddr:
		c.walk(x.X, env, fn, depth+1)
	case *ssa.Index:
		c.walk(x.X, env, fn, depth+1)
	case *ssa.Alloc:
		// a local: what is stored into it
		for _, ref := range *x.Referrers() {
			if st, ok := ref.(*ssa.Store); ok && st.Addr == ssa.Value(x) {
				c.walk(st.Val, env, fn, depth+1)
			}
			// array literal elements (variadic arguments)
			if ia, ok := ref.(*ssa.IndexAddr); ok {
				for _, r2 := range *ia.Referrers() {
					if st, ok := r2.(*ssa.Store); ok && st.Addr == ssa.Value(ia) {
						c.walk(st.Val, env, fn, depth+1)
					}
				}
			}
		}
	case *ssa.Call:
		n := callName(x.Common())
		m := n[strings.LastIndex(n, ".")+1:]
		args := x.Common().Args
		isValueType := strings.Contains(n, "types.Dec.") || strings.Contains(n, "math.Int.") || strings.Contains(n, "types.Coins.") || strings.Contains(n, "types.DecCoins.") || strings.Contains(n, "types.Coin.") || strings.Contains(n, "types.DecCoin.") || strings.Contains(n, "math.LegacyDec.")
		switch {
		case isValueType && arithClass[m] != "":
			c.ops[arithClass[m]] = true
			for _, a := range args {
				c.walk(a, env, fn, depth+1)
			}
		case transparentCalls[m]:
			for _, a := range args {
				c.walk(a, env, fn, depth+1)
			}
		default:
			// a module callee with a body: the formula may have been extracted - descend with the arguments bound
			if callee := x.Common().StaticCallee(); callee != nil && callee.Blocks != nil && c.w != nil && c.w.isProdFunc(callee) && depth < 8 && !isGeneratedFile(c.w.FileOf(callee.Pos())) {
				e2 := map[*ssa.Parameter]ssa.Value{}
				for i, p := range callee.Params {
					if i < len(args) {
						e2[p] = args[i]
					}
				}
				for _, ret := range Returns(callee) {
					for _, rv := range retVals(ret) {
						c.walk(rv, e2, callee, depth+1)
					}
				}
				return
			}
			short := n
			if i := strings.LastIndex(short, "/"); i >= 0 {
				short = short[i+1:]
			}
			c.leaves[short+"()"] = true
			// value-like receivers carry the source (coins.AmountOf(d): which coins)
			if isValueType && len(args) > 0 {
				c.walk(args[0], env, fn, depth+1)
			}
		}
	default:
		c.leaves["?"] = true
	}
}

func semSig(w *World, fn *ssa.Function, lift int, vs ...ssa.Value) string {
	c := &sigCtx{w: w, lift: lift, ops: map[string]bool{}, leaves: map[string]bool{}, seen: map[string]bool{}}
	for _, v := range vs {
		c.walk(v, nil, fn, 0)
	}
	var ops, leaves []string
	for o := range c.ops {
		ops = append(ops, o)
	}
	for l := range c.leaves {
		leaves = append(leaves, l)
	}
	sort.Strings(ops)
	sort.Strings(leaves)
	return "ops{" + strings.Join(ops, ",") + "} from{" + strings.Join(leaves, ",") + "}"
}

// semKey: function-independent key of an arithmetic inventory site: class, callee, semantic signature of the operand
// the panic depends on. "" for classes whose vetting is not about an operand.
func (iv *Inv) semKey(s invSite) string { return iv.semKeyLift(s, 0) }

// semKeys: the key without lifting and with parameters lifted one and two call levels (an operand computed in an
// extracted helper has, lifted, the signature it had in the caller).
func (iv *Inv) semKeys(s invSite) []string {
	var out []string
	for l := 0; l <= 2; l++ {
		if k := iv.semKeyLift(s, l); k != "" {
			dup := false
			for _, o := range out {
				if o == k {
					dup = true
				}
			}
			if !dup {
				out = append(out, k)
			}
		}
	}
	return out
}

func (iv *Inv) semKeyLift(s invSite, lift int) string {
	var ops []ssa.Value
	switch s.class {
	case "quo":
		if c, ok := s.instr.(ssa.CallInstruction); ok {
			a := c.Common().Args
			if len(a) > 0 {
				ops = []ssa.Value{a[len(a)-1]}
			}
		}
	case "intdiv":
		if b, ok := s.instr.(*ssa.BinOp); ok {
			ops = []ssa.Value{b.Y}
		}
	case "int64":
		if c, ok := s.instr.(ssa.CallInstruction); ok {
			a := c.Common().Args
			if len(a) > 0 {
				ops = []ssa.Value{a[0]}
			}
		}
	case "coinsub":
		if c, ok := s.instr.(ssa.CallInstruction); ok {
			ops = c.Common().Args
		}
	case "newcoin":
		if c, ok := s.instr.(ssa.CallInstruction); ok {
			a := c.Common().Args
			if len(a) > 1 {
				ops = []ssa.Value{a[1]}
			}
		}
	case "panic":
		// an explicit panic is vetted for what it raises (the error of a named call), not for where it stands
		if pn, ok := s.instr.(*ssa.Panic); ok {
			v := pn.X
			if mi, ok := v.(*ssa.MakeInterface); ok {
				v = mi.X
			}
			if ci, ok := v.(*ssa.ChangeInterface); ok {
				v = ci.X
			}
			var call *ssa.Call
			switch e := v.(type) {
			case *ssa.Extract:
				call, _ = e.Tuple.(*ssa.Call)
			case *ssa.Call:
				call = e
			}
			if call != nil && isErrorType(v.Type()) && lift == 0 {
				return "panic | error of " + shortCallee(callName(call.Common())) + "()"
			}
		}
	}
	if len(ops) == 0 {
		return ""
	}
	what := shortCallee(s.what)
	if i := strings.LastIndex(what, "."); i >= 0 {
		what = what[i+1:]
	}
	if ac := arithClass[what]; ac != "" {
		what = ac
	}
	return s.class + " " + what + " | " + semSig(iv.w, s.fn, lift, ops...)
}
