package main

import (
	"fmt"
	"go/token"
	"go/types"
	"sort"
	"strings"

	"golang.org/x/tools/go/ssa"
)

func init() { register("C16", checkC16) }

// addChainGlobals: v is a chain of math.Int.Add over loads of package-level variables; returns their names.
func addChainGlobals(v ssa.Value) ([]string, bool) {
	var out []string
	var walk func(x ssa.Value) bool
	walk = func(x ssa.Value) bool {
		if c, ok := x.(*ssa.Call); ok && strings.HasSuffix(callName(c.Common()), "math.Int.Add") {
			return walk(c.Common().Args[0]) && walk(c.Common().Args[1])
		}
		if u, ok := x.(*ssa.UnOp); ok && u.Op == token.MUL {
			if g, ok := u.X.(*ssa.Global); ok {
				out = append(out, g.Name())
				return true
			}
		}
		return false
	}
	ok := walk(v)
	sort.Strings(out)
	return out, ok
}

func globalOfLoad(v ssa.Value) *ssa.Global {
	if u, ok := v.(*ssa.UnOp); ok && u.Op == token.MUL {
		g, _ := u.X.(*ssa.Global)
		return g
	}
	return nil
}

func checkC16(w *World, r *Report) {
	cg := w.CG()
	ro := w.Roles()
	r.Undecided = []string{
		"behaviour on arbitrary pre-upgrade stores beyond the structural conditions below (e.g. other owners' pools that reference the renamed vesting type)",
		"that migrated minter and distributor parameters describe the same schedule and shares as before (field-wise value equality of the legacy conversion is not decided beyond validation)",
	}
	r.Rule("C16.split", "P6", "in the split helper the value subtracted from the source pool's InitiallyLocked is the value given to the new pool; the new pool's Sent and Withdrawn are zero; no other ledger field of the source is stored; the subtraction is guarded by currentlyLocked - amount >= 0", 5)
	r.Rule("C16.precheck", "P5,P6", "every store mutation on the ModifyVestingPoolsState tree is dominated by the false edge of currentlyLocked(validators pool) < sum, and the package-level sum adds exactly the four amounts passed to the four split calls", 4)
	r.Rule("C16.atomic", "P5", "the pools are persisted by a single SetAccountVestingPools after the last split, on the success edges of all splits; no persist lies between splits", 2)
	r.Rule("C16.fieldwise", "P8", "store migrations: v3 copies InitiallyLocked, Sent, Withdrawn of every pool from the same-named old fields; v2 sets InitiallyLocked <- Vested, Withdrawn <- Withdrawn and Sent from exactly the four legacy counters; owners map to owners; every old pool is carried over", 9)
	r.Rule("C16.accounts", "P4", "the account upgrade stores only StartTime and EndTime of an existing ContinuousVestingAccount, each derived from its own old value", 3)
	r.Rule("C16.params", "P5", "each parameter migration validates the migrated value before storing it (= C13.validated restricted to migrations)", 3)
	r.Rule("C16.paramfields", "P8", "the minter parameter migration describes the same schedule: MintDenom, StartTime and - for every period - SequenceId and EndTime are plain copies of the same-named legacy values (no renumbering, no constant, no arithmetic), every legacy period is carried over (loop without early exit), and the period's configuration is built from the legacy period's own configuration objects", 6)
	if !ro.checkFloors(r) {
		return
	}
	mvps := w.Func("app/upgrades/v120.ModifyVestingPoolsState")
	mavp := w.Func("app/upgrades/v120.modifyAndAddVestingPools")
	split := w.Func("app/upgrades/v120.splitVestingPool")
	upacc := w.Func("app/upgrades/v120.upgradeVestingAccounnt")
	for n, f := range map[string]*ssa.Function{"ModifyVestingPoolsState": mvps, "modifyAndAddVestingPools": mavp, "splitVestingPool": split, "upgradeVestingAccounnt": upacc} {
		if f == nil {
			r.Unk("infra.anchor", "app/upgrades/v120."+n, "", "anchor not found")
			return
		}
	}
	// ---------- C16.split ----------
	{
		lockedP := paramOfType(split, tInt, 0)
		var srcP *ssa.Parameter
		for _, p := range split.Params {
			if strings.HasSuffix(typeString(p.Type()), "types.VestingPool") {
				srcP = p
			}
		}
		// the amount may travel inside a row struct handed to the helper (table-driven upgrade): its only math.Int field
		rowP, rowField := rowAmountParam(split)
		isAmt := func(v ssa.Value) bool {
			if lockedP != nil {
				return v == ssa.Value(lockedP)
			}
			return isFieldOfParam(v, rowP, rowField)
		}
		if (lockedP == nil && rowP == nil) || srcP == nil {
			r.Unk("C16.split", "split helper parameters", w.Pos(split.Pos()), "amount / source pool parameter not found")
		} else {
			nsrc := 0
			for _, fs := range FieldStores(split) {
				if fs.Struct == nil || fs.Struct.Obj().Name() != "VestingPool" {
					continue
				}
				_, fresh := fs.FA.X.(*ssa.Alloc)
				pos := w.Pos(fs.Store.Pos())
				if fresh {
					switch fs.Field {
					case "InitiallyLocked":
						r.Check(isAmt(fs.Store.Val), "C16.split", "new pool InitiallyLocked = the amount split off", pos, "the amount parameter", "the new pool is credited with another value than the one taken from the source")
					case "Sent", "Withdrawn":
						r.Check(isZeroIntValue(fs.Store.Val), "C16.split", "new pool "+fs.Field+" = 0", pos, "zero", "the new pool starts with a non-zero "+fs.Field)
					}
					continue
				}
				if !ledgerFields[fs.Field] {
					continue
				}
				nsrc++
				okSub := false
				if fs.Field == "InitiallyLocked" && fs.FA.X == ssa.Value(srcP) {
					if c, ok := isCallTo(fs.Store.Val, "math.Int.Sub"); ok {
						a := c.Common().Args
						okSub = loadOfField(a[0], "InitiallyLocked", func(b ssa.Value) bool { return b == ssa.Value(srcP) }) && isAmt(a[1])
					}
				}
				r.Check(okSub, "C16.split", "source pool "+fs.Field+" reduced by the amount split off", pos, "InitiallyLocked = InitiallyLocked.Sub(amount)", "the source pool's ledger is changed by something else than subtracting the split amount from InitiallyLocked")
				// guard
				edges := EdgesWhere(split, func(base ssa.Value) (bool, bool) {
					c, ok := base.(*ssa.Call)
					if !ok {
						return false, false
					}
					n := callName(c.Common())
					a := c.Common().Args
					if strings.HasSuffix(n, "math.Int.IsNegative") {
						if s, ok := isCallTo(a[0], "math.Int.Sub"); ok {
							sa := s.Common().Args
							if gl, ok := isCallTo(sa[0], "VestingPool.GetCurrentlyLocked"); ok && gl.Common().Args[0] == ssa.Value(srcP) && isAmt(sa[1]) {
								return false, true
							}
						}
					}
					if strings.HasSuffix(n, "math.Int.LT") {
						if gl, ok := isCallTo(a[0], "VestingPool.GetCurrentlyLocked"); ok && gl.Common().Args[0] == ssa.Value(srcP) && isAmt(a[1]) {
							return false, true
						}
					}
					return false, false
				})
				r.Check(MustPass(split, edges, fs.Store.Block()), "C16.split", "split only when the source holds the amount", pos, "dominated by currentlyLocked - amount >= 0", "the source pool can be driven negative")
				// the converse: a split that reports success has been carried out - every return whose error may be nil is
				// dominated by the reduction of the source (a silent "nothing to do" return leaves the upgrade half applied:
				// the caller goes on with the other splits and persists)
				if okSub {
					early := ""
					for _, ret := range Returns(split) {
						rv := retVals(ret)
						if len(rv) > 0 && isErrorType(rv[len(rv)-1].Type()) && nonNilAt(rv[len(rv)-1], ret.Block(), 0) {
							continue
						}
						sb := fs.Store.Block()
						if !(sb == ret.Block() || sb.Dominates(ret.Block())) {
							early = w.Pos(ret.Pos())
						}
					}
					r.Check(early == "", "C16.split", "a split that reports success has reduced the source pool", pos, "the reduction dominates every return whose error may be nil", "the split helper can report success without having split anything (return at "+early+"): the upgrade continues with the remaining splits and persists a partially applied split")
				}
			}
			if nsrc == 0 {
				r.Bad("C16.split", "source pool reduced", w.Pos(split.Pos()), "the split creates a pool without reducing the source")
			}
			// a new pool that starts as a copy of another pool inherits every ledger field it does not assign
			for _, b := range split.Blocks {
				for _, in := range b.Instrs {
					st, ok := in.(*ssa.Store)
					if !ok {
						continue
					}
					al, isAl := st.Addr.(*ssa.Alloc)
					if !isAl || !strings.HasSuffix(typeString(al.Type()), "types.VestingPool") {
						continue
					}
					if u, isLoad := st.Val.(*ssa.UnOp); !isLoad || u.Op != token.MUL {
						continue
					}
					assigned := map[string]bool{}
					for _, fs := range FieldStores(split) {
						if fs.FA.X == ssa.Value(al) && instrDominates(st, fs.Store) {
							assigned[fs.Field] = true
						}
					}
					for _, f := range []string{"InitiallyLocked", "Sent", "Withdrawn"} {
						r.Check(assigned[f], "C16.split", "new pool copied from an existing pool: "+f+" assigned afterwards", w.Pos(st.Pos()), "explicitly assigned after the copy", "the new pool starts as a copy of an existing pool and keeps that pool's "+f+": the locked value of the owner changes by the inherited amount")
					}
				}
			}
		}
	}
	// ---------- C16.precheck ----------
	var sumGlobal *ssa.Global
	var sumOver ssa.Value // the table a run-time sum ranges over
	var sumField int = -1
	var sumFn *ssa.Function
	{
		guard := GuardSpec{Name: "currentlyLocked >= sum",
			Edges: func(fn *ssa.Function, bind Bind, isVal func(ssa.Value) bool) []Edge {
				return EdgesWhere(fn, func(base ssa.Value) (bool, bool) {
					c, ok := base.(*ssa.Call)
					if !ok || !strings.HasSuffix(callName(c.Common()), "math.Int.LT") {
						return false, false
					}
					a := c.Common().Args
					if _, ok := isCallTo(a[0], "VestingPool.GetCurrentlyLocked"); !ok {
						return false, false
					}
					if g := globalOfLoad(a[1]); g != nil {
						sumGlobal = g
						return false, true
					}
					// a sum computed at run time: the accumulator of a loop over a table of rows, adding one field of each row
					if over, field, ok := rowSumOf(a[1]); ok {
						sumOver, sumField, sumFn = over, field, fn
						return false, true
					}
					return false, false
				})
			}}
		res := cg.GuardCover(mvps, func(s *Site) bool { a := cg.Atom(s); return a == StoreSet || a == StoreDel }, guard, 3)
		if len(res) == 0 {
			r.Bad("C16.precheck", "store mutations on the pool-upgrade tree", w.Pos(mvps.Pos()), "no store mutation found")
		}
		seen := map[string]bool{}
		for _, cr := range res {
			construct := fmt.Sprintf("%s %s in %s", cg.Atom(cr.Site), cr.Site.Method, funcName(cr.Site.Caller))
			if seen[construct] {
				continue
			}
			seen[construct] = true
			if cr.Covered {
				r.OK("C16.precheck", construct, w.Pos(cr.Site.Instr.Pos()), "dominated by the precheck in "+cr.By)
			} else {
				r.Bad("C16.precheck", construct, w.Pos(cr.Site.Instr.Pos()), "the store is mutated before / without checking that the validators pool holds the whole sum: the split could be applied partially; chain: "+chainString(cr.Chain, cr.Site))
			}
		}
		// sum = exactly the four split amounts
		var splitAmounts []string
		splitAmtArgs := func(s *Site) []ssa.Value {
			var out []ssa.Value
			rp, rf := rowAmountParam(split)
			for i, a := range s.Common().Args {
				if typeString(a.Type()) == tInt {
					out = append(out, a)
				} else if rp != nil && i < len(split.Params) && split.Params[i] == rp {
					// the row struct is handed over whole: the amount is its math.Int field
					f := &ssa.Field{X: a, Field: rf}
					setRegType(f, rp.Type().Underlying().(*types.Struct).Field(rf).Type())
					out = append(out, f)
				}
			}
			return out
		}
		for _, s := range cg.Sites[mavp] {
			if s.Static == split {
				for _, a := range splitAmtArgs(s) {
					if typeString(a.Type()) == tInt {
						if g := globalOfLoad(a); g != nil {
							splitAmounts = append(splitAmounts, g.Name())
						} else if gs := tableFieldGlobals(a); len(gs) > 0 {
							// the calls were folded into a loop over a literal table: one amount per row
							splitAmounts = append(splitAmounts, gs...)
						} else {
							splitAmounts = append(splitAmounts, "?")
						}
					}
				}
			}
		}
		sort.Strings(splitAmounts)
		var sumParts []string
		okSum := false
		if sumGlobal != nil {
			if initf := sumGlobal.Pkg.Func("init"); initf != nil {
				for _, b := range initf.Blocks {
					for _, in := range b.Instrs {
						if st, ok := in.(*ssa.Store); ok && st.Addr == ssa.Value(sumGlobal) {
							sumParts, okSum = addChainGlobals(st.Val)
						}
					}
				}
			}
		}
		if sumGlobal == nil && sumOver != nil {
			// run-time sum over a table: every split takes the same field of a row of the very same table, in a loop that
			// visits every row - the sum and the splits agree by construction
			okT, nsp := true, 0
			why := ""
			for _, e := range w.effectsBelow(mvps, func(s *Site) bool { return s.Static == split }, 2) {
				nsp++
				var amt ssa.Value
				for _, a := range splitAmtArgs(e.Site) {
					amt = a
				}
				over, field, ok := rowFieldOf(amt)
				switch {
				case !ok:
					okT, why = false, "a split amount is not a field of a table row"
				case field != sumField:
					okT, why = false, "the splits take another field of the row than the one summed"
				case e.ToRoot(over) != sumOver && !(len(e.Chain) == 0 && over == sumOver):
					okT, why = false, "the splits range over another table than the one summed"
				}
				// the loop over the rows in the function of the split call visits every row
				var sl *rangeLoop
				for _, l := range rangeLoops(e.Site.Caller) {
					l := l
					if l.Over == over {
						sl = &l
					}
				}
				if sl == nil || !loopBlocks(sl.Header)[e.Site.Instr.Block()] || loopEarlyExit(*sl) != nil {
					okT, why = false, "the split call is not in a loop over every row of the table"
				}
			}
			_ = sumFn
			r.Check(okT && nsp > 0, "C16.precheck", "sum = the amounts of all split calls", w.Pos(mavp.Pos()), "the prechecked sum adds, and every split takes, the same field of every row of one table", "the prechecked sum and the splits do not range over the same amounts: "+why)
		} else {
			r.Check(okSum && len(splitAmounts) >= 2 && strings.Join(sumParts, ",") == strings.Join(splitAmounts, ","), "C16.precheck", "sum = the amounts of all split calls", w.Pos(mavp.Pos()),
				fmt.Sprintf("sum adds %v; splits pass %v", sumParts, splitAmounts), fmt.Sprintf("the prechecked sum adds %v but the splits take %v", sumParts, splitAmounts))
		}
	}
	// ---------- C16.atomic ----------
	{
		var splits []*Site
		var persists []*Site
		for _, s := range cg.Sites[mavp] {
			if s.Static == split {
				splits = append(splits, s)
			}
			if strings.HasSuffix(s.CalleeName(), "keeper.Keeper.SetAccountVestingPools") || (s.Static == nil && !s.Invoke && len(s.Callees) > 0 && calleeIs(s, "x/cfevesting/keeper.Keeper.SetAccountVestingPools")) {
				// the method itself, or the method handed in as a function value
				persists = append(persists, s)
			}
		}
		r.Check(len(persists) == 1, "C16.atomic", "one persist of the pools", w.Pos(mavp.Pos()), "single SetAccountVestingPools", fmt.Sprintf("%d persists", len(persists)))
		for _, p := range persists {
			ok := len(splits) > 0
			for _, s := range splits {
				// a failed split ends the upgrade step with an error (so the persist is never reached after a failure) ...
				fail := NilEdges(mavp, errValues(mavp, siteValue(s)), false)
				failsAll := len(fail) > 0
				for _, e := range fail {
					if !FailsFrom(e.To()) {
						failsAll = false
					}
				}
				if !failsAll {
					// `if err == nil { store }; return err`: assuming the split failed, the persist cannot follow and every
					// return carries the error
					if c, isC := s.Instr.(*ssa.Call); isC {
						kept, after := errorKeptUnderX(mavp, c, errValues(mavp, siteValue(s)))
						failsAll = kept && !after[p.Instr.Block()]
					}
				}
				if !failsAll {
					ok = false
				}
				// ... and no split follows the persist (straight-line calls or a loop over a table alike)
				if instrReachableFrom(p.Instr, s.Instr) {
					ok = false
				}
			}
			// the converse: the routine reports success only when the pools were stored - by then the vesting types are
			// already rewritten, a silent return in between leaves the split half applied
			early := ""
			for _, ret := range Returns(mavp) {
				rv := retVals(ret)
				if len(rv) > 0 && isErrorType(rv[len(rv)-1].Type()) && nonNilAt(rv[len(rv)-1], ret.Block(), 0) {
					continue
				}
				pb := p.Instr.Block()
				if pb == ret.Block() || pb.Dominates(ret.Block()) {
					continue
				}
				// `if err == nil { store }; return err`: the return is reached without the store only over an edge on
				// which the returned error is known to be non-nil
				avoid := map[Edge]bool{}
				if len(rv) > 0 && isErrorType(rv[len(rv)-1].Type()) {
					for _, e := range NilEdges(mavp, map[ssa.Value]bool{rv[len(rv)-1]: true}, false) {
						avoid[e] = true
					}
				}
				for _, b := range mavp.Blocks {
					for i, sc := range b.Succs {
						if sc == pb {
							avoid[Edge{b, i}] = true
						}
					}
				}
				if reachAvoiding(mavp, avoid)[ret.Block()] {
					early = w.Pos(ret.Pos())
				}
			}
			r.Check(early == "", "C16.atomic", "the routine reports success only after the pools were stored", w.Pos(p.Instr.Pos()), "every return is reached either through the persist or over an edge on which the returned error is non-nil", "the pool routine can report success without storing the split pools (return at "+early+") although the vesting types were already rewritten: the split is applied partially")
			r.Check(ok, "C16.atomic", "persist after every split succeeded", w.Pos(p.Instr.Pos()), fmt.Sprintf("every failure edge of the %d split call site(s) returns the error; no split is reachable after the persist", len(splits)), "the pools can be persisted after only some of the splits")
		}
	}
	// ---------- C16.fieldwise ----------
	for _, ver := range []string{"v2", "v3"} {
		fn := w.Func("x/cfevesting/migrations/" + ver + ".setNewAccountVestingPools")
		if fn == nil {
			r.Unk("infra.anchor", "x/cfevesting/migrations/"+ver+".setNewAccountVestingPools", "", "anchor not found")
			continue
		}
		vals := map[string]ssa.Value{}
		var owner ssa.Value
		// the conversion may be split over helpers of the migration package: look at the function and at the module
		// functions it calls (depth 2)
		fnset := []*ssa.Function{fn}
		for d := 0; d < 2; d++ {
			for _, f := range append([]*ssa.Function{}, fnset...) {
				for _, cs := range cg.Sites[f] {
					if h := cs.Common().StaticCallee(); h != nil && h.Blocks != nil && w.isProdFunc(h) && h.Pkg == fn.Pkg {
						dup := false
						for _, x := range fnset {
							if x == h {
								dup = true
							}
						}
						if !dup {
							fnset = append(fnset, h)
						}
					}
				}
			}
		}
		var allStores []FieldStore
		for _, f := range fnset {
			allStores = append(allStores, FieldStores(f)...)
		}
		for _, fs := range allStores {
			if fs.Struct == nil {
				continue
			}
			if fs.Struct.Obj().Name() == "VestingPool" && strings.HasSuffix(fs.Struct.Obj().Pkg().Path(), "x/cfevesting/types") {
				vals[fs.Field] = fs.Store.Val
			}
			if fs.Struct.Obj().Name() == "AccountVestingPools" && fs.Field == "Owner" {
				owner = fs.Store.Val
			}
		}
		pos := w.Pos(fn.Pos())
		want := map[string]string{"InitiallyLocked": "InitiallyLocked", "Withdrawn": "Withdrawn", "Sent": "Sent"}
		if ver == "v2" {
			want = map[string]string{"InitiallyLocked": "Vested", "Withdrawn": "Withdrawn"}
		}
		var ks []string
		for k := range want {
			ks = append(ks, k)
		}
		sort.Strings(ks)
		for _, k := range ks {
			v := vals[k]
			r.Check(v != nil && loadOfField(v, want[k], nil), "C16.fieldwise", ver+": new pool "+k+" <- old pool "+want[k], pos, "field-wise copy", "the migrated pool's "+k+" is not taken from the old pool's "+want[k])
		}
		if ver == "v2" {
			// Sent depends on exactly the four legacy counters
			o := w.Tracer().Origins(vals["Sent"])
			fields := map[string]bool{}
			for _, l := range o.Leaves {
				if i := strings.LastIndex(l.Path, "VestingPool."); i >= 0 {
					fields[l.Path[i+len("VestingPool."):]] = true
				}
			}
			got := keysOf(fields)
			r.Check(strings.Join(got, ",") == "LastModificationVested,LastModificationWithdrawn,Vested,Withdrawn", "C16.fieldwise", "v2: Sent from the four legacy counters", pos, fmt.Sprintf("depends on %v", got), fmt.Sprintf("Sent depends on %v", got))
		}
		r.Check(owner != nil && (loadOfField(owner, "Address", nil) || loadOfField(owner, "Owner", nil)), "C16.fieldwise", ver+": owner <- old owner", pos, "owner copied", "pools are re-keyed under another owner")
		// every old pool is appended: the inner loop appends on every path
		okAll := true
		n := 0
		var allLoops []rangeLoop
		for _, f := range fnset {
			allLoops = append(allLoops, rangeLoops(f)...)
		}
		for _, l := range allLoops {
			overPools := l.Over != nil && loadOfField(l.Over, "VestingPools", nil)
			if p, isParam := l.Over.(*ssa.Parameter); isParam && strings.Contains(typeString(p.Type()), "VestingPool") && !strings.Contains(typeString(p.Type()), "AccountVestingPool") {
				overPools = true // a helper that is handed the old pools
			}
			if overPools {
				n++
				if loopEarlyExit(l) != nil {
					okAll = false
				}
				if !loopBodyMustPass(l, func(b *ssa.BasicBlock) bool {
					return blockHasCall(b, func(c *ssa.Call) bool { bi, ok := c.Common().Value.(*ssa.Builtin); return ok && bi.Name() == "append" })
				}) {
					okAll = false
				}
			}
		}
		r.Check(okAll && n == 1, "C16.fieldwise", ver+": every old pool is carried over", pos, "every iteration appends the migrated pool", "some pools are dropped by the migration")
	}
	// ---------- C16.accounts ----------
	{
		nset := 0
		// the modification may sit in a helper of the per-account routine
		for _, sb := range w.storesBelowP(upacc, func(fs FieldStore) bool {
			return fs.Struct != nil && fs.Struct.Obj().Pkg() != nil && strings.Contains(fs.Struct.Obj().Pkg().Path(), "x/auth/")
		}, 2, nil) {
			fs := sb.FS
			ok := fs.Field == "StartTime" || fs.Field == "EndTime"
			if ok {
				o := w.Tracer().OriginsOfStore(upacc, sb)
				ok = o.HasPath("."+fs.Field) && o.HasOp("time.Time.AddDate")
				other := "EndTime"
				if fs.Field == "EndTime" {
					other = "StartTime"
				}
				if o.HasPath("." + other) {
					ok = false
				}
			}
			r.Check(ok, "C16.accounts", "account upgrade writes "+fs.Struct.Obj().Name()+"."+fs.Field, w.Pos(fs.Store.Pos()), "shifted from its own old value", "the account upgrade rewrites a field other than its start/end time, or derives it from something else than its own old value")
		}
		for _, e := range w.effectsBelow(upacc, func(s *Site) bool { return cg.Atom(s) == AuthSet }, 2) {
			s := e.Site
			nset++
			acc := s.Args()[len(s.Args())-1]
			// the very object that was read (type-asserted), not a rebuilt copy: a constructor would reset
			// every field it is not given (DelegatedVesting, DelegatedFree)
			same := isObjectReadBy(acc, ".GetAccount")
			r.Check(same, "C16.accounts", "account upgrade stores the account object it read", w.Pos(s.Instr.Pos()), "SetAccount receives the type-asserted result of GetAccount", "the stored account is rebuilt instead of being the object that was read: fields that are not copied (delegated vesting / delegated free) are lost")
		}
		if nset == 0 {
			r.Bad("C16.accounts", "account upgrade stores the account", w.Pos(upacc.Pos()), "no SetAccount")
		}
	}
	// ---------- C16.params ----------
	checkValidatedParamWrites(w, r, "C16.params", func(f *ssa.Function) bool { return strings.Contains(funcName(f), "/migrations/") })
	// ---------- C16.paramfields ----------
	if mp := w.Func("x/cfeminter/migrations/v3.MigrateParams"); mp == nil {
		r.Unk("infra.anchor", "x/cfeminter/migrations/v3.MigrateParams", "", "anchor not found")
	} else {
		tr := w.Tracer()
		tr.Depth = 4
		tr.NoIndex = true
		// plainCopy: the value is, on every path, a copy of a legacy value read from the old parameter set whose field has
		// the wanted name: no constant, no arithmetic, no index used as a value
		plainCopy := func(o *Origin, field string) (bool, string) {
			n := 0
			for _, l := range o.Leaves {
				switch l.Kind {
				case "outparam", "call", "param", "global":
					if strings.HasSuffix(l.Path, "."+field) {
						n++
						continue
					}
					if l.Path == "" && (l.Kind == "call" || l.Kind == "param") {
						continue // the context / subspace handle the legacy set is read with
					}
					return false, "it also depends on " + l.String()
				case "const":
					return false, "a constant (" + l.String() + ") enters it"
				case "zero":
					return false, "it can be the zero value"
				default:
					return false, "it depends on " + l.String()
				}
			}
			for op := range o.Ops {
				if strings.HasPrefix(op, "op") {
					return false, "arithmetic (" + op + ") is applied to it"
				}
			}
			return n > 0, "no legacy " + field + " on its slice"
		}
		want := map[string][]string{"Params": {"MintDenom", "StartTime"}, "Minter": {"SequenceId", "EndTime"}}
		seen := map[string]bool{}
		for _, sb := range w.storesBelowP(mp, func(fs FieldStore) bool {
			return fs.Struct != nil && (namedIs(fs.Struct, "x/cfeminter/types", "Params") || namedIs(fs.Struct, "x/cfeminter/types", "Minter"))
		}, 2, nil) {
			fs := sb.FS
			T := fs.Struct.Obj().Name()
			wanted := false
			for _, f := range want[T] {
				if f == fs.Field {
					wanted = true
				}
			}
			e := EffSite{Chain: sb.Chain, Site: &Site{Caller: fs.Fn}}
			switch {
			case wanted:
				seen[T+"."+fs.Field] = true
				ok, why := plainCopy(tr.OriginsVia(e, fs.Store.Val, nil), fs.Field)
				r.Check(ok, "C16.paramfields", "migrated "+T+"."+fs.Field+" is the legacy "+fs.Field, w.Pos(fs.Store.Pos()), "plain copy of the same-named legacy value", "the migrated "+T+"."+fs.Field+" is not a plain copy of the legacy "+fs.Field+": "+why+" - the migrated parameters describe another schedule than the stored ones (the minter state still refers to the old numbering)")
			case T == "Minter" && fs.Field == "Config":
				seen["Minter.Config"] = true
				o := tr.OriginsVia(e, fs.Store.Val, nil)
				r.Check(o.HasPath(".ExponentialStepMinting") && o.HasPath(".LinearMinting"), "C16.paramfields", "migrated Minter.Config is built from the legacy period's own configuration", w.Pos(fs.Store.Pos()), "wraps the legacy LinearMinting / ExponentialStepMinting objects", "the migrated configuration is not built from the legacy period's LinearMinting / ExponentialStepMinting")
			}
		}
		for _, k := range []string{"Params.MintDenom", "Params.StartTime", "Minter.SequenceId", "Minter.EndTime", "Minter.Config"} {
			if !seen[k] {
				r.Bad("C16.paramfields", "migrated "+k+" is set", w.Pos(mp.Pos()), "the migration never assigns "+k)
			}
		}
		// every legacy period is carried over
		okLoop := false
		for _, l := range rangeLoops(mp) {
			if l.Over != nil && loadOfField(l.Over, "Minters", nil) && loopEarlyExit(l) == nil {
				okLoop = true
			}
		}
		r.Check(okLoop, "C16.paramfields", "every legacy period is migrated", w.Pos(mp.Pos()), "loop over the legacy Minters without early exit", "the loop over the legacy periods is missing or can be left early")
	}
}

// isObjectReadBy: v is the very object returned by a call whose name ends in suffix, seen through interface
// conversions and type assertions only (no constructor, no copy; a phi must agree on every edge).
func isObjectReadBy(v ssa.Value, suffix string) bool {
	for i := 0; i < 6; i++ {
		switch x := v.(type) {
		case *ssa.MakeInterface:
			v = x.X
		case *ssa.ChangeInterface:
			v = x.X
		case *ssa.Extract:
			if ta, ok := x.Tuple.(*ssa.TypeAssert); ok && x.Index == 0 {
				v = ta.X
			} else {
				return false
			}
		case *ssa.TypeAssert:
			v = x.X
		case *ssa.Phi:
			if len(x.Edges) == 0 {
				return false
			}
			for _, e := range x.Edges {
				if !isObjectReadBy(e, suffix) {
					return false
				}
			}
			return true
		case *ssa.Call:
			return strings.HasSuffix(callName(x.Common()), suffix)
		default:
			return false
		}
	}
	return false
}

// objectReadBy: interprocedural form of isObjectReadBy: v is - through interface conversions, type assertions, merges,
// parameters (every static caller) and results of module helpers (every return) - the very object returned by a call
// whose name ends with suffix. No constructor, conversion or copy lies in between.
func (w *World) objectReadBy(v ssa.Value, suffix string, depth int) bool {
	if depth > 6 {
		return false
	}
	cg := w.CG()
	helperResult := func(c *ssa.Call, idx int) (bool, bool) {
		h := c.Common().StaticCallee()
		if h == nil || h.Blocks == nil || !w.isProdFunc(h) || isGeneratedFile(w.FileOf(h.Pos())) {
			return false, false
		}
		rets := Returns(h)
		for _, ret := range rets {
			rv := retVals(ret)
			if idx >= len(rv) {
				return false, true
			}
			// a nil result on a failing return is not an object at all
			if isNilConst(rv[idx]) {
				continue
			}
			if !w.objectReadBy(rv[idx], suffix, depth+1) {
				return false, true
			}
		}
		return len(rets) > 0, true
	}
	switch x := v.(type) {
	case *ssa.MakeInterface:
		return w.objectReadBy(x.X, suffix, depth+1)
	case *ssa.ChangeInterface:
		return w.objectReadBy(x.X, suffix, depth+1)
	case *ssa.TypeAssert:
		return w.objectReadBy(x.X, suffix, depth+1)
	case *ssa.Extract:
		if ta, ok := x.Tuple.(*ssa.TypeAssert); ok && x.Index == 0 {
			return w.objectReadBy(ta.X, suffix, depth+1)
		}
		if c, ok := x.Tuple.(*ssa.Call); ok {
			if ok2, isHelper := helperResult(c, x.Index); isHelper {
				return ok2
			}
		}
		return false
	case *ssa.Phi:
		if len(x.Edges) == 0 {
			return false
		}
		for _, e := range x.Edges {
			if !w.objectReadBy(e, suffix, depth+1) {
				return false
			}
		}
		return true
	case *ssa.Call:
		if strings.HasSuffix(callName(x.Common()), suffix) {
			return true
		}
		if ok2, isHelper := helperResult(x, 0); isHelper {
			return ok2
		}
		return false
	case *ssa.Parameter:
		fn := x.Parent()
		idx := -1
		for i, q := range fn.Params {
			if q == x {
				idx = i
			}
		}
		callers := cg.Callers[fn]
		if idx < 0 || len(callers) == 0 {
			return false
		}
		for _, cs := range callers {
			if cs.Common().IsInvoke() || idx >= len(cs.Common().Args) || !w.objectReadBy(cs.Common().Args[idx], suffix, depth+1) {
				return false
			}
		}
		return true
	}
	return false
}

// tableFieldGlobals: v is a field of the element of a literal table (a slice or array literal of structs) that a
// loop ranges over; it returns the names of the package-level variables stored in that field, one per row.
func tableFieldGlobals(v ssa.Value) []string {
	var field int = -1
	var elem ssa.Value
	switch x := v.(type) {
	case *ssa.Field:
		field, elem = x.Field, x.X
	case *ssa.UnOp:
		if fa, ok := x.X.(*ssa.FieldAddr); ok && x.Op == token.MUL {
			field, elem = fa.Field, fa.X
		}
	}
	if field < 0 {
		return nil
	}
	// elem: load of IndexAddr(slice, i), the IndexAddr itself, or a local copy of the row (for _, p := range table)
	var ia *ssa.IndexAddr
	var findIA func(e ssa.Value, d int)
	findIA = func(e ssa.Value, d int) {
		if d > 4 || ia != nil {
			return
		}
		switch x := e.(type) {
		case *ssa.IndexAddr:
			ia = x
		case *ssa.UnOp:
			findIA(x.X, d+1)
		case *ssa.Alloc:
			for _, ref := range *x.Referrers() {
				if st, ok := ref.(*ssa.Store); ok && st.Addr == ssa.Value(x) {
					findIA(st.Val, d+1)
				}
			}
		}
	}
	findIA(elem, 0)
	if ia == nil {
		return nil
	}
	base := ia.X
	for i := 0; i < 4; i++ {
		switch b := base.(type) {
		case *ssa.Slice:
			base = b.X
		case *ssa.UnOp:
			base = b.X
		case *ssa.Phi:
			if len(b.Edges) > 0 {
				base = b.Edges[0]
			}
		}
	}
	arr, ok := base.(*ssa.Alloc)
	if c, isCall := base.(*ssa.Call); !ok && isCall && !c.Common().IsInvoke() {
		// the table is what a function of the module returns (`func roundPoolSplits() []poolSplit { return []poolSplit{...} }`)
		if h := c.Common().StaticCallee(); h != nil && h.Blocks != nil && strings.HasPrefix(pkgPathOf(h), modPath) {
			if rets := Returns(h); len(rets) == 1 && len(retVals(rets[0])) == 1 {
				if sl, isSl := retVals(rets[0])[0].(*ssa.Slice); isSl {
					arr, ok = sl.X.(*ssa.Alloc)
				}
			}
		}
	}
	if !ok {
		// the table is a package-level variable: its backing array is built in the package initialiser
		if g, isG := base.(*ssa.Global); isG && g.Pkg != nil {
			if initf := g.Pkg.Func("init"); initf != nil {
				for _, b := range initf.Blocks {
					for _, in := range b.Instrs {
						if st, isSt := in.(*ssa.Store); isSt && st.Addr == ssa.Value(g) {
							if sl, isSl := st.Val.(*ssa.Slice); isSl {
								arr, ok = sl.X.(*ssa.Alloc)
							}
						}
					}
				}
			}
		}
		if !ok || arr == nil {
			return nil
		}
	}
	var out []string
	fieldStores := func(owner ssa.Value) {
		for _, r2 := range *owner.Referrers() {
			y, ok := r2.(*ssa.FieldAddr)
			if !ok || y.Field != field {
				continue
			}
			for _, r3 := range *y.Referrers() {
				if st, ok := r3.(*ssa.Store); ok && st.Addr == ssa.Value(y) {
					if g := globalOfLoad(st.Val); g != nil {
						out = append(out, g.Name())
					} else {
						out = append(out, "?")
					}
				}
			}
		}
	}
	for _, ref := range *arr.Referrers() {
		row, ok := ref.(*ssa.IndexAddr)
		if !ok {
			continue
		}
		if _, isConst := row.Index.(*ssa.Const); !isConst {
			continue
		}
		n := len(out)
		fieldStores(row)
		if len(out) > n {
			continue
		}
		// the row is assigned as a whole from a composite-literal local
		for _, r2 := range *row.Referrers() {
			if st, ok := r2.(*ssa.Store); ok && st.Addr == ssa.Value(row) {
				if ld, ok := st.Val.(*ssa.UnOp); ok {
					if lit, ok := ld.X.(*ssa.Alloc); ok {
						fieldStores(lit)
					}
				}
			}
		}
	}
	return out
}

// rowFieldOf: v is field #field of a row of the slice `over` visited by a range loop (the row may be a copy).
func rowFieldOf(v ssa.Value) (over ssa.Value, field int, ok bool) {
	field = -1
	var elem ssa.Value
	switch x := v.(type) {
	case *ssa.Field:
		field, elem = x.Field, x.X
	case *ssa.UnOp:
		if fa, isFA := x.X.(*ssa.FieldAddr); isFA && x.Op == token.MUL {
			field, elem = fa.Field, fa.X
		}
	}
	if field < 0 {
		return nil, -1, false
	}
	var ia *ssa.IndexAddr
	var findIA func(e ssa.Value, d int)
	findIA = func(e ssa.Value, d int) {
		if d > 4 || ia != nil {
			return
		}
		switch x := e.(type) {
		case *ssa.IndexAddr:
			ia = x
		case *ssa.UnOp:
			findIA(x.X, d+1)
		case *ssa.Alloc:
			for _, ref := range *x.Referrers() {
				if st, isSt := ref.(*ssa.Store); isSt && st.Addr == ssa.Value(x) {
					findIA(st.Val, d+1)
				}
			}
		}
	}
	findIA(elem, 0)
	if ia == nil {
		return nil, -1, false
	}
	return ia.X, field, true
}

// rowSumOf: v is the accumulator of a range loop over a slice: zero, plus one field of every row (no early exit).
func rowSumOf(v ssa.Value) (over ssa.Value, field int, ok bool) {
	phi, isPhi := v.(*ssa.Phi)
	if !isPhi {
		return nil, -1, false
	}
	fn := phi.Parent()
	for _, l := range rangeLoops(fn) {
		if l.Header != phi.Block() || loopEarlyExit(l) != nil {
			continue
		}
		good, n := true, 0
		for _, e := range phi.Edges {
			if isZeroIntValue(e) {
				continue
			}
			c, isAdd := isCallTo(e, "math.Int.Add")
			if !isAdd || c.Common().Args[0] != ssa.Value(phi) {
				good = false
				continue
			}
			o, f, okf := rowFieldOf(c.Common().Args[1])
			if !okf || o != l.Over {
				good = false
				continue
			}
			over, field = o, f
			n++
		}
		if good && n > 0 {
			return over, field, true
		}
	}
	return nil, -1, false
}

// rowAmountParam: a struct-typed parameter of fn (a struct declared in the module, not a stored type) that has exactly
// one math.Int field; returns the parameter and the field's index.
func rowAmountParam(fn *ssa.Function) (*ssa.Parameter, int) {
	for _, p := range fn.Params {
		nt, ok := p.Type().(*types.Named)
		if !ok || nt.Obj().Pkg() == nil || !strings.HasPrefix(nt.Obj().Pkg().Path(), modPath) || strings.Contains(nt.Obj().Pkg().Path(), "/types") {
			continue
		}
		st, ok := nt.Underlying().(*types.Struct)
		if !ok {
			continue
		}
		idx, n := -1, 0
		for i := 0; i < st.NumFields(); i++ {
			if typeString(st.Field(i).Type()) == tInt {
				idx = i
				n++
			}
		}
		if n == 1 {
			return p, idx
		}
	}
	return nil, -1
}

// isFieldOfParam: v reads field #field of the struct parameter p (directly, or through the parameter's spill slot).
func isFieldOfParam(v ssa.Value, p *ssa.Parameter, field int) bool {
	if p == nil {
		return false
	}
	switch x := v.(type) {
	case *ssa.Field:
		return x.Field == field && x.X == ssa.Value(p)
	case *ssa.UnOp:
		if fa, ok := x.X.(*ssa.FieldAddr); ok && x.Op == token.MUL && fa.Field == field {
			if al, ok := fa.X.(*ssa.Alloc); ok {
				return spilledValue(al) == ssa.Value(p)
			}
		}
	}
	return false
}
