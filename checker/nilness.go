package main

import (
	"go/ast"
	"reflect"
	"sort"
	"strings"

	"golang.org/x/tools/go/analysis"
	"golang.org/x/tools/go/analysis/passes/buildssa"
	"golang.org/x/tools/go/analysis/passes/nilness"
	"golang.org/x/tools/go/ssa"
)

// runNilness drives the x/tools nilness analyzer in-process on the SSA already built for the module.
func runNilness(w *World, r *Report, rule string) {
	type diag struct {
		pos string
		msg string
		fn  string
	}
	var diags []diag
	npk := 0
	for _, p := range w.Mod {
		sp := w.SSA[p.PkgPath]
		var src []*ssa.Function
		for _, f := range w.funcsMod {
			pk := f.Pkg
			for g := f; pk == nil && g.Parent() != nil; g = g.Parent() {
				pk = g.Parent().Pkg
			}
			if pk == sp && f.Syntax() != nil {
				if _, ok := f.Syntax().(*ast.FuncDecl); ok || f.Parent() != nil {
					src = append(src, f)
				}
			}
		}
		if len(src) == 0 {
			continue
		}
		npk++
		pass := &analysis.Pass{
			Analyzer:  nilness.Analyzer,
			Fset:      w.Fset,
			Files:     p.Syntax,
			Pkg:       p.Types,
			TypesInfo: p.TypesInfo,
			ResultOf:  map[*analysis.Analyzer]interface{}{buildssa.Analyzer: &buildssa.SSA{Pkg: sp, SrcFuncs: src}},
			Report: func(d analysis.Diagnostic) {
				file := w.FileOf(d.Pos)
				if isGeneratedFile(file) || isSimulationFile(file) {
					return
				}
				fn := ""
				for _, f := range src {
					if f.Syntax() != nil && f.Syntax().Pos() <= d.Pos && d.Pos <= f.Syntax().End() {
						fn = funcName(f)
					}
				}
				diags = append(diags, diag{w.Pos(d.Pos), d.Message, fn})
			},
		}
		func() {
			defer func() {
				if e := recover(); e != nil {
					r.Unk(rule, "nilness on "+p.PkgPath, "", "analyzer panicked")
				}
			}()
			if _, err := nilness.Analyzer.Run(pass); err != nil {
				r.Unk(rule, "nilness on "+p.PkgPath, "", err.Error())
			}
		}()
	}
	_ = reflect.TypeOf
	sort.Slice(diags, func(i, j int) bool { return diags[i].pos < diags[j].pos })
	n := 0
	for _, d := range diags {
		// only definite nil dereferences; "tautological condition" style reports are not panics
		if !strings.Contains(d.msg, "nil dereference") && !strings.Contains(d.msg, "panic") {
			continue
		}
		n++
		r.Bad(rule, "nilness: "+d.msg+" in "+d.fn, d.pos, "x/tools nilness proves a nil dereference on this path")
	}
	if n == 0 {
		r.OK(rule, "nilness over production packages", "", "no provable nil dereference")
	}
	r.Analysed["nilness_packages"] = npk
}
