package main

import (
	"fmt"
	"go/token"
	"strings"

	"golang.org/x/tools/go/ssa"
)

func init() { register("C02", checkC02) }

func rankCmp(rank map[string]int) func(a, b string) (int, bool) {
	return func(a, b string) (int, bool) {
		ra, ok1 := rank[a]
		rb, ok2 := rank[b]
		if !ok1 || !ok2 {
			return 0, false
		}
		switch {
		case ra < rb:
			return -1, true
		case ra > rb:
			return 1, true
		}
		return 0, true
	}
}

func isZeroDecValue(v ssa.Value) bool {
	c, ok := v.(*ssa.Call)
	return ok && hasSuffixAny(callName(c.Common()), "types.ZeroDec", "math.LegacyZeroDec")
}

// loadThroughPtrField: v == *(X.field) where field is a pointer field (e.g. *minter.EndTime); returns X.
func derefOfPtrField(v ssa.Value, field string) (ssa.Value, bool) {
	u, ok := v.(*ssa.UnOp)
	if !ok || u.Op != token.MUL {
		return nil, false
	}
	if loadOfField(u.X, field, nil) {
		return derefRoot(u.X), true
	}
	return nil, false
}

func checkC02(w *World, r *Report) {
	cg := w.CG()
	ro := w.Roles()
	r.Undecided = []string{
		"that cumulative emission equals the integer part of the schedule's cumulative emission: the formulas in LinearMinting / ExponentialStepMinting.AmountToMint are arithmetic; a wrong coefficient that keeps the shape is invisible to these rules",
	}
	r.Rule("C02.fromscratch", "P6", "the minted amount = TruncateInt(AmountToMint(periodStart, blockTime) + RemainderFromPreviousMinter) - AmountMinted; it is independent of the previous block time (LastMintBlockTime is used only by the same-block guard); only truncation occurs on the slice, never rounding up", 5)
	r.Rule("C02.nonneg", "P5", "BANK.mint and the update of AmountMinted are dominated by the false edge of amount.IsNegative(); the update of AmountMinted is dominated by the success edges of the calls that mint and forward (a refused mint leaves the state untouched, the next block catches up)", 2)
	r.Rule("C02.boundaries", "P7", "ordering tables: Mint before StartTime has no effect; hand-over: no EndTime or now before it => stay, now after it => history + successor; LinearMinting: now before start => zero, now after end => the full Amount; ExponentialStepMinting: now after end => the computation uses end and no returned value depends on the block time (origins restricted to live edges)", 15)
	r.Rule("C02.carry", "P6", "successor state: SequenceId = old+1, AmountMinted = 0, RemainderFromPreviousMinter = fractional part of this period's total (not a constant); the history entry is the old state after its own update; the amount returned upward = minted(successor) + amount", 5)
	r.Rule("C02.units", "P9", "units of measure over SSA: in the two schedule formulas every sum, difference, comparison and merge combines values of the same time scale (ns / ms / s are distinct units), conversions to Duration and Time.Add receive ns, and the amount returned is a pure number (amount x time / time in one scale) - so the result cannot depend on the scale or on sub-unit truncation of one operand only", 2)
	r.Rule("C02.params", "P6", "the exponential schedule and its inflation formula multiply the step amount by the configured AmountMultiplier itself: every factor that can be that field is that field on every alternative (phi, results of a helper) - no default or fallback value substituted under a condition", 2)
	r.Rule("C02.select", "P7", "the shared selection function picks the current period and its predecessor by sequence id over all configured periods: per iteration, current := candidate exactly when the ids are equal, previous := candidate exactly when the candidate's id is below the current id and above the previous candidate's (ordering table over the three ids and the nil-ness of the previous candidate); nothing else is assigned, the loop has no early exit, the loop-carried values are returned", 18)
	r.Rule("C02.start", "P6", "period start = params.StartTime when there is no predecessor, the predecessor's EndTime otherwise; current and predecessor are the two results of one call on (params.Minters, state); emission and inflation obtain them from the same function", 4)
	if !ro.checkFloors(r) {
		return
	}
	mintTop := w.Func("x/cfeminter/keeper.Keeper.Mint")
	mint := w.Func("x/cfeminter/keeper.Keeper.mint")
	lin := w.Func("x/cfeminter/types.LinearMinting.AmountToMint")
	exp := w.Func("x/cfeminter/types.ExponentialStepMinting.AmountToMint")
	infl := w.Func("x/cfeminter/keeper.Keeper.GetCurrentInflation")
	for n, f := range map[string]*ssa.Function{"Keeper.Mint": mintTop, "Keeper.mint": mint, "LinearMinting.AmountToMint": lin, "ExponentialStepMinting.AmountToMint": exp, "Keeper.GetCurrentInflation": infl} {
		if f == nil {
			r.Unk("infra.anchor", "x/cfeminter "+n, "", "anchor not found")
			return
		}
	}
	tr := w.Tracer()

	// the amount: value added to AmountMinted
	amount, amStore, _ := mintedIncrement(w, mint)
	if amount == nil {
		r.Bad("C02.fromscratch", "mint: amount added to AmountMinted", w.Pos(mint.Pos()), "no update AmountMinted = AmountMinted.Add(amount) found")
		return
	}
	// ---------- C02.fromscratch ----------
	{
		shape := false
		var X ssa.Value
		if c, ok := isCallTo(w.inlineResult(amount), "math.Int.Sub"); ok {
			a := c.Common().Args
			if t, ok := isCallTo(a[0], "types.Dec.TruncateInt"); ok && loadOfField(a[1], "AmountMinted", nil) {
				shape = true
				X = t.Common().Args[0]
			}
		}
		r.Check(shape, "C02.fromscratch", "amount = TruncateInt(X) - state.AmountMinted", w.Pos(amStore.Pos()), "cumulative target minus what was already minted", "the amount minted is not computed as truncated cumulative target minus AmountMinted (per-block deltas would depend on how time was cut into blocks)")
		if X != nil {
			o := tr.Origins(X)
			dep := o.HasCall("MinterConfigI.AmountToMint", "Minter.AmountToMint", ".AmountToMint") || o.HasOp(".AmountToMint") || visitedCallNamed(o, "AmountToMint")
			r.Check(dep && o.HasPath("MinterState.RemainderFromPreviousMinter"), "C02.fromscratch", "X depends on AmountToMint(...) and on RemainderFromPreviousMinter", w.Pos(amStore.Pos()), "both on the backward slice", "the cumulative target does not include the schedule's AmountToMint and the remainder carried from the previous period: "+o.String())
		}
		o := tr.Origins(amount)
		r.Check(!o.HasPath("MinterState.LastMintBlockTime"), "C02.fromscratch", "amount independent of LastMintBlockTime", w.Pos(amStore.Pos()), "the previous block time is not on the backward slice of the amount", "the amount depends on the previous block time: emission would depend on block cadence")
		roundUp := o.HasOp("types.Dec.RoundInt", "types.Dec.Ceil", "types.Dec.RoundInt64", "types.Dec.QuoRoundUp", "types.Dec.MulRoundUp", "types.Dec.QuoRoundup")
		r.Check(!roundUp && o.HasOp("types.Dec.TruncateInt"), "C02.fromscratch", "only truncation on the slice of the amount", w.Pos(amStore.Pos()), "TruncateInt present; no RoundInt / Ceil / *RoundUp", "a rounding-up operator is on the slice of the minted amount")
		// the time argument of AmountToMint is the block time and the start is the phi of C02.start
		for _, s := range cg.Sites[mint] {
			if strings.HasSuffix(s.CalleeName(), "Minter.AmountToMint") {
				a := s.Args()
				r.Check(isBlockTime(a[len(a)-1]), "C02.fromscratch", "AmountToMint evaluated at the block time", w.Pos(s.Instr.Pos()), "ctx.BlockTime()", "the schedule is evaluated at another instant than the block time")
			}
		}
	}
	// ---------- C02.nonneg ----------
	{
		edges := nonNegEdges(mint, amount)
		r.Check(MustPass(mint, edges, amStore.Block()), "C02.nonneg", "AmountMinted updated only for a non-negative amount", w.Pos(amStore.Pos()), "dominated by the false edge of amount.IsNegative()", "a negative amount can be booked")
		// the call of the routine through which the bank's MintCoins is reached (directly, through the keeper's wrapper,
		// or through a helper that mints and forwards)
		seenTop := map[ssa.Instruction]bool{}
		for _, e := range w.effectsBelow(mint, func(x *Site) bool { return cg.Atom(x) == BankMint }, 3) {
			top := e.Top()
			if seenTop[top] {
				continue
			}
			seenTop[top] = true
			r.Check(MustPass(mint, edges, top.Block()), "C02.nonneg", "mint only for a non-negative amount", w.Pos(top.Pos()), "dominated by the false edge of amount.IsNegative()", "a negative amount can reach the bank's MintCoins")
		}
		// (= C01.mint1, last clause) the amount is counted as minted only after the bank minted and forwarded it: a
		// block whose mint is refused must leave the state untouched, so that the next block mints what is missing
		seenTop = map[ssa.Instruction]bool{}
		for _, e := range w.effectsBelow(mint, func(x *Site) bool { a := cg.Atom(x); return a == BankMint || a == BankMove }, 3) {
			top := e.Top()
			if seenTop[top] {
				continue
			}
			seenTop[top] = true
			tv, _ := top.(ssa.Value)
			r.Check(tv != nil && OnSuccessEdge(mint, amStore, tv), "C02.nonneg", "AmountMinted updated only after the bank operation succeeded", w.Pos(amStore.Pos()), "dominated by the nil edge of the error of "+w.Pos(top.Pos()), "the amount is counted as minted before (or although) the bank minted and forwarded it: after a refused mint the schedule never catches up")
		}
	}
	// ---------- C02.boundaries (a): Keeper.Mint ----------
	{
		term := func(v ssa.Value) string {
			if isBlockTime(v) {
				return "now"
			}
			if loadOfField(v, "StartTime", nil) {
				return "start"
			}
			return ""
		}
		var inner *Site
		for _, s := range cg.Sites[mintTop] {
			if calleeIs(s, "x/cfeminter/keeper.Keeper.mint") {
				inner = s
			}
		}
		if inner == nil {
			r.Bad("C02.boundaries", "Mint calls the minting routine", w.Pos(mintTop.Pos()), "no call of mint")
		} else {
			for s := -1; s <= 1; s += 2 {
				live := ReachUnder(mintTop, OrderEval(term, twoTermCmp("now", "start", s), nil))
				reached := live.LiveInstr(inner.Instr)
				if s < 0 {
					zero := true
					for _, v := range live.LiveReturns(mintTop, 0) {
						if !isZeroIntValue(v) {
							zero = false
						}
					}
					r.Check(!reached && zero, "C02.boundaries", "Mint: now before StartTime => nothing happens", w.Pos(inner.Instr.Pos()), "the minting routine is unreachable and zero is returned", "minting can start before the configured start time")
				} else {
					r.Check(reached, "C02.boundaries", "Mint: now after StartTime => minting proceeds", w.Pos(inner.Instr.Pos()), "the minting routine is reachable", "minting never starts although the start time has passed")
				}
			}
			// the state effects of Mint itself: none outside mint
			for _, s := range cg.Sites[mintTop] {
				if a := cg.Atom(s); isStateEffect(a) {
					r.Bad("C02.boundaries", "Mint has no effect of its own", w.Pos(s.Instr.Pos()), "Keeper.Mint changes state outside the minting routine")
				}
			}
		}
	}
	// ---------- C02.boundaries (b): hand-over ----------
	// the history write, the state persists and the recursion into the successor are looked for in the minting routine
	// and in the helpers it calls (two levels); liveness and order are decided along the call chains
	isMintRec := func(s *Site) bool { return calleeIs(s, "x/cfeminter/keeper.Keeper.mint") }
	isHist := func(s *Site) bool { return calleeIs(s, "x/cfeminter/keeper.Keeper.SetMinterStateHistory") }
	isPersist := func(s *Site) bool { return calleeIs(s, "x/cfeminter/keeper.Keeper.SetMinterState") }
	handEff := w.effectsBelow(mint, func(s *Site) bool { return isMintRec(s) || isHist(s) || isPersist(s) }, 2)
	var hists, recs, persists []EffSite
	for _, e := range handEff {
		switch {
		case isHist(e.Site):
			hists = append(hists, e)
		case isMintRec(e.Site):
			recs = append(recs, e)
		default:
			persists = append(persists, e)
		}
	}
	var histCall, recCall *EffSite
	if len(hists) == 1 {
		histCall = &hists[0]
	}
	if len(recs) == 1 {
		recCall = &recs[0]
	}
	if histCall == nil || recCall == nil || len(persists) == 0 {
		r.Bad("C02.boundaries", "hand-over: history, successor and persist calls", w.Pos(mint.Pos()), fmt.Sprintf("the minting routine (with its helpers) has %d history writes, %d recursions into the successor, %d state persists: expected exactly one history write and one recursion, and at least one persist", len(hists), len(recs), len(persists)))
	} else {
		term := handoverTerm(w.Tracer())
		type scen struct {
			name   string
			isNil  bool
			s      int
			expect string // stay | handover | either
		}
		for _, sc := range []scen{{"EndTime == nil", true, 0, "stay"}, {"now before EndTime", false, -1, "stay"}, {"now after EndTime", false, 1, "handover"}, {"now equal to EndTime", false, 0, "either"}} {
			eval := OrderEval(term, twoTermCmp("now", "end", sc.s), func(t string) (bool, bool) {
				if t == "endptr" {
					return sc.isNil, true
				}
				return false, false
			})
			hist, rec := LiveEff(mint, eval, *histCall), LiveEff(mint, eval, *recCall)
			stayPersist := false
			for _, p := range persists {
				if LiveEff(mint, eval, p) && !effDominates(*histCall, p) {
					stayPersist = true
				}
			}
			var ok bool
			var bad string
			switch sc.expect {
			case "stay":
				ok = !hist && !rec && stayPersist
				bad = "the period is handed over (or not persisted) although it has not ended"
			case "handover":
				ok = hist && rec && !stayPersist
				bad = "a finished period is not handed over: history entry / successor missing, or the old state is kept"
			default:
				ok = (hist && rec && !stayPersist) || (!hist && !rec && stayPersist)
				bad = "at the boundary instant neither a clean stay nor a clean hand-over happens"
			}
			r.Check(ok, "C02.boundaries", "hand-over: "+sc.name+" => "+sc.expect, w.Pos(histCall.Site.Instr.Pos()), fmt.Sprintf("history=%v successor=%v stay-persist=%v", hist, rec, stayPersist), bad)
		}
	}
	// ---------- C02.boundaries (c): LinearMinting.AmountToMint ----------
	{
		startP, endP, nowP := paramOfType(lin, tTime, 0), paramOfType(lin, "*time.Time", 0), paramOfType(lin, tTime, 1)
		term := func(v ssa.Value) string {
			switch {
			case v == ssa.Value(startP):
				return "start"
			case v == ssa.Value(nowP):
				return "now"
			}
			if u, ok := v.(*ssa.UnOp); ok && u.Op == token.MUL && u.X == ssa.Value(endP) {
				return "end"
			}
			return ""
		}
		amountOf := func(v ssa.Value) bool {
			c, ok := isCallTo(v, "types.NewDecFromInt")
			return ok && loadOfField(c.Common().Args[0], "Amount", nil)
		}
		for _, sc := range []struct {
			name string
			rank map[string]int
			want string
		}{
			{"now before start", map[string]int{"now": 0, "start": 1, "end": 2}, "zero"},
			{"now after end", map[string]int{"start": 0, "end": 1, "now": 2}, "amount"},
			{"start < now < end", map[string]int{"start": 0, "now": 1, "end": 2}, "formula"},
		} {
			live := ReachUnder(lin, OrderEval(term, rankCmp(sc.rank), nil))
			vals := live.LiveReturns(lin, 0)
			ok := len(vals) > 0
			for _, v := range vals {
				switch sc.want {
				case "zero":
					if !isZeroDecValue(v) {
						ok = false
					}
				case "amount":
					if !amountOf(v) {
						ok = false
					}
				case "formula":
					o := tr.Origins(v)
					if !(o.HasPath("LinearMinting.Amount") && o.Visited(nowP) && o.Visited(startP) && o.Visited(endP)) || isZeroDecValue(v) || amountOf(v) {
						ok = false
					}
				}
			}
			r.Check(ok, "C02.boundaries", "LinearMinting: "+sc.name+" => "+sc.want, w.Pos(lin.Pos()), "every live return has the expected origin", "the linear schedule returns something else in this ordering of (start, now, end)")
		}
	}
	// ---------- C02.boundaries (d): ExponentialStepMinting.AmountToMint ----------
	{
		endP, nowP := paramOfType(exp, "*time.Time", 0), paramOfType(exp, tTime, 1)
		term := func(v ssa.Value) string {
			if v == ssa.Value(nowP) {
				return "now"
			}
			if u, ok := v.(*ssa.UnOp); ok && u.Op == token.MUL && u.X == ssa.Value(endP) {
				return "end"
			}
			if v == ssa.Value(endP) {
				return "endptr"
			}
			return ""
		}
		// the effective time: the receiver of Sub(startTime) that yields passedTime
		var eff ssa.Value
		for _, s := range cg.Sites[exp] {
			if strings.HasSuffix(s.CalleeName(), "time.Time.Sub") {
				if c := siteCall(s); c != nil {
					if _, isPhi := c.Common().Args[0].(*ssa.Phi); isPhi {
						eff = c.Common().Args[0]
					}
				}
			}
		}
		if eff == nil {
			r.Bad("C02.boundaries", "ExponentialStepMinting: effective time = min(now, end)", w.Pos(exp.Pos()), "no merged effective-time variable found: elapsed time is not capped at the period end")
		} else {
			for _, sc := range []struct {
				name  string
				isNil bool
				s     int
				want  string
			}{{"no EndTime", true, 0, "now"}, {"now before end", false, -1, "now"}, {"now after end", false, 1, "end"}} {
				live := ReachUnder(exp, OrderEval(term, twoTermCmp("now", "end", sc.s), func(t string) (bool, bool) {
					if t == "endptr" {
						return sc.isNil, true
					}
					return false, false
				}))
				vals := live.LiveValues(eff)
				ok := len(vals) > 0
				for _, v := range vals {
					if term(v) != sc.want {
						ok = false
					}
				}
				r.Check(ok, "C02.boundaries", "ExponentialStepMinting: "+sc.name+" => elapsed time measured up to "+sc.want, w.Pos(exp.Pos()), "live value of the effective time", "elapsed time is not capped at the period end (or capped too early)")
				// closed-world form: whatever is returned in this ordering depends on the block time exactly when it should
				lt := w.Tracer()
				lt.Live, lt.LiveFn = live, exp
				usesNow := false
				nret := 0
				for _, ret := range Returns(exp) {
					if !live.Blocks[ret.Block()] {
						continue
					}
					nret++
					if lt.Origins(retVals(ret)[0]).Visited(nowP) {
						usesNow = true
					}
				}
				if sc.want == "end" {
					r.Check(nret > 0 && !usesNow, "C02.boundaries", "ExponentialStepMinting: "+sc.name+" => nothing returned depends on the block time", w.Pos(exp.Pos()), "no live return has the block time in its backward slice", "past the period end some returned amount still grows with the block time: the finished period and its successor both emit for the time after the end")
				} else {
					r.Check(nret > 0 && usesNow, "C02.boundaries", "ExponentialStepMinting: "+sc.name+" => the amount follows the block time", w.Pos(exp.Pos()), "the block time is in the backward slice of the result", "inside the period the amount does not depend on the block time")
				}
			}
		}
	}
	// ---------- C02.carry ----------
	if histCall != nil && recCall != nil {
		// the successor state = the argument of the persist that follows the history write
		var succ *EffSite
		nsucc := 0
		for i := range persists {
			if effDominates(*histCall, persists[i]) {
				succ = &persists[i]
				nsucc++
			}
		}
		pos := w.Pos(histCall.Site.Instr.Pos())
		if succ == nil || nsucc != 1 || len(succ.Site.Args()) < 2 {
			r.Bad("C02.carry", "successor state persisted after the history entry", pos, fmt.Sprintf("%d persists of the state follow the history write (expected one: the successor's initial state)", nsucc))
		} else {
			pos = w.Pos(succ.Site.Instr.Pos())
			sargs := succ.Site.Args()
			sv := sargs[len(sargs)-1]
			fieldO := func(f string) *Origin { return tr.OriginsVia(*succ, sv, []string{".MinterState." + f}) }
			// SequenceId = old + 1
			{
				o := fieldO("SequenceId")
				one, other := false, false
				for _, l := range o.Leaves {
					switch {
					case l.Kind == "const":
						if c, ok := l.V.(*ssa.Const); ok && c.Value != nil && c.Value.ExactString() == "1" {
							one = true
						} else {
							other = true
						}
					case strings.Contains(l.Path, "MinterState.SequenceId"):
					default:
						other = true
					}
				}
				onlyAdd := len(o.Ops) == 1 && o.Ops["op+"]
				r.Check(one && !other && onlyAdd && o.HasPath("MinterState.SequenceId") && len(o.Phis) == 0, "C02.carry", "successor.SequenceId = old + 1", pos, "stored SequenceId + 1", "the successor period is not the next sequence id: "+o.String())
			}
			// AmountMinted = 0
			{
				o := fieldO("AmountMinted")
				zero := len(o.Leaves) > 0
				for _, l := range o.Leaves {
					if c, ok := l.V.(*ssa.Call); !(ok && l.Kind == "call" && isZeroIntValue(c)) {
						zero = false
					}
				}
				r.Check(zero, "C02.carry", "successor.AmountMinted = 0", pos, "zero", "the successor starts with a non-zero minted amount: "+o.String())
			}
			// RemainderFromPreviousMinter = X - TruncateDec(X), nothing else mixed in
			{
				o := fieldO("RemainderFromPreviousMinter")
				okRem := false
				why := "the fractional remainder is dropped or replaced by a constant: it would be lost or emitted twice"
				for _, c := range o.CallsNamed("types.Dec.Sub") {
					a := c.Common().Args
					t, isT := isCallTo(a[1], "types.Dec.TruncateDec")
					if !isT || t.Common().Args[0] != a[0] {
						continue
					}
					oX := tr.Origins(a[0])
					if !visitedCallNamed(oX, "AmountToMint") {
						continue
					}
					// every other operation and leaf on the slice belongs to X itself
					extra := ""
					for c2 := range o.Calls {
						if h := c2.Common().StaticCallee(); h != nil && h.Blocks != nil && w.isProdFunc(h) && !c2.Common().IsInvoke() {
							continue // a module helper that was entered (a constructor of the successor state): what it computes is on the slice itself
						}
						if c2 != c && c2 != t && !oX.Calls[c2] {
							extra = callName(c2.Common())
						}
					}
					for k := range o.Leaves {
						if _, ok := oX.Leaves[k]; !ok && !(o.Leaves[k].V == ssa.Value(c) || o.Leaves[k].V == ssa.Value(t)) {
							extra = k
						}
					}
					if extra == "" && len(o.Phis) <= len(oX.Phis) {
						okRem = true
					} else {
						why = "the carried remainder is not just the fractional part of this period's total: " + extra + " is mixed in (lost or emitted twice)"
					}
				}
				r.Check(okRem, "C02.carry", "successor.RemainderFromPreviousMinter = X - TruncateDec(X) of this period's total", pos, "fractional part of the cumulative target, nothing else on its slice", why)
			}
		}
		// history = old state after its update
		r.Check(instrDominates(amStore, histCall.Top()), "C02.carry", "history entry is the old state after its own update", w.Pos(histCall.Site.Instr.Pos()), "the AmountMinted update dominates SetMinterStateHistory", "the history entry is stored before the final update of the old period")
		// result = minted(successor) + amount
		mintTotalRule(w, r, "C02.carry")
	}
	// ---------- C02.select ----------
	minterSelectRule(w, r, "C02.select")
	// ---------- C02.start ----------
	periodStartRule(w, r, "C02.start", []*ssa.Function{mint, infl})
	// ---------- C02.params ----------
	// the schedule formulas use the configured parameters themselves: a factor that can be the period's AmountMultiplier
	// is that field on every alternative (phi, helper results) - no default substituted under a condition (a multiplier
	// of zero is a valid configuration: "the first step's amount, then nothing")
	{
		n := 0
		for _, a := range []string{"x/cfeminter/types.ExponentialStepMinting.AmountToMint", "x/cfeminter/types.ExponentialStepMinting.CalculateInflation"} {
			fn := w.Func(a)
			if fn == nil {
				r.Unk("infra.anchor", a, "", "anchor not found")
				continue
			}
			k := 0
			for _, e := range w.effectsBelow(fn, func(x *Site) bool { return strings.HasSuffix(x.CalleeName(), "types.Dec.Mul") }, 2) {
				args := e.Site.Common().Args
				if len(args) != 2 {
					continue
				}
				alts := w.LiveValuesDeep(e.Site.Caller, func(ssa.Value) (bool, bool) { return false, false }, args[1], 2)
				isField := func(v ssa.Value) bool { return loadOfField(v, "AmountMultiplier", nil) }
				some, all := false, true
				for _, dv := range alts {
					if isField(dv.V) || isField(dv.Root) {
						some = true
					} else {
						all = false
					}
				}
				if !some {
					continue
				}
				k++
				n++
				r.Check(all, "C02.params", fmt.Sprintf("%s: multiplication #%d by the period's AmountMultiplier", funcName(fn), k), w.Pos(e.Site.Instr.Pos()), fmt.Sprintf("%d alternative(s), each the configured field", len(alts)), "under some condition the step amount is multiplied by something else than the configured AmountMultiplier (a default or fallback value): emission leaves the configured schedule for the configurations that meet the condition")
			}
		}
		_ = n
	}
	// ---------- C02.units ----------
	for _, a := range []string{"x/cfeminter/types.LinearMinting.AmountToMint", "x/cfeminter/types.ExponentialStepMinting.AmountToMint"} {
		fn := w.Func(a)
		if fn == nil {
			r.Unk("infra.anchor", a, "", "anchor not found")
			continue
		}
		unitsRule(w, r, "C02.units", fn, "amount due is a pure number of coins")
	}
}

// periodStartRule: the schedule is evaluated for the current period from the start that its predecessor's end (or the configured start time) gives.
func periodStartRule(w *World, r *Report, rule string, fns []*ssa.Function) {
	cg := w.CG()
	tr := w.Tracer()
	for _, fn := range fns {
		var sel *ssa.Call
		for _, s := range cg.Sites[fn] {
			if c := siteCall(s); c != nil && w.isSelectionCall(c.Common()) {
				sel = c
			}
		}
		if sel == nil {
			r.Bad(rule, funcName(fn)+": current and predecessor from getCurrentAndPreviousMinter", w.Pos(fn.Pos()), "the shared selection function is not used")
			continue
		}
		// the operands (whatever their order and whether the periods travel as a slice or inside the parameters value):
		// the configured periods on one side, the stored state's id on the other
		a := sel.Common().Args
		fromParams, fromState := false, false
		for _, arg := range a {
			oa := tr.Origins(arg)
			isParams := loadOfField(arg, "Minters", nil) || strings.HasSuffix(typeString(arg.Type()), "types.Params")
			if isParams && (oa.HasCall("GetParams") || oa.HasLeaf("param", "params") || oa.HasPath("Params.Minters") || oa.HasCall("MustUnmarshal")) {
				fromParams = true
			}
			isState := strings.HasSuffix(typeString(arg.Type()), "types.MinterState") || loadOfField(arg, "SequenceId", nil)
			if isState && (oa.HasCall("GetMinterState") || oa.HasCall("MustUnmarshal")) {
				fromState = true
			}
		}
		okArgs := fromParams && fromState
		r.Check(okArgs, rule, funcName(fn)+": selection over (params.Minters, stored state)", w.Pos(sel.Pos()), "arguments are the configured periods and the stored minter state", "the periods are selected from other data than the parameters and the stored state")
		// the start passed on
		var startArg ssa.Value
		var user *Site
		for _, s := range cg.Sites[fn] {
			n := s.CalleeName()
			if strings.HasSuffix(n, "Minter.AmountToMint") || strings.HasSuffix(n, "Minter.CalculateInflation") {
				user = s
				args := s.Args()
				for _, x := range args {
					if typeString(x.Type()) == tTime && !isBlockTime(x) {
						if _, isField := x.(*ssa.UnOp); isField && loadOfField(x, "Time", nil) {
							continue // ctx.BlockHeader().Time
						}
						startArg = x
						break
					}
				}
			}
		}
		if user == nil || startArg == nil {
			r.Bad(rule, funcName(fn)+": period start passed to the schedule", w.Pos(fn.Pos()), "no period-start argument found")
			continue
		}
		// receiver is current (#0)
		recv := user.Recv()
		isCur := false
		if ex, ok := recv.(*ssa.Extract); ok && ex.Tuple == ssa.Value(sel) && ex.Index == 0 {
			isCur = true
		}
		var prev ssa.Value
		for _, ref := range *sel.Referrers() {
			if ex, ok := ref.(*ssa.Extract); ok && ex.Index == 1 {
				prev = ex
			}
		}
		okStart := false
		// the start may be computed by a helper of the module: start(params, previous)
		if hc, isCall := startArg.(*ssa.Call); isCall && prev != nil {
			if h := hc.Common().StaticCallee(); h != nil && h.Blocks != nil && w.isProdFunc(h) {
				var prevP *ssa.Parameter
				for i, a := range hc.Common().Args {
					if a == prev && i < len(h.Params) {
						prevP = h.Params[i]
					}
				}
				if prevP != nil {
					good := true
					for _, isNil := range []bool{true, false} {
						isNil := isNil
						live := ReachUnder(h, OrderEval(func(v ssa.Value) string {
							if v == ssa.Value(prevP) {
								return "prev"
							}
							return ""
						}, func(a, b string) (int, bool) { return 0, false }, func(t string) (bool, bool) { return isNil, t == "prev" }))
						vals := live.LiveReturns(h, 0)
						if len(vals) == 0 {
							good = false
						}
						bind := bindParams(h, hc)
						for _, v := range vals {
							// in the caller's terms: the helper may be handed params, or params.StartTime itself
							v = translateValue(v, bind, 0)
							if isNil {
								if !loadOfField(v, "StartTime", nil) {
									good = false
								}
							} else {
								root, ok := derefOfPtrField(v, "EndTime")
								if !ok || root != prev {
									good = false
								}
							}
						}
					}
					okStart = good
				}
			}
		}
		if phi, ok := startArg.(*ssa.Phi); ok && prev != nil && len(phi.Edges) == 2 {
			// under prev == nil -> params.StartTime ; else *prev.EndTime
			for _, isNil := range []bool{true, false} {
				live := ReachUnder(fn, OrderEval(func(v ssa.Value) string {
					if v == prev {
						return "prev"
					}
					return ""
				}, func(a, b string) (int, bool) { return 0, false }, func(t string) (bool, bool) { return isNil, t == "prev" }))
				vals := live.LiveValues(phi)
				good := len(vals) == 1
				for _, v := range vals {
					if isNil {
						if !loadOfField(v, "StartTime", nil) {
							good = false
						}
					} else {
						root, ok := derefOfPtrField(v, "EndTime")
						if !ok || root != prev {
							good = false
						}
					}
				}
				if !good {
					okStart = false
					break
				}
				okStart = true
			}
		}
		r.Check(isCur && okStart, rule, funcName(fn)+": start = params.StartTime without predecessor, predecessor.EndTime otherwise", w.Pos(user.Instr.Pos()), "receiver is result #0, start is selected by the nil test of result #1", "the period does not start where its predecessor ended (or at the configured start time)")
	}
}

func phiEdges(v ssa.Value) []ssa.Value {
	if phi, ok := v.(*ssa.Phi); ok {
		return phi.Edges
	}
	return nil
}

func visitedCallNamed(o *Origin, frag string) bool {
	for c := range o.Calls {
		if strings.Contains(callName(c.Common()), frag) {
			return true
		}
	}
	for v := range o.Values {
		if c, ok := v.(*ssa.Call); ok && strings.Contains(callName(c.Common()), frag) {
			return true
		}
	}
	return false
}

// mintTotalRule: the amount the minting routine reports upward for a block loses no term. A = the amount minted by
// this activation, P = the running totals handed in (math.Int parameters, if the routine is written with an
// accumulator), R = what the recursion into the successor period returns. Without a hand-over every successful
// return carries A and every P; with a hand-over it carries R, and A and every P are either added to it or were
// handed down to the recursion. A return that is reached only for a negative amount (nothing minted) need not carry A.
func mintTotalRule(w *World, r *Report, rule string) {
	cg := w.CG()
	mint := w.Func("x/cfeminter/keeper.Keeper.mint")
	if mint == nil {
		r.Unk("infra.anchor", "x/cfeminter/keeper.Keeper.mint", "", "anchor not found")
		return
	}
	amount, _, _ := mintedIncrement(w, mint)
	var rec *ssa.Call
	nrec := 0
	for _, s := range cg.Sites[mint] {
		if calleeIs(s, "x/cfeminter/keeper.Keeper.mint") {
			rec = siteCall(s)
			nrec++
		}
	}
	construct := "amount returned upward = this period's amount + what was handed in + what the successor returns"
	if amount == nil || rec == nil || nrec != 1 {
		r.Unk(rule, construct, w.Pos(mint.Pos()), "the minting routine's own amount or its single recursion into the successor was not found")
		return
	}
	var recRes ssa.Value
	for _, ref := range *rec.Referrers() {
		if ex, ok := ref.(*ssa.Extract); ok && ex.Index == 0 {
			recRes = ex
		}
	}
	var accs []*ssa.Parameter
	for _, p := range mint.Params {
		if typeString(p.Type()) == tInt {
			accs = append(accs, p)
		}
	}
	derives := func(v, target ssa.Value) bool { return mustDeriveSum(w, v, target, 0) }
	carriesAll := func(v ssa.Value, needA bool) string {
		if needA && !derives(v, amount) {
			return "this period's amount"
		}
		for _, p := range accs {
			if !derives(v, p) {
				return "the running total handed in (" + p.Name() + ")"
			}
		}
		return ""
	}
	term := handoverTerm(w.Tracer())
	nonNeg := nonNegEdges(mint, amount)
	ok, why, n := true, "", 0
	for _, sc := range []struct {
		name string
		s    int
	}{{"no hand-over", -1}, {"hand-over", 1}} {
		live := ReachUnder(mint, OrderEval(term, twoTermCmp("now", "end", sc.s), func(t string) (bool, bool) { return false, t == "endptr" }))
		for _, ret := range Returns(mint) {
			if !live.Blocks[ret.Block()] {
				continue
			}
			rv := retVals(ret)
			if len(rv) != 2 || !isNilConst(rv[1]) {
				continue // error returns end the block (C01.abort)
			}
			needA := MustPass(mint, nonNeg, ret.Block())
			for _, v := range live.LiveValues(rv[0]) {
				n++
				if sc.s < 0 || !live.LiveInstr(rec) || !canReach(rec, ret) {
					if miss := carriesAll(v, needA); miss != "" {
						ok, why = false, sc.name+": a successful return omits "+miss
					}
					continue
				}
				if recRes == nil || !derives(v, recRes) {
					ok, why = false, sc.name+": the value returned after the recursion omits what the successor minted"
					continue
				}
				if carriesAll(v, needA) == "" {
					continue
				}
				// handed down to the recursion instead?
				down := "nothing is handed down"
				for _, a := range rec.Common().Args {
					if typeString(a.Type()) != tInt {
						continue
					}
					down = carriesAll(a, true)
					if down == "" {
						break
					}
				}
				if down != "" {
					ok, why = false, sc.name+": neither the returned value nor the total handed to the recursion carries "+down
				}
			}
		}
	}
	r.Check(ok && n > 0, rule, construct, w.Pos(rec.Pos()), "every successful return carries every term", "the total reported for the block drops a term: "+why)
}

// mustDeriveSum: on every path v contains target as a summand (or is target): phis need every edge, sums any operand.
func mustDeriveSum(w *World, v, target ssa.Value, depth int) bool {
	if v == target {
		return true
	}
	if depth > 6 {
		return false
	}
	switch x := v.(type) {
	case *ssa.Phi:
		for _, e := range x.Edges {
			if !mustDeriveSum(w, e, target, depth+1) {
				return false
			}
		}
		return len(x.Edges) > 0
	case *ssa.Extract:
		return mustDeriveSum(w, x.Tuple, target, depth)
	case *ssa.ChangeType:
		return mustDeriveSum(w, x.X, target, depth)
	case *ssa.UnOp:
		if x.Op == token.MUL {
			if al, ok := x.X.(*ssa.Alloc); ok {
				// a local: every store into it
				n := 0
				for _, ref := range *al.Referrers() {
					if s, ok := ref.(*ssa.Store); ok && s.Addr == ssa.Value(al) {
						n++
						if !mustDeriveSum(w, s.Val, target, depth+1) {
							return false
						}
					}
				}
				return n > 0
			}
		}
	case *ssa.Call:
		if hasSuffixAny(callName(x.Common()), "math.Int.Add", "types.Dec.Add", "types.Coins.Add", "types.DecCoins.Add") {
			for _, a := range x.Common().Args {
				if mustDeriveSum(w, a, target, depth+1) {
					return true
				}
			}
		}
	}
	return false
}

// mintHandOverAt decides, for the ordering s of (now, current period's EndTime), whether the minting routine hands the
// period over (history write and recursion live, no persist of the old state) - used by C19 for sibling agreement on
// the instant from which a period counts as over.
func mintHandOverAt(w *World, s int) (handover bool, decided bool) {
	mint := w.Func("x/cfeminter/keeper.Keeper.mint")
	if mint == nil {
		return false, false
	}
	isMintRec := func(s *Site) bool { return calleeIs(s, "x/cfeminter/keeper.Keeper.mint") }
	isHist := func(s *Site) bool { return calleeIs(s, "x/cfeminter/keeper.Keeper.SetMinterStateHistory") }
	var hists, recs []EffSite
	for _, e := range w.effectsBelow(mint, func(s *Site) bool { return isMintRec(s) || isHist(s) }, 2) {
		if isHist(e.Site) {
			hists = append(hists, e)
		} else {
			recs = append(recs, e)
		}
	}
	if len(hists) != 1 || len(recs) != 1 {
		return false, false
	}
	term := handoverTerm(w.Tracer())
	eval := OrderEval(term, twoTermCmp("now", "end", s), func(t string) (bool, bool) { return false, t == "endptr" })
	h, rc := LiveEff(mint, eval, hists[0]), LiveEff(mint, eval, recs[0])
	if h != rc {
		return false, false
	}
	return h, true
}

// handoverTerm names the operands of the hand-over decision: the block time (the call itself, or a value that holds
// nothing but the block time where it is read - e.g. state.LastMintBlockTime right after it was set), the end of the
// current period and the pointer to it.
func handoverTerm(tr *Tracer) func(ssa.Value) string {
	return func(v ssa.Value) string {
		if isBlockTime(v) {
			return "now"
		}
		if _, ok := derefOfPtrField(v, "EndTime"); ok {
			return "end"
		}
		if loadOfField(v, "EndTime", nil) {
			return "endptr"
		}
		if holdsBlockTime(tr, v) {
			return "now"
		}
		return ""
	}
}
