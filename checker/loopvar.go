package main

import (
	"fmt"
	"go/token"
	"os"
	"path/filepath"
	"sort"

	"golang.org/x/tools/go/packages"
	"golang.org/x/tools/go/ssa"
	"golang.org/x/tools/go/ssa/ssautil"
)

// Loop-variable rule. The module declares a Go version below 1.22: a `for ... := range` statement has ONE variable for
// all its iterations. Whatever keeps the address of that variable (or of a field of it), or a function literal that
// mentions it, beyond the iteration in which it was taken sees the element of the LAST iteration when it is used later:
// "the matching element" silently becomes "the last element". The rule reports, for a variable that is assigned inside a
// loop but allocated outside it, every construct inside the loop through which its address outlives the iteration:
//
//	kept      the address (or a field / element address derived from it) is stored somewhere, put into a map, or flows
//	          out of the loop through a phi;
//	closure   a function literal created in the loop mentions the variable and is itself stored, deferred, started as a
//	          goroutine or flows out of the loop (a literal that is only called within the iteration is harmless);
//	callee    the address is handed to a module function that stores its parameter.
//
// Taking the address for a call that only reads through it, and copying the element into a variable declared inside the
// loop body first, are not reported (positive and negative controls in selftest/nondet).

type loopVarFinding struct {
	fn   *ssa.Function
	at   ssa.Instruction
	kind string
	what string
}

func loopVarEscapes(fn *ssa.Function) []loopVarFinding {
	var out []loopVarFinding
	if len(fn.Blocks) == 0 {
		return nil
	}
	for _, b := range fn.Blocks {
		for _, in := range b.Instrs {
			al, ok := in.(*ssa.Alloc)
			if !ok || al.Referrers() == nil {
				continue
			}
			// loops in which the variable is assigned as a whole while it lives outside them
			var loops []natLoop
			for _, ref := range *al.Referrers() {
				st, ok := ref.(*ssa.Store)
				if !ok || st.Addr != ssa.Value(al) || !isRangeElement(st.Val) {
					continue
				}
				for _, l := range loopsAround(st.Block()) {
					if !l.In[al.Block()] {
						loops = append(loops, l)
					}
				}
			}
			if len(loops) == 0 {
				continue
			}
			inLoop := func(x ssa.Instruction) bool {
				for _, l := range loops {
					if l.In[x.Block()] {
						return true
					}
				}
				return false
			}
			leavesLoop := func(phi *ssa.Phi) bool {
				for _, l := range loops {
					if !l.In[phi.Block()] || phi.Block() == l.Header {
						return true
					}
				}
				return false
			}
			name := al.Comment
			// addresses derived from the variable
			seen := map[ssa.Value]bool{}
			var walk func(p ssa.Value, d int)
			walk = func(p ssa.Value, d int) {
				if seen[p] || d > 6 || p.Referrers() == nil {
					return
				}
				seen[p] = true
				for _, ref := range *p.Referrers() {
					if !inLoop(ref) {
						continue
					}
					switch x := ref.(type) {
					case *ssa.FieldAddr:
						if x.X == p {
							walk(x, d+1)
						}
					case *ssa.IndexAddr:
						if x.X == p {
							walk(x, d+1)
						}
					case *ssa.Store:
						if x.Val == p {
							switch varargsKept(x) {
							case "no":
							case "append":
								out = append(out, loopVarFinding{fn, x, "kept", "the address of loop variable " + name + " is appended to a slice"})
							case "callee":
								out = append(out, loopVarFinding{fn, x, "callee", "the address of loop variable " + name + " is handed (variadic) to a module function that stores it"})
							default:
								out = append(out, loopVarFinding{fn, x, "kept", "the address of loop variable " + name + " is stored"})
							}
						}
					case *ssa.MapUpdate:
						if x.Value == p {
							out = append(out, loopVarFinding{fn, x, "kept", "the address of loop variable " + name + " is put into a map"})
						}
					case *ssa.Phi:
						if leavesLoop(x) {
							out = append(out, loopVarFinding{fn, x, "kept", "the address of loop variable " + name + " flows out of the iteration"})
						}
					case *ssa.MakeInterface:
						walk(x, d+1)
					case *ssa.ChangeType:
						walk(x, d+1)
					case *ssa.MakeClosure:
						bound := false
						for _, bnd := range x.Bindings {
							if bnd == p {
								bound = true
							}
						}
						if bound && closureOutlivesIteration(x, inLoop, leavesLoop) {
							out = append(out, loopVarFinding{fn, x, "closure", "a function literal over loop variable " + name + " outlives the iteration"})
						}
					case ssa.CallInstruction:
						cc := x.Common()
						if _, isDefer := x.(*ssa.Defer); isDefer {
							for _, a := range cc.Args {
								if a == p {
									out = append(out, loopVarFinding{fn, x, "kept", "the address of loop variable " + name + " is handed to a deferred call"})
								}
							}
							continue
						}
						if _, isGo := x.(*ssa.Go); isGo {
							out = append(out, loopVarFinding{fn, x, "kept", "the address of loop variable " + name + " is handed to a goroutine"})
							continue
						}
						h := cc.StaticCallee()
						if h == nil || h.Blocks == nil || cc.IsInvoke() {
							continue
						}
						for i, a := range cc.Args {
							if a == p && i < len(h.Params) && paramStored(h.Params[i], 0) {
								out = append(out, loopVarFinding{fn, x, "callee", "the address of loop variable " + name + " is handed to " + funcName(h) + ", which stores it"})
							}
						}
					}
				}
			}
			walk(al, 0)
		}
	}
	sort.SliceStable(out, func(i, j int) bool { return out[i].at.Pos() < out[j].at.Pos() })
	return out
}

// closureOutlivesIteration: the literal is stored, deferred, started, returned through a phi out of the loop - anything
// but being called on the spot.
func closureOutlivesIteration(mc *ssa.MakeClosure, inLoop func(ssa.Instruction) bool, leavesLoop func(*ssa.Phi) bool) bool {
	if mc.Referrers() == nil {
		return false
	}
	for _, ref := range *mc.Referrers() {
		switch x := ref.(type) {
		case *ssa.Store:
			if x.Val == ssa.Value(mc) {
				return true
			}
		case *ssa.MapUpdate:
			return true
		case *ssa.Phi:
			if leavesLoop(x) {
				return true
			}
		case *ssa.Defer, *ssa.Go:
			return true
		case *ssa.Return:
			return false
		case *ssa.MakeInterface, *ssa.ChangeType:
			return true
		case ssa.CallInstruction:
			cc := x.Common()
			if cc.Value == ssa.Value(mc) {
				continue // called on the spot
			}
			if _, isCall := x.(*ssa.Call); isCall && !cc.IsInvoke() {
				if h := cc.StaticCallee(); h != nil && h.Blocks != nil {
					kept := false
					for i, a := range cc.Args {
						if a == ssa.Value(mc) && (i >= len(h.Params) || paramStored(h.Params[i], 0)) {
							kept = true
						}
					}
					if !kept {
						continue // handed to a function that calls it and does not keep it
					}
				}
			}
			return true // handed to someone who may keep it
		case *ssa.DebugRef:
		default:
			return true
		}
	}
	return false
}

// paramStored: the function keeps its pointer parameter (or an address derived from it): stores it, puts it into a map,
// or hands it on to a module function that does.
func paramStored(p *ssa.Parameter, depth int) bool {
	if depth > 2 || p.Referrers() == nil {
		return false
	}
	seen := map[ssa.Value]bool{}
	var walk func(v ssa.Value, d int) bool
	walk = func(v ssa.Value, d int) bool {
		if seen[v] || d > 5 || v.Referrers() == nil {
			return false
		}
		seen[v] = true
		for _, ref := range *v.Referrers() {
			switch x := ref.(type) {
			case *ssa.Store:
				if x.Val == v && varargsKept(x) != "no" {
					return true
				}
			case *ssa.MapUpdate:
				if x.Value == v {
					return true
				}
			case *ssa.MakeClosure:
				// a literal over the parameter that is itself kept
				if closureOutlivesIteration(x, func(ssa.Instruction) bool { return true }, func(*ssa.Phi) bool { return false }) {
					return true
				}
			case *ssa.FieldAddr:
				if x.X == v && walk(x, d+1) {
					return true
				}
			case *ssa.MakeInterface:
				if walk(x, d+1) {
					return true
				}
			case *ssa.Phi:
				if walk(x, d+1) {
					return true
				}
			case ssa.CallInstruction:
				cc := x.Common()
				h := cc.StaticCallee()
				if h == nil || h.Blocks == nil || cc.IsInvoke() {
					continue
				}
				for i, a := range cc.Args {
					if a == v && i < len(h.Params) && paramStored(h.Params[i], depth+1) {
						return true
					}
				}
			}
		}
		return false
	}
	return walk(p, 0)
}

// loopVarRule reports the findings in the production functions of the given modules (closed inventory: zero expected)
// and runs the detector over the controls.
func loopVarRule(w *World, r *Report, rule string, modules ...string) {
	want := map[string]bool{}
	for _, m := range modules {
		want[m] = true
	}
	nfn := 0
	for _, fn := range w.ProdFuncs() {
		if !want[moduleOfFunc(fn)] || isGeneratedFile(w.FileOf(fn.Pos())) {
			continue
		}
		nfn++
		seen := map[string]int{}
		for _, f := range loopVarEscapes(fn) {
			key := fmt.Sprintf("%s in %s", f.kind, funcName(fn))
			seen[key]++
			construct := key
			if seen[key] > 1 {
				construct = fmt.Sprintf("%s #%d", key, seen[key])
			}
			pos := w.Pos(f.at.Pos())
			if !f.at.Pos().IsValid() {
				pos = w.Pos(fn.Pos())
			}
			r.Bad(rule, construct, pos, f.what+": the module's Go version has one variable per loop, so what is kept refers to the element of the last iteration by the time it is used")
		}
	}
	r.Check(nfn > 0, rule, fmt.Sprintf("loop variables of %v", modules), "", fmt.Sprintf("%d functions inspected, no address or function literal over a per-loop variable outlives its iteration", nfn), "no function of the modules was inspected")
	loopVarControls(w, r, rule)
}

var loopVarControlVerdicts map[string]string

func loopVarControls(w *World, r *Report, rule string) {
	if loopVarControlVerdicts == nil {
		exe, _ := os.Executable()
		dir := filepath.Join(filepath.Dir(filepath.Dir(exe)), "selftest", "nondet")
		if _, err := os.Stat(dir); err != nil {
			dir = "/verif/selftest/nondet"
		}
		cfg := &packages.Config{Mode: packages.LoadAllSyntax, Dir: dir, Env: append(os.Environ(), "GOFLAGS=-mod=mod", "GOPROXY=off", "GOWORK=off", "GOTOOLCHAIN=local")}
		pkgs, err := packages.Load(cfg, ".")
		if err != nil || len(pkgs) != 1 || len(pkgs[0].Errors) > 0 {
			r.Unk(rule, "load of the control package", "", fmt.Sprintf("cannot load %s: %v", dir, err))
			return
		}
		_, spkgs := ssautil.AllPackages(pkgs, 0)
		sp := spkgs[0]
		sp.Build()
		loopVarControlVerdicts = map[string]string{}
		for _, m := range sp.Members {
			f, ok := m.(*ssa.Function)
			if !ok || f.Blocks == nil || !token.IsExported(f.Name()) || len(f.Name()) < 7 || f.Name()[:7] != "LoopVar" {
				continue
			}
			v := "silent"
			if fs := loopVarEscapes(f); len(fs) > 0 {
				v = "reported:" + fs[0].kind
			}
			loopVarControlVerdicts[f.Name()] = v
		}
	}
	wantV := map[string]string{
		"LoopVarAddrKept": "reported:kept", "LoopVarClosureKept": "reported:closure", "LoopVarStoredByCallee": "reported:callee",
		"LoopVarUsedInIterationOK": "silent", "LoopVarCopyOK": "silent",
	}
	var names []string
	for n := range wantV {
		names = append(names, n)
	}
	sort.Strings(names)
	for _, n := range names {
		g := loopVarControlVerdicts[n]
		if g == "" {
			g = "not found"
		}
		r.Check(g == wantV[n], rule, "control "+n, "selftest/nondet/control.go", "detector verdict: "+g, "the detector's verdict on the control is '"+g+"', expected '"+wantV[n]+"': the detector is broken")
	}
}

// isRangeElement: the value assigned to the variable is the element (or key) of the collection a range statement walks:
// a load of an element address, or a component of a map / string iterator's Next.
func isRangeElement(v ssa.Value) bool {
	switch x := v.(type) {
	case *ssa.UnOp:
		if x.Op == token.MUL {
			_, ok := x.X.(*ssa.IndexAddr)
			return ok
		}
	case *ssa.Extract:
		_, ok := x.Tuple.(*ssa.Next)
		return ok
	case *ssa.Index:
		return true
	}
	return false
}

// varargsKept classifies a store of a value into the implicit array of a variadic call: "append" (the builtin keeps
// it), "callee" (a module function that stores its variadic parameter), "no" (logging / formatting and other calls that
// do not keep their arguments), "" when the store is not into such an array.
func varargsKept(st *ssa.Store) string {
	ia, ok := st.Addr.(*ssa.IndexAddr)
	if !ok {
		return ""
	}
	arr, ok := ia.X.(*ssa.Alloc)
	if !ok || arr.Comment != "varargs" || arr.Referrers() == nil {
		return ""
	}
	res := "no"
	for _, ref := range *arr.Referrers() {
		sl, ok := ref.(*ssa.Slice)
		if !ok || sl.Referrers() == nil {
			continue
		}
		for _, r2 := range *sl.Referrers() {
			ci, ok := r2.(ssa.CallInstruction)
			if !ok {
				continue
			}
			cc := ci.Common()
			if b, isB := cc.Value.(*ssa.Builtin); isB && b.Name() == "append" {
				return "append"
			}
			if h := cc.StaticCallee(); h != nil && h.Blocks != nil && !cc.IsInvoke() && len(h.Params) > 0 && h.Signature.Variadic() {
				if paramStored(h.Params[len(h.Params)-1], 1) {
					res = "callee"
				}
			}
		}
	}
	return res
}
