// c4echeck decides the structural clauses of the c4e-chain properties C01..C20
// from /repo's current source. See /verif/DESIGN.md.
package main

import (
	"encoding/json"
	"flag"
	"fmt"
	"os"
	"runtime/debug"
	"sort"
	"strconv"
)

type propFunc func(w *World, r *Report)

var props = map[string]propFunc{}

func register(id string, f propFunc) { props[id] = f }

func main() {
	prop := flag.String("prop", "", "property id (C01..C20)")
	tier := flag.String("tier", "quick", "quick|thorough")
	repo := flag.String("repo", "/repo", "repository to analyse")
	verif := flag.String("verif", "/verif", "verif directory (evidence, known findings)")
	out := flag.String("out", "", "directory receiving evidence/ and replay/ (default: the verif directory)")
	explain := flag.String("explain", "", "re-print a replay file against the current tree")
	list := flag.Bool("list", false, "list properties")
	dump := flag.String("dump", "", "debug: dump SSA of an anchor")
	freeze := flag.Bool("freeze-names", false, "print renames_frozen.go (names and signatures of the unexported functions of the analysed tree)")
	flag.Parse()

	if *list {
		var ids []string
		for id := range props {
			ids = append(ids, id)
		}
		sort.Strings(ids)
		for _, id := range ids {
			fmt.Println(id)
		}
		return
	}
	if *explain != "" {
		b, err := os.ReadFile(*explain)
		if err != nil {
			fmt.Fprintln(os.Stderr, err)
			os.Exit(2)
		}
		var obls []Obligation
		json.Unmarshal(b, &obls)
		for _, o := range obls {
			fmt.Printf("%s %s rule=%s construct=%q\n    %s\n", o.Status, o.Pos, o.Rule, o.Construct, o.Detail)
		}
		fmt.Println("re-run ./check", *prop, *tier, "to decide the same rules on the current tree")
		return
	}
	if *out == "" {
		*out = *verif
	}
	var seed int64
	if s := os.Getenv("VERIF_SEED"); s != "" {
		seed, _ = strconv.ParseInt(s, 10, 64)
	}
	f, ok := props[*prop]
	if !ok && *dump == "" {
		fmt.Fprintf(os.Stderr, "unknown property %q\n", *prop)
		os.Exit(2)
	}
	w, err := LoadWorld(*repo, *tier)
	if err != nil {
		// a checker that cannot see the program must not pass
		fmt.Printf("UNDECIDED rule=infra.undecided: %v\n", err)
		fmt.Printf("VIOLATION property=%s replay=%s rule=infra.undecided\n", *prop, "none")
		writeFailEvidence(*out, *prop, *tier, seed, err.Error())
		os.Exit(1)
	}
	if *freeze {
		w.dumpFrozenNames()
		return
	}
	if *dump != "" {
		fn := w.Func(*dump)
		if fn == nil {
			fmt.Println("anchor not found")
			os.Exit(2)
		}
		fn.WriteTo(os.Stdout)
		for _, a := range fn.AnonFuncs {
			a.WriteTo(os.Stdout)
		}
		return
	}
	fmt.Printf("loaded %d packages (%d module, %d production scope), %d module functions, %d captured locals promoted; load %.1fs ssa %.1fs\n",
		len(w.All), len(w.ModAll), len(w.Mod), w.NFuncs, w.Promoted, w.LoadS, w.SSAS)
	for _, rn := range w.Renamed {
		fmt.Println("renamed helper recognised by package, receiver and signature:", rn)
	}
	r := NewReport(*prop, *tier, w)
	func() {
		defer func() {
			if e := recover(); e != nil {
				r.Unk("infra.undecided", "checker panic", "", fmt.Sprintf("%v\n%s", e, debug.Stack()))
			}
		}()
		f(w, r)
	}()
	os.Exit(r.Finish(*verif, *out, seed))
}

func writeFailEvidence(verif, prop, tier string, seed int64, msg string) {
	ev := map[string]interface{}{
		"property_id": prop, "tier": tier, "seed": seed, "level": "other", "wall_s": 0.0, "violations": 1,
		"coverage": map[string]interface{}{"explanation": "the program could not be loaded: " + msg, "evaluations": 1, "distinct_nontrivial": 0},
	}
	b, _ := json.MarshalIndent(ev, "", " ")
	os.MkdirAll(verif+"/evidence", 0o755)
	os.WriteFile(verif+"/evidence/"+prop+".json", b, 0o644)
}
