package main

import (
	"fmt"
	"go/token"
	"go/types"
	"os"
	"path/filepath"
	"sort"
	"strings"

	"golang.org/x/tools/go/packages"
	"golang.org/x/tools/go/ssa"
	"golang.org/x/tools/go/ssa/ssautil"
)

func init() { register("C11", checkC11) }

type ndSite struct {
	fn    *ssa.Function
	instr ssa.Instruction
	kind  string // maprange | wallclock | random | env | goroutine | select | reflectmap | syncmap | globalwrite | float
	what  string
	ok    bool   // recognised as harmless
	why   string // reason when ok / detail when not
}

func isTelemetryCall(in ssa.Instruction) bool {
	ci, ok := in.(ssa.CallInstruction)
	if !ok {
		return false
	}
	n := callName(ci.Common())
	return strings.Contains(n, "cosmos-sdk/telemetry.") || strings.Contains(n, "go-metrics")
}

// flowsOnlyToTelemetry: every (transitive, through conversions and variadic slices) use of v is an argument of a telemetry call.
func flowsOnlyToTelemetry(v ssa.Value, depth int) bool {
	if depth > 6 {
		return false
	}
	refs := v.Referrers()
	if refs == nil {
		return true
	}
	for _, ref := range *refs {
		switch x := ref.(type) {
		case *ssa.DebugRef:
			continue
		case *ssa.Convert:
			if !flowsOnlyToTelemetry(x, depth+1) {
				return false
			}
		case *ssa.ChangeType:
			if !flowsOnlyToTelemetry(x, depth+1) {
				return false
			}
		case *ssa.MakeInterface:
			if !flowsOnlyToTelemetry(x, depth+1) {
				return false
			}
		case *ssa.BinOp:
			if !flowsOnlyToTelemetry(x, depth+1) {
				return false
			}
		case ssa.CallInstruction:
			if !isTelemetryCall(x) {
				return false
			}
		default:
			return false
		}
	}
	return true
}

// loopBlocks returns the blocks of the natural loop with the given header (blocks that can reach the header
// without leaving through it, and are dominated by it).
func loopBlocks(header *ssa.BasicBlock) map[*ssa.BasicBlock]bool {
	in := map[*ssa.BasicBlock]bool{header: true}
	var stack []*ssa.BasicBlock
	for _, p := range header.Preds {
		if header.Dominates(p) && p != header {
			stack = append(stack, p)
		}
	}
	for len(stack) > 0 {
		b := stack[len(stack)-1]
		stack = stack[:len(stack)-1]
		if in[b] {
			continue
		}
		in[b] = true
		for _, p := range b.Preds {
			if header.Dominates(p) {
				stack = append(stack, p)
			}
		}
	}
	return in
}

// mapRangeVerdict decides whether a range over a map is order-insensitive.
func mapRangeVerdict(rg *ssa.Range) (bool, string) {
	fn := rg.Parent()
	// the loop header is the block holding the Next instruction
	var next *ssa.Next
	for _, ref := range *rg.Referrers() {
		if n, ok := ref.(*ssa.Next); ok {
			next = n
		}
	}
	if next == nil {
		return false, "range without next"
	}
	blocks := loopBlocks(next.Block())
	// early exits (return / break paths) inside the body are part of the loop's behaviour too:
	// every block dominated by the body entry
	if i := blockIf(next.Block()); i != nil && len(next.Block().Succs) == 2 {
		body := next.Block().Succs[0]
		for _, b := range fn.Blocks {
			if body.Dominates(b) {
				blocks[b] = true
			}
		}
	}
	// iteration-dependent values: extracts of next, and what is computed from them inside the loop
	iter := map[ssa.Value]bool{}
	for _, ref := range *next.Referrers() {
		if ex, ok := ref.(*ssa.Extract); ok && ex.Index > 0 {
			iter[ex] = true
		}
	}
	changed := true
	for changed {
		changed = false
		for b := range blocks {
			for _, in := range b.Instrs {
				// data flowing through memory: a store of an iteration-dependent value taints the local it lands in
				if st, isSt := in.(*ssa.Store); isSt && iter[st.Val] {
					if a, isA := addrRootAlloc(st.Addr); isA && !iter[a] {
						iter[a] = true
						changed = true
					}
				}
				v, ok := in.(ssa.Value)
				if !ok || iter[v] {
					continue
				}
				var ops []*ssa.Value
				for _, op := range in.Operands(ops) {
					if op != nil && *op != nil && iter[*op] {
						if _, isPhi := in.(*ssa.Phi); isPhi && in.Block() == next.Block() {
							continue
						}
						iter[v] = true
						changed = true
						break
					}
				}
			}
		}
	}
	var appendTargets []*ssa.Phi // slices grown inside the loop (loop-carried at the header)
	for b := range blocks {
		for _, in := range b.Instrs {
			switch x := in.(type) {
			case *ssa.MapUpdate, *ssa.Lookup, *ssa.BinOp, *ssa.UnOp, *ssa.If, *ssa.Jump, *ssa.Next, *ssa.Extract, *ssa.Phi,
				*ssa.FieldAddr, *ssa.Field, *ssa.IndexAddr, *ssa.Index, *ssa.Convert, *ssa.ChangeType, *ssa.MakeInterface, *ssa.Slice, *ssa.Alloc, *ssa.DebugRef, *ssa.TypeAssert:
				continue
			case *ssa.Return:
				for _, rv := range x.Results {
					if iter[rv] {
						return false, "a value that depends on the iteration variable is returned from inside the loop: the first matching key in the runtime's random order wins"
					}
					if o, ok := rv.(*ssa.Call); ok {
						var ops []*ssa.Value
						for _, op := range o.Operands(ops) {
							if op != nil && iter[*op] {
								return false, "a value built from the iteration variable is returned from inside the loop"
							}
						}
					}
				}
				continue
			case *ssa.Store:
				// stores into locals that are only indexed by the key (handled as MapUpdate) are fine; others are order-sensitive
				if _, isAlloc := x.Addr.(*ssa.Alloc); isAlloc && !iter[x.Val] {
					continue
				}
				if fa, ok := x.Addr.(*ssa.IndexAddr); ok {
					if _, isAlloc := fa.X.(*ssa.Alloc); isAlloc {
						continue // varargs array for a call
					}
				}
				return false, "a store inside the loop depends on the iteration order"
			case *ssa.Call:
				if b, ok := x.Common().Value.(*ssa.Builtin); ok {
					switch b.Name() {
					case "len", "cap", "delete":
						continue
					case "append":
						// collected: must be sorted before use
						for _, ref := range *x.Referrers() {
							if phi, ok := ref.(*ssa.Phi); ok && phi.Block() == next.Block() {
								appendTargets = append(appendTargets, phi)
							}
						}
						continue
					}
				}
				// calls whose result is iteration-dependent and returned / stored are caught above; any other call is conservatively order-sensitive
				n := callName(x.Common())
				pure := hasSuffixAny(n, ".String", "types.NewModuleAddress", "fmt.Sprintf", "strings.ToLower", "strings.ToUpper", "types.AccAddress.String")
				if pure {
					continue
				}
				return false, "call of " + shortCallee(n) + " inside the loop: effects or errors would follow the runtime's random order"
			default:
				return false, fmt.Sprintf("unrecognised instruction %T inside a map range", in)
			}
		}
	}
	// slices collected from the map must be sorted before any other use
	for _, phi := range appendTargets {
		var sortCall ssa.Instruction
		for _, ref := range *phi.Referrers() {
			if c, ok := ref.(*ssa.Call); ok && strings.HasPrefix(callName(c.Common()), "sort.") {
				sortCall = c
			}
			// sort.Sort(T(slice)) / sort.Slice(slice, less)
			if cv, ok := ref.(ssa.Value); ok {
				if _, isConv := ref.(*ssa.ChangeType); isConv || isMakeIface(ref) {
					for _, r2 := range *cv.Referrers() {
						if c, ok := r2.(*ssa.Call); ok && strings.HasPrefix(callName(c.Common()), "sort.") {
							sortCall = c
						}
					}
				}
			}
		}
		if sortCall == nil {
			return false, "keys or values are collected into a slice in map order and never sorted"
		}
		for _, ref := range *phi.Referrers() {
			in := ref.(ssa.Instruction)
			if blocks[in.Block()] || in == sortCall {
				continue
			}
			if _, isConv := ref.(*ssa.ChangeType); isConv || isMakeIface(ref) {
				continue
			}
			if !instrDominates(sortCall, in) {
				return false, "a slice collected in map order is used before it is sorted"
			}
		}
	}
	_ = fn
	if len(appendTargets) > 0 {
		return true, "keys collected and sorted before use"
	}
	return true, "body only inserts into maps / tests membership"
}

// addrRootAlloc follows field and index addressing down to the local the address points into.
func addrRootAlloc(v ssa.Value) (*ssa.Alloc, bool) {
	for i := 0; i < 8; i++ {
		switch x := v.(type) {
		case *ssa.Alloc:
			return x, true
		case *ssa.FieldAddr:
			v = x.X
		case *ssa.IndexAddr:
			v = x.X
		default:
			return nil, false
		}
	}
	return nil, false
}

func isMakeIface(in ssa.Instruction) bool {
	_, ok := in.(*ssa.MakeInterface)
	return ok
}

// nondetSites enumerates the nondeterminism sources in the given functions.
func nondetSites(fns []*ssa.Function) []ndSite {
	var out []ndSite
	for _, fn := range fns {
		for _, b := range fn.Blocks {
			for _, in := range b.Instrs {
				if x, isCall := in.(*ssa.Call); isCall {
					// a byte slice handed out by a store's Get belongs to the store stack (the caches of the cache-wrapped
					// branches, the tree's node cache): writing INTO it changes state outside the transactional branch,
					// and a branch that is discarded later (simulation, a failing later message) leaves the change in
					// this process's memory only
					if cc := x.Common(); cc.IsInvoke() && cc.Method.Name() == "Get" && strings.HasSuffix(typeString(cc.Value.Type()), "KVStore") || !cc.IsInvoke() && strings.HasSuffix(callName(cc), "prefix.Store.Get") {
						if wr := writeInto(x); wr != nil {
							out = append(out, ndSite{fn, wr, "storebuf", "write into the byte slice returned by a store's Get", false, "the buffer a store hands out is written in place: the change lives in process-local caches, outside the transactional branch, and survives a discarded branch on this replica only"})
						}
					}
				}
				switch x := in.(type) {
				case *ssa.Range:
					if _, isMap := x.X.Type().Underlying().(*types.Map); isMap {
						ok, why := mapRangeVerdict(x)
						out = append(out, ndSite{fn, in, "maprange", "range over " + shortType(x.X.Type()), ok, why})
					}
				case *ssa.Go:
					out = append(out, ndSite{fn, in, "goroutine", "go statement", false, "a goroutine is started on a consensus path"})
				case *ssa.Select:
					out = append(out, ndSite{fn, in, "select", "select statement", false, "select chooses among ready channels nondeterministically"})
				case *ssa.Store:
					if g, ok := x.Addr.(*ssa.Global); ok {
						out = append(out, ndSite{fn, in, "globalwrite", "write to package variable " + g.Name(), false, "process-local state written on a consensus path"})
					}
					if f := keeperHeldRoot(x.Addr); f != "" {
						out = append(out, ndSite{fn, in, "keeperstate", "write to memory held by " + f, false, "memory that outlives the call (reached through a pointer, map or slice field of a keeper) is written on a consensus path: process-local state that is not part of the store and is not rolled back with it"})
					}
				case *ssa.MapUpdate:
					if f := keeperHeldRoot(x.Map); f != "" {
						out = append(out, ndSite{fn, in, "keeperstate", "write to map held by " + f, false, "a map held by a keeper is updated on a consensus path: process-local state that is not part of the store"})
					}
				case *ssa.UnOp:
					// a package-level variable initialised from a host-dependent source (var DefaultStartTime = time.Now()):
					// reading it is reading the wall clock of the process start
					if g, isG := x.X.(*ssa.Global); isG && x.Op == token.MUL {
						if src := hostDependentGlobal(g); src != "" {
							ok2 := flowsOnlyToTelemetry(x, 0)
							out = append(out, ndSite{fn, in, "hostglobal", "read of " + g.Name() + " (initialised from " + src + ")", ok2, map[bool]string{true: "the value flows only into telemetry", false: "a package variable that every process initialises for itself (" + src + " at start-up) is read on a consensus path: replicas started at different moments compute with different values"}[ok2]})
						}
					}
				case *ssa.Convert:
					if bt, ok := x.Type().Underlying().(*types.Basic); ok && bt.Info()&types.IsFloat != 0 {
						if st, ok := x.X.Type().Underlying().(*types.Basic); ok && st.Info()&types.IsFloat == 0 {
							ok2 := flowsOnlyToTelemetry(x, 0)
							out = append(out, ndSite{fn, in, "float", "conversion to " + bt.Name(), ok2, map[bool]string{true: "the float value flows only into telemetry", false: "floating point arithmetic feeds something other than telemetry"}[ok2]})
						}
					}
				case ssa.CallInstruction:
					n := callName(x.Common())
					switch {
					case n == "time.Unix" || n == "time.UnixMilli" || n == "time.UnixMicro" || strings.HasSuffix(n, "time.Time.Local") || strings.HasSuffix(n, "time.Time.In") || n == "time.ParseInLocation" || n == "time.Date":
						// a time.Time carrying the host's local zone (or an arbitrary one): harmless as an instant,
						// host-dependent as soon as its calendar fields or its text are used
						if v, isV := in.(ssa.Value); isV {
							if n == "time.Date" || strings.HasSuffix(n, "time.Time.In") || n == "time.ParseInLocation" {
								// only when the location is not the constant UTC
								a := x.Common().Args
								if g, isG := stripLoad(a[len(a)-1]).(*ssa.Global); isG && g.Name() == "UTC" {
									break
								}
								if n == "time.ParseInLocation" {
									if g, isG := stripLoad(a[2]).(*ssa.Global); isG && g.Name() == "UTC" {
										break
									}
								}
							}
							ok, why := zoneInsensitiveUse(v, 0)
							if !ok {
								out = append(out, ndSite{fn, in, "localzone", n, false, "a time in the host's local zone is used zone-sensitively (" + why + "): the result differs between hosts in different time zones; convert with .UTC() first"})
							} else {
								out = append(out, ndSite{fn, in, "localzone", n, true, "used only as an instant (arithmetic, comparison, Unix*) or converted with .UTC() first"})
							}
						}
					case n == "time.Now" || n == "time.Since" || n == "time.Until":
						v, _ := in.(ssa.Value)
						ok := v != nil && flowsOnlyToTelemetry(v, 0)
						out = append(out, ndSite{fn, in, "wallclock", n, ok, map[bool]string{true: "the wall-clock value flows only into telemetry", false: "wall-clock time reaches something other than telemetry"}[ok]})
					case strings.HasPrefix(n, "math/rand.") || strings.HasPrefix(n, "crypto/rand.") || strings.HasPrefix(n, "math/rand/v2."):
						out = append(out, ndSite{fn, in, "random", n, false, "randomness on a consensus path"})
					case n == "os.Getenv" || n == "os.LookupEnv" || n == "os.ReadFile" || n == "os.Hostname" || n == "os.Getpid" || n == "os.Environ" || n == "os.UserHomeDir":
						out = append(out, ndSite{fn, in, "env", n, false, "process environment read on a consensus path"})
					case strings.HasSuffix(n, "reflect.Value.MapKeys") || strings.HasSuffix(n, "reflect.Value.MapRange"):
						out = append(out, ndSite{fn, in, "reflectmap", n, false, "map keys in random order"})
					case strings.HasSuffix(n, "sync.Map.Range"):
						out = append(out, ndSite{fn, in, "syncmap", n, false, "sync.Map iteration order is unspecified"})
					}
				}
			}
		}
	}
	return out
}

func checkC11(w *World, r *Report) {
	cg := w.CG()
	ro := w.Roles()
	r.Undecided = []string{
		"nondeterminism inside the SDK, tendermint and the Go runtime beyond the enumerated sources (trusted)",
		"floating point inside telemetry is not state and is allowed",
	}
	r.Rule("C11.inventory", "P4", "on everything reachable from messages, ValidateBasic, block routines, InitGenesis, migrations and upgrade handlers: every range over a map is order-insensitive (only map inserts / membership tests, or keys collected and sorted before use); wall-clock and float values flow only into telemetry; no randomness, environment reads, goroutines, select, reflect map iteration, sync.Map iteration or writes to package-level variables", 3)
	r.Rule("C11.controls", "selftest", "positive controls: the same detector must report every deliberate instance in /verif/selftest/nondet and stay silent on its harmless twins", 15)
	if !ro.checkFloors(r) {
		return
	}
	roots := append([]*ssa.Function{}, flatten(ro.MSG)...)
	roots = append(roots, flatten(ro.VB)...)
	roots = append(roots, flatten(ro.BLK)...)
	roots = append(roots, flatten(ro.INIT)...)
	roots = append(roots, flatten(ro.MIG)...)
	roots = append(roots, ro.UPG...)
	reach := cg.Reach(roots)
	var fns []*ssa.Function
	for f := range reach {
		if w.isProdFunc(f) {
			fns = append(fns, f)
		}
	}
	sort.Slice(fns, func(i, j int) bool { return funcName(fns[i]) < funcName(fns[j]) })
	r.Analysed["c11_functions"] = len(fns)
	for _, s := range nondetSites(fns) {
		construct := fmt.Sprintf("%s @ %s : %s", s.kind, funcName(s.fn), s.what)
		pos := w.Pos(s.instr.Pos())
		if !s.instr.Pos().IsValid() {
			pos = w.Pos(s.fn.Pos())
		}
		if s.ok {
			r.OK("C11.inventory", construct, pos, s.why)
		} else {
			r.Bad("C11.inventory", construct, pos, s.why+"; reached via "+PathTo(reach, s.fn))
		}
	}
	c11Controls(w, r)
}

// c11Controls loads the positive-control package and runs the same detector on it.
func c11Controls(w *World, r *Report) {
	exe, _ := os.Executable()
	dir := filepath.Join(filepath.Dir(filepath.Dir(exe)), "selftest", "nondet")
	if _, err := os.Stat(dir); err != nil {
		dir = "/verif/selftest/nondet"
	}
	cfg := &packages.Config{Mode: packages.LoadAllSyntax, Dir: dir, Env: append(os.Environ(), "GOFLAGS=-mod=mod", "GOPROXY=off", "GOWORK=off", "GOTOOLCHAIN=local")}
	pkgs, err := packages.Load(cfg, ".")
	if err != nil || len(pkgs) != 1 || len(pkgs[0].Errors) > 0 {
		r.Unk("C11.controls", "load of the control package", "", fmt.Sprintf("cannot load %s: %v", dir, err))
		return
	}
	prog, spkgs := ssautil.AllPackages(pkgs, 0)
	_ = prog
	sp := spkgs[0]
	sp.Build()
	var fns []*ssa.Function
	for _, m := range sp.Members {
		if f, ok := m.(*ssa.Function); ok && f.Blocks != nil && token.IsExported(f.Name()) {
			fns = append(fns, f)
			fns = append(fns, f.AnonFuncs...)
		}
	}
	sort.Slice(fns, func(i, j int) bool { return fns[i].Name() < fns[j].Name() })
	got := map[string]string{}
	for _, s := range nondetSites(fns) {
		name := s.fn.Name()
		if s.fn.Parent() != nil {
			name = s.fn.Parent().Name()
		}
		v := "silent"
		if !s.ok {
			v = "reported:" + s.kind
		}
		if prev, ok := got[name]; !ok || prev == "silent" {
			got[name] = v
		}
	}
	want := map[string]string{
		"MapOrderDependent": "reported:maprange", "MapOrderAppend": "reported:maprange", "MapSortedOK": "silent", "MapCopyOK": "silent",
		"WallClock": "reported:wallclock", "MathRand": "reported:random", "CryptoRand": "reported:random", "Env": "reported:env",
		"Goroutine": "reported:goroutine", "Select": "reported:select", "ReflectKeys": "reported:reflectmap", "SyncMap": "reported:syncmap",
		"WriteGlobal": "reported:globalwrite", "Float": "reported:float",
		"LocalZoneText": "reported:localzone", "LocalZoneAddDate": "reported:localzone", "LocalZoneInstantOK": "silent", "LocalZoneUTCOK": "silent",
		"HostGlobal": "reported:hostglobal", "ConstGlobalOK": "nothing found",
		"WriteKeeperCache": "reported:keeperstate", "WriteKeeperMap": "reported:keeperstate", "LocalCopyOK": "nothing found",
	}
	var names []string
	for n := range want {
		names = append(names, n)
	}
	sort.Strings(names)
	for _, n := range names {
		g := got[n]
		if g == "" {
			g = "nothing found"
		}
		r.Check(g == want[n], "C11.controls", "control "+n, "selftest/nondet/control.go", "detector verdict: "+g, "the detector's verdict on the control is '"+g+"', expected '"+want[n]+"': the detector is broken")
	}
}

// keeperHeldRoot follows an address down its FieldAddr / IndexAddr chain; when the chain starts at a pointer, map
// or slice loaded from a field of a keeper-like struct (a named struct called Keeper / msgServer / Migrator /
// queryServer, or any struct of a .../keeper package) it returns "Type.field", else "".
func keeperHeldRoot(addr ssa.Value) string {
	v := addr
	for i := 0; i < 10; i++ {
		switch x := v.(type) {
		case *ssa.FieldAddr:
			v = x.X
			continue
		case *ssa.IndexAddr:
			v = x.X
			continue
		case *ssa.UnOp:
			if x.Op != token.MUL {
				return ""
			}
			// a load: of a keeper's field?
			fa, ok := x.X.(*ssa.FieldAddr)
			if !ok {
				return ""
			}
			named, f := fieldOf(fa)
			if named == nil || named.Obj() == nil || named.Obj().Pkg() == nil {
				return ""
			}
			switch x.Type().Underlying().(type) {
			case *types.Pointer, *types.Map, *types.Slice:
			default:
				return ""
			}
			n := named.Obj().Name()
			if n == "Keeper" || n == "msgServer" || n == "Migrator" || n == "queryServer" || strings.HasSuffix(named.Obj().Pkg().Path(), "/keeper") {
				return n + "." + f
			}
			return ""
		case *ssa.Field:
			// value-receiver keeper: k.cache where k is a struct value
			st, ok := x.X.Type().(*types.Named)
			if !ok || st.Obj() == nil || st.Obj().Pkg() == nil {
				return ""
			}
			switch x.Type().Underlying().(type) {
			case *types.Pointer, *types.Map, *types.Slice:
			default:
				return ""
			}
			n := st.Obj().Name()
			if n == "Keeper" || n == "msgServer" || n == "Migrator" || n == "queryServer" || strings.HasSuffix(st.Obj().Pkg().Path(), "/keeper") {
				if su, ok := st.Underlying().(*types.Struct); ok && x.Field < su.NumFields() {
					return n + "." + su.Field(x.Field).Name()
				}
			}
			return ""
		default:
			return ""
		}
	}
	return ""
}

func stripLoad(v ssa.Value) ssa.Value {
	if u, ok := v.(*ssa.UnOp); ok && u.Op == token.MUL {
		return u.X
	}
	return v
}

// zoneInsensitiveUse follows the uses of a time.Time value (through phis, local variables and the
// location-preserving methods Add, Truncate, Round) and reports whether every use is independent of the
// value's location: arithmetic and comparison of instants, Unix*, IsZero, or a conversion with UTC().
func zoneInsensitiveUse(v ssa.Value, depth int) (bool, string) {
	if depth > 6 {
		return false, "use chain too long"
	}
	refs := v.Referrers()
	if refs == nil {
		return true, ""
	}
	for _, ref := range *refs {
		switch x := ref.(type) {
		case *ssa.DebugRef:
			continue
		case *ssa.Phi:
			if ok, why := zoneInsensitiveUse(x, depth+1); !ok {
				return false, why
			}
		case *ssa.Store:
			// a local variable: follow its loads
			al, isAlloc := x.Addr.(*ssa.Alloc)
			if !isAlloc || x.Val != v {
				return false, "stored into memory"
			}
			for _, r2 := range *al.Referrers() {
				if ld, isLd := r2.(*ssa.UnOp); isLd && ld.Op == token.MUL {
					if ok, why := zoneInsensitiveUse(ld, depth+1); !ok {
						return false, why
					}
				}
			}
		case ssa.CallInstruction:
			n := callName(x.Common())
			m := n[strings.LastIndex(n, ".")+1:]
			isRecv := len(x.Common().Args) > 0 && x.Common().Args[0] == v && strings.Contains(n, "time.Time.")
			if !isRecv {
				// the value is an argument: instants may be compared / subtracted
				if strings.Contains(n, "time.Time.") && (m == "Sub" || m == "Before" || m == "After" || m == "Equal" || m == "Compare") {
					continue
				}
				return false, "passed to " + n
			}
			switch m {
			case "UTC", "Unix", "UnixNano", "UnixMilli", "UnixMicro", "Sub", "Before", "After", "Equal", "Compare", "IsZero", "Nanosecond":
				continue
			case "Add", "Truncate", "Round":
				if val, isV := x.(ssa.Value); isV {
					if ok, why := zoneInsensitiveUse(val, depth+1); !ok {
						return false, why
					}
				}
			default:
				return false, m + "() reads the calendar / clock fields or the text of the local time"
			}
		case *ssa.MakeInterface:
			return false, "formatted or stored as an interface value (its text carries the zone)"
		default:
			return false, "used in " + ref.String()
		}
	}
	return true, ""
}

var hostGlobalCache = map[*ssa.Global]string{}

// hostDependentGlobal: the package initialiser assigns the variable a value computed from a host-dependent source
// (wall clock, randomness, environment); returns the source's name, "" otherwise.
func hostDependentGlobal(g *ssa.Global) string {
	if s, ok := hostGlobalCache[g]; ok {
		return s
	}
	hostGlobalCache[g] = ""
	if g.Pkg == nil {
		return ""
	}
	initf := g.Pkg.Func("init")
	if initf == nil {
		return ""
	}
	var src func(v ssa.Value, d int) string
	src = func(v ssa.Value, d int) string {
		if d > 8 || v == nil {
			return ""
		}
		if c, ok := v.(*ssa.Call); ok {
			n := callName(c.Common())
			if n == "time.Now" || strings.HasPrefix(n, "math/rand.") || strings.HasPrefix(n, "crypto/rand.") || n == "os.Getenv" || n == "os.Hostname" || n == "os.Getpid" || n == "os.LookupEnv" {
				return n
			}
		}
		if in, ok := v.(ssa.Instruction); ok {
			for _, op := range in.Operands(nil) {
				if op != nil && *op != nil {
					if s := src(*op, d+1); s != "" {
						return s
					}
				}
			}
		}
		return ""
	}
	for _, b := range initf.Blocks {
		for _, in := range b.Instrs {
			if st, ok := in.(*ssa.Store); ok && st.Addr == ssa.Value(g) {
				if s := src(st.Val, 0); s != "" {
					hostGlobalCache[g] = s
					return s
				}
			}
		}
	}
	return ""
}

// writeInto: an instruction that writes into the backing array of the byte slice v (or a reslice / phi of it): an
// element store, a copy into it, encoding/binary's PutUintN, an append onto a reslice of it.
func writeInto(v ssa.Value) ssa.Instruction {
	seen := map[ssa.Value]bool{}
	var found ssa.Instruction
	var walk func(x ssa.Value, d int)
	walk = func(x ssa.Value, d int) {
		if found != nil || seen[x] || d > 6 || x.Referrers() == nil {
			return
		}
		seen[x] = true
		for _, ref := range *x.Referrers() {
			switch y := ref.(type) {
			case *ssa.Phi:
				walk(y, d+1)
			case *ssa.Slice:
				if y.X == x {
					walk(y, d+1)
				}
			case *ssa.ChangeType:
				walk(y, d+1)
			case *ssa.IndexAddr:
				if y.X == x && y.Referrers() != nil {
					for _, r2 := range *y.Referrers() {
						if st, ok := r2.(*ssa.Store); ok && st.Addr == ssa.Value(y) {
							found = st
							return
						}
					}
				}
			case ssa.CallInstruction:
				cc := y.Common()
				if b, ok := cc.Value.(*ssa.Builtin); ok {
					if (b.Name() == "copy" || b.Name() == "append") && len(cc.Args) > 0 && cc.Args[0] == x {
						if b.Name() == "append" {
							if _, isSl := x.(*ssa.Slice); !isSl {
								continue // append onto the slice itself reallocates or extends past its length only
							}
						}
						found = y
						return
					}
					continue
				}
				n := callName(cc)
				if (strings.Contains(n, "PutUint") || strings.Contains(n, "PutVarint") || strings.Contains(n, "PutUvarint")) && len(cc.Args) > 0 {
					for _, a := range cc.Args {
						if a == x {
							found = y
							return
						}
					}
				}
			}
		}
	}
	walk(v, 0)
	return found
}
