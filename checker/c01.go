package main

import (
	"fmt"
	"go/token"
	"go/types"
	"sort"
	"strings"

	"golang.org/x/tools/go/ssa"
)

func init() { register("C01", checkC01) }

// resolveStrings resolves a string-typed SSA value to the set of constants (or "field:<name>") it may be,
// following parameters to the arguments at every call site (≤ depth levels).
func (w *World) resolveStrings(v ssa.Value, depth int) (vals []string, ok bool) {
	set := map[string]bool{}
	good := true
	var walk func(v ssa.Value, d int)
	walk = func(v ssa.Value, d int) {
		if s, isc := EvalString(v); isc {
			set[s] = true
			return
		}
		switch x := v.(type) {
		case *ssa.Parameter:
			if d <= 0 {
				good = false
				return
			}
			fn := x.Parent()
			idx := -1
			for i, p := range fn.Params {
				if p == x {
					idx = i
				}
			}
			callers := w.CG().Callers[fn]
			if len(callers) == 0 {
				good = false
				return
			}
			for _, cs := range callers {
				args := cs.Common().Args
				if cs.Common().IsInvoke() {
					if idx == 0 {
						good = false
						continue
					}
					args = append([]ssa.Value{nil}, args...)
				}
				if idx < len(args) && args[idx] != nil {
					walk(args[idx], d-1)
				} else {
					good = false
				}
			}
		case *ssa.UnOp:
			if x.Op == token.MUL {
				if fa, isfa := x.X.(*ssa.FieldAddr); isfa {
					_, f := fieldOf(fa)
					set["field:"+f] = true
					return
				}
				if a, isa := x.X.(*ssa.Alloc); isa {
					for _, ref := range *a.Referrers() {
						if st, iss := ref.(*ssa.Store); iss && st.Addr == a {
							walk(st.Val, d)
						}
					}
					return
				}
			}
			good = false
		case *ssa.Field:
			set["field:"+strings.TrimPrefix(fieldElem(x.X.Type(), x.Field), ".")] = true
		case *ssa.Phi:
			for _, e := range x.Edges {
				walk(e, d)
			}
		default:
			good = false
		}
	}
	walk(v, depth)
	for s := range set {
		vals = append(vals, s)
	}
	sort.Strings(vals)
	return vals, good
}

func constOf(w *World, pkgRel, name string) (string, bool) {
	p := w.TPkg(pkgRel)
	if p == nil {
		return "", false
	}
	c, ok := p.Types.Scope().Lookup(name).(*types.Const)
	if !ok {
		return "", false
	}
	return strings.Trim(c.Val().ExactString(), "\""), true
}

// bankModuleArgs: for a bank atom site, the string arguments (module names), resolved.
func (w *World) bankStringArgs(s *Site) [][]string {
	var out [][]string
	for _, a := range s.Args() {
		if b, ok := a.Type().Underlying().(*types.Basic); ok && b.Kind() == types.String {
			v, ok := w.resolveStrings(a, 3)
			if !ok {
				v = append(v, "?")
			}
			out = append(out, v)
		}
	}
	return out
}

func coinsArg(s *Site) ssa.Value {
	for _, a := range s.Args() {
		if isCoinsType(a.Type()) {
			return a
		}
	}
	return nil
}

func inCycle(b *ssa.BasicBlock) bool {
	seen := map[*ssa.BasicBlock]bool{}
	var stack []*ssa.BasicBlock
	stack = append(stack, b.Succs...)
	for len(stack) > 0 {
		x := stack[len(stack)-1]
		stack = stack[:len(stack)-1]
		if x == b {
			return true
		}
		if seen[x] {
			continue
		}
		seen[x] = true
		stack = append(stack, x.Succs...)
	}
	return false
}

func checkC01(w *World, r *Report) {
	cg := w.CG()
	ro := w.Roles()
	r.Undecided = []string{
		"the arithmetic value of the minted and burned amounts (C02 / C03 decide their structural conditions)",
		"bank's own invariant supply == sum of balances (trusted SDK semantics)",
	}
	r.Rule("C01.confine", "P2,P3,P4", "BANK.mint is reachable only from cfeminter's BeginBlock tree and BANK.burn only from cfedistributor's; no message, query, ValidateBasic, genesis, migration, upgrade or invariant entry point reaches either", 2)
	r.Rule("C01.iface", "P8", "the expected-keeper interfaces of cfevesting and cfesignature contain no supply-changing or delegation method, and neither module imports a concrete bank keeper", 4)
	r.Rule("C01.errprop", "P5", "= C05.errprop: on the vesting message trees a failed bank call ends the message with an error (a bank send that fails may have debited some denominations already: only the rollback of the whole message keeps balances and supply together; retrying or continuing after the failure does not)", 10)
	r.Rule("C01.parties", "P6", "closed world: the accounts between which a cfevesting / cfesignature message moves coins are named by the message itself (addresses parsed from its fields) or are the module's own account - never an address obtained from another keeper, the store or the chain state", 4)
	r.Rule("C01.moveonly", "P4", "every bank atom reachable from a cfevesting / cfesignature message is a move or a read, and module-name arguments of moves are the module's own constant", 5)
	r.Rule("C01.mint1", "P5,P6", "in the minting routine: one mint per activation, not in a loop; the coins minted, the coins forwarded to the collector and the amount added to AmountMinted are the same value; module names are cfeminter -> collector; the collector passed in app.New is the distributor's main account; state is updated only on the success edges of mint and forward", 6)
	r.Rule("C01.sameshape", "P7", "= C12.sameshape for State.Account: the configured burn is carried out whatever shape the burn state's unused Account field has (nil after import / migration, empty when created at run time); otherwise the burn share is booked but supply does not fall", 1)
	r.Rule("C01.abort", "P5", "on the minter's block tree every call that mints or forwards coins (directly or below it) has its failure edge end in an error return or, at the block routine, in a panic: a half-done mint is never committed", 4)
	r.Rule("C01.wrapper", "P4,P6", "= C14.wrapper: the distributor's burn and transfer wrappers pass amount, account and result through unchanged (a burn of more than what its caller books would shrink supply beyond the configured share)", 4)
	r.Rule("C01.success", "P5", "= C14.success: a pay-out is booked out of a destination's state only on the success edge of its bank call; coins booked out although they stayed in the main account come back as fresh inflow in the next block and are put through the sub-distributors - and their burn share - a second time: supply falls by more than the configured share", 9)
	r.Rule("C01.handover", "P7", "= C02.boundaries (hand-over rows): a period is closed, and its successor started at the period's EndTime, exactly when the block time is not before that EndTime (ordering table over the two instants as time values); a hand-over decided in another unit or with another comparison closes a period early and the emission between the block time and the EndTime is never minted", 4)
	r.Rule("C01.inflow", "P6", "= C03.inflow: the amount the burn share is a fraction of is the main account's current balance minus the current sum of all recorded remains; an inflow inflated by coins counted twice burns more than the configured share", 3)
	r.Rule("C01.sweep", "P5,P6,P7", "= C14.sweep: a source's pending coins and what is swept from it are handed on together or not at all - coins whose books were cleared although the sweep failed come back as fresh main inflow and pay the burn share a second time", 7)
	r.Rule("C01.burn1", "P5,P6", "the burn is reached only under the true edge of State.Burn; the burned coins are result #0 of state.Remains.TruncateDecimal(), the account is DistributorMainAccount, and state.Remains is overwritten with result #1 of the same call only on the success edge", 5)
	r.Rule("C01.select", "P7", "= C02.select: the amount minted in a block is the schedule of the CURRENT period counted from its predecessor's end; both are selected by sequence id over all configured periods (a selection by list position mints off schedule for accepted lists in another order)", 18)
	if !ro.checkFloors(r) {
		return
	}

	// ---------- C01.confine ----------
	type entrySet struct {
		name  string
		roots []*ssa.Function
	}
	sets := []entrySet{
		{"MSG", flatten(ro.MSG)}, {"QRY", flatten(ro.QRY)}, {"VB", flatten(ro.VB)},
		{"GEN.init", flatten(ro.INIT)}, {"GEN.export", flatten(ro.EXPORT)}, {"GEN.validate", flatten(ro.VALGEN)},
		{"MIG", flatten(ro.MIG)}, {"UPG", ro.UPG}, {"INV", flatten(ro.INV)},
		{"BLK.cfevesting", ro.BLK["cfevesting"]}, {"BLK.cfesignature", ro.BLK["cfesignature"]},
	}
	reach := map[string]map[*ssa.Function]*ssa.Function{}
	for _, es := range sets {
		reach[es.name] = cg.Reach(es.roots)
	}
	reachMint := cg.Reach(ro.BLK["cfeminter"])
	reachDist := cg.Reach(ro.BLK["cfedistributor"])
	var mintSites, burnSites []*Site
	for _, f := range w.ProdFuncs() {
		for _, s := range cg.Sites[f] {
			switch cg.Atom(s) {
			case BankMint:
				mintSites = append(mintSites, s)
			case BankBurn:
				burnSites = append(burnSites, s)
			}
		}
	}
	for _, kind := range []struct {
		atom    string
		sites   []*Site
		allowed map[*ssa.Function]*ssa.Function
		aname   string
		other   map[*ssa.Function]*ssa.Function
		oname   string
	}{{BankMint, mintSites, reachMint, "cfeminter BeginBlock", reachDist, "cfedistributor BeginBlock"}, {BankBurn, burnSites, reachDist, "cfedistributor BeginBlock", reachMint, "cfeminter BeginBlock"}} {
		if len(kind.sites) == 0 {
			r.Bad("C01.confine", kind.atom+" : (no site)", "", "no "+kind.atom+" site found in the module: the rule no longer sees the construct it was written for")
		}
		for _, s := range kind.sites {
			construct := fmt.Sprintf("%s in %s", kind.atom, funcName(s.Caller))
			bad := false
			for _, es := range sets {
				if _, ok := reach[es.name][s.Caller]; ok {
					bad = true
					r.Bad("C01.confine", construct+" reachable from "+es.name, w.Pos(s.Instr.Pos()), "supply-changing call reachable from entry set "+es.name+": "+PathTo(reach[es.name], s.Caller))
				}
			}
			if _, ok := kind.other[s.Caller]; ok {
				bad = true
				r.Bad("C01.confine", construct+" reachable from "+kind.oname, w.Pos(s.Instr.Pos()), "reachable from the wrong block routine: "+PathTo(kind.other, s.Caller))
			}
			if _, ok := kind.allowed[s.Caller]; !ok {
				// unreachable supply-changing code is suspicious but harmless; count it as enumeration
				r.Enum("C01.confine", construct+" (not reachable from any block routine)", w.Pos(s.Instr.Pos()), "dead code with respect to the entry sets")
			} else if !bad {
				r.OK("C01.confine", construct, w.Pos(s.Instr.Pos()), "reachable only from "+kind.aname+": "+PathTo(kind.allowed, s.Caller))
			}
		}
	}

	// ---------- C01.iface ----------
	forbidden := func(name string) bool {
		return name == "MintCoins" || name == "BurnCoins" || strings.Contains(name, "Delegate") || strings.Contains(name, "Undelegate") ||
			name == "SetSupply" || name == "SetBalance" || name == "SetBalances" || name == "InputOutputCoins" || name == "InitGenesis"
	}
	for _, m := range []string{"cfevesting", "cfesignature"} {
		tp := w.TPkg("x/" + m + "/types")
		for _, in := range []string{"BankKeeper", "AccountKeeper"} {
			iface := lookupIface(tp.Types, in)
			if iface == nil {
				if in == "BankKeeper" && m == "cfesignature" {
					r.OK("C01.iface", m+": types."+in+" (absent)", "", "the module has no bank keeper interface at all")
					continue
				}
				r.Unk("infra.anchor", "x/"+m+"/types."+in, "", "interface not found")
				continue
			}
			var bad []string
			for i := 0; i < iface.NumMethods(); i++ {
				if forbidden(iface.Method(i).Name()) {
					bad = append(bad, iface.Method(i).Name())
				}
			}
			r.Check(len(bad) == 0, "C01.iface", m+": types."+in+" method set", w.Pos(tp.Types.Scope().Lookup(in).Pos()),
				fmt.Sprintf("%d methods, none supply-changing or delegating", iface.NumMethods()), "interface offers "+strings.Join(bad, ", "))
		}
		// imports of a concrete bank keeper in production packages of the module
		for _, p := range w.Mod {
			if !strings.HasPrefix(p.PkgPath, modPath+"/x/"+m) {
				continue
			}
			for imp := range p.Imports {
				if strings.HasSuffix(imp, "x/bank/keeper") {
					// only files in production scope
					for _, f := range p.Syntax {
						fname := w.Fset.Position(f.Pos()).Filename
						if isSimulationFile(fname) || isGeneratedFile(fname) {
							continue
						}
						for _, is := range f.Imports {
							if strings.Trim(is.Path.Value, "\"") == imp {
								r.Bad("C01.iface", m+": import of "+imp+" in "+p.PkgPath, w.Pos(is.Pos()), "production code of "+m+" imports a concrete bank keeper")
							}
						}
					}
				}
			}
		}
	}

	// ---------- C01.moveonly ----------
	for _, m := range []string{"cfevesting", "cfesignature"} {
		modName, _ := constOf(w, "x/"+m+"/types", "ModuleName")
		rs := cg.Reach(ro.MSG[m])
		for _, s := range cg.SitesIn(rs) {
			a := cg.Atom(s)
			if !strings.HasPrefix(a, "BANK.") {
				continue
			}
			construct := fmt.Sprintf("%s: %s %s in %s", m, a, s.Method, funcName(s.Caller))
			switch a {
			case BankMove:
				okNames := true
				detail := ""
				for _, names := range w.bankStringArgs(s) {
					for _, n := range names {
						if n != modName {
							okNames = false
						}
					}
					detail += strings.Join(names, "|") + " "
				}
				if strings.Contains(s.Method, "Delegate") {
					okNames = false
					detail += "(delegation)"
				}
				r.Check(okNames, "C01.moveonly", construct, w.Pos(s.Instr.Pos()), "transfer; module-name arguments: "+detail, "transfer names a module account other than the module's own: "+detail)
			case BankRead:
				r.Enum("C01.moveonly", construct, w.Pos(s.Instr.Pos()), "read")
			default:
				r.Bad("C01.moveonly", construct, w.Pos(s.Instr.Pos()), "message tree of "+m+" reaches a supply-changing bank call: "+PathTo(rs, s.Caller))
			}
		}
	}

	// ---------- C01.errprop ----------
	shareRule(w, r, checkC05, "C05.errprop", "C01.errprop", nil)
	// ---------- C01.select ----------
	minterSelectRule(w, r, "C01.select")
	// ---------- C01.parties ----------
	for _, m := range []string{"cfevesting", "cfesignature"} {
		rs := cg.Reach(ro.MSG[m])
		for _, s := range cg.SitesIn(rs) {
			if cg.Atom(s) != BankMove {
				continue
			}
			for i, a := range s.Args() {
				if typeString(a.Type()) != tAddr {
					continue
				}
				t := w.Tracer()
				t.Lift = 4
				t.NoIndex = true
				t.LiftFilter = func(f *ssa.Function) bool { _, ok := rs[f]; return ok }
				o := t.Origins(a)
				bad := ""
				named := false
				for _, l := range o.Leaves {
					switch l.Kind {
					case "const":
					case "param":
						if isCtxOrKeeper(l.V) {
							continue
						}
						// a field of the message handed to the handler (or a plain string / address parameter of an entry)
						named = true
					case "call":
						c, _ := l.V.(*ssa.Call)
						n := ""
						if c != nil {
							n = callName(c.Common())
						}
						if hasSuffixAny(n, "types.AccAddressFromBech32", "types.MustAccAddressFromBech32", "types.AccAddress.String", "types.UnwrapSDKContext") || strings.Contains(n, "cosmos-sdk/types.Context.") {
							continue
						}
						if hasSuffixAny(n, "auth/types.NewModuleAddress") && c != nil && len(c.Common().Args) == 1 {
							// the module's own account only
							own, _ := constOf(w, "x/"+m+"/types", "ModuleName")
							if sv, ok := EvalString(c.Common().Args[0]); ok && sv == own {
								named = true
								continue
							}
						}
						bad = shortCallee(n)
					default:
						bad = l.String()
					}
				}
				construct := fmt.Sprintf("%s: party #%d of %s in %s", m, i, s.Method, funcName(s.Caller))
				r.Check(bad == "" && named, "C01.parties", construct, w.Pos(s.Instr.Pos()), "the address is parsed from the message", "coins move to or from an account that the message does not name: the address comes from "+bad+" - vesting operations may only move coins between the sender, the module account and the recipient named in the message")
			}
		}
	}

	if w.Tier == "thorough" {
		r.Rule("C01.closedworld", "P3 (VTA, whole program)", "thorough tier: through the SDK's own code as well (whole-program VTA call graph), no custom message, query, ValidateBasic or genesis-validation entry reaches bank MintCoins/BurnCoins/setSupply; the block routines do (positive controls)", 9)
		closedWorldSupply(w, r, "C01.closedworld")
	}
	// ---------- C01.mint1 ----------
	c01mint(w, r, mintSites)
	wrapperRule(w, r, "C01.wrapper")
	successRule(w, r, "C01.success")
	sweepRule(w, r, "C01.sweep")
	shareRule(w, r, checkC03, "C03.inflow", "C01.inflow", nil)
	shareRule(w, r, checkC02, "C02.boundaries", "C01.handover", func(o Obligation) bool { return strings.HasPrefix(o.Construct, "hand-over") })
	// ---------- C01.abort ----------
	// the minting routine is not atomic (mint, forward, then book-keeping): an error anywhere after the mint must
	// discard the block's writes, i.e. propagate as an error and end in a panic at the block routine
	{
		isEff := func(x *Site) bool { a := cg.Atom(x); return a == BankMint || a == BankMove }
		for fn := range cg.Reach(ro.BLK["cfeminter"]) {
			for _, s := range cg.Sites[fn] {
				below := isEff(s)
				for _, c := range s.Callees {
					if len(cg.targetsBelow(c, isEff, map[*ssa.Function]bool{})) > 0 {
						below = true
					}
				}
				if !below {
					continue
				}
				v := siteValue(s)
				if v == nil {
					continue
				}
				ev := errValues(fn, v)
				if len(ev) == 0 {
					continue
				}
				fail := NilEdges(fn, ev, false)
				returned := false
				for _, ret := range Returns(fn) {
					rv := retVals(ret)
					if len(rv) > 0 && ev[rv[len(rv)-1]] {
						returned = true
					}
				}
				ok := len(fail) > 0 || returned
				for _, e := range fail {
					if !FailsFrom(e.To()) && !allReturnsCarry(fn, e.To(), ev) {
						ok = false
					}
				}
				r.Check(ok, "C01.abort", funcName(fn)+": error of "+s.CalleeName()+" aborts the block", w.Pos(s.Instr.Pos()), "the failure edge ends in an error return or a panic on every path", "a failure after coins may already have been minted is swallowed: the block commits minted coins that the minter state does not record, and the next block mints them again")
			}
		}
	}
	// ---------- C01.sameshape ----------
	for _, nf := range w.mayBeNilFields(flatten(ro.EXPORT)) {
		if nf.Field != "Account" {
			continue
		}
		w.checkSameShape(r, "C01.sameshape", nf, ro.BLK["cfedistributor"])
	}
	// ---------- C01.burn1 ----------
	c01burn(w, r, burnSites)
}

func c01mint(w *World, r *Report, mintSites []*Site) {
	cg := w.CG()
	mintFn := w.Func("x/cfeminter/keeper.Keeper.mint")
	if mintFn == nil {
		r.Unk("infra.anchor", "x/cfeminter/keeper.Keeper.mint", "", "anchor not found")
		return
	}
	minterMod, _ := constOf(w, "x/cfeminter/types", "ModuleName")
	mainAcc, _ := constOf(w, "x/cfedistributor/types", "DistributorMainAccount")
	// the calls in mint that reach BANK.mint / BANK.move
	reachCalls := func(fn *ssa.Function) (mintCalls, fwdCalls []*Site) {
		for _, s := range cg.Sites[fn] {
			for _, c := range s.Callees {
				if c == fn || c == mintFn {
					continue
				}
				below := cg.targetsBelow(c, func(x *Site) bool { return cg.Atom(x) == BankMint }, map[*ssa.Function]bool{})
				if len(below) > 0 {
					mintCalls = append(mintCalls, s)
				}
				below = cg.targetsBelow(c, func(x *Site) bool { return cg.Atom(x) == BankMove }, map[*ssa.Function]bool{})
				if len(below) > 0 {
					fwdCalls = append(fwdCalls, s)
				}
			}
			switch cg.Atom(s) {
			case BankMint:
				mintCalls = append(mintCalls, s)
			case BankMove:
				fwdCalls = append(fwdCalls, s)
			}
		}
		return
	}
	mintCalls, fwdCalls := reachCalls(mintFn)
	// mint and forward moved together into one helper (`k.mintAndSendCoins(ctx, coins)`): the pairing is decided inside
	// the helper - same coins parameter minted and forwarded, forward on the success edge of the mint, a nil result only
	// behind the success edges of both - and the routine sees one call that stands for both
	var pairHelper *ssa.Function
	if len(mintCalls) == 1 && len(fwdCalls) == 1 && mintCalls[0] == fwdCalls[0] && mintCalls[0].Static != nil && !mintCalls[0].Invoke {
		h := mintCalls[0].Static
		hm, hf := reachCalls(h)
		if len(hm) == 1 && len(hf) == 1 && hm[0] != hf[0] {
			pairHelper = h
			hp := w.Pos(hf[0].Instr.Pos())
			_, isP := coinsArg(hm[0]).(*ssa.Parameter)
			r.Check(isP && coinsArg(hf[0]) == coinsArg(hm[0]), "C01.mint1", "mint: coins forwarded == coins minted", hp, "the helper mints and forwards its one coins parameter", "the coins forwarded to the collector are not the coins minted")
			r.Check(OnSuccessEdge(h, hf[0].Instr, siteValue(hm[0])), "C01.mint1", "mint: forward only after a successful mint", hp, "dominated by the nil edge of the mint's error (inside "+funcName(h)+")", "coins can be forwarded without a successful mint")
			okRet := true
			for _, ret := range Returns(h) {
				rv := retVals(ret)
				if len(rv) == 0 || !isErrorType(rv[len(rv)-1].Type()) {
					okRet = false
					continue
				}
				if nonNilAt(rv[len(rv)-1], ret.Block(), 0) {
					continue
				}
				if !OnSuccessEdge(h, ret, siteValue(hm[0])) || !OnSuccessEdge(h, ret, siteValue(hf[0])) {
					okRet = false
				}
			}
			r.Check(okRet, "C01.mint1", "mint: the mint-and-forward helper succeeds only when both succeeded", hp, "every return whose error may be nil lies behind the nil edges of both errors", funcName(h)+" can report success although the mint or the forward failed")
			fwdCalls = nil
		}
	}
	if len(mintCalls) != 1 {
		r.Bad("C01.mint1", "mint: exactly one minting call per activation", w.Pos(mintFn.Pos()), fmt.Sprintf("%d calls in mint reach BANK.mint", len(mintCalls)))
		return
	}
	mc := mintCalls[0]
	r.Check(!inCycle(mc.Instr.Block()), "C01.mint1", "mint: the minting call is not in a loop", w.Pos(mc.Instr.Pos()), "single call site outside any cycle of the CFG", "the minting call sits in a loop")
	// every BANK.mint atom in the module is the one below this call, with module name cfeminter
	for _, s := range mintSites {
		names := w.bankStringArgs(s)
		ok := len(names) == 1 && len(names[0]) == 1 && names[0][0] == minterMod
		r.Check(ok, "C01.mint1", "BANK.mint module argument in "+funcName(s.Caller), w.Pos(s.Instr.Pos()), "mints into the constant module account "+minterMod, fmt.Sprintf("mint module argument resolves to %v", names))
		// wrapper forwards its coins parameter unchanged
		if s.Caller != mintFn {
			ca := coinsArg(s)
			_, isParam := ca.(*ssa.Parameter)
			r.Check(isParam, "C01.mint1", "wrapper "+funcName(s.Caller)+" forwards its coins parameter", w.Pos(s.Instr.Pos()), "the coins minted are the wrapper's parameter", "the wrapper mints something else than its parameter")
		}
	}
	coins := coinsArg(mc)
	if coins == nil {
		r.Unk("C01.mint1", "mint: coins argument", w.Pos(mc.Instr.Pos()), "no Coins argument at the minting call")
		return
	}
	// forward
	if pairHelper != nil {
		// decided inside the helper (above); the module names of the transfer below it
		for _, ms := range cg.targetsBelow(pairHelper, func(x *Site) bool { return cg.Atom(x) == BankMove }, map[*ssa.Function]bool{}) {
			names := w.bankStringArgs(ms)
			ok := ms.Method == "SendCoinsFromModuleToModule" && len(names) == 2 && len(names[0]) == 1 && names[0][0] == minterMod && len(names[1]) == 1 && names[1][0] == "field:collectorName"
			r.Check(ok, "C01.mint1", "forward: cfeminter -> collector", w.Pos(ms.Instr.Pos()), "SendCoinsFromModuleToModule(cfeminter, k.collectorName, coins)", fmt.Sprintf("forwarding transfer is %s with module arguments %v", ms.Method, names))
			_, isParam := coinsArg(ms).(*ssa.Parameter)
			r.Check(isParam, "C01.mint1", "wrapper "+funcName(ms.Caller)+" forwards its coins parameter", w.Pos(ms.Instr.Pos()), "the coins sent are the wrapper's parameter", "the wrapper sends something else than its parameter")
		}
	} else if len(fwdCalls) != 1 {
		r.Bad("C01.mint1", "mint: exactly one forwarding transfer", w.Pos(mintFn.Pos()), fmt.Sprintf("%d calls in mint reach a bank transfer", len(fwdCalls)))
	} else {
		fc := fwdCalls[0]
		fco := coinsArg(fc)
		same := fco == coins
		r.Check(same, "C01.mint1", "mint: coins forwarded == coins minted", w.Pos(fc.Instr.Pos()), "the same SSA value is minted and forwarded", "the coins forwarded to the collector are not the coins minted")
		r.Check(OnSuccessEdge(mintFn, fc.Instr, siteValue(mc)), "C01.mint1", "mint: forward only after a successful mint", w.Pos(fc.Instr.Pos()), "dominated by the nil edge of the mint's error", "coins can be forwarded without a successful mint")
		// the move atoms below: from cfeminter to field collectorName
		for _, c := range fc.Callees {
			for _, ms := range cg.targetsBelow(c, func(x *Site) bool { return cg.Atom(x) == BankMove }, map[*ssa.Function]bool{}) {
				names := w.bankStringArgs(ms)
				ok := ms.Method == "SendCoinsFromModuleToModule" && len(names) == 2 && len(names[0]) == 1 && names[0][0] == minterMod && len(names[1]) == 1 && names[1][0] == "field:collectorName"
				r.Check(ok, "C01.mint1", "forward: cfeminter -> collector", w.Pos(ms.Instr.Pos()), "SendCoinsFromModuleToModule(cfeminter, k.collectorName, coins)", fmt.Sprintf("forwarding transfer is %s with module arguments %v", ms.Method, names))
				_, isParam := coinsArg(ms).(*ssa.Parameter)
				r.Check(isParam, "C01.mint1", "wrapper "+funcName(ms.Caller)+" forwards its coins parameter", w.Pos(ms.Instr.Pos()), "the coins sent are the wrapper's parameter", "the wrapper sends something else than its parameter")
			}
		}
	}
	// amount: value added to AmountMinted
	amount, amStore, nStores := mintedIncrement(w, mintFn)
	if amount == nil || nStores != 1 {
		r.Bad("C01.mint1", "mint: AmountMinted += amount", w.Pos(mintFn.Pos()), fmt.Sprintf("expected exactly one update AmountMinted = AmountMinted.Add(x); found %d", nStores))
	} else {
		via := DerivesVia(coins, amount, "types.NewCoin", "types.NewCoins")
		r.Check(via, "C01.mint1", "mint: coins minted == NewCoins(NewCoin(denom, amount)) of the amount book-kept", w.Pos(amStore.Pos()), "the value added to AmountMinted is the amount wrapped into the minted coins", "the amount added to AmountMinted is not the amount minted")
		ok := OnSuccessEdge(mintFn, amStore, siteValue(mc))
		if len(fwdCalls) == 1 {
			ok = ok && OnSuccessEdge(mintFn, amStore, siteValue(fwdCalls[0]))
		}
		r.Check(ok, "C01.mint1", "mint: AmountMinted updated only after mint and forward succeeded", w.Pos(amStore.Pos()), "dominated by the nil edges of both errors", "the book-keeping can run although mint or forward failed")
	}
	// (persists of the minter state are not constrained here: a persist that follows the AmountMinted update lies
	// behind the same success edges, and one that does not follow it leaves the book-kept amount unchanged;
	// when the state must be persisted is C02's concern)
	// collector name wiring
	nk := w.Func("x/cfeminter/keeper.NewKeeper")
	appNew := w.Func("app.New")
	if nk == nil || appNew == nil {
		r.Unk("infra.anchor", "x/cfeminter/keeper.NewKeeper / app.New", "", "anchor not found")
		return
	}
	idx := -1
	for _, fs := range FieldStores(nk) {
		if fs.Field == "collectorName" {
			for i, p := range nk.Params {
				if p == fs.Store.Val {
					idx = i
				}
			}
		}
	}
	if idx < 0 {
		r.Bad("C01.mint1", "NewKeeper stores its parameter into collectorName", w.Pos(nk.Pos()), "collectorName is not initialised from a NewKeeper parameter")
		return
	}
	for _, f := range w.ProdFuncs() {
		if f == nk {
			continue
		}
		for _, fs := range FieldStores(f) {
			if fs.Field == "collectorName" {
				r.Bad("C01.mint1", "second writer of collectorName in "+funcName(f), w.Pos(fs.Store.Pos()), "collectorName written outside NewKeeper")
			}
		}
	}
	n := 0
	for _, s := range cg.Sites[appNew] {
		if s.Static == nk {
			n++
			v, ok := EvalString(s.Common().Args[idx])
			r.Check(ok && v == mainAcc, "C01.mint1", "app.New: collector is the distributor's main account", w.Pos(s.Instr.Pos()), "collectorName = "+v, "the collector passed to the minter keeper is "+v+", not "+mainAcc)
		}
	}
	if n == 0 {
		r.Bad("C01.mint1", "app.New constructs the minter keeper", w.Pos(appNew.Pos()), "no NewKeeper call found")
	}
}

func c01burn(w *World, r *Report, burnSites []*Site) {
	cg := w.CG()
	mainAcc, _ := constOf(w, "x/cfedistributor/types", "DistributorMainAccount")
	for _, bs := range burnSites {
		// module argument
		names := w.bankStringArgs(bs)
		ok := len(names) == 1 && len(names[0]) == 1 && names[0][0] == mainAcc
		r.Check(ok, "C01.burn1", "BANK.burn account in "+funcName(bs.Caller), w.Pos(bs.Instr.Pos()), "burns from the constant "+mainAcc, fmt.Sprintf("burn account resolves to %v", names))
	}
	// the functions that call (a wrapper of) BANK.burn with a *State in scope
	seen := map[*ssa.Function]bool{}
	for _, bs := range burnSites {
		var users []*Site
		if _, isParam := coinsArg(bs).(*ssa.Parameter); isParam {
			users = cg.Callers[bs.Caller]
		} else {
			users = []*Site{bs}
		}
		for _, u := range users {
			fn := u.Caller
			if seen[fn] {
				continue
			}
			seen[fn] = true
			coins := coinsArg(u)
			// coins == extract #0 of TruncateDecimal(load state.Remains)
			ex, ok := coins.(*ssa.Extract)
			var tcall *ssa.Call
			if ok && ex.Index == 0 {
				tcall, _ = ex.Tuple.(*ssa.Call)
			}
			good := tcall != nil && strings.HasSuffix(callName(tcall.Common()), "types.DecCoins.TruncateDecimal") && loadOfField(tcall.Common().Args[0], "Remains", nil)
			r.Check(good, "C01.burn1", funcName(fn)+": burned coins = state.Remains.TruncateDecimal() #0", w.Pos(u.Instr.Pos()), "the integer part of this state's remains is burned", "the coins burned are not the truncated remains of the state")
			if !good {
				continue
			}
			// stores to Remains in fn or in a helper it calls (values in fn's terms)
			nst := 0
			for _, sb := range w.storesBelow(fn, "State", 2, nil) {
				fs := sb.FS
				if fs.Field != "Remains" {
					continue
				}
				nst++
				ex2, ok := sb.Val.(*ssa.Extract)
				same := ok && ex2.Tuple == ex.Tuple && ex2.Index == 1
				r.Check(same, "C01.burn1", funcName(fn)+": Remains := change of the same TruncateDecimal", w.Pos(fs.Store.Pos()), "result #1 of the same call", "state.Remains is overwritten with something else than the change of the burned amount")
				r.Check(OnSuccessEdge(fn, sb.Top(), siteValue(u)), "C01.burn1", funcName(fn)+": Remains updated only when the burn succeeded", w.Pos(fs.Store.Pos()), "dominated by the nil edge of the burn's error", "state.Remains is reduced although the burn may have failed")
			}
			if nst == 0 {
				r.Bad("C01.burn1", funcName(fn)+": Remains reduced after burning", w.Pos(fn.Pos()), "coins are burned but the recorded remainder is not reduced")
			}
			// callers: reached only under state.Burn true edge
			for _, cs := range cg.Callers[fn] {
				cf := cs.Caller
				edges := EdgesWhere(cf, func(base ssa.Value) (bool, bool) {
					if loadOfField(base, "Burn", nil) {
						return true, true
					}
					return false, false
				})
				r.Check(MustPass(cf, edges, cs.Instr.Block()), "C01.burn1", funcName(cf)+": burn reached only when State.Burn", w.Pos(cs.Instr.Pos()), "dominated by the true edge of state.Burn", "the burn routine can be reached for a state that is not the burn state")
			}
		}
	}
}
