package main

import (
	"fmt"
	"go/constant"
	"regexp"
	"sort"
	"strings"

	"golang.org/x/tools/go/ssa"
)

// C15.algtable: "verification is performed under the stored algorithm" passes through the module's own table that maps
// the stored algorithm name to an x509.SignatureAlgorithm. Each row must be consistent with crypto/x509's own meaning
// of the constant (trusted summary below: the exported constants of crypto/x509 and crypto), the names and algorithms
// must be pairwise distinct, and a name must spell the digest and key family of its row - otherwise a record stored
// under one algorithm name is verified (or rejected) under another algorithm.

type x509Algo struct {
	name   string
	pubKey int64 // x509.PublicKeyAlgorithm: RSA=1 DSA=2 ECDSA=3 Ed25519=4
	hash   int64 // crypto.Hash: MD5=2 SHA1=3 SHA224=4 SHA256=5 SHA384=6 SHA512=7; 0 = none
}

var x509Algos = map[int64]x509Algo{
	1: {"MD2WithRSA", 1, 0}, 2: {"MD5WithRSA", 1, 2}, 3: {"SHA1WithRSA", 1, 3}, 4: {"SHA256WithRSA", 1, 5}, 5: {"SHA384WithRSA", 1, 6}, 6: {"SHA512WithRSA", 1, 7},
	7: {"DSAWithSHA1", 2, 3}, 8: {"DSAWithSHA256", 2, 5}, 9: {"ECDSAWithSHA1", 3, 3}, 10: {"ECDSAWithSHA256", 3, 5}, 11: {"ECDSAWithSHA384", 3, 6}, 12: {"ECDSAWithSHA512", 3, 7},
	13: {"SHA256WithRSAPSS", 1, 5}, 14: {"SHA384WithRSAPSS", 1, 6}, 15: {"SHA512WithRSAPSS", 1, 7}, 16: {"PureEd25519", 4, 0},
}

var hashBits = map[int64]string{2: "md5", 3: "1", 4: "224", 5: "256", 6: "384", 7: "512"}
var pubKeyWord = map[int64]string{1: "rsa", 2: "dsa", 3: "ecdsa", 4: "ed25519"}

// tableRows reads a package-level table of struct literals from the package initialiser: for every element of the
// backing array, field index -> constant stored.
func tableRows(initFn *ssa.Function, global *ssa.Global) map[int64]map[int]*ssa.Const {
	rows := map[int64]map[int]*ssa.Const{}
	if initFn == nil {
		return rows
	}
	// the array that ends up in the global: alloc -> slice -> store to global
	var arr ssa.Value
	for _, b := range initFn.Blocks {
		for _, in := range b.Instrs {
			if st, ok := in.(*ssa.Store); ok && st.Addr == ssa.Value(global) {
				if sl, ok := st.Val.(*ssa.Slice); ok {
					arr = sl.X
				}
			}
		}
	}
	if arr == nil || arr.Referrers() == nil {
		return rows
	}
	for _, ref := range *arr.Referrers() {
		ia, ok := ref.(*ssa.IndexAddr)
		if !ok {
			continue
		}
		k, ok := ia.Index.(*ssa.Const)
		if !ok || k.Value == nil || ia.Referrers() == nil {
			continue
		}
		idx, _ := constant.Int64Val(constant.ToInt(k.Value))
		for _, r2 := range *ia.Referrers() {
			fa, ok := r2.(*ssa.FieldAddr)
			if !ok || fa.Referrers() == nil {
				continue
			}
			for _, r3 := range *fa.Referrers() {
				if st, ok := r3.(*ssa.Store); ok && st.Addr == ssa.Value(fa) {
					if c, ok := st.Val.(*ssa.Const); ok {
						if rows[idx] == nil {
							rows[idx] = map[int]*ssa.Const{}
						}
						rows[idx][fa.Field] = c
					}
				}
			}
		}
	}
	return rows
}

func algTableRule(w *World, r *Report, rule string) {
	pkg := w.SSA[modPath+"/x/cfesignature/util"]
	if pkg == nil {
		r.Unk("infra.anchor", "x/cfesignature/util", "", "package not loaded")
		return
	}
	g, _ := pkg.Members["signatureAlgorithmDetails"].(*ssa.Global)
	initFn, _ := pkg.Members["init"].(*ssa.Function)
	if g == nil || initFn == nil {
		r.Unk(rule, "algorithm table of x/cfesignature/util", "", "the table signatureAlgorithmDetails was not found")
		return
	}
	rows := tableRows(initFn, g)
	var idxs []int64
	for i := range rows {
		idxs = append(idxs, i)
	}
	sort.Slice(idxs, func(a, b int) bool { return idxs[a] < idxs[b] })
	if len(idxs) == 0 {
		r.Unk(rule, "algorithm table of x/cfesignature/util", w.Pos(g.Pos()), "no constant rows could be read from the table's initialiser")
		return
	}
	seenAlgo, seenName := map[int64]string{}, map[string]bool{}
	digits := regexp.MustCompile(`[0-9]+`)
	for _, i := range idxs {
		row := rows[i]
		var algo, pub, hash int64 = -1, -1, -1
		name := ""
		// fields by type: algo (x509.SignatureAlgorithm), name (string), pubKeyAlgo, hash
		for _, c := range row {
			if c.Value == nil {
				continue
			}
			switch {
			case strings.HasSuffix(typeString(c.Type()), "x509.SignatureAlgorithm"):
				algo, _ = constant.Int64Val(constant.ToInt(c.Value))
			case strings.HasSuffix(typeString(c.Type()), "x509.PublicKeyAlgorithm"):
				pub, _ = constant.Int64Val(constant.ToInt(c.Value))
			case strings.HasSuffix(typeString(c.Type()), "crypto.Hash"):
				hash, _ = constant.Int64Val(constant.ToInt(c.Value))
			case c.Value.Kind() == constant.String:
				name = constant.StringVal(c.Value)
			}
		}
		// zero-valued fields are not stored by the initialiser
		if pub < 0 {
			pub = 0
		}
		if hash < 0 {
			hash = 0
		}
		construct := fmt.Sprintf("algorithm table row %q", name)
		std, known := x509Algos[algo]
		why := ""
		switch {
		case !known:
			why = fmt.Sprintf("the row's algorithm constant (%d) is not a signature algorithm of crypto/x509", algo)
		case std.pubKey != pub || std.hash != hash:
			why = fmt.Sprintf("x509.%s is a signature with key family %s and digest %s, the row says key family %s and digest %s", std.name, pubKeyWord[std.pubKey], hashBits[std.hash], pubKeyWord[pub], hashBits[hash])
		case seenAlgo[algo] != "":
			why = fmt.Sprintf("the same x509 algorithm (%s) is also listed under the name %q", std.name, seenAlgo[algo])
		case seenName[name]:
			why = "the name is listed twice"
		default:
			low := strings.ToLower(name)
			if hb := hashBits[std.hash]; hb != "" && hb != "md5" {
				ok := false
				for _, d := range digits.FindAllString(low, -1) {
					if d == hb {
						ok = true
					}
				}
				if !ok {
					why = fmt.Sprintf("the name does not spell the digest of x509.%s (SHA-%s)", std.name, hb)
				}
			}
			if pw := pubKeyWord[std.pubKey]; why == "" && pw != "" {
				fam := ""
				switch {
				case strings.Contains(low, "ecdsa"):
					fam = "ecdsa"
				case strings.Contains(low, "dsa"):
					fam = "dsa"
				case strings.Contains(low, "rsa"):
					fam = "rsa"
				case strings.Contains(low, "ed25519"):
					fam = "ed25519"
				}
				if fam != pw {
					why = fmt.Sprintf("the name does not spell the key family of x509.%s (%s)", std.name, pw)
				}
			}
		}
		seenAlgo[algo] = name
		seenName[name] = true
		r.Check(why == "", rule, construct, w.Pos(g.Pos()), fmt.Sprintf("name, x509.%s, key family and digest agree", std.name), "a record stored under this algorithm name is verified under another algorithm: "+why)
	}
}
