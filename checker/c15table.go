package main

import (
	"fmt"
	"go/constant"
	"go/token"
	"go/types"
	"regexp"
	"sort"
	"strings"

	"golang.org/x/tools/go/ssa"
)

// C15.algtable: "verification is performed under the stored algorithm" passes through the module's own table that maps
// the stored algorithm name to an x509.SignatureAlgorithm. Each row must be consistent with crypto/x509's own meaning
// of the constant (trusted summary below: the exported constants of crypto/x509 and crypto), the names and algorithms
// must be pairwise distinct, and a name must spell the digest and key family of its row - otherwise a record stored
// under one algorithm name is verified (or rejected) under another algorithm.

type x509Algo struct {
	name   string
	pubKey int64 // x509.PublicKeyAlgorithm: RSA=1 DSA=2 ECDSA=3 Ed25519=4
	hash   int64 // crypto.Hash: MD5=2 SHA1=3 SHA224=4 SHA256=5 SHA384=6 SHA512=7; 0 = none
}

var x509Algos = map[int64]x509Algo{
	1: {"MD2WithRSA", 1, 0}, 2: {"MD5WithRSA", 1, 2}, 3: {"SHA1WithRSA", 1, 3}, 4: {"SHA256WithRSA", 1, 5}, 5: {"SHA384WithRSA", 1, 6}, 6: {"SHA512WithRSA", 1, 7},
	7: {"DSAWithSHA1", 2, 3}, 8: {"DSAWithSHA256", 2, 5}, 9: {"ECDSAWithSHA1", 3, 3}, 10: {"ECDSAWithSHA256", 3, 5}, 11: {"ECDSAWithSHA384", 3, 6}, 12: {"ECDSAWithSHA512", 3, 7},
	13: {"SHA256WithRSAPSS", 1, 5}, 14: {"SHA384WithRSAPSS", 1, 6}, 15: {"SHA512WithRSAPSS", 1, 7}, 16: {"PureEd25519", 4, 0},
}

var hashBits = map[int64]string{2: "md5", 3: "1", 4: "224", 5: "256", 6: "384", 7: "512"}
var pubKeyWord = map[int64]string{1: "rsa", 2: "dsa", 3: "ecdsa", 4: "ed25519"}

// tableRows reads a package-level table of struct literals from the package initialiser: for every element of the
// backing array, field index -> constant stored.
func tableRows(initFn *ssa.Function, global *ssa.Global) map[int64]map[int]*ssa.Const {
	rows := map[int64]map[int]*ssa.Const{}
	if initFn == nil {
		return rows
	}
	// the array that ends up in the global: alloc -> slice -> store to global
	var arr ssa.Value
	for _, b := range initFn.Blocks {
		for _, in := range b.Instrs {
			if st, ok := in.(*ssa.Store); ok && st.Addr == ssa.Value(global) {
				if sl, ok := st.Val.(*ssa.Slice); ok {
					arr = sl.X
				}
			}
		}
	}
	if arr == nil || arr.Referrers() == nil {
		return rows
	}
	for _, ref := range *arr.Referrers() {
		ia, ok := ref.(*ssa.IndexAddr)
		if !ok {
			continue
		}
		k, ok := ia.Index.(*ssa.Const)
		if !ok || k.Value == nil || ia.Referrers() == nil {
			continue
		}
		idx, _ := constant.Int64Val(constant.ToInt(k.Value))
		for _, r2 := range *ia.Referrers() {
			fa, ok := r2.(*ssa.FieldAddr)
			if !ok || fa.Referrers() == nil {
				continue
			}
			for _, r3 := range *fa.Referrers() {
				if st, ok := r3.(*ssa.Store); ok && st.Addr == ssa.Value(fa) {
					if c, ok := st.Val.(*ssa.Const); ok {
						if rows[idx] == nil {
							rows[idx] = map[int]*ssa.Const{}
						}
						rows[idx][fa.Field] = c
					}
				}
			}
		}
	}
	return rows
}

func algTableRule(w *World, r *Report, rule string) {
	pkg := w.SSA[modPath+"/x/cfesignature/util"]
	if pkg == nil {
		r.Unk("infra.anchor", "x/cfesignature/util", "", "package not loaded")
		return
	}
	g, _ := pkg.Members["signatureAlgorithmDetails"].(*ssa.Global)
	initFn, _ := pkg.Members["init"].(*ssa.Function)
	if g == nil || initFn == nil {
		r.Unk(rule, "algorithm table of x/cfesignature/util", "", "the table signatureAlgorithmDetails was not found")
		return
	}
	rows := tableRows(initFn, g)
	var idxs []int64
	for i := range rows {
		idxs = append(idxs, i)
	}
	sort.Slice(idxs, func(a, b int) bool { return idxs[a] < idxs[b] })
	if len(idxs) == 0 {
		r.Unk(rule, "algorithm table of x/cfesignature/util", w.Pos(g.Pos()), "no constant rows could be read from the table's initialiser")
		return
	}
	seenAlgo, seenName := map[int64]string{}, map[string]bool{}
	digits := regexp.MustCompile(`[0-9]+`)
	for _, i := range idxs {
		row := rows[i]
		var algo, pub, hash int64 = -1, -1, -1
		name := ""
		// fields by type: algo (x509.SignatureAlgorithm), name (string), pubKeyAlgo, hash
		for _, c := range row {
			if c.Value == nil {
				continue
			}
			switch {
			case strings.HasSuffix(typeString(c.Type()), "x509.SignatureAlgorithm"):
				algo, _ = constant.Int64Val(constant.ToInt(c.Value))
			case strings.HasSuffix(typeString(c.Type()), "x509.PublicKeyAlgorithm"):
				pub, _ = constant.Int64Val(constant.ToInt(c.Value))
			case strings.HasSuffix(typeString(c.Type()), "crypto.Hash"):
				hash, _ = constant.Int64Val(constant.ToInt(c.Value))
			case c.Value.Kind() == constant.String:
				name = constant.StringVal(c.Value)
			}
		}
		// zero-valued fields are not stored by the initialiser
		if pub < 0 {
			pub = 0
		}
		if hash < 0 {
			hash = 0
		}
		construct := fmt.Sprintf("algorithm table row %q", name)
		std, known := x509Algos[algo]
		why := ""
		switch {
		case !known:
			why = fmt.Sprintf("the row's algorithm constant (%d) is not a signature algorithm of crypto/x509", algo)
		case std.pubKey != pub || std.hash != hash:
			why = fmt.Sprintf("x509.%s is a signature with key family %s and digest %s, the row says key family %s and digest %s", std.name, pubKeyWord[std.pubKey], hashBits[std.hash], pubKeyWord[pub], hashBits[hash])
		case seenAlgo[algo] != "":
			why = fmt.Sprintf("the same x509 algorithm (%s) is also listed under the name %q", std.name, seenAlgo[algo])
		case seenName[name]:
			why = "the name is listed twice"
		default:
			low := strings.ToLower(name)
			if hb := hashBits[std.hash]; hb != "" && hb != "md5" {
				ok := false
				for _, d := range digits.FindAllString(low, -1) {
					if d == hb {
						ok = true
					}
				}
				if !ok {
					why = fmt.Sprintf("the name does not spell the digest of x509.%s (SHA-%s)", std.name, hb)
				}
			}
			if pw := pubKeyWord[std.pubKey]; why == "" && pw != "" {
				fam := ""
				switch {
				case strings.Contains(low, "ecdsa"):
					fam = "ecdsa"
				case strings.Contains(low, "dsa"):
					fam = "dsa"
				case strings.Contains(low, "rsa"):
					fam = "rsa"
				case strings.Contains(low, "ed25519"):
					fam = "ed25519"
				}
				if fam != pw {
					why = fmt.Sprintf("the name does not spell the key family of x509.%s (%s)", std.name, pw)
				}
			}
		}
		seenAlgo[algo] = name
		seenName[name] = true
		r.Check(why == "", rule, construct, w.Pos(g.Pos()), fmt.Sprintf("name, x509.%s, key family and digest agree", std.name), "a record stored under this algorithm name is verified under another algorithm: "+why)
	}
}

// C15.alglookup: the function that maps the stored algorithm name to the x509 algorithm returns, whenever it does not
// fail, the algorithm of the table row whose name EQUALS the stored name: every value it can return beside a nil error
// is the algorithm field of the element whose name field was compared for equality with the parameter on an edge that
// dominates the return (or the comma-ok result of a map lookup keyed by the parameter, or a constant under an equality
// test of the parameter with a constant name). A value read after the loop through a remembered pointer, a
// case-insensitive or prefix match, or a default algorithm verifies a record under another algorithm than the stored
// one.
func algLookupRule(w *World, r *Report, rule string) {
	n := 0
	for _, fn := range w.ProdFuncs() {
		if moduleOfFunc(fn) != "cfesignature" || fn.Signature.Results().Len() != 2 || fn.Blocks == nil {
			continue
		}
		res := fn.Signature.Results()
		if !strings.HasSuffix(typeString(res.At(0).Type()), "x509.SignatureAlgorithm") || !isErrorType(res.At(1).Type()) {
			continue
		}
		var nameP *ssa.Parameter
		for _, p := range fn.Params {
			if typeString(p.Type()) == "string" {
				nameP = p
			}
		}
		if nameP == nil {
			continue
		}
		n++
		isName := func(v ssa.Value) bool {
			return v == ssa.Value(nameP) || normLocal(v) == ssa.Value(nameP)
		}
		// fieldOfElem: v reads field f of element base B
		fieldOfElem := func(v ssa.Value) (ssa.Value, int, bool) {
			switch x := v.(type) {
			case *ssa.UnOp:
				if fa, ok := x.X.(*ssa.FieldAddr); ok && x.Op.String() == "*" {
					return fa.X, fa.Field, true
				}
			case *ssa.Field:
				return x.X, x.Field, true
			}
			return nil, 0, false
		}
		all := ReachUnder(fn, func(ssa.Value) (bool, bool) { return false, false })
		k := 0
		for _, ret := range Returns(fn) {
			rv := retVals(ret)
			if len(rv) != 2 || nonNilAt(rv[1], ret.Block(), 0) {
				continue
			}
			for _, alt := range all.LiveValues(rv[0]) {
				k++
				ok, why := false, "the value is not read from the row that was matched"
				switch x := alt.(type) {
				case *ssa.Const:
					// a constant algorithm under name == "constant"
					edges := EdgesWhere(fn, func(base ssa.Value) (bool, bool) {
						bo, isBo := base.(*ssa.BinOp)
						if !isBo || bo.Op.String() != "==" {
							return false, false
						}
						_, cx := bo.X.(*ssa.Const)
						_, cy := bo.Y.(*ssa.Const)
						if (isName(bo.X) && cy) || (isName(bo.Y) && cx) {
							return true, true
						}
						return false, false
					})
					ok = len(edges) > 0 && MustPass(fn, edges, ret.Block())
					why = "a constant algorithm is returned without an equality test of the stored name against a constant name"
				case *ssa.Extract:
					if lk, isLk := x.Tuple.(*ssa.Lookup); isLk && lk.CommaOk && x.Index == 0 && isName(lk.Index) {
						var okv ssa.Value
						for _, ref := range *lk.Referrers() {
							if ex, isEx := ref.(*ssa.Extract); isEx && ex.Index == 1 {
								okv = ex
							}
						}
						ok = okv != nil && MustPass(fn, boolValueEdges(fn, okv, true), ret.Block())
						why = "the map lookup's result is returned without its ok flag having been tested"
					}
				case *ssa.Lookup:
					why = "a map lookup without the comma-ok form returns the zero algorithm for an unknown name"
				default:
					base, _, isF := fieldOfElem(alt)
					if isF {
						ok, why = rowMatched(w, fn, isName, base, ret.Block(), 0)
					}
				}
				r.Check(ok, rule, fmt.Sprintf("%s: algorithm returned beside a nil error #%d", funcName(fn), k), w.Pos(ret.Pos()), "the algorithm of the row whose name equals the stored name", "a stored record can be verified under another algorithm than the one stored with it: "+why)
			}
		}
	}
	if n == 0 {
		r.Unk(rule, "name -> x509 algorithm lookup of x/cfesignature", "", "no function of the module returns (x509.SignatureAlgorithm, error) for a string")
	}
}

// sameElem: two addresses / values denote the same element: identical, or built the same way from the same index value
// over the same package-level table (`table[i].name` and `table[i].algo` written out twice).
func sameElem(a, b ssa.Value, depth int) bool {
	if a == b {
		return true
	}
	if depth > 4 {
		return false
	}
	switch x := a.(type) {
	case *ssa.IndexAddr:
		y, ok := b.(*ssa.IndexAddr)
		return ok && x.Index == y.Index && sameElem(x.X, y.X, depth+1)
	case *ssa.FieldAddr:
		y, ok := b.(*ssa.FieldAddr)
		return ok && x.Field == y.Field && sameElem(x.X, y.X, depth+1)
	case *ssa.UnOp:
		y, ok := b.(*ssa.UnOp)
		if !ok || x.Op != y.Op {
			return false
		}
		if g, isG := x.X.(*ssa.Global); isG {
			return y.X == ssa.Value(g)
		}
		return sameElem(x.X, y.X, depth+1)
	}
	return false
}

// elemField: v reads field f of the element denoted by base (an address or a struct value).
func elemField(v ssa.Value) (ssa.Value, int, bool) {
	switch x := v.(type) {
	case *ssa.UnOp:
		if fa, ok := x.X.(*ssa.FieldAddr); ok && x.Op == token.MUL {
			return fa.X, fa.Field, true
		}
	case *ssa.Field:
		return x.X, x.Field, true
	}
	return nil, 0, false
}

// rowMatched: at block `at` of fn, base denotes the table row whose string field compared equal with the name: an
// equality edge between a string field of the same element and the name dominates the block; or base is what a finder
// helper returned - (row, true) resp. a non-nil *row - the block lies behind the helper's positive answer, and the
// helper answers positively only with a row matched in this sense (decided in the helper, name bound to its parameter).
func rowMatched(w *World, fn *ssa.Function, isName func(ssa.Value) bool, base ssa.Value, at *ssa.BasicBlock, depth int) (bool, string) {
	if depth > 2 {
		return false, "finder helpers nested too deeply"
	}
	norm := normElemBase
	base = norm(base)
	var call *ssa.Call
	idx := 0
	switch x := base.(type) {
	case *ssa.Extract:
		call, _ = x.Tuple.(*ssa.Call)
		idx = x.Index
	case *ssa.Call:
		call = x
	}
	if call != nil && !call.Common().IsInvoke() {
		h := call.Common().StaticCallee()
		if h == nil || h.Blocks == nil || !w.isProdFunc(h) {
			return false, "the row comes from a call that cannot be inspected"
		}
		res := h.Signature.Results()
		var edges []Edge
		boolIdx := -1
		switch {
		case res.Len() == 2 && typeString(res.At(1-idx).Type()) == "bool":
			boolIdx = 1 - idx
			for _, ref := range *call.Referrers() {
				if ex, ok := ref.(*ssa.Extract); ok && ex.Index == boolIdx {
					edges = append(edges, boolValueEdges(fn, ex, true)...)
				}
			}
		case res.Len() == 1:
			if _, isPtr := res.At(0).Type().Underlying().(*types.Pointer); isPtr {
				edges = NilEdges(fn, map[ssa.Value]bool{call: true}, false)
			}
		}
		if len(edges) == 0 || !MustPass(fn, edges, at) {
			return false, "the finder's positive answer is not tested before its row is used"
		}
		var hName []*ssa.Parameter
		for i, a := range call.Common().Args {
			if i < len(h.Params) && isName(a) {
				hName = append(hName, h.Params[i])
			}
		}
		hIsName := func(v ssa.Value) bool {
			for _, p := range hName {
				if v == ssa.Value(p) || normLocal(v) == ssa.Value(p) {
					return true
				}
			}
			return false
		}
		all := ReachUnder(h, func(ssa.Value) (bool, bool) { return false, false })
		n := 0
		for _, ret := range Returns(h) {
			rv := retVals(ret)
			if len(rv) != res.Len() {
				continue
			}
			if boolIdx >= 0 {
				if b, isC := constBool(rv[boolIdx]); isC && !b {
					continue
				}
			}
			for _, alt := range all.LiveValues(rv[idx]) {
				if isNilConst(alt) {
					continue
				}
				n++
				if ok, why := rowMatched(w, h, hIsName, alt, ret.Block(), depth+1); !ok {
					return false, "in " + funcName(h) + ": " + why
				}
			}
		}
		if n == 0 {
			return false, funcName(h) + " never answers positively"
		}
		return true, ""
	}
	edges := EdgesWhere(fn, func(b ssa.Value) (bool, bool) {
		bo, isBo := b.(*ssa.BinOp)
		if !isBo || bo.Op != token.EQL {
			return false, false
		}
		for _, pair := range [][2]ssa.Value{{bo.X, bo.Y}, {bo.Y, bo.X}} {
			if !isName(pair[1]) {
				continue
			}
			if b2, _, isF2 := elemField(pair[0]); isF2 && sameElem(norm(b2), base, 0) && typeString(pair[0].Type()) == "string" {
				return true, true
			}
		}
		return false, false
	})
	if len(edges) > 0 && MustPass(fn, edges, at) {
		return true, ""
	}
	return false, "the algorithm returned is not dominated by an equality test of the same row's name with the stored name"
}

// normElemBase: the address of the element a base denotes - a local the row was copied into is replaced by what was
// copied, a row loaded as a whole by its address.
func normElemBase(b ssa.Value) ssa.Value {
	if al, ok := b.(*ssa.Alloc); ok {
		if sv := spilledValue(al); sv != nil {
			b = sv
		}
	}
	if u, ok := b.(*ssa.UnOp); ok && u.Op == token.MUL {
		b = u.X
	}
	return b
}

// tableFieldOf: v reads field #field of an element of the package-level table g (`for _, u := range table { ... u.f`,
// `table[i].f`); base is the element's address.
func tableFieldOf(v ssa.Value) (g *ssa.Global, field int, base ssa.Value, ok bool) {
	b, f, isF := elemField(stripConv(v))
	if !isF {
		return nil, 0, nil, false
	}
	b = normElemBase(b)
	ia, isIA := b.(*ssa.IndexAddr)
	if !isIA {
		return nil, 0, nil, false
	}
	ld, isLd := ia.X.(*ssa.UnOp)
	if !isLd || ld.Op != token.MUL {
		return nil, 0, nil, false
	}
	gl, isG := ld.X.(*ssa.Global)
	if !isG {
		return nil, 0, nil, false
	}
	return gl, f, b, true
}

// constTable: the rows of a package-level table of struct literals whose fields are all constants (field index ->
// constant; fields left at their zero value are absent), with the number of rows; ok is false when the table is
// assigned anywhere but in its initialiser or its rows cannot be read.
func constTable(w *World, g *ssa.Global) (rows map[int64]map[int]*ssa.Const, n int64, ok bool) {
	if g == nil || g.Pkg == nil {
		return nil, 0, false
	}
	initFn, _ := g.Pkg.Members["init"].(*ssa.Function)
	if initFn == nil {
		return nil, 0, false
	}
	// written only by the package initialiser
	for _, fn := range w.ProdFuncs() {
		if fn == initFn {
			continue
		}
		for _, b := range fn.Blocks {
			for _, in := range b.Instrs {
				if st, isSt := in.(*ssa.Store); isSt && st.Addr == ssa.Value(g) {
					return nil, 0, false
				}
			}
		}
	}
	for _, b := range initFn.Blocks {
		for _, in := range b.Instrs {
			if st, isSt := in.(*ssa.Store); isSt && st.Addr == ssa.Value(g) {
				if sl, isSl := st.Val.(*ssa.Slice); isSl {
					if pt, isP := sl.X.Type().Underlying().(*types.Pointer); isP {
						if at, isA := pt.Elem().Underlying().(*types.Array); isA {
							n = at.Len()
						}
					}
				}
			}
		}
	}
	rows = tableRows(initFn, g)
	if n == 0 || len(rows) == 0 {
		return nil, 0, false
	}
	return rows, n, true
}

// localTableFieldValues: v reads field f of an element of a local slice literal (`rows := []struct{name string; value
// Int}{{"a", x}, {"b", y}}; for _, row := range rows { ... row.value ... }`): the values the literal stores into that
// field, one per row (nil when v is not such a read or a row's field is not assigned exactly once).
func localTableFieldValues(v ssa.Value) []ssa.Value {
	b, fld, isF := elemField(stripConv(v))
	if !isF {
		return nil
	}
	ia, ok := normElemBase(b).(*ssa.IndexAddr)
	if !ok {
		return nil
	}
	sl, ok := ia.X.(*ssa.Slice)
	if !ok {
		return nil
	}
	arr, ok := sl.X.(*ssa.Alloc)
	if !ok || arr.Referrers() == nil {
		return nil
	}
	pt, ok := arr.Type().Underlying().(*types.Pointer)
	if !ok {
		return nil
	}
	at, ok := pt.Elem().Underlying().(*types.Array)
	if !ok {
		return nil
	}
	rows := map[int64]ssa.Value{}
	for _, ref := range *arr.Referrers() {
		ria, ok := ref.(*ssa.IndexAddr)
		if !ok || ria.Referrers() == nil {
			continue
		}
		k, ok := ria.Index.(*ssa.Const)
		if !ok || k.Value == nil {
			return nil
		}
		idx, _ := constant.Int64Val(constant.ToInt(k.Value))
		for _, r2 := range *ria.Referrers() {
			fa, ok := r2.(*ssa.FieldAddr)
			if !ok || fa.Field != fld || fa.Referrers() == nil {
				continue
			}
			for _, r3 := range *fa.Referrers() {
				if st, ok := r3.(*ssa.Store); ok && st.Addr == ssa.Value(fa) {
					if _, dup := rows[idx]; dup {
						return nil
					}
					rows[idx] = st.Val
				}
			}
		}
	}
	if int64(len(rows)) != at.Len() {
		return nil
	}
	var out []ssa.Value
	for i := int64(0); i < at.Len(); i++ {
		out = append(out, rows[i])
	}
	return out
}

// certFirstBlockRule (C15.args, last clause): the certificate the verifier uses is parsed from the FIRST PEM block of
// the stored certificate text: in the function that parses it, every alternative of the block handed to
// x509.ParseCertificate is result #0 of pem.Decode applied to the function's own parameter (not to the "rest" of an
// earlier Decode, not the last block a loop found): a stored text with more than one block (a chain) must not be
// verified under another certificate than its first.
func certFirstBlockRule(w *World, r *Report, rule string) {
	fn := w.Func("x/cfesignature/util.GetUserCertificateFromString")
	if fn == nil {
		r.Unk("infra.anchor", "x/cfesignature/util.GetUserCertificateFromString", "", "anchor not found")
		return
	}
	cg := w.CG()
	n := 0
	all := ReachUnder(fn, func(ssa.Value) (bool, bool) { return false, false })
	for _, e := range w.effectsBelow(fn, func(s *Site) bool { return strings.HasSuffix(s.CalleeName(), "x509.ParseCertificate") }, 2) {
		_ = cg
		if len(e.Chain) > 0 {
			continue // parsed below a helper: not decided here
		}
		a := e.Site.Common().Args
		if len(a) == 0 {
			continue
		}
		// block.Bytes: load of field Bytes of the block pointer
		var blk ssa.Value
		if u, ok := a[0].(*ssa.UnOp); ok && u.Op == token.MUL {
			if fa, ok := u.X.(*ssa.FieldAddr); ok {
				blk = fa.X
			}
		}
		if blk == nil {
			continue
		}
		n++
		ok := true
		_ = all
		alts := w.LiveValuesDeep(fn, func(ssa.Value) (bool, bool) { return false, false }, blk, 2)
		for _, dv := range alts {
			alt := dv.V
			ex, isEx := alt.(*ssa.Extract)
			if !isEx || ex.Index != 0 {
				ok = false
				continue
			}
			c, isC := ex.Tuple.(*ssa.Call)
			if !isC || !strings.HasSuffix(callName(c.Common()), "encoding/pem.Decode") || len(c.Common().Args) != 1 {
				ok = false
				continue
			}
			// the text decoded is the parsing function's own parameter, handed down unchanged when the decode sits in a helper
			arg, ctx := normLocal(c.Common().Args[0]), dv.Ctx
			for ctx != nil && ctx.call != nil && ctx.fn != fn {
				hp, isHP := arg.(*ssa.Parameter)
				if !isHP {
					break
				}
				i := paramIndex(ctx.fn, hp)
				if i < 0 || i >= len(ctx.call.Args) {
					break
				}
				arg, ctx = normLocal(ctx.call.Args[i]), ctx.parent
			}
			if pp, isP := arg.(*ssa.Parameter); !isP || pp.Parent() != fn {
				ok = false
			}
		}
		r.Check(ok && len(alts) > 0, rule, "the certificate is parsed from the first PEM block of the stored text", w.Pos(e.Site.Instr.Pos()), fmt.Sprintf("%d alternative(s), each result #0 of pem.Decode(parameter)", len(alts)), "the block handed to ParseCertificate is not (always) the first PEM block of the stored certificate: a stored text with several blocks is verified under another certificate than its first")
	}
	if n == 0 {
		r.Enum(rule, "the certificate is parsed from the first PEM block of the stored text (not decided: the parse is not in the parsing function itself)", w.Pos(fn.Pos()), "shape not recognised")
	}
}
