package main

import (
	"fmt"
	"go/token"
	"strings"

	"golang.org/x/tools/go/ssa"
)

func init() { register("C08", checkC08) }

// paramOfType returns the n-th parameter (0-based) of the given type; parameters are identified by type and
// position, never by name, so that renaming them leaves the rules silent.
func paramOfType(fn *ssa.Function, typ string, n int) *ssa.Parameter {
	for _, p := range fn.Params {
		if typeString(p.Type()) == typ {
			if n == 0 {
				return p
			}
			n--
		}
	}
	return nil
}

const (
	tInt    = "cosmossdk.io/math.Int"
	tDec    = "github.com/cosmos/cosmos-sdk/types.Dec"
	tTime   = "time.Time"
	tAddr   = "github.com/cosmos/cosmos-sdk/types.AccAddress"
	tCoins  = "github.com/cosmos/cosmos-sdk/types.Coins"
	tSdkInt = "github.com/cosmos/cosmos-sdk/types.Int"
)

// trueEdgesOf: edges on which the boolean value v is true.
func boolValueEdges(fn *ssa.Function, v ssa.Value, want bool) []Edge {
	return EdgesWhere(fn, func(base ssa.Value) (bool, bool) {
		if base == v {
			return want, true
		}
		return false, false
	})
}

func checkC08(w *World, r *Report) {
	cg := w.CG()
	ro := w.Roles()
	r.Undecided = []string{"the truncation arithmetic of the free part (integer part of amount*(1-free)) is not evaluated; only that TruncateInt and no rounding-up operator is on the slice"}
	r.Rule("C08.same", "P6", "pool send: the value added to Sent, the value passed to account creation and the value transferred are the same amount; direct creation: the coins vested and the coins transferred are the same Coins", 4)
	r.Rule("C08.vested", "P6", "original vesting depends on amount and on the vesting type's Free - in every alternative the account creation can be handed -, passes through TruncateInt and never a rounding-up operator; the transferred coin does not depend on Free", 3)
	r.Rule("C08.schedule", "P5,P6,P7", "restart: (start,end) depend on block time and LockupPeriod, end also on VestingPeriod; no restart: both are the pool's LockEnd; account start = max(lockEnd, now) (ordering table); end passed through; direct creation passes the message's start and end unchanged", 9)
	r.Rule("C08.avail", "P5,P7", "= C05.avail for Sent: a send is rejected exactly when the pool holds less than the requested amount (ordering table over currently locked vs the amount that leaves the pool), and a negative amount is rejected", 3)
	r.Rule("C08.pool", "P8", "sibling agreement: the pool a send debits is selected by exact equality of the stored name with the requested name, the same comparison that keeps pool names unique per owner at creation", 2)
	r.Rule("C08.fresh", "P5", "the account written by account creation is built from NewAccountWithAddress(to) of the same address, as a ContinuousVestingAccount with the given original vesting, start and end", 4)
	if !ro.checkFloors(r) {
		return
	}
	send := w.Func("x/cfevesting/keeper.Keeper.SendToNewVestingAccount")
	nva := w.Func("x/cfevesting/keeper.Keeper.newVestingAccount")
	ncva := w.Func("x/cfevesting/keeper.Keeper.newContinuousVestingAccount")
	cva := w.Func("x/cfevesting/keeper.Keeper.CreateVestingAccount")
	hcva := w.Func("x/cfevesting/keeper.msgServer.CreateVestingAccount")
	hsend := w.Func("x/cfevesting/keeper.msgServer.SendToVestingAccount")
	for n, f := range map[string]*ssa.Function{"SendToNewVestingAccount": send, "newVestingAccount": nva, "newContinuousVestingAccount": ncva, "CreateVestingAccount": cva, "msgServer.CreateVestingAccount": hcva, "msgServer.SendToVestingAccount": hsend} {
		if f == nil {
			r.Unk("infra.anchor", "x/cfevesting/keeper."+n, "", "anchor not found")
			return
		}
	}
	tr := w.Tracer()

	// ---------- C08.same (pool send) ----------
	var sentInc ssa.Value
	for _, fs := range FieldStores(send) {
		if fs.Field == "Sent" {
			if inc, ok := incrementOf(fs); ok {
				sentInc = inc
			}
		}
	}
	var nvaCalls []*Site
	for _, s := range cg.Sites[send] {
		if calleeIs(s, "x/cfevesting/keeper.Keeper.newVestingAccount") {
			nvaCalls = append(nvaCalls, s)
		}
	}
	amountP := paramOfType(nva, tInt, 0)
	freeP := paramOfType(nva, tDec, 0)
	lockEndP := paramOfType(nva, tTime, 0)
	vestEndP := paramOfType(nva, tTime, 1)
	toP := paramOfType(nva, tAddr, 0)
	if amountP == nil || freeP == nil || lockEndP == nil || vestEndP == nil || toP == nil || len(nvaCalls) == 0 || sentInc == nil {
		r.Unk("C08.same", "pool send: anchors", w.Pos(send.Pos()), "parameters of newVestingAccount / calls / Sent increment not found")
		return
	}
	idxOf := func(fn *ssa.Function, p *ssa.Parameter) int {
		for i, x := range fn.Params {
			if x == p {
				return i
			}
		}
		return -1
	}
	for _, s := range nvaCalls {
		arg := s.Common().Args[idxOf(nva, amountP)]
		r.Check(arg == sentInc, "C08.same", "pool send: amount passed to account creation == amount added to Sent", w.Pos(s.Instr.Pos()), "same SSA value", "the account is created for a different amount than the one booked as sent")
	}
	// handler passes msg.Amount as the amount
	for _, s := range cg.Sites[hsend] {
		if calleeIs(s, "x/cfevesting/keeper.Keeper.SendToNewVestingAccount") {
			ai := idxOf(send, paramOfType(send, tInt, 0))
			ok := ai >= 0 && loadOfField(s.Common().Args[ai], "Amount", nil)
			r.Check(ok, "C08.same", "pool send: handler passes msg.Amount", w.Pos(s.Instr.Pos()), "the requested amount is the one processed", "the handler passes something else than msg.Amount")
		}
	}
	// transfer in newVestingAccount
	var xfer *Site
	for _, s := range cg.Sites[nva] {
		if cg.Atom(s) == BankMove {
			xfer = s
		}
	}
	if xfer == nil {
		r.Bad("C08.same", "pool send: transfer in newVestingAccount", w.Pos(nva.Pos()), "no transfer found")
	} else {
		am, _, ok := unwrapCoins(coinsArg(xfer))
		r.Check(ok && am == amountP, "C08.same", "pool send: transferred amount == requested amount", w.Pos(xfer.Instr.Pos()), "NewCoins(NewCoin(denom, amount)) of the amount parameter", "the transfer does not carry exactly the requested amount")
		o := tr.Origins(coinsArg(xfer))
		r.Check(!o.Visited(freeP), "C08.vested", "pool send: transferred coins independent of Free", w.Pos(xfer.Instr.Pos()), "the free fraction is not on the backward slice of the transferred coins", "the transferred coins depend on the free fraction")
	}
	// original vesting
	var ncvaCall *Site
	for _, s := range cg.Sites[nva] {
		if calleeIs(s, "x/cfevesting/keeper.Keeper.newContinuousVestingAccount") {
			ncvaCall = s
		}
	}
	if ncvaCall == nil {
		r.Bad("C08.vested", "newVestingAccount creates the account", w.Pos(nva.Pos()), "no call of newContinuousVestingAccount")
		return
	}
	ovArg := ncvaCall.Args()[2]
	{
		o := tr.Origins(ovArg)
		dep := o.Visited(amountP) && o.Visited(freeP)
		r.Check(dep, "C08.vested", "original vesting depends on amount and Free", w.Pos(ncvaCall.Instr.Pos()), "both parameters are on the backward slice", "original vesting does not depend on both the amount and the free fraction")
		trunc := o.HasOp("types.Dec.TruncateInt") && !o.HasOp("types.Dec.RoundInt", "types.Dec.Ceil", "types.Dec.RoundInt64", "types.Dec.MulRoundUp", "types.Dec.QuoRoundUp")
		r.Check(trunc, "C08.vested", "original vesting is truncated, never rounded up", w.Pos(ncvaCall.Instr.Pos()), "TruncateInt on the slice; no RoundInt/Ceil", "a rounding operator other than TruncateInt produces the vested amount")
		// every alternative: the value handed to account creation may be chosen among several (a phi, the results of a
		// helper); each of them is computed from the amount, and from Free unless the function branches on Free itself
		// (a special case for a free fraction of zero or one) - no alternative may replace the documented amount by a
		// constant or by a quantity that ignores the vesting type
		branchesOnFree := false
		for _, b := range nva.Blocks {
			if iff, ok := b.Instrs[len(b.Instrs)-1].(*ssa.If); ok && tr.Origins(iff.Cond).Visited(freeP) {
				branchesOnFree = true
			}
		}
		alts := w.LiveValuesDeep(nva, func(ssa.Value) (bool, bool) { return false, false }, ovArg, 2)
		allDep := len(alts) > 0
		bad := ""
		for _, a := range alts {
			ao := a.Origins(tr)
			if !ao.Visited(amountP) || !(ao.Visited(freeP) || branchesOnFree) {
				allDep = false
				bad = w.Pos(a.V.Pos())
			}
		}
		r.Check(allDep, "C08.vested", "every alternative of the original vesting is computed from amount and Free", w.Pos(ncvaCall.Instr.Pos()), fmt.Sprintf("%d alternative(s), each with both parameters on its backward slice", len(alts)), "one alternative of the original vesting ("+bad+") is not computed from the amount and the free fraction: under some condition the account vests another amount than trunc(amount*(1-free))")
	}
	r.Check(ncvaCall.Args()[1] == toP, "C08.fresh", "newVestingAccount: account created for the recipient address", w.Pos(ncvaCall.Instr.Pos()), "same address value", "the account is created for another address than the transfer recipient")
	// the account is written only after everything that can still refuse the send was asked: the bank's send-enabled and
	// blocked-address checks of the operation come before the creation (a refused send must not leave an empty vesting
	// account behind that occupies the address)
	for _, e := range w.effectsBelow(nva, func(s *Site) bool {
		return cg.Atom(s) == BankRead && (s.Method == "IsSendEnabledCoins" || s.Method == "IsSendEnabledCoin" || s.Method == "BlockedAddr")
	}, 2) {
		top := e.Top()
		r.Check(instrDominates(top, ncvaCall.Instr), "C08.fresh", "newVestingAccount: "+e.Site.Method+" is asked before the account is created", w.Pos(top.Pos()), "the check dominates the creation", "the recipient account is created before "+e.Site.Method+" can still refuse the send: a refused send leaves an empty vesting account at the address")
	}
	if xfer != nil {
		var rec ssa.Value
		for _, a := range xfer.Args() {
			if typeString(a.Type()) == "github.com/cosmos/cosmos-sdk/types.AccAddress" {
				rec = a
			}
		}
		r.Check(rec == toP, "C08.fresh", "newVestingAccount: transfer recipient is the created account", w.Pos(xfer.Instr.Pos()), "same address value", "coins are sent to another address than the created account")
	}

	// ---------- C08.avail ----------
	shareRule(w, r, checkC05, "C05.avail", "C08.avail", func(o Obligation) bool { return strings.Contains(o.Construct, "Sent") })
	// ---------- C08.pool ----------
	// the pool debited is the pool named: selected by exact equality of the stored name with the requested name -
	// the very comparison by which pool names are kept unique per owner (addVestingPool, checkDuplications)
	{
		nameP := paramOfType(send, "string", 2) // (owner, toAddr, vestingPoolName)
		var pl *rangeLoop
		for _, l := range rangeLoops(send) {
			l := l
			if l.Over != nil && loadOfField(l.Over, "VestingPools", nil) {
				pl = &l
			}
		}
		// the search may live in a helper that is given the pools and the name
		if pl == nil && nameP != nil {
			for _, cs := range cg.Sites[send] {
				h := cs.Common().StaticCallee()
				if h == nil || h.Blocks == nil || !w.isProdFunc(h) || cs.Common().IsInvoke() {
					continue
				}
				for i, a := range cs.Common().Args {
					if a != ssa.Value(nameP) || i >= len(h.Params) {
						continue
					}
					for _, l := range rangeLoops(h) {
						l := l
						if l.Over == nil {
							continue
						}
						_, isParam := l.Over.(*ssa.Parameter)
						if isParam || loadOfField(l.Over, "VestingPools", nil) {
							pl = &l
							nameP = h.Params[i]
						}
					}
				}
			}
		}
		if pl == nil || nameP == nil {
			r.Unk("C08.pool", "selection of the pool to debit", w.Pos(send.Pos()), "loop over the owner's pools not found")
		} else {
			in := loopBlocks(pl.Header)
			n, ok := 0, true
			for b := range in {
				if b == pl.Header {
					continue
				}
				i := blockIf(b)
				if i == nil {
					continue
				}
				n++
				base, _ := stripNot(i.Cond)
				bo, isB := base.(*ssa.BinOp)
				exact := isB && (bo.Op == token.EQL || bo.Op == token.NEQ) &&
					(loadOfField(bo.X, "Name", nil) && bo.Y == ssa.Value(nameP) || loadOfField(bo.Y, "Name", nil) && bo.X == ssa.Value(nameP))
				if !exact {
					ok = false
				}
			}
			r.Check(ok && n == 1, "C08.pool", "the pool debited is selected by exact equality with the requested name", w.Pos(pl.Body.Instrs[0].Pos()), "pool.Name == vestingPoolName", "the pool is not selected by exact equality of its name with the requested name, while names are kept unique by exact equality only: with two names that the looser test identifies, another pool than the one named is debited (its counter, its availability, its vesting type)")
			// sibling: uniqueness at creation uses the same comparison (looked for in pool creation and the helpers it calls)
			if create := w.Func("x/cfevesting/keeper.Keeper.CreateVestingPool"); create != nil {
				okU := false
				fns := []*ssa.Function{create}
				for _, e := range w.effectsBelow(create, func(s *Site) bool { return false }, 0) {
					_ = e
				}
				seenF := map[*ssa.Function]bool{create: true}
				for depth := 0; depth < 2; depth++ {
					for _, f := range append([]*ssa.Function{}, fns...) {
						for _, s := range cg.Sites[f] {
							if h := s.Static; h != nil && !s.Invoke && h.Blocks != nil && w.isProdFunc(h) && !seenF[h] && !isGeneratedFile(w.FileOf(h.Pos())) {
								seenF[h] = true
								fns = append(fns, h)
							}
						}
					}
				}
				var where *ssa.Function
				for _, f := range fns {
					for _, b := range f.Blocks {
						if i := blockIf(b); i != nil {
							base, _ := stripNot(i.Cond)
							if bo, isB := base.(*ssa.BinOp); isB && (bo.Op == token.EQL || bo.Op == token.NEQ) && (loadOfField(bo.X, "Name", nil) || loadOfField(bo.Y, "Name", nil)) {
								okU = true
								where = f
							}
						}
					}
				}
				pos := w.Pos(create.Pos())
				if where != nil {
					pos = w.Pos(where.Pos())
				}
				r.Check(okU, "C08.pool", "pool names are unique per owner by exact equality", pos, "pool creation rejects an equal name", "no exact-equality uniqueness test at pool creation")
			} else {
				r.Unk("infra.anchor", "x/cfevesting/keeper.Keeper.CreateVestingPool", "", "anchor not found")
			}
		}
	}
	// ---------- C08.schedule ----------
	// (1) restart flag
	restartP := paramOfType(send, "bool", 0)
	var sentBase ssa.Value
	for _, fs := range FieldStores(send) {
		if fs.Field == "Sent" {
			sentBase = fs.FA.X
		}
	}
	for _, flag := range []bool{true, false} {
		flag := flag
		assume := func(base ssa.Value) (bool, bool) {
			if base == ssa.Value(restartP) {
				return flag, true
			}
			return false, false
		}
		live := ReachUnder(send, assume)
		ncalls := 0
		for _, s := range nvaCalls {
			if !live.LiveInstr(s.Instr) {
				continue
			}
			ncalls++
			a := s.Common().Args
			// the two ends may be computed by a helper that is handed the restart flag: its live results
			les, ves := w.LiveValuesDeep(send, assume, a[idxOf(nva, lockEndP)], 2), w.LiveValuesDeep(send, assume, a[idxOf(nva, vestEndP)], 2)
			if flag {
				ok := len(les) > 0 && len(ves) > 0
				var ol, ov *Origin
				for _, le := range les {
					ol = le.Origins(tr)
					ok = ok && ol.HasCall("types.Context.BlockTime") && ol.HasPath("VestingType.LockupPeriod") && !ol.HasPath("VestingType.VestingPeriod") && !ol.HasPath("VestingPool.LockEnd") &&
						ol.HasOp("time.Time.Add") && !ol.HasOp("time.Time.Sub")
				}
				for _, ve := range ves {
					ov = ve.Origins(tr)
					ok = ok && ov.HasCall("types.Context.BlockTime") && ov.HasPath("VestingType.LockupPeriod") && ov.HasPath("VestingType.VestingPeriod") && !ov.HasPath("VestingPool.LockEnd") &&
						ov.HasOp("time.Time.Add") && !ov.HasOp("time.Time.Sub")
				}
				why := ""
				if ol != nil && ov != nil {
					why = "start <- " + ol.String() + "; end <- " + ov.String()
				}
				r.Check(ok, "C08.schedule", "restart: start <- now+LockupPeriod, end <- now+LockupPeriod+VestingPeriod", w.Pos(s.Instr.Pos()), "origins: start {BlockTime, LockupPeriod}, end {BlockTime, LockupPeriod, VestingPeriod}", "restart schedule has other origins: "+why)
				// the sums are formed on time.Time (Time.Add), never on raw durations, which wrap around silently
				okOv := true
				for _, o := range []*Origin{ol, ov} {
					if o == nil {
						continue
					}
					for v := range o.Values {
						if b, isB := v.(*ssa.BinOp); isB && strings.HasSuffix(typeString(b.Type()), "time.Duration") {
							_, cx := b.X.(*ssa.Const)
							_, cy := b.Y.(*ssa.Const)
							if !cx && !cy {
								okOv = false
							}
						}
					}
				}
				r.Check(okOv, "C08.schedule", "restart: periods are added to the block time one by one", w.Pos(s.Instr.Pos()), "no arithmetic on two stored durations (int64 nanoseconds wrap silently)", "two stored durations are combined with integer arithmetic before being added to the block time: a long lockup plus a long vesting period wraps to a negative duration and the account ends before it starts")
				// the vesting type is the pool's
				okVT := false
				if ol != nil {
					for _, c := range ol.CallsNamed("Keeper.GetVestingType") {
						a := c.Common().Args
						if loadOfField(a[len(a)-1], "VestingType", func(b ssa.Value) bool { return b == sentBase }) {
							okVT = true
						}
					}
				}
				r.Check(okVT, "C08.schedule", "restart: periods come from the vesting type of the debited pool", w.Pos(s.Instr.Pos()), "GetVestingType(pool.VestingType) of the pool whose Sent grows", "the periods are not read from the vesting type of the pool the coins come from")
			} else {
				ok := len(les) > 0 && len(ves) > 0
				for _, v := range append(append([]DeepVal{}, les...), ves...) {
					ok = ok && loadOfField(v.Root, "LockEnd", func(b ssa.Value) bool { return sentBase == nil || b == sentBase })
				}
				r.Check(ok, "C08.schedule", "no restart: start and end are the pool's LockEnd", w.Pos(s.Instr.Pos()), "both arguments load LockEnd of the debited pool", "without restart the schedule is not (LockEnd, LockEnd) of the debited pool")
			}
		}
		r.Check(ncalls == 1, "C08.schedule", fmt.Sprintf("exactly one account creation when restart=%v", flag), w.Pos(send.Pos()), "one live newVestingAccount call", fmt.Sprintf("%d account creation calls are live when restart=%v", ncalls, flag))
	}
	for _, s := range nvaCalls {
		a := s.Common().Args
		fr := a[idxOf(nva, freeP)]
		r.Check(loadOfField(fr, "Free", nil), "C08.vested", "free fraction passed is the vesting type's Free", w.Pos(s.Instr.Pos()), "argument loads VestingType.Free", "the free fraction passed is not the vesting type's")
	}
	// (2) start = max(lockEnd, now)
	startArg, endArg := ncvaCall.Args()[3], ncvaCall.Args()[4]
	unixOf := func(v ssa.Value) ssa.Value {
		if c, ok := isCallTo(v, "time.Time.Unix"); ok {
			return c.Common().Args[0]
		}
		return nil
	}
	st := unixOf(startArg)
	if st == nil {
		r.Bad("C08.schedule", "newVestingAccount: start = X.Unix()", w.Pos(ncvaCall.Instr.Pos()), "start argument is not a Unix() of a time")
	} else {
		term := func(v ssa.Value) string {
			if v == lockEndP {
				return "lockEnd"
			}
			if isBlockTime(v) {
				return "now"
			}
			return ""
		}
		for s := -1; s <= 1; s++ {
			// (the choice may sit in a helper `laterOf(lockEnd, now)`: its live results under the same ordering, in nva's terms)
			vals := w.LiveValuesDeep(nva, OrderEval(term, twoTermCmp("lockEnd", "now", s), nil), st, 2)
			ok := len(vals) > 0
			for _, dv := range vals {
				v := dv.Root
				isNow, isLE := isBlockTime(v), v == lockEndP
				switch {
				case s < 0 && !isNow, s > 0 && !isLE, s == 0 && !isNow && !isLE:
					ok = false
				}
			}
			r.Check(ok, "C08.schedule", fmt.Sprintf("account start = max(lockEnd, now): lockEnd %s now", orderNames[s]), w.Pos(ncvaCall.Instr.Pos()), "live value is the later of the two", "the account's start time is not max(lockEnd, now)")
		}
	}
	en := unixOf(endArg)
	r.Check(en == vestEndP, "C08.schedule", "account end = vestingEnd", w.Pos(ncvaCall.Instr.Pos()), "vestingEnd.Unix() of the parameter", "the account's end time is not the vesting end passed in")

	// ---------- direct creation ----------
	var ncva2, xfer2 *Site
	for _, s := range cg.Sites[cva] {
		if calleeIs(s, "x/cfevesting/keeper.Keeper.newContinuousVestingAccount") {
			ncva2 = s
		}
		if cg.Atom(s) == BankMove {
			xfer2 = s
		}
	}
	amtP, stP, enP := paramOfType(cva, tCoins, 0), paramOfType(cva, "int64", 0), paramOfType(cva, "int64", 1)
	if ncva2 == nil || xfer2 == nil || amtP == nil || stP == nil || enP == nil {
		r.Bad("C08.same", "direct creation: creation call and transfer", w.Pos(cva.Pos()), "anchors not found")
	} else {
		a := ncva2.Args()
		vestedSame := a[2] == ssa.Value(amtP) || DerivesVia(a[2], amtP, "types.Coins.Sort")
		r.Check(vestedSame, "C08.same", "direct creation: coins vested are the message's coins", w.Pos(ncva2.Instr.Pos()), "amount (sorted) passed as original vesting", "the vested coins differ from the given coins")
		r.Check(coinsArg(xfer2) == ssa.Value(amtP) || DerivesVia(coinsArg(xfer2), amtP, "types.Coins.Sort"), "C08.same", "direct creation: coins transferred are the message's coins", w.Pos(xfer2.Instr.Pos()), "same parameter", "the transferred coins differ from the given coins")
		r.Check(a[3] == ssa.Value(stP) && a[4] == ssa.Value(enP), "C08.schedule", "direct creation: start and end passed through unchanged", w.Pos(ncva2.Instr.Pos()), "parameters forwarded", "start/end are altered on the way to the account")
		r.Check(OnSuccessEdge(cva, xfer2.Instr, siteValue(ncva2)), "C08.fresh", "direct creation: transfer only after the account was created", w.Pos(xfer2.Instr.Pos()), "dominated by the success edge of the creation", "coins are sent although the account creation failed")
		// recipient identity
		var rec ssa.Value
		addrs := []ssa.Value{}
		for _, x := range xfer2.Args() {
			if typeString(x.Type()) == "github.com/cosmos/cosmos-sdk/types.AccAddress" {
				addrs = append(addrs, x)
			}
		}
		if len(addrs) == 2 {
			rec = addrs[1]
		}
		r.Check(rec != nil && rec == a[1], "C08.fresh", "direct creation: transfer recipient is the created account", w.Pos(xfer2.Instr.Pos()), "same address value", "coins are sent to another address than the created account")
	}
	for _, s := range cg.Sites[hcva] {
		if calleeIs(s, "x/cfevesting/keeper.Keeper.CreateVestingAccount") {
			a := s.Common().Args
			ok := loadOfField(a[idxOf(cva, amtP)], "Amount", nil) && loadOfField(a[idxOf(cva, stP)], "StartTime", nil) && loadOfField(a[idxOf(cva, enP)], "EndTime", nil)
			r.Check(ok, "C08.schedule", "direct creation: handler passes msg.Amount, msg.StartTime, msg.EndTime", w.Pos(s.Instr.Pos()), "message fields forwarded", "the handler alters amount/start/end")
		}
	}

	// ---------- newContinuousVestingAccount builds the account from its parameters ----------
	{
		toP := ncva.Params[2]
		ovP, sP, eP := ncva.Params[3], ncva.Params[4], ncva.Params[5]
		var setAcc *Site
		for _, s := range cg.Sites[ncva] {
			if cg.Atom(s) == AuthSet {
				setAcc = s
			}
		}
		if setAcc == nil {
			r.Bad("C08.fresh", "newContinuousVestingAccount stores the account", w.Pos(ncva.Pos()), "no SetAccount")
		} else {
			acc := setAcc.Args()[len(setAcc.Args())-1]
			o := tr.Origins(acc)
			raw := o.CallsNamed("vesting/types.NewContinuousVestingAccountRaw")
			bva := o.CallsNamed("vesting/types.NewBaseVestingAccount")
			nawa := o.CallsNamed("NewAccountWithAddress")
			ok := len(raw) == 1 && len(bva) == 1 && len(nawa) >= 1
			if ok {
				ok = raw[0].Common().Args[1] == ssa.Value(sP) && bva[0].Common().Args[2] == ssa.Value(eP) &&
					(bva[0].Common().Args[1] == ssa.Value(ovP) || DerivesVia(bva[0].Common().Args[1], ovP, "types.Coins.Sort"))
				for _, c := range nawa {
					args := c.Common().Args
					if args[len(args)-1] != ssa.Value(toP) {
						ok = false
					}
				}
			}
			r.Check(ok, "C08.fresh", "newContinuousVestingAccount: ContinuousVestingAccount(NewAccountWithAddress(to), originalVesting, start, end)", w.Pos(setAcc.Instr.Pos()),
				"the stored account is built from the parameters unchanged", "the stored account is not built from (to, originalVesting, startTime, vestingEnd) as given")
			_ = token.NoPos
			_ = strings.Contains
		}
	}
}
