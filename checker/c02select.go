package main

import (
	"fmt"
	"go/token"
	"strings"

	"golang.org/x/tools/go/ssa"
)

// minterSelectRule (C02.select = C10.select = C19.select): the function that the emission and the inflation routine
// share to pick the current period and its predecessor selects BY SEQUENCE ID over ALL configured periods. Validation
// (Params.Validate) accepts any list whose ids are positive and contiguous - it does not require the first id to be 1
// nor does it store the list in any particular order as far as the selection may rely on - so a selection by list
// position is wrong for accepted configurations.
//
// Decided with the ordering abstraction over the terms x = candidate.SequenceId, c = state.SequenceId,
// p = previous.SequenceId (when a previous candidate has been kept): in one iteration of the loop over the periods
//
//	current  := candidate   exactly when x == c,
//	previous := candidate   exactly when x < c and (no previous kept, or x > p)   (x == p: either),
//
// nothing else is ever assigned to the two results, the loop visits every element (no early exit) and the function
// returns the two loop-carried values.
func minterSelectRule(w *World, r *Report, rule string) {
	fn := w.selectionFunc()
	if fn == nil {
		r.Unk("infra.anchor", "x/cfeminter/keeper.getCurrentAndPreviousMinter", "", "anchor not found: no function of the minter module returns the pair (current period, previous period)")
		return
	}
	pos := w.Pos(fn.Pos())
	// the configured periods: a []*Minter parameter, or the Minters field of a Params parameter / receiver;
	// the wanted id: the SequenceId of a MinterState parameter, or a uint32 parameter
	var minters ssa.Value
	var state, idParam *ssa.Parameter
	for _, p := range fn.Params {
		t := typeString(p.Type())
		switch {
		case strings.HasPrefix(t, "[]") && strings.HasSuffix(t, "types.Minter"):
			minters = p
		case strings.HasSuffix(t, "types.MinterState"):
			state = p
		case t == "uint32":
			idParam = p
		}
	}
	if minters == nil {
		for _, l := range rangeLoops(fn) {
			if l.Over != nil && loadOfField(l.Over, "Minters", nil) {
				minters = l.Over
			}
		}
	}
	if minters == nil || (state == nil && idParam == nil) || fn.Signature.Results().Len() != 2 {
		r.Unk(rule, "selection function: (periods, state) -> (current, previous)", pos, "unexpected signature")
		return
	}
	var loop *rangeLoop
	for _, l := range rangeLoops(fn) {
		l := l
		if l.Over == minters || sameLoad(l.Over, minters) {
			if loop != nil {
				loop = nil
				break
			}
			loop = &l
		}
	}
	if loop == nil {
		r.Bad(rule, "selection by sequence id over all configured periods", pos, "the selection function has no single loop over the configured periods: the current period and its predecessor are not searched by sequence id (a selection by list position is wrong for accepted configurations whose ids do not start at 1 or that are not listed in order)")
		return
	}
	r.Check(loopEarlyExit(*loop) == nil, rule, "the selection loop visits every configured period", w.Pos(loop.Header.Instrs[0].Pos()), "no early exit", "the loop over the periods can be left early: a later period with the wanted id is not seen")
	// the loop element
	var elem ssa.Value
	in := loopBlocks(loop.Header)
	for b := range in {
		for _, ins := range b.Instrs {
			u, ok := ins.(*ssa.UnOp)
			if !ok || u.Op != token.MUL {
				continue
			}
			if ia, ok := u.X.(*ssa.IndexAddr); ok && (ia.X == minters || sameLoad(ia.X, minters)) {
				elem = u
			}
		}
	}
	// the two loop-carried results
	rets := Returns(fn)
	var phis [2]*ssa.Phi
	okRet := len(rets) > 0
	for _, ret := range rets {
		rv := retVals(ret)
		for i := 0; i < 2; i++ {
			ph, ok := rv[i].(*ssa.Phi)
			if !ok || ph.Block() != loop.Header || (phis[i] != nil && phis[i] != ph) {
				okRet = false
				continue
			}
			phis[i] = ph
		}
	}
	if elem == nil || !okRet || phis[0] == nil || phis[1] == nil || phis[0] == phis[1] {
		r.Bad(rule, "the function returns the two values carried by the selection loop", pos, "the results are not the loop-carried current / previous candidates of a loop over the periods (closed world: nothing but the loop decides them)")
		return
	}
	r.OK(rule, "the function returns the two values carried by the selection loop", pos, "results #0 and #1 are phis of the loop header")
	seqOf := func(v ssa.Value) (base ssa.Value, ok bool) {
		u, isU := v.(*ssa.UnOp)
		if !isU || u.Op != token.MUL {
			return nil, false
		}
		fa, isFA := u.X.(*ssa.FieldAddr)
		if !isFA {
			return nil, false
		}
		if _, f := fieldOf(fa); f != "SequenceId" {
			return nil, false
		}
		return fa.X, true
	}
	term := func(v ssa.Value) string {
		if v == ssa.Value(phis[1]) {
			return "prevptr"
		}
		if idParam != nil && v == ssa.Value(idParam) {
			return "c"
		}
		if b, ok := seqOf(v); ok {
			switch {
			case b == elem:
				return "x"
			case state != nil && b == ssa.Value(state):
				return "c"
			case b == ssa.Value(phis[1]):
				return "p"
			}
		}
		return ""
	}
	backVals := func(live *Live, ph *ssa.Phi) map[ssa.Value]bool {
		out := map[ssa.Value]bool{}
		for k, e := range ph.Edges {
			pred := ph.Block().Preds[k]
			if !in[pred] || !live.PredLive(ph.Block(), k) {
				continue
			}
			// expand inner phis along live edges; the loop-carried phis themselves are leaves ("unchanged")
			seen := map[ssa.Value]bool{}
			var walk func(v ssa.Value)
			walk = func(v ssa.Value) {
				if seen[v] {
					return
				}
				seen[v] = true
				ip, isPhi := v.(*ssa.Phi)
				if !isPhi || ip.Block() == ph.Block() {
					out[v] = true
					return
				}
				for i, ie := range ip.Edges {
					if live.PredLive(ip.Block(), i) {
						walk(ie)
					}
				}
			}
			walk(e)
		}
		return out
	}
	type scen struct {
		name    string
		rank    map[string]int
		prevNil bool
		cur     string // elem | keep
		prev    string // elem | keep | either
	}
	scens := []scen{
		{"no previous kept, x < c", map[string]int{"x": 0, "c": 1}, true, "keep", "elem"},
		{"no previous kept, x == c", map[string]int{"x": 1, "c": 1}, true, "elem", "keep"},
		{"no previous kept, x > c", map[string]int{"x": 2, "c": 1}, true, "keep", "keep"},
		{"x < p < c", map[string]int{"x": 0, "p": 1, "c": 2}, false, "keep", "keep"},
		{"x == p < c", map[string]int{"x": 1, "p": 1, "c": 2}, false, "keep", "either"},
		{"p < x < c", map[string]int{"p": 0, "x": 1, "c": 2}, false, "keep", "elem"},
		{"p < x == c", map[string]int{"p": 0, "x": 1, "c": 1}, false, "elem", "keep"},
		{"p < c < x", map[string]int{"p": 0, "c": 1, "x": 2}, false, "keep", "keep"},
	}
	describe := func(m map[ssa.Value]bool, ph *ssa.Phi) string {
		var s []string
		for v := range m {
			switch {
			case v == elem:
				s = append(s, "candidate")
			case v == ssa.Value(ph):
				s = append(s, "unchanged")
			default:
				s = append(s, "other:"+v.Name())
			}
		}
		if len(s) == 0 {
			return "nothing"
		}
		return strings.Join(s, "|")
	}
	for _, sc := range scens {
		live := ReachUnder(fn, OrderEval(term, rankCmp(sc.rank), func(t string) (bool, bool) {
			if t == "prevptr" {
				return sc.prevNil, true
			}
			return false, false
		}))
		check := func(ph *ssa.Phi, want, what string) {
			got := backVals(live, ph)
			ok := len(got) > 0
			for v := range got {
				switch want {
				case "elem":
					ok = ok && v == elem
				case "keep":
					ok = ok && v == ssa.Value(ph)
				default:
					ok = ok && (v == elem || v == ssa.Value(ph))
				}
			}
			wantTxt := map[string]string{"elem": "the candidate", "keep": "unchanged", "either": "the candidate or unchanged"}[want]
			r.Check(ok, rule, fmt.Sprintf("%s: %s becomes %s", sc.name, what, wantTxt), w.Pos(ph.Pos()), "decided over the ordering of the ids: "+describe(got, ph), fmt.Sprintf("under this ordering of the sequence ids the %s period becomes %s (expected: %s): the period is not selected by its sequence id", what, describe(got, ph), wantTxt))
		}
		check(phis[0], sc.cur, "current")
		check(phis[1], sc.prev, "previous")
	}
}

// selectionFunc: the function the emission and the inflation routine share to pick the current period and its
// predecessor: the named helper of the pinned tree, or - when it was moved or re-shaped - the only production function
// of the minter module that returns a pair (*Minter, *Minter) and is called by the minting routine.
func (w *World) selectionFunc() *ssa.Function {
	if f := w.Func("x/cfeminter/keeper.getCurrentAndPreviousMinter"); f != nil {
		return f
	}
	if w.selFn != nil {
		return w.selFn
	}
	mint := w.Func("x/cfeminter/keeper.Keeper.mint")
	if mint == nil {
		return nil
	}
	var cands []*ssa.Function
	for _, e := range w.effectsBelow(mint, func(s *Site) bool {
		h := s.Static
		if h == nil || h.Blocks == nil || !w.isProdFunc(h) || !strings.Contains(pkgPathOf(h), "/x/cfeminter") {
			return false
		}
		res := h.Signature.Results()
		return res.Len() == 2 && strings.HasSuffix(typeString(res.At(0).Type()), "types.Minter") && strings.HasSuffix(typeString(res.At(1).Type()), "types.Minter") &&
			strings.HasPrefix(typeString(res.At(0).Type()), "*") && strings.HasPrefix(typeString(res.At(1).Type()), "*")
	}, 2) {
		dup := false
		for _, c := range cands {
			if c == e.Site.Static {
				dup = true
			}
		}
		if !dup {
			cands = append(cands, e.Site.Static)
		}
	}
	if len(cands) == 1 {
		w.selFn = cands[0]
	}
	return w.selFn
}

// isSelectionCall: the call's callee is the shared selection function.
func (w *World) isSelectionCall(c *ssa.CallCommon) bool {
	f := w.selectionFunc()
	return f != nil && c.StaticCallee() == f
}
