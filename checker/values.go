package main

import (
	"fmt"
	"go/token"
	"go/types"
	"os"
	"sort"
	"strings"

	"golang.org/x/tools/go/ssa"
)

// Leaf is where a backward slice (P6) ends.
type Leaf struct {
	Kind string    // param | call | outparam | const | global | zero | closure | unknown
	V    ssa.Value // the parameter / call / constant / global / alloc
	Path string    // field path selected from the leaf, e.g. ".MinterState.AmountMinted"
}

func (l Leaf) String() string {
	name := ""
	switch v := l.V.(type) {
	case *ssa.Parameter:
		name = v.Name()
	case *ssa.Call:
		name = callName(v.Common())
	case *ssa.Const:
		name = v.String()
	case *ssa.Global:
		name = v.Name()
	case nil:
		name = "?"
	default:
		name = v.Name()
	}
	return l.Kind + ":" + name + l.Path
}

func callName(c *ssa.CallCommon) string {
	if c.IsInvoke() {
		return typeString(c.Value.Type()) + "." + c.Method.Name()
	}
	if fn := c.StaticCallee(); fn != nil {
		return qualifiedFuncName(fn)
	}
	if b, ok := c.Value.(*ssa.Builtin); ok {
		return "builtin." + b.Name()
	}
	if g := funcVarOf(c.Value); g != nil && g.Pkg != nil {
		return g.Pkg.Pkg.Path() + "." + g.Name()
	}
	return "dynamic"
}

// funcVarOf recognises a call through a package-level function variable (sdk.ZeroInt, sdkerrors.Wrapf ...).
func funcVarOf(v ssa.Value) *ssa.Global {
	if u, ok := v.(*ssa.UnOp); ok && u.Op == token.MUL {
		if g, ok := u.X.(*ssa.Global); ok {
			return g
		}
	}
	return nil
}

// Origin is the result of a backward slice.
type Origin struct {
	Leaves    map[string]Leaf
	Ops       map[string]bool // qualified names of operations traversed
	Calls     map[*ssa.Call]bool
	Phis      map[*ssa.Phi]bool
	Values    map[ssa.Value]bool // every SSA value visited (for "derives from value X" queries)
	Truncated bool
	// CallCtx: the call context in which a visited call was first reached (to express its arguments in the terms of
	// the functions above it, see ResolveUp)
	CallCtx map[*ssa.Call]*tctx
}

func newOrigin() *Origin {
	return &Origin{Leaves: map[string]Leaf{}, Ops: map[string]bool{}, Calls: map[*ssa.Call]bool{}, Phis: map[*ssa.Phi]bool{}, Values: map[ssa.Value]bool{}, CallCtx: map[*ssa.Call]*tctx{}}
}

func (o *Origin) LeafList() []string {
	var out []string
	for k := range o.Leaves {
		out = append(out, k)
	}
	sort.Strings(out)
	return out
}

func (o *Origin) String() string { return strings.Join(o.LeafList(), ", ") }

// HasOp reports whether an operation whose qualified name ends with one of the suffixes was traversed.
func (o *Origin) HasOp(suffixes ...string) bool {
	for op := range o.Ops {
		for _, s := range suffixes {
			if strings.HasSuffix(op, s) {
				return true
			}
		}
	}
	return false
}

// HasCall reports whether a call whose name ends with the suffix is among the leaves/visited calls.
func (o *Origin) HasCall(suffixes ...string) bool {
	for c := range o.Calls {
		n := callName(c.Common())
		for _, s := range suffixes {
			if strings.HasSuffix(n, s) {
				return true
			}
		}
	}
	return false
}

// CallsNamed returns the visited calls whose name ends with the suffix.
func (o *Origin) CallsNamed(suffix string) []*ssa.Call {
	var out []*ssa.Call
	for c := range o.Calls {
		if strings.HasSuffix(callName(c.Common()), suffix) {
			out = append(out, c)
		}
	}
	sort.Slice(out, func(i, j int) bool { return out[i].Pos() < out[j].Pos() })
	return out
}

// HasPath reports whether some leaf selects a field path containing the fragment (e.g. "MinterState.LastMintBlockTime").
func (o *Origin) HasPath(frag string) bool {
	for _, l := range o.Leaves {
		if strings.Contains(l.Path, frag) {
			return true
		}
	}
	return false
}

// HasLeaf reports whether a leaf of the given kind whose rendering contains frag exists.
func (o *Origin) HasLeaf(kind, frag string) bool {
	for _, l := range o.Leaves {
		if (kind == "" || l.Kind == kind) && strings.Contains(l.String(), frag) {
			return true
		}
	}
	return false
}

func (o *Origin) Visited(v ssa.Value) bool { return o.Values[v] }

// Tracer computes origins with a bounded interprocedural depth inside the module.
type Tracer struct {
	w     *World
	Depth int // max call depth entered
	// Opaque lists module callees (by short funcName) that are NOT entered: they become call leaves.
	Opaque map[string]bool
	// Live, when set, restricts phi expansion in the function it was computed for to its live edges
	// (origins under an abstract assumption, see ordering.go).
	Live   *Live
	LiveFn *ssa.Function
	// Lift > 0: a parameter of the function the trace started in (no call context) is followed to the argument at
	// every static call site of that function in the module, up to Lift caller levels ("origins over all callers":
	// a construct that a refactoring moved into a helper is traced as if it were still inlined in its callers).
	Lift int
	// LiftFilter, when set, restricts the lifting to call sites in functions it accepts (e.g. those on the message trees).
	LiftFilter func(caller *ssa.Function) bool
	// NoIndex: the index operand of an element selection is not part of the value's slice (which element is read is
	// control, not data).
	NoIndex bool
	// Stop lists callees (by name suffix) whose result is a leaf and whose arguments are not traced further.
	Stop []string
}

func (w *World) Tracer() *Tracer {
	d := 3
	if w.Tier == "thorough" {
		d = 6
	}
	return &Tracer{w: w, Depth: d, Opaque: map[string]bool{}}
}

type tctx struct {
	parent *tctx
	fn     *ssa.Function
	call   *ssa.CallCommon // the call that entered fn (nil at the root)
	depth  int
}

func (c *tctx) id() string {
	if c == nil {
		return ""
	}
	if c.call == nil {
		return "root"
	}
	return fmt.Sprintf("%s>%p", c.parent.id(), c.call)
}

type tstate struct {
	t    *Tracer
	o    *Origin
	seen map[string]bool
	// at is the load instruction whose contents are being traced (nil when unknown): a store that is overwritten,
	// on every path to the load, by a later store to the same location does not reach it (flow-sensitive locals)
	at     ssa.Instruction
	stores map[*ssa.Alloc][]allocStore
	lifted int
}

type allocStore struct {
	st     ssa.Instruction // the store, or the call of a module helper that stores through the pointer on all its paths
	prefix []string
}

// rootStores lists the stores into an Alloc and into its field / element addresses with their paths.
func (st *tstate) rootStores(root *ssa.Alloc) []allocStore {
	if st.stores == nil {
		st.stores = map[*ssa.Alloc][]allocStore{}
	}
	if s, ok := st.stores[root]; ok {
		return s
	}
	var out []allocStore
	var walk func(cur ssa.Value, prefix []string, depth int)
	walk = func(cur ssa.Value, prefix []string, depth int) {
		refs := cur.Referrers()
		if refs == nil || depth > 6 {
			return
		}
		for _, ref := range *refs {
			switch r := ref.(type) {
			case *ssa.Store:
				if r.Addr == cur {
					out = append(out, allocStore{r, prefix})
				}
			case *ssa.FieldAddr:
				if r.X == cur {
					walk(r, append(append([]string{}, prefix...), fieldElem(cur.Type(), r.Field)), depth+1)
				}
			case *ssa.Call:
				// a module helper that, whenever it returns, has stored through the pointer handed in
				if h := r.Common().StaticCallee(); h != nil && h.Blocks != nil && !r.Common().IsInvoke() {
					for i, a := range r.Common().Args {
						if a != cur || i >= len(h.Params) {
							continue
						}
						if ws, simple := outparamWrites(h.Params[i]); simple {
							for _, pw := range ws {
								if pw.must {
									out = append(out, allocStore{r, append(append([]string{}, prefix...), pw.prefix...)})
								}
							}
						}
					}
				}
			}
		}
	}
	walk(root, nil, 0)
	st.stores[root] = out
	return out
}

// canReach: some execution runs `to` after `from` (same function).
func canReach(from, to ssa.Instruction) bool {
	fb, tb := from.Block(), to.Block()
	if fb == nil || tb == nil {
		return true
	}
	if fb == tb {
		for _, in := range fb.Instrs {
			if in == from {
				return true // from first, then to (or to == from)
			}
			if in == to {
				break
			}
		}
	}
	seen := map[*ssa.BasicBlock]bool{}
	stack := append([]*ssa.BasicBlock{}, fb.Succs...)
	for len(stack) > 0 {
		b := stack[len(stack)-1]
		stack = stack[:len(stack)-1]
		if seen[b] {
			continue
		}
		seen[b] = true
		if b == tb {
			return true
		}
		stack = append(stack, b.Succs...)
	}
	return false
}

// killed: the store s (at path prefix of root) cannot be what the load st.at reads, because another store that
// overwrites the same location (its path is a prefix of s's) dominates the load and s cannot execute after it.
func (st *tstate) killed(root *ssa.Alloc, s ssa.Instruction, prefix, path []string) bool {
	at := st.at
	if at == nil || at.Block() == nil || s.Block() == nil || at.Parent() != s.Parent() {
		return false
	}
	isPrefix := func(a, b []string) bool {
		if len(a) > len(b) {
			return false
		}
		for i := range a {
			if a[i] != b[i] {
				return false
			}
		}
		return true
	}
	for _, o := range st.rootStores(root) {
		if ssa.Instruction(o.st) == s || !(isPrefix(o.prefix, prefix) || isPrefix(o.prefix, path)) {
			continue
		}
		if instrDominates(o.st, at) && !canReach(o.st, s) {
			return true
		}
	}
	return false
}

// Origins computes the origins of value v (field path nil).
func (t *Tracer) Origins(v ssa.Value) *Origin { return t.OriginsPath(v, nil) }

func (t *Tracer) OriginsPath(v ssa.Value, path []string) *Origin {
	st := &tstate{t: t, o: newOrigin(), seen: map[string]bool{}}
	st.trace(v, path, &tctx{fn: parentOf(v)})
	return st.o
}

// OriginsAll merges the origins of several values.
func (t *Tracer) OriginsAll(vs ...ssa.Value) *Origin {
	st := &tstate{t: t, o: newOrigin(), seen: map[string]bool{}}
	for _, v := range vs {
		if v == nil {
			continue
		}
		st.trace(v, nil, &tctx{fn: parentOf(v)})
	}
	return st.o
}

func pathStr(p []string) string { return strings.Join(p, "") }

func (st *tstate) leaf(kind string, v ssa.Value, path []string) {
	l := Leaf{Kind: kind, V: v, Path: pathStr(path)}
	st.o.Leaves[l.String()] = l
}

func fieldElem(structT types.Type, idx int) string {
	t := structT
	if p, ok := t.Underlying().(*types.Pointer); ok {
		t = p.Elem()
	}
	s, ok := t.Underlying().(*types.Struct)
	if !ok {
		return ".?"
	}
	name := s.Field(idx).Name()
	if n, ok := t.(*types.Named); ok {
		return "." + n.Obj().Name() + "." + name
	}
	return "." + name
}

func (st *tstate) trace(v ssa.Value, path []string, c *tctx) {
	if v == nil {
		return
	}
	key := fmt.Sprintf("%p|%s|%s", v, pathStr(path), c.id())
	if st.seen[key] {
		return
	}
	st.seen[key] = true
	st.o.Values[v] = true
	if len(st.seen) > 20000 {
		st.o.Truncated = true
		return
	}
	switch x := v.(type) {
	case *ssa.Parameter:
		// map to the argument when we entered this function through a call
		for cc := c; cc != nil; cc = cc.parent {
			if cc.fn == x.Parent() && cc.call != nil {
				idx := -1
				for i, p := range cc.fn.Params {
					if p == x {
						idx = i
					}
				}
				args := cc.call.Args
				if cc.call.IsInvoke() {
					// receiver is call.Value, then Args
					if idx == 0 {
						st.trace(cc.call.Value, path, cc.parent)
						return
					}
					idx--
				}
				if idx >= 0 && idx < len(args) {
					st.trace(args[idx], path, cc.parent)
					return
				}
			}
			if cc.fn == x.Parent() {
				break
			}
		}
		lift := st.t.Lift
		if lift == 0 && x.Parent() != nil && x.Parent().Parent() != nil {
			lift = 1 // the parameter of a function literal: what its caller (the function it is handed to) passes
		}
		if lift > 0 && st.lifted < lift {
			callers := st.t.w.CG().Callers[x.Parent()]
			if st.t.LiftFilter != nil {
				var kept []*Site
				for _, cs := range callers {
					if st.t.LiftFilter(cs.Caller) {
						kept = append(kept, cs)
					}
				}
				callers = kept
			}
			if len(callers) > 0 {
				idx := -1
				for i, p := range x.Parent().Params {
					if p == x {
						idx = i
					}
				}
				all := idx >= 0
				isLit := x.Parent().Parent() != nil
				for _, cs := range callers {
					if cs.Common().IsInvoke() || idx >= len(cs.Common().Args) {
						all = false
					}
					if cs.Common().StaticCallee() != x.Parent() && !isLit {
						all = false
					}
				}
				if all {
					st.lifted++
					for _, cs := range callers {
						old := st.at
						st.at = nil
						st.trace(cs.Common().Args[idx], path, &tctx{fn: cs.Caller})
						st.at = old
					}
					st.lifted--
					return
				}
			}
		}
		st.leaf("param", x, path)
	case *ssa.Const:
		st.leaf("const", x, nil)
	case *ssa.Global:
		st.leaf("global", x, path)
	case *ssa.Function:
		st.leaf("const", x, nil)
	case *ssa.Builtin:
	case *ssa.FreeVar:
		st.traceFreeVar(x, path, c)
	case *ssa.Alloc:
		st.traceLoad(x, path, c)
	case *ssa.FieldAddr, *ssa.IndexAddr:
		st.traceLoad(v, path, c)
	case *ssa.UnOp:
		if x.Op == token.MUL {
			old := st.at
			st.at = x
			st.traceLoad(x.X, path, c)
			st.at = old
		} else {
			if x.Op != token.ARROW {
				st.o.Ops["op"+x.Op.String()] = true
			}
			st.trace(x.X, path, c)
		}
	case *ssa.BinOp:
		st.o.Ops["op"+x.Op.String()] = true
		st.o.Values[x] = true
		st.trace(x.X, nil, c)
		st.trace(x.Y, nil, c)
	case *ssa.Phi:
		st.o.Phis[x] = true
		for i, e := range x.Edges {
			if st.t.Live != nil && x.Parent() == st.t.LiveFn && !st.t.Live.PredLive(x.Block(), i) {
				continue
			}
			st.trace(e, path, c)
		}
	case *ssa.Extract:
		if call, ok := x.Tuple.(*ssa.Call); ok {
			st.traceCall(call, x.Index, path, c)
		} else {
			st.trace(x.Tuple, path, c)
		}
	case *ssa.Call:
		st.traceCall(x, 0, path, c)
	case *ssa.ChangeType:
		st.trace(x.X, path, c)
	case *ssa.Convert:
		st.trace(x.X, path, c)
	case *ssa.ChangeInterface:
		st.trace(x.X, path, c)
	case *ssa.MakeInterface:
		st.trace(x.X, path, c)
	case *ssa.TypeAssert:
		st.trace(x.X, path, c)
	case *ssa.Field:
		st.trace(x.X, append([]string{fieldElem(x.X.Type(), x.Field)}, path...), c)
	case *ssa.Index:
		st.trace(x.X, append([]string{"[*]"}, path...), c)
		if !st.t.NoIndex {
			st.trace(x.Index, nil, c)
		}
	case *ssa.Lookup:
		st.trace(x.X, append([]string{"[*]"}, path...), c)
		if !st.t.NoIndex {
			st.trace(x.Index, nil, c)
		}
	case *ssa.Slice:
		st.trace(x.X, path, c)
	case *ssa.MakeSlice, *ssa.MakeMap, *ssa.MakeChan:
		st.leaf("zero", v, path)
	case *ssa.MakeClosure:
		st.leaf("closure", x, nil)
	case *ssa.Next:
		st.trace(x.Iter, path, c)
	case *ssa.Range:
		st.trace(x.X, append([]string{"[*]"}, path...), c)
	case *ssa.SliceToArrayPointer:
		st.trace(x.X, path, c)
	default:
		st.leaf("unknown", v, path)
	}
}

func (st *tstate) traceFreeVar(fv *ssa.FreeVar, path []string, c *tctx) {
	fn := fv.Parent()
	idx := -1
	for i, f := range fn.FreeVars {
		if f == fv {
			idx = i
		}
	}
	parent := fn.Parent()
	found := false
	if parent != nil && idx >= 0 {
		for _, b := range parent.Blocks {
			for _, in := range b.Instrs {
				mc, ok := in.(*ssa.MakeClosure)
				if !ok || mc.Fn != fn || idx >= len(mc.Bindings) {
					continue
				}
				found = true
				// the closure body runs in the lexical context of the parent: use a root context for it
				st.trace(mc.Bindings[idx], path, &tctx{fn: parent})
			}
		}
	}
	if !found {
		st.leaf("unknown", fv, path)
	}
}

// storesInto traces every value stored into addr (an Alloc or a derived address) that can affect `path`.
func (st *tstate) traceLoad(addr ssa.Value, path []string, c *tctx) {
	key := fmt.Sprintf("L%p|%s|%s|%p", addr, pathStr(path), c.id(), st.at)
	if st.seen[key] {
		return
	}
	st.seen[key] = true
	st.o.Values[addr] = true
	switch a := addr.(type) {
	case *ssa.Alloc:
		n := st.allocContents(a, a, nil, path, c)
		if n == 0 {
			st.leaf("zero", a, path)
		}
	case *ssa.FieldAddr:
		el := fieldElem(a.X.Type(), a.Field)
		st.traceLoad(a.X, append([]string{el}, path...), c)
		// stores made in this function through the same base pointer and field
		if _, isAlloc := a.X.(*ssa.Alloc); !isAlloc {
			st.sameBaseFieldStores(a, path, c)
		}
	case *ssa.IndexAddr:
		if !st.t.NoIndex {
			st.trace(a.Index, nil, c)
		}
		if _, ok := a.X.Type().Underlying().(*types.Pointer); ok {
			st.traceLoad(a.X, append([]string{"[*]"}, path...), c)
		} else {
			st.trace(a.X, append([]string{"[*]"}, path...), c)
		}
	case *ssa.Global:
		st.leaf("global", a, path)
	case *ssa.FreeVar:
		st.traceFreeVar(a, path, c)
	case *ssa.Parameter, *ssa.Phi, *ssa.Call, *ssa.Extract, *ssa.UnOp, *ssa.TypeAssert, *ssa.MakeInterface, *ssa.ChangeType, *ssa.Convert, *ssa.Slice, *ssa.Lookup, *ssa.Index, *ssa.Field:
		// pointer value: contents are reached transparently
		st.trace(addr, path, c)
	default:
		st.leaf("unknown", addr, path)
	}
}

// allocContents traces values stored to root (an Alloc) or to sub-addresses of it. cur is the current
// address (root or a FieldAddr/IndexAddr derived from it), prefix the field path from root to cur.
// Returns the number of contributing stores.
func (st *tstate) allocContents(root *ssa.Alloc, cur ssa.Value, prefix []string, path []string, c *tctx) int {
	n := 0
	refs := cur.Referrers()
	if refs == nil {
		return 0
	}
	for _, ref := range *refs {
		if os.Getenv("C4E_DEBUG2") != "" && root.Comment == "list" {
			fmt.Printf("ALLOCREF %s %T %s path=%s\n", root.Parent().Name(), ref, ref.String(), pathStr(path))
		}
		switch r := ref.(type) {
		case *ssa.Store:
			if r.Addr != cur {
				continue
			}
			// a store at prefix: relevant if prefix is a prefix of path or path a prefix of prefix
			if rest, ok := relPath(prefix, path); ok {
				if st.killed(root, r, prefix, path) {
					n++ // the location is written (by the overwriting store); this store does not reach the load
					continue
				}
				old := st.at
				st.at = nil
				st.trace(r.Val, rest, c)
				st.at = old
				n++
			}
		case *ssa.FieldAddr:
			if r.X != cur {
				continue
			}
			el := fieldElem(cur.Type(), r.Field)
			np := append(append([]string{}, prefix...), el)
			if pathCompatible(np, path) {
				n += st.allocContents(root, r, np, path, c)
			}
		case *ssa.IndexAddr:
			if r.X != cur {
				continue
			}
			np := append(append([]string{}, prefix...), "[*]")
			if pathCompatible(np, path) {
				n += st.allocContents(root, r, np, path, c)
			}
		case *ssa.Call:
			// the address escapes into a call (out-parameter such as cdc.MustUnmarshal(b, &x)) — only when passed as argument
			if hasSuffixAny(callName(r.Common()), readOnlyPointerCallees...) {
				continue // the callee only reads through the pointer (marshalling, rendering)
			}
			if h := r.Common().StaticCallee(); h != nil && h.Blocks != nil {
				ro := true
				for i, a := range r.Common().Args {
					if a == cur && (i >= len(h.Params) || !readOnlyParam(h.Params[i], 0)) {
						ro = false
					}
				}
				if ro {
					continue // a module helper that only reads what the pointer points to
				}
			}
			for ai, a := range r.Common().Args {
				if a == cur {
					if st.killed(root, r, prefix, path) {
						n++
						continue
					}
					// a module helper that only stores through the pointer (no further escape): the values it stores,
					// traced in the helper with its parameters bound to this call's arguments
					if h := r.Common().StaticCallee(); h != nil && h.Blocks != nil && !r.Common().IsInvoke() && ai < len(h.Params) && c.depth < st.t.Depth && !st.t.Opaque[funcName(h)] {
						if ws, simple := outparamWrites(h.Params[ai]); simple {
							hc := &tctx{parent: c, fn: h, call: r.Common(), depth: c.depth + 1}
							for _, pw := range ws {
								full := append(append([]string{}, prefix...), pw.prefix...)
								if rest, ok := relPath(full, path); ok {
									wc := hc
									for _, v := range pw.via {
										wc = &tctx{parent: wc, fn: v.Common().StaticCallee(), call: v.Common(), depth: wc.depth}
									}
									old := st.at
									st.at = nil
									st.trace(pw.st.Val, rest, wc)
									st.at = old
									n++
								}
							}
							continue
						}
					}
					if _, ok := relPath(prefix, path); ok || pathCompatible(prefix, path) {
						st.o.Calls[r] = true
						st.leaf("outparam", r, path)
						n++
					}
				}
			}
		case *ssa.ChangeType:
			// the pointer converted to another pointer type (PT(val) in generic code): same storage
			if r.X == cur {
				n += st.allocContents(root, r, prefix, path, c)
			}
		case *ssa.MakeClosure:
			// the local is captured by a function literal: what the literal stores through the captured variable
			if lit, ok := r.Fn.(*ssa.Function); ok && len(prefix) == 0 {
				for bi, bnd := range r.Bindings {
					if bnd != cur || bi >= len(lit.FreeVars) {
						continue
					}
					n += st.freeVarStores(lit.FreeVars[bi], path, &tctx{fn: lit})
				}
			}
		case *ssa.MakeInterface:
			// address boxed into an interface then passed to a call (proto.Unmarshal(bz, &x))
			if r.X == cur && r.Referrers() != nil {
				for _, rr := range *r.Referrers() {
					if call, ok := rr.(*ssa.Call); ok {
						if hasSuffixAny(callName(call.Common()), readOnlyPointerCallees...) {
							continue
						}
						if h := call.Common().StaticCallee(); h != nil && h.Blocks != nil {
							ro := true
							for i, a := range call.Common().Args {
								if a == ssa.Value(r) && (i >= len(h.Params) || !readOnlyParam(h.Params[i], 0)) {
									ro = false
								}
							}
							if ro {
								continue
							}
						}
						st.o.Calls[call] = true
						st.leaf("outparam", call, path)
						n++
					}
				}
			}
		}
	}
	return n
}

// relPath: a store at `prefix` contributes to a read of `path` when prefix is a prefix of path
// (then the remaining path is selected from the stored value) or path is a prefix of prefix
// (whole-value read sees the partial store; the stored value is traced with empty path).
func relPath(prefix, path []string) ([]string, bool) {
	if len(prefix) <= len(path) {
		for i := range prefix {
			if prefix[i] != path[i] {
				return nil, false
			}
		}
		return path[len(prefix):], true
	}
	for i := range path {
		if prefix[i] != path[i] {
			return nil, false
		}
	}
	return nil, true
}

func pathCompatible(a, b []string) bool {
	n := len(a)
	if len(b) < n {
		n = len(b)
	}
	for i := 0; i < n; i++ {
		if a[i] != b[i] {
			return false
		}
	}
	return true
}

func (st *tstate) sameBaseFieldStores(fa *ssa.FieldAddr, path []string, c *tctx) {
	if fa.Block() == nil {
		return
	}
	fn := fa.Parent()
	for _, b := range fn.Blocks {
		for _, in := range b.Instrs {
			s, ok := in.(*ssa.Store)
			if !ok {
				continue
			}
			o, ok := s.Addr.(*ssa.FieldAddr)
			if !ok || o.Field != fa.Field {
				continue
			}
			if o.X == fa.X || sameLoad(o.X, fa.X) {
				st.trace(s.Val, path, c)
			}
		}
	}
}

// sameLoad: two loads of the same address (go/ssa performs no CSE).
func sameLoad(a, b ssa.Value) bool {
	ua, ok1 := a.(*ssa.UnOp)
	ub, ok2 := b.(*ssa.UnOp)
	if ok1 && ok2 && ua.Op == token.MUL && ub.Op == token.MUL {
		return ua.X == ub.X
	}
	return false
}

func (st *tstate) traceCall(call *ssa.Call, idx int, path []string, c *tctx) {
	st.o.Calls[call] = true
	if _, ok := st.o.CallCtx[call]; !ok {
		st.o.CallCtx[call] = c
	}
	cc := call.Common()
	name := callName(cc)
	if b, ok := cc.Value.(*ssa.Builtin); ok {
		st.o.Ops["builtin."+b.Name()] = true
		for _, a := range cc.Args {
			if b.Name() == "append" {
				st.trace(a, path, c)
			} else {
				st.trace(a, nil, c)
			}
		}
		return
	}
	cg := st.t.w.CG()
	// module callees with bodies
	var callees []*ssa.Function
	if cc.IsInvoke() {
		callees = cg.implsOf(cc.Value.Type(), cc.Method)
	} else if fn := cc.StaticCallee(); fn != nil {
		if fn.Blocks != nil && cg.isModuleFunc(fn) && !isGeneratedFile(st.t.w.FileOf(fn.Pos())) {
			callees = []*ssa.Function{fn}
		}
	} else if mc, ok := cc.Value.(*ssa.MakeClosure); ok {
		if fn, ok := mc.Fn.(*ssa.Function); ok {
			callees = []*ssa.Function{fn}
		}
	} else if prm, ok := cc.Value.(*ssa.Parameter); ok {
		// a function handed in as a parameter (strategy / callback style): the function literals or named functions the
		// callers pass - the caller of this activation when the trace came in through it, every static caller otherwise
		callees = st.funcParamTargets(prm, c)
	}
	enter := len(callees) > 0 && c.depth < st.t.Depth
	for _, f := range callees {
		if st.t.Opaque[funcName(f)] {
			enter = false
		}
	}
	if enter {
		for _, f := range callees {
			nc := &tctx{parent: c, fn: f, call: cc, depth: c.depth + 1}
			for _, ret := range Returns(f) {
				rv := retVals(ret)
				if idx < len(rv) {
					st.trace(rv[idx], path, nc)
				}
			}
		}
		return
	}
	// leaf call: record it, and trace its arguments (over-approximate dependence)
	st.o.Ops[name] = true
	st.leaf("call", call, path)
	if len(st.t.Stop) > 0 && hasSuffixAny(name, st.t.Stop...) {
		return
	}
	if cc.IsInvoke() {
		st.trace(cc.Value, nil, c)
	}
	for _, a := range cc.Args {
		st.trace(a, nil, c)
	}
	if len(callees) > 0 {
		st.o.Truncated = true
	}
}

// DerivesVia reports whether target is reachable from v walking backwards only through calls whose
// qualified name ends with one of the allowed suffixes, plus value-preserving conversions, phis,
// loads of single-store locals. This is the "same value modulo wrapping" relation (SameValue of P6).
func DerivesVia(v, target ssa.Value, allowed ...string) bool {
	seen := map[ssa.Value]bool{}
	var walk func(x ssa.Value) bool
	walk = func(x ssa.Value) bool {
		if x == target {
			return true
		}
		if x == nil || seen[x] {
			return false
		}
		seen[x] = true
		switch y := x.(type) {
		case *ssa.ChangeType:
			return walk(y.X)
		case *ssa.Convert:
			return walk(y.X)
		case *ssa.MakeInterface:
			return walk(y.X)
		case *ssa.ChangeInterface:
			return walk(y.X)
		case *ssa.Phi:
			for _, e := range y.Edges {
				if !walk(e) {
					return false
				}
			}
			return len(y.Edges) > 0
		case *ssa.Slice:
			return walk(y.X)
		case *ssa.UnOp:
			if y.Op == token.MUL {
				// load: same address loaded
				if t, ok := target.(*ssa.UnOp); ok && t.Op == token.MUL && t.X == y.X {
					return true
				}
				if a, ok := y.X.(*ssa.Alloc); ok {
					var stored []ssa.Value
					for _, ref := range *a.Referrers() {
						if s, ok := ref.(*ssa.Store); ok && s.Addr == a {
							stored = append(stored, s.Val)
						}
					}
					if len(stored) == 1 {
						return walk(stored[0])
					}
				}
				// varargs array element
				if ia, ok := y.X.(*ssa.IndexAddr); ok {
					return walkStoresTo(ia, walk)
				}
			}
		case *ssa.Alloc:
			// slice literal backing array: all stored elements
			return walkAllocElems(y, walk)
		case *ssa.Call:
			n := callName(y.Common())
			for _, s := range allowed {
				if strings.HasSuffix(n, s) {
					for _, a := range y.Common().Args {
						if walk(a) {
							return true
						}
					}
				}
			}
		case *ssa.Extract:
			if call, ok := y.Tuple.(*ssa.Call); ok {
				if t, ok := target.(*ssa.Extract); ok && t.Tuple == call && t.Index == y.Index {
					return true
				}
			}
		}
		return false
	}
	return walk(v)
}

func walkStoresTo(addr ssa.Value, walk func(ssa.Value) bool) bool {
	refs := addr.Referrers()
	if refs == nil {
		return false
	}
	for _, r := range *refs {
		if s, ok := r.(*ssa.Store); ok && s.Addr == addr {
			if walk(s.Val) {
				return true
			}
		}
	}
	return false
}

func walkAllocElems(a *ssa.Alloc, walk func(ssa.Value) bool) bool {
	refs := a.Referrers()
	if refs == nil {
		return false
	}
	for _, r := range *refs {
		if ia, ok := r.(*ssa.IndexAddr); ok {
			if walkStoresTo(ia, walk) {
				return true
			}
		}
	}
	return false
}

// throughHelpers looks through calls to module helpers that merely compute and return a value (one return
// statement): it yields the value returned inside the innermost helper and a substitution that maps the helpers'
// parameters back to the values passed by the outermost caller.
func (w *World) throughHelpers(v ssa.Value, stopAt ...string) (ssa.Value, func(ssa.Value) ssa.Value) {
	env := map[ssa.Value]ssa.Value{}
	subst := func(x ssa.Value) ssa.Value {
		for i := 0; i < 6; i++ {
			y, ok := env[x]
			if !ok {
				return x
			}
			x = y
		}
		return x
	}
	for i := 0; i < 3; i++ {
		c, ok := v.(*ssa.Call)
		if !ok || c.Common().IsInvoke() {
			break
		}
		h := c.Common().StaticCallee()
		if h == nil || h.Blocks == nil || !w.isProdFunc(h) || isGeneratedFile(w.FileOf(h.Pos())) || hasSuffixAny(callName(c.Common()), stopAt...) {
			break
		}
		rets := Returns(h)
		if len(rets) != 1 || len(retVals(rets[0])) == 0 {
			break
		}
		for j, p := range h.Params {
			if j < len(c.Common().Args) {
				env[p] = c.Common().Args[j]
			}
		}
		v = retVals(rets[0])[0]
	}
	return v, subst
}

// readOnlyPointerCallees: dependency functions that take a pointer only to read what it points to.
var readOnlyPointerCallees = []string{"codec.BinaryCodec.MustMarshal", "codec.BinaryCodec.Marshal", "codec.Codec.MustMarshal", "codec.Codec.Marshal", "codec.BinaryCodec.MustMarshalLengthPrefixed", ".String", "codec.JSONCodec.MustMarshalJSON"}

// readOnlyParam: the function only reads through the pointer (or interface holding a pointer) handed in as p: every
// use is a load, a field / element address that is itself only read, a conversion, or an argument of a callee that is
// read-only in that position.
func readOnlyParam(p *ssa.Parameter, depth int) bool {
	if depth > 3 {
		return false
	}
	var ok func(v ssa.Value, d int) bool
	ok = func(v ssa.Value, d int) bool {
		if d > 6 || v.Referrers() == nil {
			return d <= 6
		}
		for _, ref := range *v.Referrers() {
			switch r := ref.(type) {
			case *ssa.UnOp:
				if r.Op != token.MUL {
					return false
				}
			case *ssa.FieldAddr:
				if !ok(r, d+1) {
					return false
				}
			case *ssa.IndexAddr:
				if !ok(r, d+1) {
					return false
				}
			case *ssa.MakeInterface, *ssa.ChangeInterface, *ssa.ChangeType, *ssa.TypeAssert, *ssa.Phi:
				if !ok(r.(ssa.Value), d+1) {
					return false
				}
			case *ssa.Store:
				if r.Addr == v {
					return false
				}
				return false // the pointer itself is stored somewhere
			case ssa.CallInstruction:
				cc := r.Common()
				if hasSuffixAny(callName(cc), readOnlyPointerCallees...) {
					continue
				}
				h := cc.StaticCallee()
				if h == nil || h.Blocks == nil {
					return false
				}
				for i, a := range cc.Args {
					if a == v && (i >= len(h.Params) || !readOnlyParam(h.Params[i], depth+1)) {
						return false
					}
				}
			case *ssa.DebugRef:
			default:
				return false
			}
		}
		return true
	}
	return ok(p, 0)
}

// freeVarStores traces the values a function literal stores through a captured variable (whole-value stores and
// stores through field addresses compatible with the path). Returns the number of contributing stores.
func (st *tstate) freeVarStores(fv *ssa.FreeVar, path []string, c *tctx) int {
	n := 0
	var walk func(cur ssa.Value, prefix []string, depth int)
	walk = func(cur ssa.Value, prefix []string, depth int) {
		if cur.Referrers() == nil || depth > 5 {
			return
		}
		for _, ref := range *cur.Referrers() {
			switch r := ref.(type) {
			case *ssa.Store:
				if r.Addr != cur {
					continue
				}
				if rest, ok := relPath(prefix, path); ok {
					old := st.at
					st.at = nil
					st.trace(r.Val, rest, c)
					st.at = old
					n++
				}
			case *ssa.FieldAddr:
				if r.X == cur {
					np := append(append([]string{}, prefix...), fieldElem(cur.Type(), r.Field))
					if pathCompatible(np, path) {
						walk(r, np, depth+1)
					}
				}
			}
		}
	}
	walk(fv, nil, 0)
	if os.Getenv("C4E_DEBUG2") != "" {
		fmt.Println("FVSTORES", fv.Parent().Name(), fv.Name(), pathStr(path), n)
	}
	return n
}

// paramWrite is a store a helper makes through one of its pointer parameters.
type paramWrite struct {
	st     *ssa.Store
	prefix []string    // field path below the pointee
	must   bool        // executed on every path of the helper that returns
	via    []*ssa.Call // calls (outermost first) through which the pointer was handed on to the function that stores
}

var outparamWritesMemo = map[*ssa.Parameter]struct {
	ws     []paramWrite
	simple bool
}{}

// outparamWrites lists the stores a function makes through pointer parameter p. simple is false when the pointer is
// used for anything but loads, field selections and stores through it (it is passed on, stored, compared, merged).
func outparamWrites(p *ssa.Parameter) ([]paramWrite, bool) {
	if m, ok := outparamWritesMemo[p]; ok {
		return m.ws, m.simple
	}
	outparamWritesMemo[p] = struct {
		ws     []paramWrite
		simple bool
	}{nil, false} // in progress (recursion): not simple
	fn := p.Parent()
	var rets []*ssa.BasicBlock
	for _, b := range fn.Blocks {
		if len(b.Instrs) > 0 {
			if _, ok := b.Instrs[len(b.Instrs)-1].(*ssa.Return); ok {
				rets = append(rets, b)
			}
		}
	}
	must := func(in ssa.Instruction) bool {
		if len(rets) == 0 || fn.Recover != nil {
			return false
		}
		for _, rb := range rets {
			if !(in.Block() == rb || in.Block().Dominates(rb)) {
				return false
			}
		}
		return true
	}
	var ws []paramWrite
	simple := true
	var walk func(cur ssa.Value, prefix []string, depth int)
	walk = func(cur ssa.Value, prefix []string, depth int) {
		refs := cur.Referrers()
		if refs == nil {
			return
		}
		if depth > 6 {
			simple = false
			return
		}
		for _, ref := range *refs {
			switch r := ref.(type) {
			case *ssa.Store:
				if r.Addr == cur {
					ws = append(ws, paramWrite{r, prefix, must(r), nil})
				} else {
					simple = false
				}
			case *ssa.FieldAddr:
				if r.X == cur {
					walk(r, append(append([]string{}, prefix...), fieldElem(cur.Type(), r.Field)), depth+1)
				}
			case *ssa.UnOp:
				if r.Op != token.MUL {
					simple = false
				}
			case *ssa.Call:
				// the pointer is handed on (a method of the same object calling another): what that callee stores
				h := r.Common().StaticCallee()
				if h == nil || h.Blocks == nil || r.Common().IsInvoke() || h == fn {
					if !(h != nil && hasSuffixAny(callName(r.Common()), readOnlyPointerCallees...)) {
						simple = false
					}
					continue
				}
				for i, a := range r.Common().Args {
					if a != cur {
						continue
					}
					if i >= len(h.Params) {
						simple = false
						continue
					}
					if readOnlyParam(h.Params[i], 0) {
						continue
					}
					ws2, simple2 := outparamWrites(h.Params[i])
					if !simple2 {
						simple = false
						continue
					}
					for _, w2 := range ws2 {
						ws = append(ws, paramWrite{w2.st, append(append([]string{}, prefix...), w2.prefix...), must(r) && w2.must, append([]*ssa.Call{r}, w2.via...)})
					}
				}
			case *ssa.DebugRef:
			case *ssa.BinOp:
				// nil comparison of the pointer
				if !(isNilConst(r.X) || isNilConst(r.Y)) {
					simple = false
				}
			default:
				simple = false
			}
		}
	}
	if _, ok := p.Type().Underlying().(*types.Pointer); !ok {
		simple = false
	} else {
		walk(p, nil, 0)
	}
	outparamWritesMemo[p] = struct {
		ws     []paramWrite
		simple bool
	}{ws, simple}
	return ws, simple
}

// funcParamTargets resolves a function-typed parameter to the functions passed for it. Returns nil unless every
// relevant call site passes a function literal or a named function (so that the set is complete).
func (st *tstate) funcParamTargets(prm *ssa.Parameter, c *tctx) []*ssa.Function {
	fn := prm.Parent()
	if fn == nil {
		return nil
	}
	idx := -1
	for i, p := range fn.Params {
		if p == prm {
			idx = i
		}
	}
	if idx < 0 {
		return nil
	}
	asFunc := func(v ssa.Value) *ssa.Function {
		switch x := v.(type) {
		case *ssa.MakeClosure:
			f, _ := x.Fn.(*ssa.Function)
			return f
		case *ssa.Function:
			return x
		}
		return nil
	}
	for cc := c; cc != nil; cc = cc.parent {
		if cc.fn == fn && cc.call != nil && !cc.call.IsInvoke() {
			if idx < len(cc.call.Args) {
				if f := asFunc(cc.call.Args[idx]); f != nil && f.Blocks != nil {
					return []*ssa.Function{f}
				}
			}
			return nil
		}
		if cc.fn == fn {
			break
		}
	}
	var out []*ssa.Function
	callers := st.t.w.CG().Callers[fn]
	for _, cs := range callers {
		if cs.Common().IsInvoke() || cs.Common().StaticCallee() != fn || idx >= len(cs.Common().Args) {
			return nil
		}
		f := asFunc(cs.Common().Args[idx])
		if f == nil || f.Blocks == nil {
			return nil
		}
		out = append(out, f)
	}
	return out
}

// ResolveUp expresses a value of the function of context c in the terms of the functions above it: a parameter is
// replaced by the argument of the call that entered the function (repeatedly). Other values are returned unchanged.
func ResolveUp(v ssa.Value, c *tctx) ssa.Value {
	for i := 0; i < 8; i++ {
		p, ok := v.(*ssa.Parameter)
		if !ok {
			return v
		}
		var cc *tctx
		for x := c; x != nil; x = x.parent {
			if x.fn == p.Parent() {
				cc = x
				break
			}
		}
		if cc == nil || cc.call == nil {
			return v
		}
		idx := -1
		for j, q := range cc.fn.Params {
			if q == p {
				idx = j
			}
		}
		args := cc.call.Args
		if cc.call.IsInvoke() {
			if idx == 0 {
				v, c = cc.call.Value, cc.parent
				continue
			}
			idx--
		}
		if idx < 0 || idx >= len(args) {
			return v
		}
		v, c = args[idx], cc.parent
	}
	return v
}

// sameCellValue: a and b are two reads of the same field through the same pointer in one block, and nothing between
// them can have written that field (no store to it; a call that is handed the pointer only stores elsewhere).
func sameCellValue(a, b ssa.Value) bool {
	ua, ok1 := a.(*ssa.UnOp)
	ub, ok2 := b.(*ssa.UnOp)
	if !ok1 || !ok2 || ua.Op != token.MUL || ub.Op != token.MUL || ua.Block() == nil || ua.Block() != ub.Block() {
		return false
	}
	fa, ok1 := ua.X.(*ssa.FieldAddr)
	fb, ok2 := ub.X.(*ssa.FieldAddr)
	if !ok1 || !ok2 || fa.Field != fb.Field || !(fa.X == fb.X || sameLoad(fa.X, fb.X)) {
		return false
	}
	base := fa.X
	el := fieldElem(base.Type(), fa.Field)
	in := false
	for _, instr := range ua.Block().Instrs {
		if instr == ssa.Instruction(ua) || instr == ssa.Instruction(ub) {
			if in {
				return true
			}
			in = true
			continue
		}
		if !in {
			continue
		}
		switch x := instr.(type) {
		case *ssa.Store:
			if f2, ok := x.Addr.(*ssa.FieldAddr); ok && f2.Field == fa.Field && (f2.X == base || sameLoad(f2.X, base)) {
				return false
			}
			if x.Addr == base {
				// the whole record is replaced by the result of a helper that was handed the record and returns it with
				// this field untouched (`run = k.add(ctx, run, ...)` where add only changes run.states)
				if !returnsParamFieldUnchanged(x.Val, base, fa.Field) {
					return false
				}
			}
		case ssa.CallInstruction:
			for i, arg := range x.Common().Args {
				if arg != base {
					continue
				}
				h := x.Common().StaticCallee()
				if h == nil || h.Blocks == nil || x.Common().IsInvoke() || i >= len(h.Params) {
					return false
				}
				if readOnlyParam(h.Params[i], 0) {
					continue
				}
				ws, simple := outparamWrites(h.Params[i])
				if !simple {
					return false
				}
				for _, pw := range ws {
					if len(pw.prefix) == 0 || pw.prefix[0] == el {
						return false
					}
				}
			}
		}
	}
	return false
}

// returnsParamFieldUnchanged: v is (result #i of) a call of a module helper one of whose arguments is the current value
// of the record at base, and on every return the helper yields, at #i, that parameter's record with field #field never
// assigned inside the helper.
func returnsParamFieldUnchanged(v ssa.Value, base ssa.Value, field int) bool {
	idx := 0
	var c *ssa.Call
	switch y := v.(type) {
	case *ssa.Call:
		c = y
	case *ssa.Extract:
		c, _ = y.Tuple.(*ssa.Call)
		idx = y.Index
	}
	if c == nil || c.Common().IsInvoke() {
		return false
	}
	h := c.Common().StaticCallee()
	if h == nil || h.Blocks == nil {
		return false
	}
	for j, a := range c.Common().Args {
		u, ok := a.(*ssa.UnOp)
		if !ok || u.Op != token.MUL || u.X != base || j >= len(h.Params) {
			continue
		}
		prm := h.Params[j]
		// the parameter's spill slot
		var slot *ssa.Alloc
		if prm.Referrers() != nil {
			for _, ref := range *prm.Referrers() {
				if st, ok := ref.(*ssa.Store); ok && st.Val == ssa.Value(prm) {
					slot, _ = st.Addr.(*ssa.Alloc)
				}
			}
		}
		ok2 := true
		for _, ret := range Returns(h) {
			rv := retVals(ret)
			if idx >= len(rv) {
				return false
			}
			r := rv[idx]
			if r == ssa.Value(prm) {
				continue
			}
			lu, isLoad := r.(*ssa.UnOp)
			if !isLoad || lu.Op != token.MUL || slot == nil || lu.X != ssa.Value(slot) {
				ok2 = false
			}
		}
		if !ok2 {
			return false
		}
		if slot != nil && slot.Referrers() != nil {
			for _, ref := range *slot.Referrers() {
				switch r := ref.(type) {
				case *ssa.FieldAddr:
					if r.Field == field && r.Referrers() != nil {
						for _, r2 := range *r.Referrers() {
							if st, ok := r2.(*ssa.Store); ok && st.Addr == ssa.Value(r) {
								return false
							}
						}
					}
				case *ssa.Store:
					if r.Addr == ssa.Value(slot) && r.Val != ssa.Value(prm) {
						return false
					}
				case *ssa.UnOp, *ssa.DebugRef:
				default:
					return false // the slot's address is used otherwise
				}
			}
		}
		return true
	}
	return false
}
