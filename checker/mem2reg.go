package main

import (
	"go/token"
	"go/types"
	"reflect"
	"unsafe"

	"golang.org/x/tools/go/ssa"
)

// Register promotion of captured locals. go/ssa lifts a local variable into SSA registers only when its address does
// not escape; a variable that a function literal mentions (a deferred logging or telemetry closure reading the named
// result, a parameter, a running total) stays a heap cell, and every read of it in the enclosing function is a load
// without a definition the rules could look at (no phi for the accumulator, the parameter is "a load of a cell").
// Whether a literal happens to mention a variable is not something a property depends on, so the checker promotes
// such cells itself before any rule runs:
//
//	eligible: an Alloc whose only uses in its function are whole-value stores, whole-value loads and bindings into
//	function literals that only read it (loads, field/element reads, bindings into nested literals that only read).
//
// The stores stay where they are (the literals still read the cell); the loads of the enclosing function are replaced
// by the reaching definition (standard phi placement on the iterated dominance frontier, renaming along the dominator
// tree). A literal that only reads cannot change the cell, so the enclosing function's reads see exactly its own
// stores - the same argument go/ssa's own lifting uses for non-escaping cells.

func setInstrBlock(v interface{}, b *ssa.BasicBlock) {
	rv := reflect.ValueOf(v).Elem().FieldByName("register").FieldByName("anInstruction").FieldByName("block")
	reflect.NewAt(rv.Type(), unsafe.Pointer(rv.UnsafeAddr())).Elem().Set(reflect.ValueOf(b))
}

func setRegNum(v interface{}, n int) {
	rv := reflect.ValueOf(v).Elem().FieldByName("register").FieldByName("num")
	reflect.NewAt(rv.Type(), unsafe.Pointer(rv.UnsafeAddr())).Elem().SetInt(int64(n))
}

// readOnlyFreeVar: the literal (and the literals nested in it) only reads the captured variable.
func readOnlyFreeVar(fv *ssa.FreeVar, depth int) bool {
	if depth > 4 || fv.Referrers() == nil {
		return depth <= 4
	}
	var readOnlyAddr func(addr ssa.Value, d int) bool
	readOnlyAddr = func(addr ssa.Value, d int) bool {
		refs := addr.Referrers()
		if refs == nil || d > 6 {
			return refs == nil
		}
		for _, ref := range *refs {
			switch r := ref.(type) {
			case *ssa.UnOp:
				if r.Op != token.MUL || r.X != addr {
					return false
				}
			case *ssa.FieldAddr:
				if r.X != addr || !readOnlyAddr(r, d+1) {
					return false
				}
			case *ssa.IndexAddr:
				if r.X != addr || !readOnlyAddr(r, d+1) {
					return false
				}
			case *ssa.MakeClosure:
				lit, ok := r.Fn.(*ssa.Function)
				if !ok {
					return false
				}
				for i, b := range r.Bindings {
					if b == addr {
						if i >= len(lit.FreeVars) || !readOnlyFreeVar(lit.FreeVars[i], depth+1) {
							return false
						}
					}
				}
			case *ssa.DebugRef:
			default:
				return false
			}
		}
		return true
	}
	return readOnlyAddr(fv, 0)
}

func promotable(a *ssa.Alloc) bool {
	if a.Referrers() == nil {
		return false
	}
	captured := false
	for _, ref := range *a.Referrers() {
		switch r := ref.(type) {
		case *ssa.Store:
			if r.Addr != ssa.Value(a) {
				return false // the address itself is stored somewhere
			}
		case *ssa.UnOp:
			if r.Op != token.MUL || r.X != ssa.Value(a) {
				return false
			}
		case *ssa.MakeClosure:
			lit, ok := r.Fn.(*ssa.Function)
			if !ok {
				return false
			}
			for i, b := range r.Bindings {
				if b == ssa.Value(a) {
					if i >= len(lit.FreeVars) || !readOnlyFreeVar(lit.FreeVars[i], 0) {
						return false
					}
					captured = true
				}
			}
		case *ssa.DebugRef:
		default:
			return false
		}
	}
	return captured
}

// bindingAtCreation: for a function literal that captures a promoted cell, the value the cell holds where the literal
// is created (binding index -> value).
var bindingAtCreation = map[*ssa.MakeClosure]map[int]ssa.Value{}

// promoteCaptured rewrites fn in place; returns the number of cells promoted.
func promoteCaptured(fn *ssa.Function) int {
	if len(fn.Blocks) == 0 {
		return 0
	}
	if fn.Recover != nil && len(fn.Recover.Succs) > 0 {
		return 0
	}
	var cands []*ssa.Alloc
	isCand := map[*ssa.Alloc]bool{}
	for _, b := range fn.Blocks {
		for _, in := range b.Instrs {
			if a, ok := in.(*ssa.Alloc); ok && promotable(a) {
				cands = append(cands, a)
				isCand[a] = true
			}
		}
	}
	if len(cands) == 0 {
		return 0
	}
	// blocks under the entry's dominator tree
	entry := fn.Blocks[0]
	inTree := map[*ssa.BasicBlock]bool{}
	var mark func(b *ssa.BasicBlock)
	mark = func(b *ssa.BasicBlock) {
		inTree[b] = true
		for _, c := range b.Dominees() {
			mark(c)
		}
	}
	mark(entry)
	// dominance frontiers
	df := map[*ssa.BasicBlock][]*ssa.BasicBlock{}
	for _, b := range fn.Blocks {
		if len(b.Preds) < 2 || !inTree[b] {
			continue
		}
		for _, p := range b.Preds {
			if !inTree[p] {
				continue
			}
			for runner := p; runner != nil && runner != b.Idom(); runner = runner.Idom() {
				dup := false
				for _, x := range df[runner] {
					if x == b {
						dup = true
					}
				}
				if !dup {
					df[runner] = append(df[runner], b)
				}
			}
		}
	}
	// phi placement
	phis := map[*ssa.BasicBlock]map[*ssa.Alloc]*ssa.Phi{}
	var newPhis []*ssa.Phi
	num := 900000
	for _, a := range cands {
		elem := a.Type().Underlying().(*types.Pointer).Elem()
		var work []*ssa.BasicBlock
		onWork := map[*ssa.BasicBlock]bool{}
		add := func(b *ssa.BasicBlock) {
			if !onWork[b] {
				onWork[b] = true
				work = append(work, b)
			}
		}
		add(a.Block())
		for _, ref := range *a.Referrers() {
			if s, ok := ref.(*ssa.Store); ok && s.Block() != nil {
				add(s.Block())
			}
		}
		for len(work) > 0 {
			b := work[len(work)-1]
			work = work[:len(work)-1]
			for _, f := range df[b] {
				if phis[f] == nil {
					phis[f] = map[*ssa.Alloc]*ssa.Phi{}
				}
				if phis[f][a] != nil {
					continue
				}
				phi := &ssa.Phi{Edges: make([]ssa.Value, len(f.Preds)), Comment: a.Comment}
				setRegType(phi, elem)
				setInstrBlock(phi, f)
				num++
				setRegNum(phi, num)
				phis[f][a] = phi
				newPhis = append(newPhis, phi)
				add(f)
			}
		}
	}
	zero := map[*ssa.Alloc]*ssa.Const{}
	zeroOf := func(a *ssa.Alloc) ssa.Value {
		if z, ok := zero[a]; ok {
			return z
		}
		z := ssa.NewConst(nil, a.Type().Underlying().(*types.Pointer).Elem())
		zero[a] = z
		return z
	}
	addRef := func(v ssa.Value, user ssa.Instruction) {
		if v == nil {
			return
		}
		if refs := v.Referrers(); refs != nil {
			*refs = append(*refs, user)
		}
	}
	dead := map[ssa.Instruction]bool{}
	replaceUses := func(load *ssa.UnOp, v ssa.Value) {
		refs := load.Referrers()
		if refs == nil {
			return
		}
		for _, user := range *refs {
			var ops []*ssa.Value
			for _, op := range user.Operands(ops) {
				if op != nil && *op == ssa.Value(load) {
					*op = v
				}
			}
			addRef(v, user)
		}
		*refs = nil
		dead[load] = true
	}
	var rename func(b *ssa.BasicBlock, cur map[*ssa.Alloc]ssa.Value)
	rename = func(b *ssa.BasicBlock, cur map[*ssa.Alloc]ssa.Value) {
		c2 := make(map[*ssa.Alloc]ssa.Value, len(cur))
		for k, v := range cur {
			c2[k] = v
		}
		cur = c2
		for a, phi := range phis[b] {
			cur[a] = phi
		}
		for _, in := range b.Instrs {
			switch x := in.(type) {
			case *ssa.Alloc:
				if isCand[x] {
					cur[x] = zeroOf(x)
				}
			case *ssa.Store:
				if a, ok := x.Addr.(*ssa.Alloc); ok && isCand[a] {
					cur[a] = x.Val
				}
			case *ssa.MakeClosure:
				for k, bnd := range x.Bindings {
					if a, ok := bnd.(*ssa.Alloc); ok && isCand[a] {
						if bindingAtCreation[x] == nil {
							bindingAtCreation[x] = map[int]ssa.Value{}
						}
						v := cur[a]
						if v == nil {
							v = zeroOf(a)
						}
						bindingAtCreation[x][k] = v
					}
				}
			case *ssa.UnOp:
				if a, ok := x.X.(*ssa.Alloc); ok && x.Op == token.MUL && isCand[a] {
					v := cur[a]
					if v == nil {
						v = zeroOf(a)
					}
					replaceUses(x, v)
				}
			}
		}
		for _, s := range b.Succs {
			for a, phi := range phis[s] {
				v := cur[a]
				if v == nil {
					v = zeroOf(a)
				}
				for i, p := range s.Preds {
					if p == b {
						phi.Edges[i] = v
					}
				}
			}
		}
		for _, c := range b.Dominees() {
			rename(c, cur)
		}
	}
	rename(entry, map[*ssa.Alloc]ssa.Value{})
	// phi edges from predecessors outside the entry's tree (none expected) get the zero value; register edge uses
	for _, phi := range newPhis {
		for i, e := range phi.Edges {
			if e == nil {
				for a, p := range phis[phi.Block()] {
					if p == phi {
						phi.Edges[i] = zeroOf(a)
					}
				}
			}
			addRef(phi.Edges[i], phi)
		}
	}
	// prune phis nobody uses (iteratively: a phi used only by unused phis is unused)
	live := map[*ssa.Phi]bool{}
	isNew := map[*ssa.Phi]bool{}
	for _, p := range newPhis {
		isNew[p] = true
	}
	changed := true
	for changed {
		changed = false
		for _, p := range newPhis {
			if live[p] {
				continue
			}
			for _, user := range *p.Referrers() {
				if up, ok := user.(*ssa.Phi); ok && isNew[up] {
					if live[up] && up != p {
						live[p] = true
					}
					continue
				}
				live[p] = true
			}
			if live[p] {
				changed = true
			}
		}
	}
	for _, p := range newPhis {
		if live[p] {
			continue
		}
		dead[p] = true
		// remove from the referrer lists of its edges
		for _, e := range p.Edges {
			if e == nil || e.Referrers() == nil {
				continue
			}
			refs := e.Referrers()
			out := (*refs)[:0]
			for _, u := range *refs {
				if u != ssa.Instruction(p) {
					out = append(out, u)
				}
			}
			*refs = out
		}
	}
	// insert live phis, drop dead loads
	for _, b := range fn.Blocks {
		var front []ssa.Instruction
		for _, a := range cands { // deterministic order
			if p := phis[b][a]; p != nil && live[p] {
				front = append(front, p)
			}
		}
		var rest []ssa.Instruction
		for _, in := range b.Instrs {
			if dead[in] {
				continue
			}
			rest = append(rest, in)
		}
		// phis first (after the block's own phis is fine: all phis precede other instructions)
		if len(front) > 0 {
			nphi := 0
			for nphi < len(rest) {
				if _, ok := rest[nphi].(*ssa.Phi); !ok {
					break
				}
				nphi++
			}
			merged := append([]ssa.Instruction{}, rest[:nphi]...)
			merged = append(merged, front...)
			merged = append(merged, rest[nphi:]...)
			rest = merged
		}
		b.Instrs = rest
	}
	// the dead loads leave the cells' referrer lists
	for _, a := range cands {
		refs := a.Referrers()
		out := (*refs)[:0]
		for _, u := range *refs {
			if !dead[u] {
				out = append(out, u)
			}
		}
		*refs = out
	}
	return len(cands)
}
