package main

import (
	"fmt"
	"os"
	"sort"
	"strings"

	"golang.org/x/tools/go/ssa"
)

func init() { register("C07", checkC07) }

func checkC07(w *World, r *Report) {
	cg := w.CG()
	ro := w.Roles()
	r.Undecided = []string{
		"exactness of the OriginalVesting reduction and the 'few base units' rounding claim (the known excess of one unit above ~2*10^18 is arithmetic and invisible to these rules)",
		"'leaves the sender's spendable balance unchanged' and 'together locked what the sender alone would have had' are numeric statements about the SDK's vesting formula",
	}
	r.Rule("C07.recipient", "P6,P7", "the recipient is created with original vesting = the very Coins that were unlocked, end = the sender's EndTime, start = max(now, sender start) (ordering table; the equal case accepts either)", 5)
	r.Rule("C07.transfer", "P6", "the bank transfer sender->recipient carries the same Coins, between the same two addresses, only after unlock and account creation succeeded", 3)
	r.Rule("C07.guard", "P5", "the sender's account is modified only after amount <= LockedCoins(now) (IsAllLTE true edge) and after the type test for ContinuousVestingAccount succeeded", 4)
	r.Rule("C07.writes", "P4", "in the unlock function the only field of the sender's account that is stored is OriginalVesting, by subtraction from itself", 2)
	r.Rule("C07.reduction", "P6", "every amount taken off the sender's OriginalVesting is either trunc(coin.Amount x OriginalVesting.AmountOf(denom) / GetVestingCoins(now).AmountOf(denom)) for the requested coin, or the constant rounding compensation; nothing else is subtracted; the compensation is decided by a comparison derived from the SDK's GetVestingCoins on the reduced account, not from a re-derived formula", 3)
	r.Rule("C07.errprop", "P5", "= C05.errprop on the split / move trees: the unlock, the creation of the recipient and the transfer report their failure upward - a split whose transfer failed is never reported as done (the sender's vesting was already reduced and stored by then)", 5)
	r.Rule("C07.nopanic", "P4", "= C20.inventory restricted to the split / move trees: every arithmetic or constructor call there that panics on some operand (Int64 conversions, divisions, coin subtraction, NewCoin) is discharged or vetted - a split of a large position must not abort", 8)
	r.Rule("C07.move", "P6", "the move handlers pass LockedCoins(from) / its restriction to the requested denominations as the amount", 2)
	if !ro.checkFloors(r) {
		return
	}
	split := w.Func("x/cfevesting/keeper.msgServer.splitVestingCoins")
	unlock := w.Func("x/cfevesting/keeper.Keeper.UnlockUnbondedContinuousVestingAccountCoins")
	if split == nil || unlock == nil {
		r.Unk("infra.anchor", "splitVestingCoins / UnlockUnbondedContinuousVestingAccountCoins", "", "anchor not found")
		return
	}
	fromP, toP, amtP := paramOfType(split, tAddr, 0), paramOfType(split, tAddr, 1), paramOfType(split, tCoins, 0)
	var unlockS, createS, xferS *Site
	for _, s := range cg.Sites[split] {
		switch {
		case calleeIs(s, "x/cfevesting/keeper.Keeper.UnlockUnbondedContinuousVestingAccountCoins"):
			unlockS = s
		case calleeIs(s, "x/cfevesting/keeper.Keeper.newContinuousVestingAccount"):
			createS = s
		case cg.Atom(s) == BankMove:
			xferS = s
		}
	}
	var xferTop ssa.Instruction
	var xferArgs []ssa.Value
	if xferS != nil {
		xferTop, xferArgs = xferS.Instr, xferS.Args()
	} else {
		// the transfer behind a thin helper that is handed the addresses and the coins and hands the bank's error on
		for _, e := range w.effectsBelow(split, func(x *Site) bool { return cg.Atom(x) == BankMove }, 2) {
			if c, isC := e.Site.Instr.(*ssa.Call); isC && len(e.Chain) == 1 && errorKeptUnder(e.Site.Caller, c, errValues(e.Site.Caller, c)) {
				xferS, xferTop, xferArgs = e.Site, e.Top(), e.RootArgs()
			}
		}
	}
	if unlockS == nil || createS == nil || xferS == nil || fromP == nil || toP == nil || amtP == nil {
		r.Bad("C07.recipient", "split: unlock, create and transfer calls", w.Pos(split.Pos()), "the split operation no longer consists of unlock + create + transfer")
		return
	}
	ua := unlockS.Args()
	r.Check(ua[1] == ssa.Value(fromP) && ua[2] == ssa.Value(amtP), "C07.recipient", "unlock(from, amount)", w.Pos(unlockS.Instr.Pos()), "sender address and requested coins", "unlock is called with other arguments than the sender and the requested coins")
	var vacc ssa.Value
	for _, ref := range *unlockS.Instr.(*ssa.Call).Referrers() {
		if ex, ok := ref.(*ssa.Extract); ok && ex.Index == 0 {
			vacc = ex
		}
	}
	ca := createS.Args()
	r.Check(ca[1] == ssa.Value(toP), "C07.recipient", "recipient account created at the recipient address", w.Pos(createS.Instr.Pos()), "toAddress", "account created at another address")
	r.Check(ca[2] == ssa.Value(amtP), "C07.recipient", "recipient original vesting = the coins unlocked", w.Pos(createS.Instr.Pos()), "the same Coins value that was unlocked from the sender", "the recipient's original vesting is not the amount unlocked from the sender")
	endOK := loadOfField(ca[4], "EndTime", func(b ssa.Value) bool { return derefRoot(b) == vacc })
	r.Check(endOK, "C07.recipient", "recipient end = sender's EndTime", w.Pos(createS.Instr.Pos()), "vestingAcc.EndTime of the account returned by unlock", "the recipient's end time is not the sender's")
	// start = max(now, sender start)
	term := func(v ssa.Value) string {
		if c, ok := isCallTo(v, "time.Time.Unix"); ok && isBlockTime(c.Common().Args[0]) {
			return "now"
		}
		if loadOfField(v, "StartTime", func(b ssa.Value) bool { return b == vacc }) {
			return "start"
		}
		return ""
	}
	for s := -1; s <= 1; s++ {
		// (the choice may sit in a helper `later(now, start)`: its live results under the same assumption, in split's terms)
		vals := w.LiveValuesDeep(split, OrderEval(term, twoTermCmp("now", "start", s), nil), ca[3], 2)
		ok := len(vals) > 0
		for _, dv := range vals {
			t := term(dv.Root)
			switch {
			case s < 0 && t != "start", s > 0 && t != "now", s == 0 && t == "":
				ok = false
			}
		}
		r.Check(ok, "C07.recipient", fmt.Sprintf("recipient start = max(now, sender start): now %s start", orderNames[s]), w.Pos(createS.Instr.Pos()), "live value is the later of the two", "the recipient's start time is not max(now, sender start)")
	}
	// transfer
	xa := xferArgs
	var xferCoins ssa.Value
	for _, a := range xa {
		if isCoinsType(a.Type()) && xferCoins == nil {
			xferCoins = a
		}
	}
	var addrs []ssa.Value
	for _, a := range xa {
		if typeString(a.Type()) == tAddr {
			addrs = append(addrs, a)
		}
	}
	r.Check(xferS.Method == "SendCoins" && len(addrs) == 2 && addrs[0] == ssa.Value(fromP) && addrs[1] == ssa.Value(toP), "C07.transfer", "transfer from sender to recipient", w.Pos(xferS.Instr.Pos()), "SendCoins(from, to, ...)", "the transfer is not from the sender to the recipient")
	r.Check(xferCoins == ssa.Value(amtP), "C07.transfer", "transfer carries the coins unlocked", w.Pos(xferS.Instr.Pos()), "the same Coins value", "the transferred coins differ from the unlocked amount")
	r.Check(OnSuccessEdge(split, xferTop, siteValue(unlockS)) && OnSuccessEdge(split, xferTop, siteValue(createS)) && OnSuccessEdge(split, createS.Instr, siteValue(unlockS)),
		"C07.transfer", "create after unlock succeeded, transfer after both", w.Pos(xferS.Instr.Pos()), "success-edge domination", "the steps of the split are not chained on success edges")

	// ---------- C07.guard / writes ----------
	// the unlock operation may be split into helpers (a checking part that returns an error and an applying part): the
	// guards are found through error-returning helpers, the stores below the operation
	ownP, unlP := paramOfType(unlock, tAddr, 0), paramOfType(unlock, tCoins, 0)
	lteSpec := GuardSpec{Name: "amount <= LockedCoins(now)", IsVal: func(v ssa.Value) bool { return v == ssa.Value(unlP) },
		Edges: func(fn *ssa.Function, bind Bind, isVal func(ssa.Value) bool) []Edge {
			isLocked := func(v ssa.Value) bool {
				c, ok := v.(*ssa.Call)
				if !ok || !strings.HasSuffix(callName(c.Common()), "ContinuousVestingAccount.LockedCoins") {
					return false
				}
				a := c.Common().Args
				return isBlockTime(a[len(a)-1])
			}
			return boolCallEdges(fn, func(c *ssa.Call) bool {
				a := c.Common().Args
				if len(a) != 2 {
					return false
				}
				switch {
				case strings.HasSuffix(callName(c.Common()), "types.Coins.IsAllLTE"):
					return isVal(a[0]) && isLocked(a[1])
				case strings.HasSuffix(callName(c.Common()), "types.Coins.IsAllGTE"):
					// locked.IsAllGTE(amount) is the SDK's own definition of amount.IsAllLTE(locked)
					return isVal(a[1]) && isLocked(a[0])
				}
				return false
			}, true)
		}}
	typeSpec := GuardSpec{Name: "account is a ContinuousVestingAccount", ValueFree: true,
		Edges: func(fn *ssa.Function, bind Bind, isVal func(ssa.Value) bool) []Edge {
			var out []Edge
			for _, b := range fn.Blocks {
				for _, in := range b.Instrs {
					if ta, ok := in.(*ssa.TypeAssert); ok && ta.CommaOk && strings.HasSuffix(typeString(ta.AssertedType), "vesting/types.ContinuousVestingAccount") {
						for _, ref := range *ta.Referrers() {
							if ex, ok := ref.(*ssa.Extract); ok && ex.Index == 1 {
								out = append(out, boolValueEdges(fn, ex, true)...)
							}
						}
					}
				}
			}
			return out
		}}
	lteEdges, _ := cg.guardEdgesIn(unlock, Bind{}, lteSpec, 0)
	typeEdges, _ := cg.guardEdgesIn(unlock, Bind{}, typeSpec, 0)
	nmod := 0
	nred := 0
	for _, sb := range w.storesBelowP(unlock, func(fs FieldStore) bool {
		return fs.Struct != nil && fs.Struct.Obj().Pkg() != nil && strings.Contains(fs.Struct.Obj().Pkg().Path(), "x/auth/")
	}, 2, nil) {
		fs := sb.FS
		nmod++
		construct := fmt.Sprintf("unlock: store to %s.%s", fs.Struct.Obj().Name(), fs.Field)
		r.Check(MustPass(unlock, lteEdges, sb.Top().Block()), "C07.guard", construct+" only when amount <= locked(now)", w.Pos(fs.Store.Pos()), "dominated by the true edge of amount.IsAllLTE(LockedCoins(blockTime))", "the sender's vesting can be reduced by more than is locked and undelegated")
		r.Check(MustPass(unlock, typeEdges, sb.Top().Block()), "C07.guard", construct+" only for a ContinuousVestingAccount", w.Pos(fs.Store.Pos()), "dominated by the ok edge of the type assertion", "the account is modified without the type test")
		okW := fs.Field == "OriginalVesting"
		if okW {
			// value: OriginalVesting.Sub(...)
			c, is := isCallTo(fs.Store.Val, "types.Coins.Sub")
			okW = is && loadOfField(c.Common().Args[0], "OriginalVesting", nil)
		}
		r.Check(okW, "C07.writes", construct, w.Pos(fs.Store.Pos()), "OriginalVesting = OriginalVesting.Sub(...)", "a field other than OriginalVesting is written, or OriginalVesting is not reduced from itself")
		if okW {
			c, _ := isCallTo(fs.Store.Val, "types.Coins.Sub")
			o := w.Tracer().Origins(c.Common().Args[1])
			for _, nc := range o.CallsNamed("types.NewCoin") {
				o2 := w.Tracer().Origins(nc.Common().Args[1])
				if os.Getenv("C4E_DEBUG") != "" {
					fmt.Println("DBG C07.reduction", o2.String(), o2.Ops)
				}
				isConst := len(o2.Leaves) > 0
				for _, l := range o2.Leaves {
					if l.Kind != "const" && !(l.Kind == "call" && strings.HasSuffix(l.String(), "types.NewInt")) {
						isConst = false
					}
				}
				proportional := o2.HasOp("Dec.Quo") && (o2.HasOp("Dec.Mul") || o2.HasOp("Dec.MulInt") || o2.HasOp("Dec.MulTruncate")) && o2.HasOp("Dec.TruncateInt") && o2.HasPath("Amount") && o2.HasCall("AmountOf") && o2.HasCall("GetVestingCoins")
				if isConst {
					// the compensation is applied exactly when the SDK's own vesting formula, evaluated on the account after the
					// proportional reduction, shows that less than the requested amount was unlocked: the deciding comparison
					// derives from ContinuousVestingAccount.GetVestingCoins and the requested amount - not from a re-derivation of
					// the vesting formula (which rounds differently from the SDK and the bank's LockedCoins)
					sf := fs.Store.Parent()
					var cond ssa.Value
					for b := fs.Store.Block(); b != nil && cond == nil; b = b.Idom() {
						i := blockIf(b)
						if i == nil || b == fs.Store.Block() {
							continue
						}
						for si := range b.Succs {
							if MustPass(sf, []Edge{{b, si}}, fs.Store.Block()) {
								cond, _ = stripNot(i.Cond)
							}
						}
					}
					okDec, why := false, "no deciding comparison found"
					if cond != nil {
						oc := w.Tracer().Origins(cond)
						usesSDK := oc.HasCall("ContinuousVestingAccount.GetVestingCoins")
						ownFormula := oc.HasPath("StartTime") || oc.HasPath("EndTime") || oc.HasOp("Dec.Quo") || oc.HasOp("Dec.QuoInt64") || oc.HasOp("Dec.RoundInt")
						okDec = usesSDK && !ownFormula && oc.HasPath("Amount")
						switch {
						case !usesSDK:
							why = "the comparison does not evaluate the SDK's GetVestingCoins on the reduced account"
						case ownFormula:
							why = "the comparison re-derives the vesting amount from the schedule (StartTime / EndTime, division, rounding) instead of asking the SDK: the two round differently, so the one-unit compensation is decided wrongly for some amounts and instants"
						default:
							why = "the comparison does not involve the requested amount"
						}
					}
					r.Check(okDec, "C07.reduction", fmt.Sprintf("unlock: the rounding compensation #%d is decided by the SDK's vesting formula", nred), w.Pos(nc.Pos()), "comparison of (vesting before - GetVestingCoins(now) after) with the requested amount", why)
				}
				r.Check(isConst || proportional, "C07.reduction", fmt.Sprintf("unlock: amount taken off OriginalVesting #%d", nred), w.Pos(nc.Pos()),
					map[bool]string{true: "the constant rounding compensation", false: "trunc(requested amount x original / vesting) of the denomination"}[isConst],
					"the amount taken off OriginalVesting is not the requested amount scaled by original/vesting (origins: "+o2.String()+")")
				nred++
			}
		}
	}
	if nmod == 0 {
		r.Bad("C07.writes", "unlock reduces OriginalVesting", w.Pos(unlock.Pos()), "no store to the sender's account found")
	}
	for _, e := range w.effectsBelow(unlock, func(s *Site) bool { return cg.Atom(s) == AuthSet }, 2) {
		r.Check(MustPass(unlock, lteEdges, e.Top().Block()) && MustPass(unlock, typeEdges, e.Top().Block()), "C07.guard", "unlock: SetAccount only after both guards", w.Pos(e.Site.Instr.Pos()), "dominated by the amount and type guards", "the sender's account is stored without the guards")
		// the account read is the owner's
		for _, g := range w.effectsBelow(unlock, func(s *Site) bool { return cg.Atom(s) == AuthGet && s.Method == "GetAccount" }, 2) {
			a := g.RootArgs()
			r.Check(a[len(a)-1] == ssa.Value(ownP), "C07.guard", "unlock: the account modified is the owner's", w.Pos(g.Site.Instr.Pos()), "GetAccount(ownerAddress)", "another account than the owner's is modified")
		}
	}

	// ---------- C07.errprop ----------
	shareRule(w, r, checkC05, "C05.errprop", "C07.errprop", func(o Obligation) bool {
		return strings.Contains(o.Construct, "splitVestingCoins") || strings.Contains(o.Construct, "UnlockUnbondedContinuousVestingAccountCoins") || strings.Contains(o.Construct, "MoveAvailableVesting") || strings.Contains(o.Construct, "SplitVesting")
	})
	// ---------- C07.nopanic ----------
	// "any amount from one unit up to what is locked can be split": no arithmetic on the split / move trees may panic for
	// a large position (a conversion through int64, a division, a subtraction below zero) - the C20 inventory of these
	// trees, shared
	{
		var hs []*ssa.Function
		for _, a := range []string{"x/cfevesting/keeper.msgServer.SplitVesting", "x/cfevesting/keeper.msgServer.MoveAvailableVesting", "x/cfevesting/keeper.msgServer.MoveAvailableVestingByDenoms"} {
			if h := w.Func(a); h != nil {
				hs = append(hs, h)
			}
		}
		onTree := map[string]bool{}
		for f := range cg.Reach(hs) {
			if w.isProdFunc(f) && moduleOfFunc(f) == "cfevesting" {
				onTree[funcName(f)] = true
			}
		}
		shareRule(w, r, checkC20, "C20.inventory", "C07.nopanic", func(o Obligation) bool {
			i := strings.Index(o.Construct, " @ ")
			j := strings.Index(o.Construct, " : ")
			return i >= 0 && j > i && onTree[o.Construct[i+3:j]]
		})
	}
	// ---------- C07.guard (closed world over the rejecting conditions) ----------
	// "any amount up to the sender's locked, undelegated coins can be split", whatever the schedule looks like: the
	// instant and the sender's start and end enter the decision only through LockedCoins(now). No condition on the
	// split / move trees that ends the operation with an error may depend on the block time or on the schedule's
	// StartTime / EndTime in any other way (a guard "the new account must have a non-empty period" rejects accounts
	// whose start equals their end although everything of theirs is still locked).
	{
		var hs []*ssa.Function
		for _, a := range []string{"x/cfevesting/keeper.msgServer.SplitVesting", "x/cfevesting/keeper.msgServer.MoveAvailableVesting", "x/cfevesting/keeper.msgServer.MoveAvailableVestingByDenoms"} {
			if h := w.Func(a); h != nil {
				hs = append(hs, h)
			}
		}
		st := w.Tracer()
		st.Stop = []string{"LockedCoins", "GetVestingCoins", "GetVestedCoins"}
		st.Opaque = map[string]bool{}
		var fns []*ssa.Function
		for f := range cg.Reach(hs) {
			if w.isProdFunc(f) && moduleOfFunc(f) == "cfevesting" && !isGeneratedFile(w.FileOf(f.Pos())) && strings.Contains(pkgPathOf(f), "/keeper") {
				fns = append(fns, f)
			}
		}
		sort.Slice(fns, func(i, j int) bool { return funcName(fns[i]) < funcName(fns[j]) })
		n, bad := 0, ""
		for _, f := range fns {
			for _, b := range f.Blocks {
				i := blockIf(b)
				if i == nil {
					continue
				}
				t, fl := FailsFrom(b.Succs[0]), FailsFrom(b.Succs[1])
				if t == fl {
					continue
				}
				base, _ := stripNot(i.Cond)
				if bo, ok := base.(*ssa.BinOp); ok && (isErrorType(bo.X.Type()) || isErrorType(bo.Y.Type())) {
					continue
				}
				n++
				o := st.Origins(base)
				if o.HasCall("Context.BlockTime") || o.HasPath("ContinuousVestingAccount.StartTime") || o.HasPath("BaseVestingAccount.EndTime") || o.HasPath(".EndTime") || o.HasPath(".StartTime") {
					bad = w.Pos(lastPos(b))
				}
			}
		}
		r.Check(n > 0 && bad == "", "C07.guard", "no rejecting condition of a split / move depends on the instant or the schedule except through LockedCoins(now)", w.Pos(split.Pos()), fmt.Sprintf("%d rejecting conditions on the trees, none of them reads the block time, StartTime or EndTime", n), "a split / move can be refused depending on the block time or the sender's schedule ("+bad+"): an amount within the locked, undelegated coins is not always splittable")
	}
	// ---------- C07.move ----------
	tr := w.Tracer()
	for _, anchor := range []string{"x/cfevesting/keeper.msgServer.MoveAvailableVesting", "x/cfevesting/keeper.msgServer.MoveAvailableVestingByDenoms"} {
		h := w.Func(anchor)
		if h == nil {
			r.Unk("infra.anchor", anchor, "", "anchor not found")
			continue
		}
		// the split may be reached through a helper shared by the handlers: arguments in the handler's terms
		for _, e := range w.effectsBelow(h, func(s *Site) bool { return calleeIs(s, "x/cfevesting/keeper.msgServer.splitVestingCoins") }, 2) {
			s := e.Site
			a := s.Args()
			ectx := e.Ctx()
			from := ResolveUp(a[1], ectx)
			// the values the amount can take for THIS handler: constants the handler fixes (a mode flag in an options
			// struct) decide the branches of the shared body and of the helper that computes the amount
			evalAt := EvalAlong(ConstEval, e.Chain)
			dvs := w.LiveValuesDeepCtx(s.Caller, evalAt, a[len(a)-1], 2, ectx)
			o := newOrigin()
			var amtVals []DeepVal
			for _, dv := range dvs {
				amtVals = append(amtVals, dv)
				od := dv.Origins(tr)
				for k, l := range od.Leaves {
					o.Leaves[k] = l
				}
				for k := range od.Ops {
					o.Ops[k] = true
				}
				for k := range od.Calls {
					o.Calls[k] = true
					if _, have := o.CallCtx[k]; !have {
						o.CallCtx[k] = od.CallCtx[k]
					}
				}
				for k := range od.Phis {
					o.Phis[k] = true
				}
				for k := range od.Values {
					o.Values[k] = true
				}
				o.Truncated = o.Truncated || od.Truncated
			}
			lcs := o.CallsNamed("BankKeeper.LockedCoins")
			ok := len(lcs) >= 1 && len(dvs) > 0
			for _, lc := range lcs {
				// the locked coins of the very account handed to the split (both expressed in the terms of the function
				// that holds the address: a helper or a function literal computing the amount receives it as a parameter)
				la := lc.Common().Args
				if ResolveUp(la[len(la)-1], o.CallCtx[lc]) != from {
					ok = false
				}
			}
			// no other coin source
			for _, l := range o.Leaves {
				if l.Kind == "call" && (strings.Contains(l.String(), "GetBalance") || strings.Contains(l.String(), "GetAllBalances") || strings.Contains(l.String(), "SpendableCoins")) {
					ok = false
				}
			}
			if strings.HasSuffix(anchor, "ByDenoms") {
				// the requested denominations select what is taken from the locked coins: by data (AmountOf(denom))
				// or by control (a coin of the locked set is kept under a test that involves msg.Denoms)
				sel := o.HasPath("MsgMoveAvailableVestingByDenoms.Denoms")
				if !sel {
					var blocks []*ssa.BasicBlock
					for c := range o.Calls {
						if c.Parent() == h {
							blocks = append(blocks, c.Block())
						}
					}
					for phi := range o.Phis {
						if phi.Parent() == h {
							blocks = append(blocks, phi.Block().Preds...)
						}
					}
					for _, b0 := range blocks {
						for b := b0; b != nil; b = b.Idom() {
							i := blockIf(b)
							if i == nil {
								continue
							}
							// a test of a validation error is not a selection
							if base, _ := stripNot(i.Cond); base != nil {
								if bo, isB := base.(*ssa.BinOp); isB && (isErrorType(bo.X.Type()) || isErrorType(bo.Y.Type())) {
									continue
								}
							}
							if tr.Origins(i.Cond).HasPath("MsgMoveAvailableVestingByDenoms.Denoms") {
								sel = true
							}
						}
					}
				}
				ok = ok && sel
				// a binary search needs a sorted slice: the message's list is in the sender's order
				for fn := range cg.Reach([]*ssa.Function{h}) {
					for _, bs := range cg.Sites[fn] {
						n := bs.CalleeName()
						if hasSuffixAny(n, "sort.SearchStrings", "sort.Search", "sort.SearchInts", "slices.BinarySearch", "slices.BinarySearchFunc", "sort.Find") {
							sorted := false
							for _, ss := range cg.Sites[fn] {
								if hasSuffixAny(ss.CalleeName(), "sort.Strings", "sort.Sort", "sort.Slice", "sort.SliceStable", "slices.Sort", "slices.SortFunc") && ss.Instr.Block().Dominates(bs.Instr.Block()) {
									sorted = true
								}
							}
							r.Check(sorted, "C07.move", funcName(fn)+": binary search over a list sorted beforehand", w.Pos(bs.Instr.Pos()), "a sort of the list dominates the search", "a binary search is applied to a list that nothing sorts (the denominations come in the sender's order): denominations listed out of order are silently not moved")
						}
					}
				}
			} else {
				// the amount IS the locked coins: every value it can take is that one call (or the nil of an error return)
				exact := len(lcs) == 1
				for _, dv := range amtVals {
					t2 := *tr
					t2.Stop = []string{"BankKeeper.LockedCoins"}
					o2 := dv.Origins(&t2)
					if o2.Truncated {
						exact = false
					}
					for op := range o2.Ops {
						if !strings.HasSuffix(op, "BankKeeper.LockedCoins") {
							exact = false
						}
					}
					for _, l := range o2.Leaves {
						if l.Kind == "call" && len(lcs) == 1 && l.V == ssa.Value(lcs[0]) {
							continue
						}
						if k, isK := l.V.(*ssa.Const); isK && l.Kind == "const" && k.Value == nil {
							continue
						}
						exact = false
					}
				}
				ok = ok && exact
			}
			r.Check(ok, "C07.move", funcName(h)+": amount = LockedCoins(from)"+map[bool]string{true: " restricted to msg.Denoms", false: ""}[strings.HasSuffix(anchor, "ByDenoms")], w.Pos(s.Instr.Pos()),
				"origins: "+o.String(), "the amount moved is not the sender's locked coins: "+o.String())
			// the amount is a coin SET (sorted, one entry per denomination): the unlock validates it and refuses anything
			// else, so a set assembled by appending coins in the order the sender listed them makes the move fail
			if raw := rawCoinAssembly(s.Common().Args[len(s.Common().Args)-1]); true {
				r.Check(raw == nil, "C07.move", funcName(h)+": the amount is assembled by the coin-set operations", w.Pos(s.Instr.Pos()), "no raw append / make on any alternative of the amount", "the amount is assembled by appending coins to a raw slice: the denominations keep the sender's order and repetitions, the set is not sorted and the unlock refuses it (or a repeated denomination is moved twice)")
			}
		}
	}
}

// derefRoot strips loads and field selections (embedded structs) down to the root value.
func derefRoot(v ssa.Value) ssa.Value {
	for i := 0; i < 8; i++ {
		switch x := v.(type) {
		case *ssa.UnOp:
			v = x.X
		case *ssa.FieldAddr:
			v = x.X
		case *ssa.Field:
			v = x.X
		default:
			return v
		}
	}
	return v
}

func lcs0(c []*ssa.Call) *ssa.Call {
	if len(c) == 0 {
		return nil
	}
	return c[0]
}

// rawCoinAssembly follows the alternatives of a coin set (phis, conversions, re-slicing) and returns the instruction
// that builds it with the slice primitives (append, make) instead of the coin-set operations (NewCoins, Add, Sub, a
// bank query), or nil.
func rawCoinAssembly(v ssa.Value) ssa.Instruction {
	seen := map[ssa.Value]bool{}
	var walk func(v ssa.Value) ssa.Instruction
	walk = func(v ssa.Value) ssa.Instruction {
		v = stripConv(v)
		if v == nil || seen[v] {
			return nil
		}
		seen[v] = true
		switch x := v.(type) {
		case *ssa.Phi:
			for _, e := range x.Edges {
				if i := walk(e); i != nil {
					return i
				}
			}
		case *ssa.ChangeType:
			return walk(x.X)
		case *ssa.Slice:
			return walk(x.X)
		case *ssa.MakeSlice:
			// an empty set made with capacity is harmless by itself; the appends onto it are what is reported
			return nil
		case *ssa.Call:
			if b, isB := x.Call.Value.(*ssa.Builtin); isB && b.Name() == "append" {
				return x
			}
		}
		return nil
	}
	return walk(v)
}
