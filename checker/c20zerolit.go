package main

import (
	"fmt"
	"go/types"
	"sort"
	"strings"

	"golang.org/x/tools/go/ssa"
)

// C20.zerolit: a math.Int / sdk.Dec left at its zero value holds a nil big.Int, and arithmetic on it panics. Every
// composite literal of a module struct type that is built on a message, ValidateBasic, query or block tree therefore
// assigns each of its number fields, or is an empty record that is only returned beside a non-nil error (the
// conventional "no result"), or one of the reviewed literals of a closed table (empty today). Literals that declare a variable (`x := T{...}`) are not distinguished by go/ssa from field-wise assignment
// and are outside this rule; literals assigned to an existing variable are recognised by the zeroing store. A fallback record built for a "cannot happen" case
// (`VestingType{Name: n}` when the type is missing) is the typical offender.
var c20VettedZeroLit = map[string]string{}

func zeroLitRule(w *World, r *Report, rule string, roots []*ssa.Function) {
	reach := w.CG().Reach(roots)
	var fns []*ssa.Function
	for fn := range reach {
		if w.isProdFunc(fn) && !isGeneratedFile(w.FileOf(fn.Pos())) {
			fns = append(fns, fn)
		}
	}
	sort.Slice(fns, func(i, j int) bool { return funcName(fns[i]) < funcName(fns[j]) })
	n := 0
	seen := map[string]int{}
	for _, fn := range fns {
		for _, b := range fn.Blocks {
			for _, in := range b.Instrs {
				al, ok := in.(*ssa.Alloc)
				if !ok || al.Comment != "complit" || al.Referrers() == nil {
					continue
				}
				nt, ok := al.Type().Underlying().(*types.Pointer).Elem().(*types.Named)
				if !ok || nt.Obj().Pkg() == nil || !strings.HasPrefix(nt.Obj().Pkg().Path(), modPath) {
					continue
				}
				st, ok := nt.Underlying().(*types.Struct)
				if !ok {
					continue
				}
				hasNum := false
				for i := 0; i < st.NumFields(); i++ {
					if isIntOrDec(st.Field(i).Type()) {
						hasNum = true
					}
				}
				if !hasNum {
					continue
				}
				set := map[int]bool{}
				for _, ref := range *al.Referrers() {
					if fa, ok := ref.(*ssa.FieldAddr); ok && fa.Referrers() != nil {
						for _, r2 := range *fa.Referrers() {
							if s, ok := r2.(*ssa.Store); ok && s.Addr == ssa.Value(fa) {
								set[fa.Field] = true
							}
						}
					}
				}
				var missing []string
				for i := 0; i < st.NumFields(); i++ {
					if isIntOrDec(st.Field(i).Type()) && !set[i] {
						missing = append(missing, st.Field(i).Name())
					}
				}
				n++
				key := nt.Obj().Name() + " @ " + funcName(fn)
				seen[key]++
				construct := "literal " + key
				if seen[key] > 1 {
					construct = fmt.Sprintf("%s #%d", construct, seen[key])
				}
				pos := w.Pos(al.Pos())
				// an empty literal `&T{}` that is only ever returned beside a non-nil error is the conventional "no result"
				emptyBesideError := len(set) == 0
				if emptyBesideError {
					for _, ref := range *al.Referrers() {
						ret, isRet := ref.(*ssa.Return)
						if _, isDbg := ref.(*ssa.DebugRef); isDbg {
							continue
						}
						if !isRet || !FailsFrom(ret.Block()) {
							emptyBesideError = false
						}
					}
				}
				switch {
				case len(missing) == 0:
					r.OK(rule, construct, pos, "every math.Int / sdk.Dec field is assigned")
				case emptyBesideError:
					r.OK(rule, construct, pos, "an empty record that is only returned beside a non-nil error")
				case c20VettedZeroLit[key] != "":
					r.Assume(rule, construct, pos, "vetted: "+c20VettedZeroLit[key])
				default:
					r.Bad(rule, construct, pos, fmt.Sprintf("the literal leaves %v at the zero value (a nil number): arithmetic on it panics (Dec.Mul, Int.Add, ... dereference the nil big.Int)", missing))
				}
			}
		}
	}
	// literals assigned to an existing variable (`vt = T{Name: n}`): go/ssa zeroes the variable and stores the listed
	// fields in place - a store of the zero struct followed, in the same block, by at least one field store
	for _, fn := range fns {
		for _, b := range fn.Blocks {
			for k, in := range b.Instrs {
				zs, ok := in.(*ssa.Store)
				if !ok {
					continue
				}
				c, ok := zs.Val.(*ssa.Const)
				if !ok || c.Value != nil {
					continue
				}
				nt, ok := c.Type().(*types.Named)
				if !ok || nt.Obj().Pkg() == nil || !strings.HasPrefix(nt.Obj().Pkg().Path(), modPath) {
					continue
				}
				st, ok := nt.Underlying().(*types.Struct)
				if !ok {
					continue
				}
				set := map[int]bool{}
				for _, later := range b.Instrs[k+1:] {
					s2, ok := later.(*ssa.Store)
					if !ok {
						continue
					}
					if s2.Addr == zs.Addr {
						break
					}
					if fa, ok := s2.Addr.(*ssa.FieldAddr); ok && fa.X == zs.Addr {
						set[fa.Field] = true
					}
				}
				if len(set) == 0 {
					continue // `x = T{}`: a reset, the fields are assigned one by one elsewhere
				}
				var missing []string
				for i := 0; i < st.NumFields(); i++ {
					if isIntOrDec(st.Field(i).Type()) && !set[i] {
						missing = append(missing, st.Field(i).Name())
					}
				}
				if len(missing) == 0 && func() bool {
					for i := 0; i < st.NumFields(); i++ {
						if isIntOrDec(st.Field(i).Type()) {
							return false
						}
					}
					return true
				}() {
					continue
				}
				n++
				key := nt.Obj().Name() + " @ " + funcName(fn)
				seen[key]++
				construct := "literal " + key
				if seen[key] > 1 {
					construct = fmt.Sprintf("%s #%d", construct, seen[key])
				}
				pos := w.Pos(zs.Pos())
				switch {
				case len(missing) == 0:
					r.OK(rule, construct, pos, "every math.Int / sdk.Dec field is assigned")
				case c20VettedZeroLit[key] != "":
					r.Assume(rule, construct, pos, "vetted: "+c20VettedZeroLit[key])
				default:
					r.Bad(rule, construct, pos, fmt.Sprintf("the literal leaves %v at the zero value (a nil number): arithmetic on it panics (Dec.Mul, Int.Add, ... dereference the nil big.Int)", missing))
				}
			}
		}
	}
	// the same hazard through a named result: a function that returns its struct result untouched (the zero value, its
	// number fields nil) beside a nil error hands a nil number to a caller that was told everything went well
	for _, fn := range fns {
		res := fn.Signature.Results()
		if res.Len() < 2 || !isErrorType(res.At(res.Len()-1).Type()) {
			continue
		}
		all := ReachUnder(fn, func(ssa.Value) (bool, bool) { return false, false })
		for _, ret := range Returns(fn) {
			rv := retVals(ret)
			if len(rv) != res.Len() || nonNilAt(rv[len(rv)-1], ret.Block(), 0) {
				continue
			}
			for i := 0; i < len(rv)-1; i++ {
				st, ok := rv[i].Type().Underlying().(*types.Struct)
				if !ok {
					continue
				}
				hasNum := false
				for k := 0; k < st.NumFields(); k++ {
					if isIntOrDec(st.Field(k).Type()) {
						hasNum = true
					}
				}
				if !hasNum {
					continue
				}
				for _, alt := range all.LiveValues(rv[i]) {
					c, isC := alt.(*ssa.Const)
					if !isC || c.Value != nil {
						continue
					}
					n++
					key := fmt.Sprintf("zero %s returned beside a nil error @ %s", shortType(rv[i].Type()), funcName(fn))
					seen[key]++
					construct := key
					if seen[key] > 1 {
						construct = fmt.Sprintf("%s #%d", key, seen[key])
					}
					r.Bad(rule, construct, w.Pos(ret.Pos()), "the function can return its struct result untouched (zero value: the math.Int / sdk.Dec inside is nil) together with a nil error: a caller that goes on to use the number panics")
				}
			}
		}
	}
	if n == 0 {
		r.Unk(rule, "struct literals with number fields", "", "no literal of a module struct type with a math.Int / sdk.Dec field was found on the trees")
	}
}
