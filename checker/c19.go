package main

import (
	"fmt"
	"go/constant"
	"go/token"
	"go/types"
	"os"
	"sort"
	"strings"

	"golang.org/x/tools/go/ssa"
)

func init() { register("C19", checkC19) }

func checkC19(w *World, r *Report) {
	cg := w.CG()
	ro := w.Roles()
	r.Undecided = []string{"the core equality 'inflation x supply x dt / year = amount minted over dt' is arithmetic and is not decided; only the zero cases, the guard of the division and the origin of the operands are"}
	r.Rule("C19.zero", "P7", "reported inflation is zero when the period start is after now (Minter.CalculateInflation), for the no-minting configuration (constant), and for every configuration whose end has passed (now after end => zero; now equal to end => zero as well when the emission routine hands the period over at that instant - sibling agreement with Mint)", 6)
	r.Rule("C19.units", "P9", "units of measure over SSA: in the two inflation formulas the year constant, the period length, the elapsed time and the step length are combined in one time scale and the rate returned is a pure number (amount x year / period / supply)", 2)
	r.Rule("C19.start", "P6,P7", "= C02.start for the inflation query: the rate is computed for the current period (result #0 of the shared selection) from the start its predecessor's end gives (params.StartTime without predecessor) - the same start the emission uses", 2)
	r.Rule("C19.select", "P7", "= C02.select: the period whose rate is reported is selected by sequence id over all configured periods, as the emission does", 18)
	r.Rule("C19.formula", "P6,P7", "closed world: inside a period with positive supply every value an implementation returns has the period's Amount, the year constant, the supply and (linear) the period start and end resp. (exponential) StepDuration and AmountMultiplier in its backward slice (origins restricted to the edges live in that ordering) - no shortcut result", 2)
	r.Rule("C19.sameprecision", "P6", "sibling agreement: the rate of a configuration has no rounding / truncation operation on its backward slice that the emission formula of the same configuration (AmountToMint) does not have", 3)
	r.Rule("C19.guard", "P5", "the division by the supply is dominated by the false edge of supply <= 0, whose true edge returns zero", 2)
	r.Rule("C19.operands", "P6,P8", "the divisor originates from bank.GetSupply(params.MintDenom), the period from the selection over the stored state, the time from the block header; the constant year evaluates to 365 x 24 h; the query returns this value", 5)
	r.Rule("C19.loopvar", "P4", "the module declares a Go version with one variable per loop: no address of such a variable (or of a field of it) and no function literal over it outlives the iteration in which it was taken (stored, put into a map, flowing out of the loop, deferred, handed to a function that stores it) - otherwise the matching element silently becomes the last element; positive and negative controls", 6)
	if !ro.checkFloors(r) {
		return
	}
	loopVarRule(w, r, "C19.loopvar", "cfeminter")
	// the rate the minter reports in its per-block event is the rate of the period the state is in AFTER this block's
	// mint: the inflation is computed behind the call that mints (which advances the period), never before it
	if bb := w.Func("x/cfeminter.BeginBlocker"); bb != nil {
		cg := w.CG()
		mints := w.effectsBelow(bb, func(s *Site) bool { return calleeIs(s, "x/cfeminter/keeper.Keeper.Mint") }, 2)
		infls := w.effectsBelow(bb, func(s *Site) bool { return calleeIs(s, "x/cfeminter/keeper.Keeper.GetCurrentInflation") }, 2)
		_ = cg
		ok := len(mints) > 0 && len(infls) > 0
		for _, i := range infls {
			for _, m := range mints {
				if !instrDominates(m.Top(), i.Top()) {
					ok = false
				}
			}
		}
		if len(infls) > 0 {
			r.Check(ok, "C19.start", "block routine: the reported inflation is computed after the block's mint", w.Pos(infls[0].Top().Pos()), "the call that mints dominates the call that computes the rate", "the rate in the Mint event is computed before the mint advances the period: in the block in which a period ends the event reports the old period's rate (zero) while the next period's emission has started")
		}
	}
	mci := w.Func("x/cfeminter/types.Minter.CalculateInflation")
	gci := w.Func("x/cfeminter/keeper.Keeper.GetCurrentInflation")
	if mci == nil || gci == nil {
		r.Unk("infra.anchor", "Minter.CalculateInflation / Keeper.GetCurrentInflation", "", "anchor not found")
		return
	}
	// ---------- C19.units ----------
	for _, a := range []string{"x/cfeminter/types.LinearMinting.CalculateInflation", "x/cfeminter/types.ExponentialStepMinting.CalculateInflation"} {
		fn := w.Func(a)
		if fn == nil {
			r.Unk("infra.anchor", a, "", "anchor not found")
			continue
		}
		unitsRule(w, r, "C19.units", fn, "inflation is a pure number per year")
	}
	// ---------- C19.start ----------
	periodStartRule(w, r, "C19.start", []*ssa.Function{gci})
	minterSelectRule(w, r, "C19.select")
	// ---------- C19.zero: Minter.CalculateInflation ----------
	{
		startP, nowP := paramOfType(mci, tTime, 0), paramOfType(mci, tTime, 1)
		term := func(v ssa.Value) string {
			switch v {
			case ssa.Value(startP):
				return "start"
			case ssa.Value(nowP):
				return "now"
			}
			return ""
		}
		live := ReachUnder(mci, OrderEval(term, twoTermCmp("start", "now", 1), nil))
		ok := true
		vals := live.LiveReturns(mci, 0)
		for _, v := range vals {
			if !isZeroDecValue(v) {
				ok = false
			}
		}
		r.Check(ok && len(vals) > 0, "C19.zero", "Minter.CalculateInflation: start after now => zero", w.Pos(mci.Pos()), "every live return is ZeroDec()", "a period that has not started reports a non-zero inflation")
	}
	// implementations of MinterConfigI.CalculateInflation
	var impls []*ssa.Function
	for _, s := range cg.Sites[mci] {
		if s.Invoke && s.Method == "CalculateInflation" {
			impls = s.Callees
		}
	}
	if len(impls) < 3 {
		r.Unk("C19.zero", "implementations of MinterConfigI.CalculateInflation", w.Pos(mci.Pos()), "fewer than 3 implementations resolved")
	}
	// C19.sameprecision: the rate annualises the very amounts the emission pays: no rounding or truncation step on the
	// slice of a configuration's rate that the same configuration's emission formula does not have (the emission keeps
	// the step amount as an untruncated Dec; a rate computed from a per-step truncated amount drifts away from it)
	{
		roundOps := []string{"types.Dec.TruncateInt", "types.Dec.TruncateDec", "types.Dec.RoundInt", "types.Dec.Ceil", "types.Dec.TruncateInt64", "types.Dec.RoundInt64", "types.Dec.MulTruncate", "types.Dec.QuoTruncate", "types.Dec.MulInt64", "math.Int.Quo", "math.Int.QuoRaw"}
		roundOps = roundOps[:8] // (integer division of Ints is listed for documentation; MulInt64 is exact)
		opsOf := func(f *ssa.Function) map[string]bool {
			out := map[string]bool{}
			t := w.Tracer()
			for _, ret := range Returns(f) {
				o := t.Origins(retVals(ret)[0])
				for op := range o.Ops {
					for _, ro := range roundOps {
						if strings.HasSuffix(op, ro) {
							out[ro] = true
						}
					}
				}
			}
			return out
		}
		for _, impl := range impls {
			rt := impl.Signature.Recv()
			if rt == nil {
				continue
			}
			var sib *ssa.Function
			if pt, ok := rt.Type().(*types.Pointer); ok {
				if nt, ok := pt.Elem().(*types.Named); ok {
					sib = w.methodOf(nt, "AmountToMint")
				}
			} else if nt, ok := rt.Type().(*types.Named); ok {
				sib = w.methodOf(nt, "AmountToMint")
			}
			if sib == nil || sib.Blocks == nil {
				continue
			}
			extra := []string{}
			have := opsOf(sib)
			for op := range opsOf(impl) {
				if !have[op] {
					extra = append(extra, op[strings.LastIndex(op, ".")+1:])
				}
			}
			sort.Strings(extra)
			r.Check(len(extra) == 0, "C19.sameprecision", funcName(impl)+": no rounding step that the emission formula does not have", w.Pos(impl.Pos()), "the rate is computed at the precision of "+funcName(sib), "the reported rate rounds or truncates ("+strings.Join(extra, ", ")+") where the emission formula of the same configuration does not: the rate annualises other amounts than those minted")
		}
	}
	for _, impl := range impls {
		name := funcName(impl)
		endP, nowP := paramOfType(impl, "*time.Time", 0), paramOfType(impl, tTime, 1)
		supplyP := paramOfType(impl, tInt, 0)
		if endP == nil || nowP == nil || supplyP == nil {
			r.Unk("C19.zero", name+": parameters", w.Pos(impl.Pos()), "unexpected signature")
			continue
		}
		// constant-zero implementation?
		allZero := true
		for _, ret := range Returns(impl) {
			if !isZeroDecValue(retVals(ret)[0]) {
				allZero = false
			}
		}
		if allZero {
			r.OK("C19.zero", name+": constant zero", w.Pos(impl.Pos()), "every return is ZeroDec()")
			continue
		}
		term := func(v ssa.Value) string {
			if v == ssa.Value(nowP) {
				return "now"
			}
			if u, ok := v.(*ssa.UnOp); ok && u.Op == token.MUL && u.X == ssa.Value(endP) {
				return "end"
			}
			if v == ssa.Value(endP) {
				return "endptr"
			}
			if v == ssa.Value(supplyP) {
				return "supply"
			}
			if isZeroIntValue(v) {
				return "zero"
			}
			return ""
		}
		// now after end (end set, supply positive) => zero; now equal to end => zero when the emission routine hands the
		// period over at that instant (sibling agreement: from the block in which Mint archives the period nothing more
		// is emitted for it, so its reported rate is zero), either answer otherwise
		for _, eqCase := range []bool{false, true} {
			nowRank := 1
			if eqCase {
				nowRank = 0
			}
			live := ReachUnder(impl, OrderEval(term, func(a, b string) (int, bool) {
				rank := map[string]int{"end": 0, "now": nowRank}
				if (a == "supply" && b == "zero") || (a == "zero" && b == "supply") {
					if a == "supply" {
						return 1, true
					}
					return -1, true
				}
				return rankCmp(rank)(a, b)
			}, func(t string) (bool, bool) { return false, t == "endptr" }))
			ok := true
			vals := live.LiveReturns(impl, 0)
			for _, v := range vals {
				if !isZeroDecValue(v) {
					ok = false
				}
			}
			if !eqCase {
				r.Check(ok && len(vals) > 0, "C19.zero", name+": now after end => zero", w.Pos(impl.Pos()), "every live return is ZeroDec()", "a period whose end has passed still reports a non-zero inflation")
				continue
			}
			hand, decided := mintHandOverAt(w, 0)
			switch {
			case !decided:
				r.Unk("C19.zero", name+": now equal to end", w.Pos(impl.Pos()), "cannot decide whether the emission routine hands the period over at its end instant")
			case hand:
				r.Check(ok && len(vals) > 0, "C19.zero", name+": now equal to end => zero (the emission hands the period over at this instant)", w.Pos(impl.Pos()), "every live return is ZeroDec()", "at the very instant a period ends the emission routine archives it and emits nothing more for it, yet its reported inflation is still non-zero: the rate and the emission disagree on when the period is over")
			default:
				r.OK("C19.zero", name+": now equal to end => either (the emission keeps the period at this instant)", w.Pos(impl.Pos()), "either answer is consistent with the emission")
			}
		}

		// ---------- C19.formula (closed world) ----------
		{
			startP := paramOfType(impl, tTime, 0)
			liveIn := ReachUnder(impl, OrderEval(term, func(a, b string) (int, bool) {
				rank := map[string]int{"now": 0, "end": 1}
				if (a == "supply" && b == "zero") || (a == "zero" && b == "supply") {
					if a == "supply" {
						return 1, true
					}
					return -1, true
				}
				return rankCmp(rank)(a, b)
			}, func(t string) (bool, bool) { return false, t == "endptr" }))
			lt := w.Tracer()
			lt.Live, lt.LiveFn = liveIn, impl
			okF := true
			why := ""
			nret := 0
			for _, ret := range Returns(impl) {
				if !liveIn.Blocks[ret.Block()] {
					continue
				}
				nret++
				o := lt.Origins(retVals(ret)[0])
				need := map[string]bool{
					"the total supply":         o.Visited(supplyP),
					"the period's Amount":      o.HasPath(".Amount"),
					"annualisation (MulInt64)": o.HasOp("Dec.MulInt64"),
				}
				if strings.Contains(name, "Exponential") {
					// the step reached enters by control (loop bound), not by data: only the data operands are required
					need["StepDuration"] = o.HasPath("StepDuration")
					need["AmountMultiplier"] = o.HasPath("AmountMultiplier")
				} else {
					need["the period start"] = startP != nil && o.Visited(startP)
					need["the period end"] = o.Visited(endP)
				}
				var miss []string
				for k, v := range need {
					if !v {
						miss = append(miss, k)
					}
				}
				sort.Strings(miss)
				if len(miss) > 0 {
					okF = false
					why = "a value returned inside the period (supply positive) does not depend on " + strings.Join(miss, ", ")
				}
			}
			r.Check(okF && nret > 0, "C19.formula", name+": inside the period every result is the annualised rate", w.Pos(impl.Pos()), "every live return depends on amount, year, period/step data and supply", why)
		}
		// ---------- C19.guard ----------
		n := 0
		for _, s := range cg.Sites[impl] {
			c := siteCall(s)
			if c == nil || !hasSuffixAny(callName(c.Common()), "types.Dec.QuoInt") {
				continue
			}
			d := c.Common().Args[1]
			if d != ssa.Value(supplyP) {
				continue
			}
			n++
			good := MustPass(impl, nonZeroEdges(impl, supplyP), s.Instr.Block())
			// and the other edge returns zero
			zeroOnFail := true
			for _, e := range nonZeroEdges(impl, supplyP) {
				other := e.From.Succs[1-e.Succ]
				if ret, ok := other.Instrs[len(other.Instrs)-1].(*ssa.Return); ok {
					if !isZeroDecValue(retVals(ret)[0]) {
						zeroOnFail = false
					}
				}
			}
			r.Check(good && zeroOnFail, "C19.guard", name+": division by the supply only when supply > 0", w.Pos(s.Instr.Pos()), "dominated by the false edge of supply <= 0, whose true edge returns zero", "inflation is divided by a supply that may be zero or negative")
		}
		if n == 0 {
			r.Bad("C19.guard", name+": inflation is a rate over the supply", w.Pos(impl.Pos()), "the result is not divided by the total supply parameter")
		}
	}
	// ---------- C19.operands ----------
	tr := w.Tracer()
	for _, s := range cg.Sites[gci] {
		if !strings.HasSuffix(s.CalleeName(), "Minter.CalculateInflation") {
			continue
		}
		a := s.Args()
		o := tr.Origins(a[0])
		okSupply := false
		for _, c := range o.CallsNamed("BankKeeper.GetSupply") {
			ca := c.Common().Args
			if loadOfField(ca[len(ca)-1], "MintDenom", nil) {
				okSupply = true
			}
		}
		r.Check(okSupply && o.HasPath("Coin.Amount"), "C19.operands", "supply = bank.GetSupply(params.MintDenom).Amount", w.Pos(s.Instr.Pos()), "divisor originates from the bank's supply of the mint denomination", "the supply used is not the bank supply of the mint denomination: "+o.String())
		last := a[len(a)-1]
		okTime := isBlockTime(last)
		if !okTime {
			ot := tr.Origins(last)
			okTime = ot.HasCall("types.Context.BlockHeader") && !ot.HasCall("time.Now")
		}
		r.Check(okTime, "C19.operands", "time = block header time", w.Pos(s.Instr.Pos()), "ctx.BlockHeader().Time / ctx.BlockTime()", "inflation is evaluated at another instant than the block time")
	}
	// year constant
	if tp := w.TPkg("x/cfeminter/types"); tp != nil {
		if c, ok := tp.Types.Scope().Lookup("year").(*types.Const); ok {
			v, _ := constant.Int64Val(c.Val())
			r.Check(v == int64(365*24*3600)*1e9, "C19.operands", "year = 365 x 24 h", w.Pos(c.Pos()), "constant evaluates to 31536000 s", "the annualisation constant is not 365 days")
		} else {
			r.Unk("infra.anchor", "x/cfeminter/types.year", "", "constant not found")
		}
	}
	// the year constant is what annualises in both implementations
	for _, impl := range impls {
		uses := false
		for _, s := range cg.Sites[impl] {
			c := siteCall(s)
			if c != nil && hasSuffixAny(callName(c.Common()), "types.Dec.MulInt64") {
				// the year constant, in whatever unit the elapsed time is measured (ns, µs, ms, s), possibly
				// rescaled by a Duration method (year.Milliseconds())
				arg := stripConv(c.Common().Args[1])
				if cc, isCall := arg.(*ssa.Call); isCall && len(cc.Common().Args) == 1 && strings.Contains(callName(cc.Common()), "time.Duration.") {
					arg = stripConv(cc.Common().Args[0])
				}
				if k, ok := arg.(*ssa.Const); ok && k.Value != nil {
					n, _ := constant.Int64Val(constant.ToInt(k.Value))
					for _, unit := range []int64{1e9, 1e6, 1e3, 1} {
						if n == int64(365*24*3600)*unit {
							uses = true
						}
					}
				}
			}
		}
		allZero := true
		for _, ret := range Returns(impl) {
			if !isZeroDecValue(retVals(ret)[0]) {
				allZero = false
			}
		}
		if !allZero {
			r.Check(uses, "C19.operands", funcName(impl)+": annualised with the year constant", w.Pos(impl.Pos()), "MulInt64(year)", "the rate is not annualised with the year constant")
		}
	}
	// the query returns GetCurrentInflation
	if q := w.Func("x/cfeminter/keeper.Keeper.Inflation"); q != nil {
		// what the response carries (built in the handler or in a response helper below it) is result #0 of the shared
		// routine and nothing else
		ok := false
		t2 := w.Tracer()
		if gi := w.Func("x/cfeminter/keeper.Keeper.GetCurrentInflation"); gi != nil {
			t2.Opaque[funcName(gi)] = true
		}
		t2.Stop = []string{"Keeper.GetCurrentInflation"}
		for _, sb := range w.storesBelow(q, "QueryInflationResponse", 2, nil) {
			if sb.FS.Field != "Inflation" {
				continue
			}
			o := t2.OriginsOfStore(q, sb)
			if os.Getenv("C4E_DEBUG2") != "" {
				fmt.Fprintf(os.Stderr, "C19Q leaves=%v ops=%v trunc=%v\n", o.LeafList(), o.Ops, o.Truncated)
			}
			ok = !o.Truncated && len(o.Leaves) > 0
			for _, l := range o.Leaves {
				if c, isC := l.V.(*ssa.Call); !(l.Kind == "call" && isC && strings.HasSuffix(callName(c.Common()), "keeper.Keeper.GetCurrentInflation")) {
					ok = false
				}
			}
			for op := range o.Ops {
				if !strings.HasSuffix(op, "keeper.Keeper.GetCurrentInflation") {
					ok = false
				}
			}
		}
		r.Check(ok, "C19.operands", "the Inflation query reports GetCurrentInflation", w.Pos(q.Pos()), "same routine as the mint event", "the query computes inflation by other means")
	} else {
		r.Unk("infra.anchor", "x/cfeminter/keeper.Keeper.Inflation", "", "anchor not found")
	}
}
