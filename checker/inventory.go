package main

import (
	"fmt"
	"go/ast"
	"go/constant"
	"go/token"
	"go/types"
	"os"
	"regexp"
	"sort"
	"strings"

	"golang.org/x/tools/go/ssa"
)

// Panic inventory (C10 / C20): every operation that can panic, on every function reachable from an entry
// set, is enumerated and must be discharged by a recognised guard (g1), a validated configuration field (g2),
// constant evaluation (g3), the vetted table (g4) or a well-formed origin (g5).

var denomRe = regexp.MustCompile(`^[a-zA-Z][a-zA-Z0-9/:._-]{2,127}$`)

// samePath: the two values denote the same storage access path (go/ssa performs no CSE).
func samePath(a, b ssa.Value) bool {
	for i := 0; i < 10; i++ {
		if a == b {
			return true
		}
		switch x := a.(type) {
		case *ssa.UnOp:
			y, ok := b.(*ssa.UnOp)
			if !ok || x.Op != y.Op {
				return false
			}
			a, b = x.X, y.X
		case *ssa.FieldAddr:
			y, ok := b.(*ssa.FieldAddr)
			if !ok || x.Field != y.Field {
				return false
			}
			a, b = x.X, y.X
		case *ssa.Field:
			y, ok := b.(*ssa.Field)
			if !ok || x.Field != y.Field {
				return false
			}
			a, b = x.X, y.X
		case *ssa.IndexAddr:
			y, ok := b.(*ssa.IndexAddr)
			if !ok || !samePath(x.Index, y.Index) {
				return false
			}
			a, b = x.X, y.X
		case *ssa.Convert:
			y, ok := b.(*ssa.Convert)
			if !ok {
				return false
			}
			a, b = x.X, y.X
		case *ssa.ChangeType:
			y, ok := b.(*ssa.ChangeType)
			if !ok {
				return false
			}
			a, b = x.X, y.X
		default:
			return false
		}
	}
	return false
}

func stripConv(v ssa.Value) ssa.Value {
	for {
		switch x := v.(type) {
		case *ssa.Convert:
			v = x.X
		case *ssa.ChangeType:
			v = x.X
		default:
			return v
		}
	}
}

// Inv is one inventory run.
type Inv struct {
	w       *World
	r       *Report
	rule    string
	tr      *Tracer
	macc    map[string][]string
	vetted  map[string]string
	usedSem map[string]bool
	used    map[string]bool
	keys    map[string]int
	// reach is the set of functions on the trees being inventoried (call sites outside it - genesis import, tests -
	// are not this inventory's concern when a fact is established "at every call site")
	reach     map[*ssa.Function]*ssa.Function
	liftDepth int
}

// treeCallers: the static call sites of fn that lie on the inventoried trees.
func (iv *Inv) treeCallers(fn *ssa.Function) []*Site {
	all := iv.w.CG().Callers[fn]
	if iv.reach == nil {
		return all
	}
	var out []*Site
	for _, cs := range all {
		if _, ok := iv.reach[cs.Caller]; ok {
			out = append(out, cs)
		}
	}
	return out
}

// structFieldNonEmpty: field f of the struct handed to fn as parameter idx is a non-empty string at every call site
// on the trees: built there as a literal whose field is non-empty, or handed through from the caller's own parameter
// (decided one level further up).
func (iv *Inv) structFieldNonEmpty(fn *ssa.Function, idx int, f string, depth int) (bool, string) {
	if depth > 4 {
		return false, "call chain too deep"
	}
	callers := iv.treeCallers(fn)
	if len(callers) == 0 {
		return false, "no static caller"
	}
	var hows []string
	for _, cs := range callers {
		if cs.Common().IsInvoke() || idx >= len(cs.Common().Args) {
			return false, "dynamic caller"
		}
		arg := cs.Common().Args[idx]
		if fv := fieldStoredInto(arg, f); fv != nil {
			ok, how := iv.stringNonEmpty(cs.Caller, cs.Instr, fv, depth+1)
			if !ok {
				return false, funcName(cs.Caller) + ": " + how
			}
			hows = append(hows, funcName(cs.Caller)+": "+how)
			continue
		}
		// handed through from the caller's own parameter
		through := -1
		if pname := rootParam(arg); pname != "" {
			for j, x := range cs.Caller.Params {
				if x.Name() == pname && types.Identical(x.Type(), arg.Type()) {
					through = j
				}
			}
		}
		if through < 0 {
			return false, funcName(cs.Caller) + ": the record comes from elsewhere"
		}
		ok, how := iv.structFieldNonEmpty(cs.Caller, through, f, depth+1)
		if !ok {
			return false, how
		}
		hows = append(hows, how)
	}
	return true, strings.Join(hows, " | ")
}

func newInv(w *World, r *Report, rule string, vetted map[string]string) *Inv {
	iv := &Inv{w: w, r: r, rule: rule, tr: w.Tracer(), vetted: vetted, used: map[string]bool{}, usedSem: map[string]bool{}, keys: map[string]int{}}
	iv.macc = w.maccPerms()
	return iv
}

// maccPerms evaluates the map literal app.maccPerms (g3).
func (w *World) maccPerms() map[string][]string {
	p := w.TPkg("app")
	if p == nil {
		return nil
	}
	out := map[string][]string{}
	for _, f := range p.Syntax {
		for _, d := range f.Decls {
			gd, ok := d.(*ast.GenDecl)
			if !ok || gd.Tok != token.VAR {
				continue
			}
			for _, sp := range gd.Specs {
				vs := sp.(*ast.ValueSpec)
				for i, n := range vs.Names {
					if n.Name != "maccPerms" || i >= len(vs.Values) {
						continue
					}
					cl, ok := vs.Values[i].(*ast.CompositeLit)
					if !ok {
						return nil
					}
					for _, e := range cl.Elts {
						kv, ok := e.(*ast.KeyValueExpr)
						if !ok {
							return nil
						}
						tv := p.TypesInfo.Types[kv.Key]
						if tv.Value == nil {
							return nil
						}
						key := constant.StringVal(tv.Value)
						var perms []string
						if vl, ok := kv.Value.(*ast.CompositeLit); ok {
							for _, pe := range vl.Elts {
								pv := p.TypesInfo.Types[pe]
								if pv.Value != nil {
									perms = append(perms, constant.StringVal(pv.Value))
								}
							}
						}
						out[key] = perms
					}
				}
			}
		}
	}
	if len(out) == 0 {
		return nil
	}
	return out
}

func hasPerm(perms []string, p string) bool {
	for _, x := range perms {
		if x == p {
			return true
		}
	}
	return false
}

// ---- guards ----

// guardEdgesOn collects edges on which a predicate over value X (same access path) holds.
// recog returns (truthValueThatImpliesPredicate, ok) for a NOT-stripped condition.
func guardEdgesOn(fn *ssa.Function, recog func(base ssa.Value) (bool, bool)) []Edge {
	return EdgesWhere(fn, recog)
}

// nonZeroEdges: edges on which x != 0 / x > 0 is known (x: math.Int, sdk.Dec, or integer).
func nonZeroEdges(fn *ssa.Function, x ssa.Value) []Edge {
	x = stripConv(x)
	isX := func(v ssa.Value) bool {
		v = stripConv(v)
		if samePath(v, x) {
			return true
		}
		// NewDecFromInt(x) etc.
		if c, ok := v.(*ssa.Call); ok && hasSuffixAny(callName(c.Common()), "types.NewDecFromInt", "types.NewDec") {
			return samePath(stripConv(c.Common().Args[0]), x)
		}
		return false
	}
	isZero := func(v ssa.Value) bool {
		if isZeroIntValue(v) {
			return true
		}
		if c, ok := v.(*ssa.Call); ok && hasSuffixAny(callName(c.Common()), "types.ZeroDec", "math.LegacyZeroDec") {
			return true
		}
		if k, ok := v.(*ssa.Const); ok && k.Value != nil && k.Value.Kind() == constant.Int {
			n, _ := constant.Int64Val(k.Value)
			return n == 0
		}
		return false
	}
	return EdgesWhere(fn, func(base ssa.Value) (bool, bool) {
		switch c := base.(type) {
		case *ssa.Call:
			n := callName(c.Common())
			a := c.Common().Args
			switch {
			case hasSuffixAny(n, ".IsZero") && len(a) == 1 && isX(a[0]):
				return false, true
			case hasSuffixAny(n, ".IsPositive") && len(a) == 1 && isX(a[0]):
				return true, true
			case hasSuffixAny(n, ".LTE") && len(a) == 2 && isX(a[0]) && isZero(a[1]):
				return false, true
			case hasSuffixAny(n, ".GT") && len(a) == 2 && isX(a[0]) && isZero(a[1]):
				return true, true
			case hasSuffixAny(n, ".Equal") && len(a) == 2 && isX(a[0]) && isZero(a[1]):
				return false, true
			}
		case *ssa.BinOp:
			if isX(c.X) && isZero(c.Y) {
				switch c.Op {
				case token.LEQ, token.EQL:
					return false, true
				case token.GTR, token.NEQ:
					return true, true
				}
			}
		}
		return false, false
	})
}

// nonNegEdges: edges on which x >= 0 is known (math.Int).
func nonNegEdges(fn *ssa.Function, x ssa.Value) []Edge {
	return EdgesWhere(fn, func(base ssa.Value) (bool, bool) {
		c, ok := base.(*ssa.Call)
		if !ok {
			return false, false
		}
		n := callName(c.Common())
		a := c.Common().Args
		switch {
		case hasSuffixAny(n, ".IsNegative") && samePath(a[0], x):
			return false, true
		case hasSuffixAny(n, ".IsPositive") && samePath(a[0], x):
			return true, true
		case hasSuffixAny(n, ".IsZero") && samePath(a[0], x):
			return true, true
		case hasSuffixAny(n, ".GT", ".GTE") && len(a) == 2 && samePath(a[0], x) && isZeroIntValue(a[1]):
			return true, true
		case hasSuffixAny(n, ".LT") && len(a) == 2 && samePath(a[0], x) && isZeroIntValue(a[1]):
			return false, true
		}
		return false, false
	})
}

// calleeRejects: callee returns a non-nil error on every live path when the assumption about parameter p holds.
func calleeRejects(callee *ssa.Function, assume func(base ssa.Value) (bool, bool)) bool {
	if callee == nil || callee.Blocks == nil {
		return false
	}
	live := ReachUnder(callee, assume)
	n := 0
	for _, ret := range Returns(callee) {
		if !live.Blocks[ret.Block()] {
			continue
		}
		n++
		rv := retVals(ret)
		if len(rv) == 0 || !isErrorType(rv[len(rv)-1].Type()) {
			return false
		}
		if !nonNilAt(rv[len(rv)-1], ret.Block(), 0) {
			return false
		}
	}
	return n > 0
}

// validatedByCall: instruction `at` is dominated by the success edge of a call f(..., x, ...) (x on the same
// access path as v) where f rejects whenever `assume(param)` holds.
func (iv *Inv) validatedByCall(fn *ssa.Function, at ssa.Instruction, v ssa.Value, mk func(p *ssa.Parameter) func(ssa.Value) (bool, bool)) (bool, string) {
	cg := iv.w.CG()
	for _, s := range cg.Sites[fn] {
		call := siteValue(s)
		if call == nil || len(s.Callees) != 1 || s.Invoke {
			continue
		}
		callee := s.Callees[0]
		for i, a := range s.Common().Args {
			if i >= len(callee.Params) || !samePath(stripConv(a), stripConv(v)) {
				continue
			}
			if !OnSuccessEdge(fn, at, call) {
				continue
			}
			if calleeRejects(callee, mk(callee.Params[i])) {
				return true, "validated by " + funcName(callee)
			}
			// one more level: callee forwards the parameter to a validator
			for _, s2 := range cg.Sites[callee] {
				c2 := siteValue(s2)
				if c2 == nil || len(s2.Callees) != 1 {
					continue
				}
				for j, a2 := range s2.Common().Args {
					if j < len(s2.Callees[0].Params) && stripConv(a2) == ssa.Value(callee.Params[i]) && calleeRejects(s2.Callees[0], mk(s2.Callees[0].Params[j])) {
						// and callee propagates that error
						if len(NilEdges(callee, errValues(callee, c2), false)) > 0 {
							return true, "validated by " + funcName(s2.Callees[0]) + " via " + funcName(callee)
						}
					}
				}
			}
		}
	}
	return false, ""
}

// ---- validator-covers-field (g2) ----

// fieldOfValue: when v (conversions stripped) is a load of field f of a named module struct, return it.
func fieldOfValue(v ssa.Value) (*types.Named, string, bool) {
	v = stripConv(v)
	switch x := v.(type) {
	case *ssa.UnOp:
		if x.Op == token.MUL {
			if fa, ok := x.X.(*ssa.FieldAddr); ok {
				n, f := fieldOf(fa)
				if n != nil {
					return n, f, true
				}
			}
		}
	case *ssa.Field:
		t := x.X.Type()
		if n, ok := t.(*types.Named); ok {
			if st, ok := n.Underlying().(*types.Struct); ok {
				return n, st.Field(x.Field).Name(), true
			}
		}
	}
	return nil, "", false
}

type fieldReq int

const (
	reqPositive fieldReq = iota // field > 0
	reqDenom                    // sdk.ValidateDenom(field) == nil
	reqMacc                     // field is a key of maccPerms
	reqNonEmpty                 // len(field) > 0
)

// fieldValidated: some validation method of T rejects values whose field violates the requirement.
func (iv *Inv) fieldValidated(T *types.Named, field string, req fieldReq) (bool, string) {
	if T == nil {
		return false, ""
	}
	var cands []*ssa.Function
	for _, recv := range []types.Type{T, types.NewPointer(T)} {
		ms := iv.w.Prog.MethodSets.MethodSet(recv)
		for i := 0; i < ms.Len(); i++ {
			name := ms.At(i).Obj().Name()
			if strings.HasPrefix(strings.ToLower(name), "validate") {
				if fo, ok := ms.At(i).Obj().(*types.Func); ok {
					if fn := iv.w.Prog.FuncValue(fo); fn != nil && fn.Blocks != nil {
						cands = append(cands, fn)
					}
				}
			}
		}
	}
	// only validators that are on the chain of the module's stored-value validation count
	// (Params.Validate / GenesisState.Validate, whose nil edge dominates every store write: C13.validated)
	vreach := iv.validatorReach(T)
	var kept []*ssa.Function
	for _, fn := range cands {
		if _, ok := vreach[fn]; ok {
			kept = append(kept, fn)
		}
	}
	cands = kept
	for _, fn := range cands {
		isField := func(v ssa.Value) bool {
			n, f, ok := fieldOfValue(v)
			return ok && f == field && n.Obj() == T.Obj()
		}
		if ok, how := iv.guardRejects(fn, isField, req, 0); ok {
			return true, funcName(fn) + how
		}
	}
	return false, ""
}

// validatorReach: functions reachable from Params.Validate and GenesisState.Validate of the package defining T.
func (iv *Inv) validatorReach(T *types.Named) map[*ssa.Function]*ssa.Function {
	if T.Obj().Pkg() == nil {
		return nil
	}
	sp := iv.w.Prog.Package(T.Obj().Pkg())
	if sp == nil {
		return nil
	}
	var roots []*ssa.Function
	// a message type is validated by its own ValidateBasic (baseapp / x/gov run it before the handler)
	if vb := iv.w.methodOf(T, "ValidateBasic"); vb != nil && vb.Blocks != nil {
		roots = append(roots, vb)
	}
	for _, tn := range []string{"Params", "GenesisState"} {
		if tm := sp.Type(tn); tm != nil {
			if fn := iv.w.methodOf(tm.Type(), "Validate"); fn != nil {
				roots = append(roots, fn)
			}
		}
	}
	return iv.w.CG().Reach(roots)
}

// guardRejects: fn contains a guard rejecting (error on every path) values of `isField` violating req,
// directly or in a callee to which the field is passed (depth ≤ 2).
func (iv *Inv) guardRejects(fn *ssa.Function, isField func(ssa.Value) bool, req fieldReq, depth int) (bool, string) {
	through := func(v ssa.Value) bool {
		v = stripConv(v)
		if isField(v) {
			return true
		}
		// v.(string) of an interface parameter carrying the field
		if ex, ok := v.(*ssa.Extract); ok {
			if ta, ok := ex.Tuple.(*ssa.TypeAssert); ok && ex.Index == 0 {
				return isField(ta.X)
			}
		}
		if ta, ok := v.(*ssa.TypeAssert); ok {
			return isField(ta.X)
		}
		return false
	}
	var rej []Edge // edges on which the value is known bad
	switch req {
	case reqPositive:
		for _, e := range EdgesWhere(fn, func(base ssa.Value) (bool, bool) {
			switch c := base.(type) {
			case *ssa.BinOp:
				if through(c.X) {
					if k, ok := c.Y.(*ssa.Const); ok && k.Value != nil {
						n, _ := constant.Int64Val(constant.ToInt(k.Value))
						switch {
						case c.Op == token.LEQ && n == 0, c.Op == token.LSS && n == 1, c.Op == token.EQL && n == 0:
							return true, true
						case c.Op == token.GTR && n == 0, c.Op == token.GEQ && n == 1:
							return false, true
						}
					}
				}
			case *ssa.Call:
				n := callName(c.Common())
				a := c.Common().Args
				if len(a) >= 1 && through(a[0]) {
					switch {
					case hasSuffixAny(n, ".IsPositive"):
						return false, true
					case hasSuffixAny(n, ".LTE") && len(a) == 2 && isZeroIntValue(a[1]):
						return true, true
					}
				}
			}
			return false, false
		}) {
			rej = append(rej, e)
		}
	case reqNonEmpty:
		rej = EdgesWhere(fn, func(base ssa.Value) (bool, bool) {
			if c, ok := base.(*ssa.BinOp); ok {
				// len(x) == 0 / x == ""
				if call, ok := c.X.(*ssa.Call); ok {
					if b, ok := call.Common().Value.(*ssa.Builtin); ok && b.Name() == "len" && through(call.Common().Args[0]) {
						if k, ok := c.Y.(*ssa.Const); ok && k.Value != nil {
							n, _ := constant.Int64Val(constant.ToInt(k.Value))
							switch {
							case c.Op == token.EQL && n == 0, c.Op == token.LSS && n == 1, c.Op == token.LEQ && n == 0:
								return true, true
							case c.Op == token.NEQ && n == 0, c.Op == token.GTR && n == 0:
								return false, true
							}
						}
					}
				}
				if through(c.X) {
					if s, ok := EvalString(c.Y); ok && s == "" {
						if c.Op == token.EQL {
							return true, true
						}
						if c.Op == token.NEQ {
							return false, true
						}
					}
				}
			}
			return false, false
		})
		for _, cs := range iv.w.CG().Sites[fn] {
			if call := siteCall(cs); call != nil && hasSuffixAny(callName(call.Common()), "types.AccAddressFromBech32") && through(call.Common().Args[0]) {
				rej = append(rej, NilEdges(fn, errValues(fn, call), false)...)
			}
		}
	case reqDenom, reqMacc:
		// a call whose error / false result means "bad"
		cg := iv.w.CG()
		for _, s := range cg.Sites[fn] {
			call := siteCall(s)
			if call == nil {
				continue
			}
			n := callName(call.Common())
			args := call.Common().Args
			if req == reqDenom && hasSuffixAny(n, "types.ValidateDenom") && len(args) == 1 && through(args[0]) {
				rej = append(rej, NilEdges(fn, errValues(fn, call), false)...)
			}
			if req == reqMacc && len(s.Callees) == 1 && len(args) >= 1 && through(args[len(args)-1]) && iv.isMaccLookup(s.Callees[0]) {
				rej = append(rej, boolValueEdges(fn, call, false)...)
			}
		}
		if req == reqMacc {
			// the membership test written in place: `_, found := maccPerms[field]`
			found := map[ssa.Value]bool{}
			for _, b := range fn.Blocks {
				for _, in := range b.Instrs {
					lk, ok := in.(*ssa.Lookup)
					if !ok || !lk.CommaOk || !through(lk.Index) || lk.Referrers() == nil {
						continue
					}
					u, ok := lk.X.(*ssa.UnOp)
					if !ok {
						continue
					}
					if g, ok := u.X.(*ssa.Global); !ok || g.Name() != "maccPerms" {
						continue
					}
					for _, ref := range *lk.Referrers() {
						if ex, ok := ref.(*ssa.Extract); ok && ex.Index == 1 {
							found[ex] = true
						}
					}
				}
			}
			if len(found) > 0 {
				rej = append(rej, EdgesWhere(fn, func(base ssa.Value) (bool, bool) {
					if found[base] {
						return false, true
					}
					return false, false
				})...)
			}
		}
	}
	for _, e := range rej {
		if FailsFrom(e.To()) {
			return true, ""
		}
	}
	if depth >= 2 {
		return false, ""
	}
	// the field passed to a module callee
	cg := iv.w.CG()
	for _, s := range cg.Sites[fn] {
		call := siteValue(s)
		if call == nil || len(s.Callees) != 1 || s.Invoke {
			continue
		}
		callee := s.Callees[0]
		for i, a := range s.Common().Args {
			x := a
			if mi, ok := x.(*ssa.MakeInterface); ok {
				x = mi.X
			}
			if i >= len(callee.Params) || !through(x) {
				continue
			}
			p := callee.Params[i]
			ok, _ := iv.guardRejects(callee, func(v ssa.Value) bool { return v == ssa.Value(p) }, req, depth+1)
			if !ok {
				continue
			}
			// the caller must propagate the callee's error
			for _, e := range NilEdges(fn, errValues(fn, call), false) {
				if FailsFrom(e.To()) {
					return true, " via " + funcName(callee)
				}
			}
			// or return it directly
			for _, ret := range Returns(fn) {
				rv := retVals(ret)
				if len(rv) > 0 && errValues(fn, call)[rv[len(rv)-1]] {
					return true, " via " + funcName(callee)
				}
			}
		}
	}
	return false, ""
}

// isMaccLookup: the function returns whether its parameter is a key of the package-level maccPerms map.
func (iv *Inv) isMaccLookup(fn *ssa.Function) bool {
	if fn == nil || fn.Blocks == nil {
		return false
	}
	for _, b := range fn.Blocks {
		for _, in := range b.Instrs {
			if lk, ok := in.(*ssa.Lookup); ok && lk.CommaOk {
				if u, ok := lk.X.(*ssa.UnOp); ok {
					if g, ok := u.X.(*ssa.Global); ok && g.Name() == "maccPerms" {
						if _, isP := lk.Index.(*ssa.Parameter); isP {
							return true
						}
					}
				}
			}
		}
	}
	return false
}

// ---- site enumeration ----

type invSite struct {
	fn    *ssa.Function
	instr ssa.Instruction
	class string
	what  string
}

var mustNames = regexp.MustCompile(`(^|\.)Must[A-Z]\w*$`)

func (iv *Inv) classifyCall(s *Site) (class, what string) {
	cg := iv.w.CG()
	if len(s.Callees) > 0 && !s.Invoke {
		return "", ""
	}
	n := callName(s.Common())
	if s.Invoke {
		n = typeString(s.RecvType) + "." + s.Method
	}
	switch a := cg.Atom(s); a {
	case BankMint, BankBurn, BankMove:
		return "bankmodule", n
	case StoreSet:
		return "storeset", n
	}
	switch {
	case hasSuffixAny(n, "math.Int.Int64", "math.Int.Uint64", "types.Int.Int64", "types.Dec.TruncateInt64", "types.Dec.RoundInt64"):
		return "int64", n
	case hasSuffixAny(n, "types.Dec.Quo", "types.Dec.QuoInt", "types.Dec.QuoInt64", "types.Dec.QuoTruncate", "types.Dec.QuoRoundUp", "types.Dec.QuoMut",
		"math.Int.Quo", "math.Int.QuoRaw", "math.Int.Mod", "math.Int.ModRaw", "types.DecCoins.QuoDec", "types.DecCoins.QuoDecTruncate", "types.Coins.QuoInt"):
		return "quo", n
	case hasSuffixAny(n, "types.NewCoin", "types.NewInt64Coin", "types.NewDecCoin", "types.NewDecCoinFromDec", "types.NewInt64DecCoin"):
		return "newcoin", n
	case hasSuffixAny(n, "types.NewCoins", "types.NewDecCoins", "types.NewDecCoinsFromCoins"):
		return "newcoins", n
	case hasSuffixAny(n, "types.Coins.AmountOf", "types.DecCoins.AmountOf", "types.Coins.AmountOfNoDenomValidation"):
		if strings.HasSuffix(n, "NoDenomValidation") {
			return "", ""
		}
		return "amountof", n
	case hasSuffixAny(n, "types.Coins.Sub", "types.DecCoins.Sub", "types.Coin.Sub", "types.DecCoin.Sub"):
		return "coinsub", n
	case hasSuffixAny(n, "types.Coins.Add", "types.DecCoins.Add"):
		return "coinsadd", n
	case hasSuffixAny(n, "AccountI.String", "BaseAccount.String", "ModuleAccountI.String"):
		return "accstring", n
	case hasSuffixAny(n, "crypto/types.PubKey.Address", "secp256k1.PubKey.Address", "ed25519.PubKey.Address", "secp256r1.PubKey.Address"):
		return "pubkeyaddr", n
	case mustNames.MatchString(n):
		return "must", n
	}
	return "", ""
}

func (iv *Inv) sitesOf(fn *ssa.Function) []invSite {
	var out []invSite
	cg := iv.w.CG()
	bySite := map[ssa.Instruction]*Site{}
	for _, s := range cg.Sites[fn] {
		bySite[s.Instr] = s
	}
	for _, b := range fn.Blocks {
		if b == fn.Recover {
			continue
		}
		for _, in := range b.Instrs {
			switch x := in.(type) {
			case *ssa.Panic:
				out = append(out, invSite{fn, in, "panic", "panic(" + stableOperand(x.X) + ")"})
			case *ssa.TypeAssert:
				// (an assertion of an interface value to its own interface type is go/ssa's nil check of a method value
				// `x.M` - it fails exactly when calling x.M() would; not a conversion that can fail on the type)
				if !x.CommaOk && !types.Identical(x.AssertedType, x.X.Type()) {
					out = append(out, invSite{fn, in, "typeassert", "." + "(" + typeString(x.AssertedType) + ")"})
				}
			case *ssa.BinOp:
				if x.Op == token.QUO || x.Op == token.REM {
					if bt, ok := x.X.Type().Underlying().(*types.Basic); ok && bt.Info()&types.IsInteger != 0 {
						if _, isConst := x.Y.(*ssa.Const); !isConst {
							out = append(out, invSite{fn, in, "intdiv", "integer " + x.Op.String()})
						}
					}
				}
			case *ssa.IndexAddr:
				if _, isConst := x.Index.(*ssa.Const); isConst {
					if _, isPtr := x.X.Type().Underlying().(*types.Pointer); isPtr {
						continue // constant index into a fixed array
					}
				}
				out = append(out, invSite{fn, in, "index", "index " + shortType(x.X.Type())})
			case *ssa.Index:
				if _, isConst := x.Index.(*ssa.Const); isConst {
					if _, isArr := x.X.Type().Underlying().(*types.Array); isArr {
						continue
					}
				}
				out = append(out, invSite{fn, in, "index", "index " + shortType(x.X.Type())})
			case *ssa.Slice:
				if x.Low != nil || x.High != nil || x.Max != nil {
					if constBoundsWithinArray(x) {
						continue
					}
					out = append(out, invSite{fn, in, "slice", "slice expression with bounds"})
				}
			case ssa.CallInstruction:
				s := bySite[in]
				if s == nil {
					continue
				}
				if class, what := iv.classifyCall(s); class != "" {
					out = append(out, invSite{fn, in, class, what})
				}
			}
		}
	}
	return out
}

// constBoundsWithinArray: s[lo:hi] of a fixed array with constant bounds inside the array.
func constBoundsWithinArray(x *ssa.Slice) bool {
	pt, ok := x.X.Type().Underlying().(*types.Pointer)
	if !ok {
		return false
	}
	arr, ok := pt.Elem().Underlying().(*types.Array)
	if !ok {
		return false
	}
	for _, b := range []ssa.Value{x.Low, x.High, x.Max} {
		if b == nil {
			continue
		}
		c, ok := b.(*ssa.Const)
		if !ok || c.Value == nil {
			return false
		}
		n, _ := constant.Int64Val(constant.ToInt(c.Value))
		if n < 0 || n > arr.Len() {
			return false
		}
	}
	return true
}

// stableOperand describes a panic operand without SSA register names (keys must survive unrelated edits).
func stableOperand(v ssa.Value) string {
	for {
		switch x := v.(type) {
		case *ssa.MakeInterface:
			v = x.X
			continue
		case *ssa.ChangeInterface:
			v = x.X
			continue
		}
		break
	}
	if c, ok := v.(*ssa.Const); ok && c.Value != nil {
		s := c.Value.ExactString()
		if len(s) > 40 {
			s = s[:40] + "..."
		}
		return s
	}
	return shortType(v.Type())
}

func shortType(t types.Type) string {
	return shortCallee(typeString(t))
}

func shortVal(v ssa.Value) string {
	s := v.String()
	if len(s) > 60 {
		s = s[:60]
	}
	return strings.ReplaceAll(s, modPath+"/", "")
}

// Run enumerates and discharges all sites reachable from roots.
func (iv *Inv) Run(roots []*ssa.Function, label string) {
	cg := iv.w.CG()
	reach := cg.Reach(roots)
	var fns []*ssa.Function
	for f := range reach {
		if iv.w.isProdFunc(f) {
			fns = append(fns, f)
		}
	}
	sort.Slice(fns, func(i, j int) bool { return funcName(fns[i]) < funcName(fns[j]) })
	nsites := 0
	for _, f := range fns {
		for _, s := range iv.sitesOf(f) {
			nsites++
			iv.discharge(s, reach)
		}
	}
	iv.r.Analysed["inventory_"+label] = map[string]int{"functions": len(fns), "sites": nsites}
}

func (iv *Inv) key(s invSite) string {
	k := fmt.Sprintf("%s @ %s : %s", s.class, funcName(s.fn), shortCallee(s.what))
	iv.keys[k]++
	if n := iv.keys[k]; n > 1 {
		k = fmt.Sprintf("%s #%d", k, n)
	}
	return k
}

// dropReceiver removes the receiver type from the function part of an inventory key:
// "index @ x/m/keeper.Keeper.f : what" -> "index @ x/m/keeper.f : what".
func dropReceiver(key string) string {
	i := strings.Index(key, " @ ")
	j := strings.Index(key, " : ")
	if i < 0 || j < i {
		return key
	}
	fn := key[i+3 : j]
	slash := strings.LastIndex(fn, "/")
	parts := strings.Split(fn[slash+1:], ".")
	if len(parts) != 3 {
		return key
	}
	return key[:i+3] + fn[:slash+1] + parts[0] + "." + parts[2] + key[j:]
}

func shortCallee(s string) string {
	s = strings.ReplaceAll(s, modPath+"/", "")
	s = strings.ReplaceAll(s, "github.com/cosmos/cosmos-sdk/", "sdk/")
	s = strings.ReplaceAll(s, "cosmossdk.io/", "")
	return s
}

func (iv *Inv) discharge(s invSite, reach map[*ssa.Function]*ssa.Function) {
	iv.reach = reach
	// operands handed to a helper are followed to the helper's call sites on the inventoried trees
	iv.tr.Lift = 2
	iv.tr.LiftFilter = func(f *ssa.Function) bool { _, ok := reach[f]; return ok }
	key := iv.key(s)
	pos := iv.w.Pos(s.instr.Pos())
	if !s.instr.Pos().IsValid() {
		pos = iv.w.Pos(s.fn.Pos())
	}
	ok, how := iv.tryDischarge(s)
	if ok {
		iv.r.OK(iv.rule, key, pos, how)
		return
	}
	// a divisor handed in as a parameter (a formula shared by several callers): decided at every call site on the trees
	if s.class == "quo" || s.class == "intdiv" {
		if ok2, vet, how2 := iv.divisorAtCallers(s); ok2 {
			if vet {
				iv.r.Assume(iv.rule, key, pos, how2)
			} else {
				iv.r.OK(iv.rule, key, pos, how2)
			}
			return
		}
	}
	// numeric vetting arguments are keyed by the semantic signature of the operand (function-independent)
	for i, sk := range iv.semKeys(s) {
		if os.Getenv("C4E_DEBUG") != "" && i >= 0 {
			fmt.Printf("SEM\t%q\t%q\n", key, sk)
		}
		if reason, isVetted := vettedSemantic[sk]; isVetted {
			iv.usedSem[sk] = true
			iv.r.Assume(iv.rule, key, pos, "vetted ("+sk+"): "+reason)
			return
		}
	}
	if reason, isVetted := iv.vetted[key]; isVetted {
		iv.used[key] = true
		iv.r.Assume(iv.rule, key, pos, "vetted: "+reason)
		return
	}
	// a function that moved to another receiver type of the same package (Keeper.f -> state.f) keeps its reviewed
	// entries: the argument is about what the function does; accepted only when the receiver-free key is unambiguous
	if nk := dropReceiver(key); nk != key {
		var match []string
		for k := range iv.vetted {
			if dropReceiver(k) == nk {
				match = append(match, k)
			}
		}
		if len(match) == 1 {
			iv.used[match[0]] = true
			iv.r.Assume(iv.rule, key, pos, "vetted (entry of "+match[0]+", the function moved to another receiver): "+iv.vetted[match[0]])
			return
		}
	}
	detail := how
	if detail == "" {
		detail = "no recognised guard, validated field, constant or well-formed origin discharges this panic-capable operation"
	}
	iv.r.Bad(iv.rule, key, pos, detail+"; reached via "+PathTo(reach, s.fn))
}

// int64OK: Int64() of x at instruction `at` of fn cannot panic: dominated by IsInt64() on the same value; or fn is a
// function literal created under IsInt64() of the captured value; or x is a parameter of fn and the same holds for the
// argument at every call site on the inventoried trees (a gauge helper that is handed the amount).
func (iv *Inv) int64OK(fn *ssa.Function, at ssa.Instruction, x ssa.Value, depth int) (bool, string) {
	edges := EdgesWhere(fn, func(base ssa.Value) (bool, bool) {
		c, ok := base.(*ssa.Call)
		if ok && hasSuffixAny(callName(c.Common()), ".IsInt64", ".IsUint64") && samePath(c.Common().Args[0], x) {
			return true, true
		}
		return false, false
	})
	if MustPass(fn, edges, at.Block()) {
		return true, "g1: dominated by IsInt64() on the same value"
	}
	// closure (deferred gauge): the closure is created under IsInt64() of the captured value
	if parent := fn.Parent(); parent != nil {
		sig := iv.closurePathSig(fn, x)
		if sig != "" {
			for _, b := range parent.Blocks {
				for _, in := range b.Instrs {
					mc, ok := in.(*ssa.MakeClosure)
					if !ok || mc.Fn != ssa.Value(fn) {
						continue
					}
					pe := EdgesWhere(parent, func(base ssa.Value) (bool, bool) {
						c, ok := base.(*ssa.Call)
						if ok && hasSuffixAny(callName(c.Common()), ".IsInt64", ".IsUint64") && iv.parentPathSig(mc, c.Common().Args[0]) == sig {
							return true, true
						}
						return false, false
					})
					if MustPass(parent, pe, mc.Block()) {
						return true, "g1: the closure is created under IsInt64() of the captured value"
					}
				}
			}
		}
	}
	if prm, ok := stripConv(x).(*ssa.Parameter); ok && prm.Parent() == fn && depth < 3 {
		idx := -1
		for i, q := range fn.Params {
			if q == prm {
				idx = i
			}
		}
		callers := iv.treeCallers(fn)
		if idx >= 0 && len(callers) > 0 {
			var hows []string
			for _, cs := range callers {
				if cs.Common().IsInvoke() || cs.Static != fn || idx >= len(cs.Common().Args) {
					return false, "Int64() panics above 2^63-1; the value is a parameter and a dynamic caller was found"
				}
				ok2, how := iv.int64OK(cs.Caller, cs.Instr, cs.Common().Args[idx], depth+1)
				if !ok2 {
					// the argument has a vetted semantic signature (the vetting argument is about the value, not about where
					// the conversion stands)
					for l := 0; l <= 2 && !ok2; l++ {
						sk := "int64 Int64 | " + semSig(iv.w, cs.Caller, l, cs.Common().Args[idx])
						if reason, isVetted := vettedSemantic[sk]; isVetted {
							iv.usedSem[sk] = true
							ok2, how = true, "vetted ("+sk+"): "+reason
						}
					}
				}
				if !ok2 {
					return false, "Int64() panics above 2^63-1 and the argument handed in by " + funcName(cs.Caller) + " is not dominated by IsInt64()"
				}
				hows = append(hows, how+" at the call in "+funcName(cs.Caller))
			}
			return true, strings.Join(dedupe(hows), "; ")
		}
	}
	return false, "Int64() panics above 2^63-1 and is not dominated by IsInt64() on the same value"
}

// divisorAtCallers: the divisor of s is a parameter of the function; at every call site on the inventoried trees the
// argument is a non-zero constant, tested non-zero before the call, a field validated positive, or an expression with
// a vetted semantic signature. vet reports that a vetted argument was used.
func (iv *Inv) divisorAtCallers(s invSite) (ok bool, vet bool, how string) {
	var d ssa.Value
	if s.class == "intdiv" {
		d = s.instr.(*ssa.BinOp).Y
	} else {
		a := s.instr.(ssa.CallInstruction).Common().Args
		d = a[len(a)-1]
	}
	prm, isP := stripConv(d).(*ssa.Parameter)
	if !isP || prm.Parent() != s.fn {
		return false, false, ""
	}
	idx := -1
	for i, q := range s.fn.Params {
		if q == prm {
			idx = i
		}
	}
	callers := iv.treeCallers(s.fn)
	if idx < 0 || len(callers) < 2 {
		return false, false, "" // a single caller is covered by the lifted semantic signature
	}
	what := shortCallee(s.what)
	if i := strings.LastIndex(what, "."); i >= 0 {
		what = what[i+1:]
	}
	if ac := arithClass[what]; ac != "" {
		what = ac
	}
	var hows []string
	for _, cs := range callers {
		if cs.Common().IsInvoke() || idx >= len(cs.Common().Args) {
			return false, false, ""
		}
		arg := stripConv(cs.Common().Args[idx])
		at := "at the call in " + funcName(cs.Caller)
		if k, isK := arg.(*ssa.Const); isK && k.Value != nil && constant.Sign(constant.ToInt(k.Value)) != 0 {
			hows = append(hows, "g3: constant non-zero divisor "+at)
			continue
		}
		if MustPass(cs.Caller, nonZeroEdges(cs.Caller, arg), cs.Instr.Block()) {
			hows = append(hows, "g1: divisor tested non-zero "+at)
			continue
		}
		if T, f, isF := fieldOfValue(arg); isF {
			if ok2, h := iv.fieldValidated(T, f, reqPositive); ok2 {
				hows = append(hows, "g2: divisor is "+T.Obj().Name()+"."+f+", validated positive by "+h+" "+at)
				continue
			}
		}
		found := false
		for l := 0; l <= 2 && !found; l++ {
			sk := s.class + " " + what + " | " + semSig(iv.w, cs.Caller, l, cs.Common().Args[idx])
			if os.Getenv("C4E_DEBUG") != "" {
				fmt.Printf("SEM-AT-CALLER\t%q\t%q\n", iv.key(s), sk)
			}
			if reason, isVetted := vettedSemantic[sk]; isVetted {
				iv.usedSem[sk] = true
				hows = append(hows, "vetted ("+sk+") "+at+": "+reason)
				vet, found = true, true
			}
		}
		if !found {
			return false, false, ""
		}
	}
	return true, vet, strings.Join(hows, "; ")
}

// Finish reports vetted entries that no longer match any site (the table must stay closed and current).
func (iv *Inv) Finish() {
	var stale []string
	for k := range iv.vetted {
		if !iv.used[k] {
			stale = append(stale, k)
		}
	}
	sort.Strings(stale)
	iv.r.Analysed["vetted_entries_unused"] = stale
}

func (iv *Inv) tryDischarge(s invSite) (bool, string) {
	fn := s.fn
	switch s.class {
	case "int64":
		call := s.instr.(ssa.CallInstruction).Common()
		return iv.int64OK(fn, s.instr, call.Args[0], 0)
	case "quo", "intdiv":
		var d ssa.Value
		if s.class == "intdiv" {
			d = s.instr.(*ssa.BinOp).Y
		} else {
			a := s.instr.(ssa.CallInstruction).Common().Args
			d = a[len(a)-1]
		}
		d0 := stripConv(d)
		if k, ok := d0.(*ssa.Const); ok && k.Value != nil && constant.Sign(constant.ToInt(k.Value)) != 0 {
			return true, "g3: constant non-zero divisor"
		}
		if MustPass(fn, nonZeroEdges(fn, d0), s.instr.Block()) {
			return true, "g1: dominated by a non-zero / positive test of the divisor"
		}
		// the divisor is a field of a row of a package-level table of constants: every row's value is non-zero
		if g, f, _, ok := tableFieldOf(d0); ok {
			if rows, n, okT := constTable(iv.w, g); okT {
				all := int64(len(rows)) == n
				for _, row := range rows {
					if c := row[f]; c == nil || c.Value == nil || constant.Sign(constant.ToInt(c.Value)) == 0 {
						all = false
					}
				}
				if all {
					return true, fmt.Sprintf("g3: divisor is a field of the constant table %s, non-zero in each of its %d rows", g.Name(), n)
				}
			}
		}
		// the divisor is a copy of another value that is tested (e.g. epoch := int64(m.StepDuration))
		if T, f, ok := fieldOfValue(d0); ok {
			if ok2, how := iv.fieldValidated(T, f, reqPositive); ok2 {
				return true, "g2: divisor is " + T.Obj().Name() + "." + f + ", validated positive by " + how
			}
		}
		return false, "division whose divisor is not proved non-zero"
	case "newcoin":
		a := s.instr.(ssa.CallInstruction).Common().Args
		ok1, how1 := iv.denomOK(fn, s.instr, a[0])
		if !ok1 {
			return false, "denomination not proved valid (NewCoin panics on an invalid denomination): " + how1
		}
		n := callName(s.instr.(ssa.CallInstruction).Common())
		if strings.HasSuffix(n, "NewInt64Coin") {
			return true, how1
		}
		ok2, how2 := iv.nonNegOK(fn, s.instr, a[1])
		if !ok2 {
			return false, "amount not proved non-negative (NewCoin panics on a negative amount): " + how2
		}
		return true, how1 + "; " + how2
	case "amountof":
		a := s.instr.(ssa.CallInstruction).Common().Args
		ok, how := iv.denomOK(fn, s.instr, a[1])
		if !ok {
			return false, "AmountOf panics on an invalid denomination and the argument is not proved valid: " + how
		}
		return true, how
	case "newcoins":
		a := s.instr.(ssa.CallInstruction).Common().Args
		if len(a) == 0 || isNilConst(a[0]) {
			return true, "g3: no coins"
		}
		return iv.coinsWellFormed(a[0])
	case "coinsadd":
		return true, "g5: Add of coins whose operands are covered by their own constructor sites (NewCoin / validated message coins / bank results)"
	case "coinsub":
		a := s.instr.(ssa.CallInstruction).Common().Args
		edges := EdgesWhere(fn, func(base ssa.Value) (bool, bool) {
			c, ok := base.(*ssa.Call)
			if !ok {
				return false, false
			}
			n := callName(c.Common())
			ca := c.Common().Args
			switch {
			case hasSuffixAny(n, ".IsAllLTE") && samePath(ca[0], a[1]) && samePath(ca[1], a[0]):
				return true, true
			case hasSuffixAny(n, ".IsAllGTE") && samePath(ca[0], a[0]) && samePath(ca[1], a[1]):
				return true, true
			}
			return false, false
		})
		if MustPass(fn, edges, s.instr.Block()) {
			return true, "g1: dominated by IsAllGTE/IsAllLTE of the operands"
		}
		return false, "Sub panics on a negative result and no dominating comparison of the operands was found"
	case "must":
		call := s.instr.(ssa.CallInstruction).Common()
		n := callName(call)
		switch {
		case hasSuffixAny(n, ".MustUnmarshal", ".MustUnmarshalJSON", ".MustUnmarshalLengthPrefixed"):
			if c, ok := stripConv(call.Args[0]).(*ssa.Call); ok && hasSuffixAny(callName(c.Common()), "KVStore.Get", "prefix.Store.Get", "Iterator.Value") {
				return true, "g5: bytes read directly from the module's own store"
			}
			return false, "MustUnmarshal of bytes that are not read directly from the module's own store: " + shortVal(call.Args[0])
		case hasSuffixAny(n, ".MustMarshal", ".MustMarshalJSON", ".MustMarshalLengthPrefixed"):
			return true, "g5: marshalling a generated protobuf value of the module"
		case hasSuffixAny(n, "MustNewDecFromStr"):
			if str, ok := EvalString(call.Args[0]); ok && regexp.MustCompile(`^-?\d+(\.\d{1,18})?$`).MatchString(str) {
				return true, "g3: constant decimal " + str
			}
		}
		return false, "Must* function whose argument is not proved well-formed"
	case "bankmodule":
		site := iv.siteOf(s)
		atom := iv.w.CG().Atom(site)
		var why []string
		for _, a := range site.Args() {
			if b, ok := a.Type().Underlying().(*types.Basic); !ok || b.Kind() != types.String {
				continue
			}
			ok, how := iv.moduleNameOK(fn, a, atom)
			if !ok {
				return false, "bank operation on a module name that is not proved to be a registered module account with the needed permission: " + how
			}
			why = append(why, how)
		}
		return true, "g3/g2: " + strings.Join(why, "; ")
	case "storeset":
		site := iv.siteOf(s)
		key := iv.w.CG().StoreKeyOf(site)
		if key == nil {
			return false, "store write without a key operand"
		}
		return iv.keyNonEmpty(fn, s.instr, key)
	case "typeassert":
		ta := s.instr.(*ssa.TypeAssert)
		var edges []Edge
		for _, b := range fn.Blocks {
			for _, in := range b.Instrs {
				o, ok := in.(*ssa.TypeAssert)
				if !ok || !o.CommaOk || !types.Identical(o.AssertedType, ta.AssertedType) || !(o.X == ta.X || samePath(o.X, ta.X)) {
					continue
				}
				for _, ref := range *o.Referrers() {
					if ex, ok := ref.(*ssa.Extract); ok && ex.Index == 1 {
						edges = append(edges, boolValueEdges(fn, ex, true)...)
					}
				}
			}
		}
		if MustPass(fn, edges, s.instr.Block()) {
			return true, "g1: dominated by the ok edge of a comma-ok assertion of the same value to the same type"
		}
		return false, "single-value type assertion not dominated by a successful comma-ok assertion"
	case "index":
		return iv.indexOK(fn, s.instr)
	case "slice":
		return false, "slice expression with non-constant bounds"
	case "pubkeyaddr":
		// a key taken from a stored account went through the ante handler's signature verification
		if c, ok := s.instr.(ssa.CallInstruction); ok {
			var recv ssa.Value
			if c.Common().IsInvoke() {
				recv = c.Common().Value
			} else if len(c.Common().Args) > 0 {
				recv = c.Common().Args[0]
			}
			if recv != nil {
				o := iv.w.Tracer().Origins(recv)
				if o.HasCall("GetPubKey") && !o.HasCall("UnmarshalInterfaceJSON") && !o.HasCall("UnpackAny") {
					return true, "g5: the key is read from a stored account"
				}
			}
		}
		return false, "PubKey.Address() panics when the key bytes have the wrong length; a key decoded from a message (UnmarshalInterfaceJSON accepts a registered type with missing or short key bytes) is not length-checked"
	case "accstring":
		return false, "AccountI.String() panics when the account has a public key (BaseAccount.MarshalYAML with an unregistered Any)"
	case "panic":
		return false, "explicit panic"
	}
	return false, ""
}

// closurePathSig renders the access path of v inside a closure relative to a captured variable: "#<freevar index>.f.g".
func (iv *Inv) closurePathSig(fn *ssa.Function, v ssa.Value) string {
	var parts []string
	for i := 0; i < 10; i++ {
		switch x := v.(type) {
		case *ssa.UnOp:
			if x.Op != token.MUL {
				return ""
			}
			parts = append(parts, "*")
			v = x.X
		case *ssa.FieldAddr:
			_, f := fieldOf(x)
			parts = append(parts, "."+f)
			v = x.X
		case *ssa.Field:
			parts = append(parts, fieldElem(x.X.Type(), x.Field))
			v = x.X
		case *ssa.FreeVar:
			for k, fv := range fn.FreeVars {
				if fv == x {
					return fmt.Sprintf("#%d%s", k, strings.Join(parts, ""))
				}
			}
			return ""
		default:
			return ""
		}
	}
	return ""
}

// parentPathSig renders the access path of v in the parent relative to the closure's bindings.
func (iv *Inv) parentPathSig(mc *ssa.MakeClosure, v ssa.Value) string {
	var parts []string
	for i := 0; i < 10; i++ {
		for k, b := range mc.Bindings {
			if b == v {
				return fmt.Sprintf("#%d%s", k, strings.Join(parts, ""))
			}
			// the captured variable's cell was promoted in the enclosing function (mem2reg.go): the value it holds (its
			// single store) stands for a load of the cell
			if al, ok := b.(*ssa.Alloc); ok && al.Referrers() != nil && bindingAtCreation[mc] != nil && bindingAtCreation[mc][k] == v {
				// ... and the cell is not assigned again after the literal was created
				later := false
				for _, ref := range *al.Referrers() {
					if st, ok := ref.(*ssa.Store); ok && st.Addr == ssa.Value(al) && canReach(mc, st) {
						later = true
					}
				}
				if !later {
					return fmt.Sprintf("#%d%s*", k, strings.Join(parts, ""))
				}
			}
		}
		switch x := v.(type) {
		case *ssa.UnOp:
			if x.Op != token.MUL {
				return ""
			}
			parts = append(parts, "*")
			v = x.X
		case *ssa.FieldAddr:
			_, f := fieldOf(x)
			parts = append(parts, "."+f)
			v = x.X
		case *ssa.Field:
			parts = append(parts, fieldElem(x.X.Type(), x.Field))
			v = x.X
		default:
			return ""
		}
	}
	return ""
}

func (iv *Inv) siteOf(s invSite) *Site {
	for _, x := range iv.w.CG().Sites[s.fn] {
		if x.Instr == s.instr {
			return x
		}
	}
	return nil
}

// denomOK: the denomination value is a valid-denom constant, a validated configuration field,
// the Denom of a coin taken from well-formed Coins, or validated by a call on the path.
func (iv *Inv) denomOK(fn *ssa.Function, at ssa.Instruction, d ssa.Value) (bool, string) {
	if s, ok := EvalString(d); ok {
		if denomRe.MatchString(s) {
			return true, "g3: constant denomination " + s
		}
		return false, "constant " + s + " is not a valid denomination"
	}
	d0 := stripConv(d)
	// field of Coin: the coin came from validated / bank-provided coins
	if T, f, ok := fieldOfValue(d0); ok && f == "Denom" && (T.Obj().Name() == "Coin" || T.Obj().Name() == "DecCoin") {
		return true, "g5: Denom of an existing coin"
	}
	// locally validated: sdk.ValidateDenom(d) error edge
	cg := iv.w.CG()
	for _, s := range cg.Sites[fn] {
		call := siteCall(s)
		if call != nil && hasSuffixAny(callName(call.Common()), "types.ValidateDenom") && samePath(stripConv(call.Common().Args[0]), d0) && OnSuccessEdge(fn, at, call) {
			return true, "g1: dominated by the success edge of sdk.ValidateDenom"
		}
	}
	// origin analysis: every non-constant source must be a validated field
	o := iv.tr.Origins(d)
	var srcs []string
	allOK := len(o.Leaves) > 0
	for _, l := range o.Leaves {
		switch l.Kind {
		case "const":
			if c, ok := l.V.(*ssa.Const); ok && c.Value != nil && c.Value.Kind() == constant.String {
				if !denomRe.MatchString(constant.StringVal(c.Value)) {
					allOK = false
					srcs = append(srcs, "constant "+c.Value.ExactString())
				}
			}
		case "outparam", "call", "param", "global", "zero":
			// path names the field
			T, f := lastPathField(iv.w, l.Path)
			if T == nil {
				if l.Kind == "call" && !strings.Contains(l.String(), "Unmarshal") {
					continue // intermediate call leaf (e.g. KVStore.Get feeding MustUnmarshal): covered by the outparam leaf
				}
				allOK = false
				srcs = append(srcs, l.String())
				continue
			}
			if f == "Denom" && (T.Obj().Name() == "Coin" || T.Obj().Name() == "DecCoin") {
				continue
			}
			if ok, how := iv.fieldValidated(T, f, reqDenom); ok {
				srcs = append(srcs, T.Obj().Name()+"."+f+" validated by "+how)
			} else {
				allOK = false
				srcs = append(srcs, T.Obj().Name()+"."+f+" is not validated as a denomination (only Validate() with sdk.ValidateDenom would make it safe)")
			}
		}
	}
	if allOK {
		return true, "g2: " + strings.Join(srcs, "; ")
	}
	// validated by a call on the path (message denominations)
	if ok, how := iv.validatedByDenomCall(fn, at, d); ok {
		return true, how
	}
	sort.Strings(srcs)
	return false, strings.Join(srcs, "; ")
}

// validatedByDenomCall: the value is an element of a slice (or a string) that was passed to a validation
// function which calls sdk.ValidateDenom on it (each element) and whose success edge dominates.
func (iv *Inv) validatedByDenomCall(fn *ssa.Function, at ssa.Instruction, d ssa.Value) (bool, string) {
	cg := iv.w.CG()
	// the container: d is a load of an element of slice S  (range loop) or S itself
	cont := stripConv(d)
	if u, ok := cont.(*ssa.UnOp); ok {
		if ia, ok := u.X.(*ssa.IndexAddr); ok {
			cont = ia.X
		}
	}
	for _, s := range cg.Sites[fn] {
		call := siteValue(s)
		if call == nil || len(s.Callees) != 1 || s.Invoke {
			continue
		}
		callee := s.Callees[0]
		for i, a := range s.Common().Args {
			if i >= len(callee.Params) || !(samePath(a, cont) || samePath(a, stripConv(d))) {
				continue
			}
			if !OnSuccessEdge(fn, at, call) {
				continue
			}
			if iv.calleeValidatesDenomParam(callee, callee.Params[i]) {
				return true, "g2: validated by sdk.ValidateDenom in " + funcName(callee)
			}
		}
	}
	// the function is a literal handed to a shared body together with a validating literal which that body runs, and
	// checks, before it runs this one
	if ok, how := iv.validatedBySiblingLiteral(fn, cont); ok {
		return true, how
	}
	// a body shared by several operations whose behaviour a constant mode flag selects: in every calling context in
	// which this use can execute, a validation of the same container ran - and succeeded - before
	if ok, how := iv.validatedInEveryContext(fn, at, cont); ok {
		return true, how
	}
	// the value (or the slice it is an element of) was handed in as a parameter: established at every call site on the
	// inventoried trees
	if prm, ok := cont.(*ssa.Parameter); ok && prm.Parent() == fn && iv.liftDepth < 2 {
		idx := -1
		for i, q := range fn.Params {
			if q == prm {
				idx = i
			}
		}
		callers := iv.treeCallers(fn)
		if idx >= 0 && len(callers) > 0 {
			var hows []string
			for _, cs := range callers {
				if cs.Common().IsInvoke() || idx >= len(cs.Common().Args) {
					return false, ""
				}
				iv.liftDepth++
				ok, how := iv.validatedByDenomCall(cs.Caller, cs.Instr, cs.Common().Args[idx])
				iv.liftDepth--
				if !ok {
					return false, ""
				}
				hows = append(hows, how+" before the call in "+funcName(cs.Caller))
			}
			return true, strings.Join(hows, "; ")
		}
	}
	return false, ""
}

// calleeValidatesDenomParam: the callee hands p (or every element of p) to sdk.ValidateDenom and fails when that fails.
func (iv *Inv) calleeValidatesDenomParam(callee *ssa.Function, p *ssa.Parameter) bool {
	return iv.calleeValidatesDenomParamD(callee, p, 0)
}

func (iv *Inv) calleeValidatesDenomParamD(callee *ssa.Function, p *ssa.Parameter, depth int) bool {
	for _, s2 := range iv.w.CG().Sites[callee] {
		c2 := siteCall(s2)
		if c2 == nil {
			continue
		}
		// handed on to a validation helper one level down, whose failure fails this function
		if h := s2.Static; h != nil && h.Blocks != nil && !s2.Invoke && depth < 3 && iv.w.isProdFunc(h) && h != callee {
			for j, a := range c2.Common().Args {
				if a != ssa.Value(p) || j >= len(h.Params) {
					continue
				}
				if !iv.calleeValidatesDenomParamD(h, h.Params[j], depth+1) {
					continue
				}
				fail := NilEdges(callee, errValues(callee, c2), false)
				ok := len(fail) > 0
				for _, e := range fail {
					if !FailsFrom(e.To()) {
						ok = false
					}
				}
				if ok {
					return true
				}
			}
		}
		if !hasSuffixAny(callName(c2.Common()), "types.ValidateDenom") {
			continue
		}
		arg := stripConv(c2.Common().Args[0])
		elem := false
		if u, ok := arg.(*ssa.UnOp); ok {
			if ia, ok := u.X.(*ssa.IndexAddr); ok && ia.X == ssa.Value(p) {
				elem = true
			}
		}
		if arg == ssa.Value(p) || elem {
			for _, e := range NilEdges(callee, errValues(callee, c2), false) {
				if FailsFrom(e.To()) {
					return true
				}
			}
		}
	}
	return false
}

// capturedPath names a value of a function literal by the variable of the enclosing function it is selected from:
// the captured variable's binding at the literal's creation plus the fields selected. ok is false for anything else.
func capturedPath(lit *ssa.Function, mc *ssa.MakeClosure, v ssa.Value) (root ssa.Value, fields string, ok bool) {
	for i := 0; i < 12; i++ {
		switch x := v.(type) {
		case *ssa.UnOp:
			if x.Op != token.MUL {
				return nil, "", false
			}
			v = x.X
		case *ssa.FieldAddr:
			fields = fieldElem(x.X.Type(), x.Field) + fields
			v = x.X
		case *ssa.Field:
			fields = fieldElem(x.X.Type(), x.Field) + fields
			v = x.X
		case *ssa.FreeVar:
			for j, fv := range lit.FreeVars {
				if fv == x && j < len(mc.Bindings) {
					b := mc.Bindings[j]
					if al, isAl := b.(*ssa.Alloc); isAl {
						// a captured variable: it must be assigned once (a spilled parameter or a single definition)
						n := 0
						for _, ref := range *al.Referrers() {
							if st, isSt := ref.(*ssa.Store); isSt && st.Addr == ssa.Value(al) {
								n++
							}
						}
						if n != 1 {
							return nil, "", false
						}
					}
					return b, fields, true
				}
			}
			return nil, "", false
		default:
			return nil, "", false
		}
	}
	return nil, "", false
}

// validatedBySiblingLiteral: fn is a function literal that the enclosing function P hands to a shared body H next to
// another literal L; H calls L and, only on the success edge of that call, calls fn; L returns the error of a
// validation function to which it hands the very container (the same captured variable and fields) and which
// validates it as denominations.
func (iv *Inv) validatedBySiblingLiteral(fn *ssa.Function, cont ssa.Value) (bool, string) {
	P := fn.Parent()
	if P == nil {
		return false, ""
	}
	paramCalls := func(p *ssa.Parameter) ([]*ssa.Call, bool) {
		var calls []*ssa.Call
		if p.Referrers() == nil {
			return nil, false
		}
		for _, ref := range *p.Referrers() {
			switch r := ref.(type) {
			case *ssa.Call:
				if r.Common().Value != ssa.Value(p) || r.Common().IsInvoke() {
					return nil, false
				}
				calls = append(calls, r)
			case *ssa.DebugRef:
			default:
				return nil, false
			}
		}
		return calls, len(calls) > 0
	}
	for _, b := range P.Blocks {
		for _, in := range b.Instrs {
			mc, ok := in.(*ssa.MakeClosure)
			if !ok || mc.Fn != ssa.Value(fn) || mc.Referrers() == nil {
				continue
			}
			root, fields, ok := capturedPath(fn, mc, cont)
			if !ok {
				continue
			}
			for _, ref := range *mc.Referrers() {
				cs, ok := ref.(*ssa.Call)
				if !ok {
					return false, ""
				}
				H := cs.Common().StaticCallee()
				if H == nil || H.Blocks == nil || cs.Common().IsInvoke() {
					return false, ""
				}
				args := cs.Common().Args
				found := ""
				for j, a := range args {
					if a != ssa.Value(mc) || j >= len(H.Params) {
						continue
					}
					runs, ok := paramCalls(H.Params[j])
					if !ok {
						return false, ""
					}
					for i, a2 := range args {
						mi, isMC := a2.(*ssa.MakeClosure)
						if !isMC || i == j || i >= len(H.Params) {
							continue
						}
						L, _ := mi.Fn.(*ssa.Function)
						if L == nil || L.Blocks == nil || L.Parent() != P {
							continue
						}
						checks, ok := paramCalls(H.Params[i])
						if !ok {
							continue
						}
						// every run of fn lies on the success edge of a run of L
						guarded := true
						for _, run := range runs {
							g := false
							for _, chk := range checks {
								if OnSuccessEdge(H, run, chk) {
									g = true
								}
							}
							if !g {
								guarded = false
							}
						}
						if !guarded {
							continue
						}
						// L returns the error of a validation call that receives the same container
						for _, vs := range iv.w.CG().Sites[L] {
							vc := siteCall(vs)
							if vc == nil || vs.Static == nil || vs.Invoke || vs.Static.Blocks == nil {
								continue
							}
							for ai, va := range vc.Common().Args {
								r2, f2, ok2 := capturedPath(L, mi, va)
								if !ok2 || r2 != root || f2 != fields || ai >= len(vs.Static.Params) {
									continue
								}
								if !iv.calleeValidatesDenomParam(vs.Static, vs.Static.Params[ai]) {
									continue
								}
								errOK := true
								rets := Returns(L)
								for _, ret := range rets {
									hasErr := false
									for _, rv := range retVals(ret) {
										if !isErrorType(rv.Type()) {
											continue
										}
										hasErr = true
										ex, isEx := rv.(*ssa.Extract)
										if !(isEx && ex.Tuple == ssa.Value(vc)) && rv != ssa.Value(vc) {
											errOK = false
										}
									}
									if !hasErr {
										errOK = false
									}
								}
								if errOK && len(rets) > 0 {
									found = "g2: validated by sdk.ValidateDenom in " + funcName(vs.Static) + ", called by the literal " + funcName(L) + " whose success " + funcName(H) + " checks before it runs " + funcName(fn)
								}
							}
						}
					}
				}
				if found == "" {
					return false, ""
				}
				return true, found
			}
		}
	}
	return false, ""
}

// sameTranslated: two values (possibly detached copies made by translateValue) denote the same expression over the
// same SSA leaves.
func sameTranslated(a, b ssa.Value, depth int) bool {
	if a == b {
		return true
	}
	if depth > 8 || a == nil || b == nil {
		return false
	}
	switch x := a.(type) {
	case *ssa.UnOp:
		y, ok := b.(*ssa.UnOp)
		return ok && x.Op == y.Op && sameTranslated(x.X, y.X, depth+1)
	case *ssa.Field:
		y, ok := b.(*ssa.Field)
		return ok && x.Field == y.Field && sameTranslated(x.X, y.X, depth+1)
	case *ssa.FieldAddr:
		y, ok := b.(*ssa.FieldAddr)
		return ok && x.Field == y.Field && sameTranslated(x.X, y.X, depth+1)
	case *ssa.Convert:
		y, ok := b.(*ssa.Convert)
		return ok && sameTranslated(x.X, y.X, depth+1)
	case *ssa.ChangeType:
		y, ok := b.(*ssa.ChangeType)
		return ok && sameTranslated(x.X, y.X, depth+1)
	}
	// a field of a spilled struct parameter read two ways: load of the slot's field address vs Field of a load
	return false
}

// validatedInEveryContext: see the call site. Contexts are the static call chains (three levels) from the roots of
// the inventoried trees down to fn; the branches of the functions on a chain are decided by the constants the root
// fixes (ConstEval lifted along the chain).
func (iv *Inv) validatedInEveryContext(fn *ssa.Function, at ssa.Instruction, cont ssa.Value) (bool, string) {
	cg := iv.w.CG()
	var chains [][]*Site
	var climb func(f *ssa.Function, below []*Site, depth int) bool
	climb = func(f *ssa.Function, below []*Site, depth int) bool {
		callers := iv.treeCallers(f)
		if len(callers) == 0 {
			chains = append(chains, below)
			return true
		}
		if depth >= 3 {
			return false
		}
		for _, cs := range callers {
			if cs.Static != f || cs.Invoke {
				return false
			}
			if !climb(cs.Caller, append([]*Site{cs}, below...), depth+1) {
				return false
			}
		}
		return true
	}
	if !climb(fn, nil, 0) || len(chains) == 0 {
		return false, ""
	}
	constant := false
	var hows []string
	for _, ch := range chains {
		if len(ch) == 0 {
			return false, ""
		}
		// liveness of the use in this context
		live := true
		cur := CondFn(ConstEval)
		f := ch[0].Caller
		for _, c := range ch {
			if !ReachUnder(f, cur).LiveInstr(c.Instr) {
				live = false
				break
			}
			cur = liftEval(cur, c.Static, c.Instr)
			f = c.Static
		}
		if live && !ReachUnder(fn, cur).LiveInstr(at) {
			live = false
		}
		if !live {
			constant = true // a constant of the root decided that the use is dead here
			continue
		}
		// validation at some level of the chain: level k is function ch[k].Caller with next instruction ch[k].Instr;
		// the last level is fn itself with `at`
		found := ""
		for k := len(ch); k >= 0 && found == ""; k-- {
			var g *ssa.Function
			var next ssa.Instruction
			if k == len(ch) {
				g, next = fn, at
			} else {
				g, next = ch[k].Caller, ch[k].Instr
			}
			evalG := EvalAlong(ConstEval, ch[:k])
			// the container in g's terms
			contG := (EffSite{Chain: ch[k:]}).ToRoot(cont)
			for _, vs := range cg.Sites[g] {
				vc := siteCall(vs)
				if vc == nil || vs.Static == nil || vs.Invoke || vs.Static.Blocks == nil || !iv.w.isProdFunc(vs.Static) || ssa.Instruction(vc) == next {
					continue
				}
				if !OnSuccessEdge(g, next, vc) {
					continue
				}
				if iv.validatesUnder(vs.Static, vc, contG, liftEval(evalG, vs.Static, vc), 0) {
					found = "validated by " + funcName(vs.Static) + " before the call in " + funcName(g)
				}
			}
		}
		if found == "" {
			return false, ""
		}
		hows = append(hows, found+" (context "+funcName(ch[0].Caller)+")")
	}
	if len(hows) == 0 || !constant && len(chains) == 1 {
		// nothing was decided by a constant: this is the plain case handled elsewhere
		if len(hows) == 0 {
			return false, ""
		}
	}
	return true, "g2: in every calling context in which the use is live: " + strings.Join(dedupe(hows), "; ")
}

// validatesUnder: under the assumption (in v's terms) every return of v that may carry a nil error lies behind the
// success of a call that validates, as denominations, the container `want` (given in the terms of v's caller).
func (iv *Inv) validatesUnder(v *ssa.Function, call *ssa.Call, want ssa.Value, eval CondFn, depth int) bool {
	if depth > 2 {
		return false
	}
	bind := bindParams(v, call)
	live := ReachUnder(v, eval)
	var okCalls []ssa.Value
	for _, s2 := range iv.w.CG().Sites[v] {
		c2 := siteCall(s2)
		if c2 == nil || s2.Static == nil || s2.Invoke || s2.Static.Blocks == nil {
			continue
		}
		for j, a2 := range c2.Common().Args {
			if j >= len(s2.Static.Params) || !sameTranslated(translateValue(a2, bind, 0), want, 0) {
				continue
			}
			if iv.calleeValidatesDenomParam(s2.Static, s2.Static.Params[j]) || iv.validatesUnder(s2.Static, c2, translateValue(a2, bind, 0), liftEval(eval, s2.Static, c2), depth+1) {
				okCalls = append(okCalls, c2)
			}
		}
	}
	if len(okCalls) == 0 {
		return false
	}
	n := 0
	for _, ret := range Returns(v) {
		if !live.Blocks[ret.Block()] {
			continue
		}
		rv := retVals(ret)
		if len(rv) == 0 {
			return false
		}
		last := rv[len(rv)-1]
		if nonNilAt(last, ret.Block(), 0) {
			continue
		}
		n++
		good := false
		for _, oc := range okCalls {
			// the return IS the validating call's result (`return validate(...)`), or lies on its success edge
			if ex, isEx := last.(*ssa.Extract); isEx && ex.Tuple == oc {
				good = true
			}
			if last == oc || OnSuccessEdge(v, ret, oc) {
				good = true
			}
		}
		if !good {
			return false
		}
	}
	return n > 0
}

// lastPathField resolves the last ".Type.Field" element of a leaf path to the named module/sdk type.
func lastPathField(w *World, path string) (*types.Named, string) {
	if path == "" {
		return nil, ""
	}
	path = strings.ReplaceAll(path, "[*]", "")
	parts := strings.Split(strings.TrimPrefix(path, "."), ".")
	if len(parts) < 2 {
		return nil, ""
	}
	tname, f := parts[len(parts)-2], parts[len(parts)-1]
	for _, p := range w.All {
		if !strings.HasPrefix(p.PkgPath, modPath) && p.PkgPath != "github.com/cosmos/cosmos-sdk/types" {
			continue
		}
		if o := p.Types.Scope().Lookup(tname); o != nil {
			if n, ok := o.Type().(*types.Named); ok && structHasField(n, f) {
				return n, f
			}
		}
	}
	return nil, ""
}

func (iv *Inv) nonNegOK(fn *ssa.Function, at ssa.Instruction, v ssa.Value) (bool, string) {
	if MustPass(fn, nonNegEdges(fn, v), at.Block()) {
		return true, "g1: amount dominated by a non-negativity test"
	}
	if isZeroIntValue(v) {
		return true, "g3: zero"
	}
	if c, ok := v.(*ssa.Call); ok && hasSuffixAny(callName(c.Common()), "types.NewInt", "math.NewInt", "types.NewIntFromUint64", "math.NewIntFromUint64") {
		if k, ok := stripConv(c.Common().Args[0]).(*ssa.Const); ok && k.Value != nil && constant.Sign(constant.ToInt(k.Value)) >= 0 {
			return true, "g3: non-negative constant"
		}
	}
	if ok, how := iv.validatedByCall(fn, at, v, func(p *ssa.Parameter) func(ssa.Value) (bool, bool) {
		return func(base ssa.Value) (bool, bool) {
			c, ok := base.(*ssa.Call)
			if !ok {
				return false, false
			}
			n := callName(c.Common())
			a := c.Common().Args
			isP := func(x ssa.Value) bool { return x == ssa.Value(p) || rootParam(x) == p.Name() }
			switch {
			case hasSuffixAny(n, "math.Int.IsNegative") && isP(a[0]):
				return true, true
			case hasSuffixAny(n, "math.Int.IsNil") && isP(a[0]):
				return false, true
			case hasSuffixAny(n, "math.Int.IsPositive") && isP(a[0]):
				return false, true
			}
			return false, false
		}
	}); ok {
		return true, "g2: negative amounts rejected, " + how
	}
	// parameter: every caller must establish it
	if p, ok := v.(*ssa.Parameter); ok {
		cg := iv.w.CG()
		callers := cg.Callers[fn]
		idx := -1
		for i, x := range fn.Params {
			if x == p {
				idx = i
			}
		}
		if len(callers) > 0 && idx >= 0 {
			all := true
			var hows []string
			for _, cs := range callers {
				if cs.Common().IsInvoke() || idx >= len(cs.Common().Args) {
					all = false
					break
				}
				ok, how := iv.nonNegOK(cs.Caller, cs.Instr, cs.Common().Args[idx])
				if !ok {
					// the argument has a vetted semantic signature (the vetting argument is about the value, not about the
					// function in which the coin is built)
					for l := 0; l <= 2 && !ok; l++ {
						sk := "newcoin NewCoin | " + semSig(iv.w, cs.Caller, l, cs.Common().Args[idx])
						if os.Getenv("C4E_DEBUG") != "" {
							fmt.Printf("SEM-AT-CALLER\tnonneg\t%q\n", sk)
						}
						if reason, isVetted := vettedSemantic[sk]; isVetted {
							iv.usedSem[sk] = true
							ok, how = true, "vetted ("+sk+"): "+reason
						}
					}
				}
				if !ok {
					all = false
					break
				}
				hows = append(hows, funcName(cs.Caller)+": "+how)
			}
			if all {
				return true, "established at every call site {" + strings.Join(hows, " | ") + "}"
			}
		}
	}
	// TruncateInt of a non-negative decimal expression is not decided; origin from accumulators etc. neither
	return false, "amount " + shortVal(v)
}

// coinsWellFormed: the variadic Coin arguments are NewCoin results or coins from the bank / validated messages.
func (iv *Inv) coinsWellFormed(v ssa.Value) (bool, string) {
	return iv.coinsWellFormedAt(v, 0)
}

// coinsWellFormedAt: every alternative of the coins is built by the constructors (NewCoin, each its own obligation) or
// handed out by the bank; a parameter is decided at every caller (a helper that re-wraps what it is handed is as safe as
// its least careful caller), and coins that arrive in a message must have passed Coins.Validate / IsValid.
func (iv *Inv) coinsWellFormedAt(v ssa.Value, depth int) (bool, string) {
	oldRule := func(v ssa.Value) (bool, string) {
		o := iv.tr.Origins(v)
		if o.HasCall("types.NewCoin") || o.HasCall("GetAllBalances") || o.HasCall("GetBalance") || o.HasCall("LockedCoins") || o.HasCall("TruncateDecimal") {
			return true, "g5: elements are NewCoin results or bank-provided coins (each NewCoin is its own obligation)"
		}
		return false, "coins of unknown origin: " + o.String()
	}
	// individual elements (`NewCoins(a, b)`): each is a coin built by its own constructor site
	if len(varargElems(v)) > 0 || depth > 3 {
		return oldRule(v)
	}
	// an existing coin set spread into the constructor (`NewCoins(x...)`): the set itself must be well formed
	x := normLocal(stripConv(v))
	if ct, isCT := x.(*ssa.ChangeType); isCT {
		x = normLocal(ct.X)
	}
	if p, ok := x.(*ssa.Parameter); ok {
		fn := p.Parent()
		idx := paramIndex(fn, p)
		callers := iv.w.CG().Callers[fn]
		if idx >= 0 && len(callers) > 0 {
			for _, cs := range callers {
				if cs.Common().IsInvoke() || cs.Static != fn || idx >= len(cs.Common().Args) {
					return false, "coins handed in through a dynamic call"
				}
				if ok, why := iv.coinsWellFormedAt(cs.Common().Args[idx], depth+1); !ok {
					return false, "handed in by " + funcName(cs.Caller) + ": " + why
				}
			}
			return true, "g5: a well-formed coin set at every call site"
		}
		return oldRule(v)
	}
	if c, ok := x.(*ssa.Call); ok {
		n := callName(c.Common())
		switch {
		case hasSuffixAny(n, "types.NewCoins", "GetAllBalances", "LockedCoins", "SpendableCoins", "GetVestingCoins", "GetVestedCoins", "GetDelegatedVesting", "GetDelegatedFree", "GetOriginalVesting"):
			return true, "g5: a coin set built by NewCoins or handed out by the bank / an account"
		case hasSuffixAny(n, "types.Coins.Sort") && len(c.Common().Args) > 0:
			return iv.coinsWellFormedAt(c.Common().Args[0], depth+1)
		}
	}
	// a coin set that arrives in a message: validated as a set (IsValid / Validate) on the way?
	if u, ok := x.(*ssa.UnOp); ok && u.Op == token.MUL {
		if _, isFA := u.X.(*ssa.FieldAddr); isFA && strings.HasSuffix(typeString(x.Type()), "types.Coins") && rootParam(x) != "" {
			fn := u.Parent()
			edges := EdgesWhere(fn, func(base ssa.Value) (bool, bool) {
				c, isC := base.(*ssa.Call)
				if !isC || len(c.Common().Args) == 0 || !samePath(c.Common().Args[0], x) {
					return false, false
				}
				if strings.HasSuffix(callName(c.Common()), "types.Coins.IsValid") {
					return true, true
				}
				return false, false
			})
			if len(edges) > 0 && MustPass(fn, edges, u.Block()) {
				return true, "g1: the coin set passed IsValid"
			}
			return false, "the coin set arrives in a message field (" + rootParam(x) + ") and is not validated as a set: duplicate or malformed denominations make the constructor panic"
		}
	}
	return oldRule(v)
}

func (iv *Inv) moduleNameOK(fn *ssa.Function, a ssa.Value, atom string) (bool, string) {
	names, ok := iv.w.resolveStrings(a, 3)
	if iv.macc == nil {
		return false, "cannot evaluate app.maccPerms"
	}
	var hows []string
	for _, n := range names {
		if strings.HasPrefix(n, "field:") {
			f := strings.TrimPrefix(n, "field:")
			f = f[strings.LastIndex(f, ".")+1:]
			switch f {
			case "collectorName":
				// resolved through NewKeeper/app.New by C01.mint1; here: constant at the construction site
				if v, ok := iv.collectorConst(); ok {
					if _, in := iv.macc[v]; in {
						hows = append(hows, "k.collectorName = "+v+" (registered)")
						continue
					}
				}
				return false, "collectorName does not resolve to a registered module account"
			case "Id":
				T := iv.w.NamedType("x/cfedistributor/types.Account")
				if ok, how := iv.fieldValidated(T, "Id", reqMacc); ok {
					hows = append(hows, "Account.Id validated against maccPerms by "+how)
					continue
				}
				return false, "Account.Id is not validated against maccPerms"
			default:
				return false, "module name comes from field " + f
			}
			continue
		}
		perms, in := iv.macc[n]
		if !in {
			return false, "module account " + n + " is not a key of maccPerms"
		}
		if atom == BankMint && !hasPerm(perms, "minter") {
			return false, "module account " + n + " lacks the minter permission"
		}
		if atom == BankBurn && !hasPerm(perms, "burner") {
			return false, "module account " + n + " lacks the burner permission"
		}
		hows = append(hows, n+" registered in maccPerms")
	}
	if !ok {
		return false, fmt.Sprintf("module name not resolvable to constants (%v)", names)
	}
	return true, strings.Join(hows, ", ")
}

func (iv *Inv) collectorConst() (string, bool) {
	nk := iv.w.Func("x/cfeminter/keeper.NewKeeper")
	appNew := iv.w.Func("app.New")
	if nk == nil || appNew == nil {
		return "", false
	}
	idx := -1
	for _, fs := range FieldStores(nk) {
		if fs.Field == "collectorName" {
			for i, p := range nk.Params {
				if p == fs.Store.Val {
					idx = i
				}
			}
		}
	}
	if idx < 0 {
		return "", false
	}
	for _, s := range iv.w.CG().Sites[appNew] {
		if s.Static == nk {
			return EvalString(s.Common().Args[idx])
		}
	}
	return "", false
}

// keyNonEmpty: the store key is provably non-empty.
func (iv *Inv) keyNonEmpty(fn *ssa.Function, at ssa.Instruction, k ssa.Value) (bool, string) {
	// a key built by a single-return helper of the module is the expression the helper computes
	if k2 := iv.w.inlineResult(k); k2 != k {
		if b, ok := iv.w.EvalBytes(k2, 0); ok && len(b) > 0 {
			return true, "g3: constant non-empty key (built by a key helper)"
		}
	}
	if b, ok := iv.w.EvalBytes(k, 0); ok {
		if len(b) > 0 {
			return true, "g3: constant non-empty key"
		}
		return false, "constant empty key"
	}
	// make([]byte, n>0)
	o := iv.tr.Origins(k)
	for v := range o.Values {
		if ms, ok := v.(*ssa.MakeSlice); ok {
			if c, ok := ms.Len.(*ssa.Const); ok && c.Value != nil {
				if n, _ := constant.Int64Val(c.Value); n > 0 {
					return true, "g3: fixed-size key buffer"
				}
			}
		}
	}
	// []byte(s): s must be non-empty
	var strs []ssa.Value
	var walk func(v ssa.Value, d int)
	walk = func(v ssa.Value, d int) {
		if d > 4 {
			return
		}
		switch x := v.(type) {
		case *ssa.Convert:
			if b, ok := x.X.Type().Underlying().(*types.Basic); ok && b.Kind() == types.String {
				strs = append(strs, x.X)
				return
			}
			walk(x.X, d+1)
		case *ssa.Call:
			// module helper returning []byte(param)
			if f := x.Common().StaticCallee(); f != nil && f.Blocks != nil && len(f.Blocks) == 1 && len(f.Params) == 1 {
				if ret, ok := f.Blocks[0].Instrs[len(f.Blocks[0].Instrs)-1].(*ssa.Return); ok && len(ret.Results) == 1 {
					if cv, ok := ret.Results[0].(*ssa.Convert); ok && cv.X == ssa.Value(f.Params[0]) {
						walk(&ssa.Convert{X: x.Common().Args[0]}, d+1)
						strs = append(strs, x.Common().Args[0])
					}
				}
			}
		}
	}
	walk(k, 0)
	if len(strs) == 0 {
		return false, "store key of unrecognised shape: " + shortVal(k)
	}
	for _, s := range strs {
		ok, how := iv.stringNonEmpty(fn, at, s, 0)
		if !ok {
			return false, "store.Set panics on an empty key and the key string is not proved non-empty: " + how
		}
		return true, how
	}
	return false, ""
}

func (iv *Inv) stringNonEmpty(fn *ssa.Function, at ssa.Instruction, s ssa.Value, depth int) (bool, string) {
	if v, ok := EvalString(s); ok {
		if v != "" {
			return true, "g3: constant key string"
		}
		return false, "constant empty string"
	}
	// concatenation with a non-empty constant
	if bo, ok := s.(*ssa.BinOp); ok && bo.Op == token.ADD {
		if ok, how := iv.stringNonEmpty(fn, at, bo.X, depth); ok {
			return true, how
		}
		return iv.stringNonEmpty(fn, at, bo.Y, depth)
	}
	// local guard len(s)==0 / s=="" => error
	edges := EdgesWhere(fn, func(base ssa.Value) (bool, bool) {
		c, ok := base.(*ssa.BinOp)
		if !ok {
			return false, false
		}
		if call, ok := c.X.(*ssa.Call); ok {
			if b, ok := call.Common().Value.(*ssa.Builtin); ok && b.Name() == "len" && samePath(call.Common().Args[0], s) {
				if k, ok := c.Y.(*ssa.Const); ok && k.Value != nil {
					n, _ := constant.Int64Val(constant.ToInt(k.Value))
					switch {
					case c.Op == token.EQL && n == 0:
						return false, true
					case (c.Op == token.NEQ || c.Op == token.GTR) && n == 0:
						return true, true
					case c.Op == token.EQL && n > 0:
						return true, true
					case c.Op == token.NEQ && n > 0:
						return false, true
					}
				}
			}
		}
		if samePath(c.X, s) {
			if v, ok := EvalString(c.Y); ok && v == "" {
				return c.Op == token.NEQ, true
			}
		}
		return false, false
	})
	if MustPass(fn, edges, at.Block()) {
		return true, "g1: dominated by a non-empty test of the key string"
	}
	// result of AccAddress.String() / a bech32-validated string / module-built key
	if c, ok := s.(*ssa.Call); ok {
		n := callName(c.Common())
		if hasSuffixAny(n, "types.AccAddress.String") {
			return true, "g5: bech32 rendering of an address"
		}
		if f := c.Common().StaticCallee(); f != nil && f.Blocks != nil && iv.w.CG().isModuleFunc(f) && depth < 2 {
			all := true
			var how string
			for _, ret := range Returns(f) {
				ok, h := iv.stringNonEmpty(f, ret, retVals(ret)[0], depth+1)
				if !ok {
					all = false
				}
				how = h
			}
			if all {
				return true, "g5: " + funcName(f) + " returns non-empty strings (" + how + ")"
			}
		}
	}
	cg := iv.w.CG()
	// validated by a module callee on the path (e.g. ValidateSendToVestingAccount parses the address)
	for _, cs := range cg.Sites[fn] {
		call := siteCall(cs)
		if call == nil || len(cs.Callees) != 1 || cs.Invoke {
			continue
		}
		callee := cs.Callees[0]
		for i, a := range cs.Common().Args {
			if i >= len(callee.Params) || !(a == s || samePath(a, s)) || !OnSuccessEdge(fn, at, call) {
				continue
			}
			p := callee.Params[i]
			if ok, _ := iv.guardRejects(callee, func(v ssa.Value) bool { return v == ssa.Value(p) }, reqNonEmpty, 1); ok {
				return true, "g2: rejected when empty / not a bech32 address by " + funcName(callee)
			}
		}
	}
	// validated as bech32 address on the path
	for _, cs := range cg.Sites[fn] {
		call := siteCall(cs)
		if call != nil && hasSuffixAny(callName(call.Common()), "types.AccAddressFromBech32") && samePath(call.Common().Args[0], s) && OnSuccessEdge(fn, at, call) {
			return true, "g1: the key string parsed as a bech32 address on this path"
		}
	}
	// field of a struct parameter: follow to the literal built by every caller
	if T, f, ok := fieldOfValue(s); ok && depth < 3 {
		if pname := rootParam(s); pname != "" {
			var p *ssa.Parameter
			idx := -1
			for i, x := range fn.Params {
				if x.Name() == pname {
					p, idx = x, i
				}
			}
			if p != nil && typeString(p.Type()) == typeString(T) {
				if ok, how := iv.structFieldNonEmpty(fn, idx, f, depth); ok {
					return true, "field " + f + " set by every caller {" + how + "}"
				}
			}
		}
	}
	// field of a validated record
	if T, f, ok := fieldOfValue(s); ok {
		if ok2, how := iv.fieldValidated(T, f, reqNonEmpty); ok2 {
			return true, "g2: " + T.Obj().Name() + "." + f + " validated non-empty by " + how
		}
		return false, T.Obj().Name() + "." + f + " is not validated non-empty"
	}
	// parameter: all callers
	if p, ok := s.(*ssa.Parameter); ok && depth < 3 {
		idx := -1
		for i, x := range fn.Params {
			if x == p {
				idx = i
			}
		}
		callers := cg.Callers[fn]
		if len(callers) > 0 && idx >= 0 {
			var hows []string
			for _, cs := range callers {
				if cs.Common().IsInvoke() || idx >= len(cs.Common().Args) {
					return false, "dynamic caller"
				}
				ok, how := iv.stringNonEmpty(cs.Caller, cs.Instr, cs.Common().Args[idx], depth+1)
				if !ok {
					return false, "caller " + funcName(cs.Caller) + ": " + how
				}
				hows = append(hows, funcName(cs.Caller)+": "+how)
			}
			return true, "established at every call site {" + strings.Join(hows, " | ") + "}"
		}
	}
	return false, shortVal(s)
}

// fieldStoredInto: arg is a load of a local composite literal; return the value stored into its field f.
func fieldStoredInto(arg ssa.Value, f string) ssa.Value {
	u, ok := arg.(*ssa.UnOp)
	if !ok || u.Op != token.MUL {
		return nil
	}
	a, ok := u.X.(*ssa.Alloc)
	if !ok {
		return nil
	}
	var out ssa.Value
	n := 0
	whole := 0
	for _, ref := range *a.Referrers() {
		switch x := ref.(type) {
		case *ssa.FieldAddr:
			if _, name := fieldOf(x); name == f {
				for _, r2 := range *x.Referrers() {
					if st, ok := r2.(*ssa.Store); ok && st.Addr == ssa.Value(x) {
						out = st.Val
						n++
					}
				}
			}
		case *ssa.Store:
			if x.Addr == ssa.Value(a) {
				whole++
			}
		}
	}
	if n == 1 && whole == 0 {
		return out
	}
	return nil
}

// indexOK: range-loop indices, indices below len() by a dominating test, and `pos >= 0` results of a search.
func (iv *Inv) indexOK(fn *ssa.Function, in ssa.Instruction) (bool, string) {
	var x, idx ssa.Value
	switch i := in.(type) {
	case *ssa.IndexAddr:
		x, idx = i.X, i.Index
	case *ssa.Index:
		x, idx = i.X, i.Index
	}
	if _, isMap := x.Type().Underlying().(*types.Map); isMap {
		return true, "map lookup"
	}
	if c, ok := idx.(*ssa.Const); ok && c.Value != nil {
		// constant index into a slice: needs len check; varargs arrays are pointer-to-array (handled earlier)
		if a, ok := x.(*ssa.Slice); ok {
			if al, ok := a.X.(*ssa.Alloc); ok {
				if arr, ok := al.Type().(*types.Pointer).Elem().Underlying().(*types.Array); ok {
					if n, _ := constant.Int64Val(c.Value); n < arr.Len() {
						return true, "g3: constant index into a literal"
					}
				}
			}
		}
	}
	// range loop: idx = phi+1 in a rangeindex loop, or the phi itself
	isRangeIdx := func(v ssa.Value) bool {
		if bo, ok := v.(*ssa.BinOp); ok && bo.Op == token.ADD {
			if phi, ok := bo.X.(*ssa.Phi); ok && strings.HasPrefix(phi.Block().Comment, "rangeindex") {
				return true
			}
		}
		if phi, ok := v.(*ssa.Phi); ok && strings.HasPrefix(phi.Block().Comment, "rangeindex") {
			return true
		}
		return false
	}
	if isRangeIdx(idx) {
		return true, "g1: range-loop index, bounded by the loop"
	}
	// dominated by idx < len(x)
	edges := EdgesWhere(fn, func(base ssa.Value) (bool, bool) {
		bo, ok := base.(*ssa.BinOp)
		if !ok {
			return false, false
		}
		isLenX := func(v ssa.Value) bool {
			c, ok := v.(*ssa.Call)
			if !ok {
				return false
			}
			b, ok := c.Common().Value.(*ssa.Builtin)
			return ok && b.Name() == "len" && samePath(c.Common().Args[0], x)
		}
		switch {
		case bo.Op == token.LSS && bo.X == idx && isLenX(bo.Y):
			return true, true
		case bo.Op == token.GEQ && bo.X == idx && isLenX(bo.Y):
			return false, true
		case bo.Op == token.GTR && isLenX(bo.X) && bo.Y == idx:
			return true, true
		}
		return false, false
	})
	if MustPass(fn, edges, in.Block()) {
		return true, "g1: dominated by index < len"
	}
	// pos >= 0 where pos is the result of a module search function returning an index or -1
	edges = EdgesWhere(fn, func(base ssa.Value) (bool, bool) {
		bo, ok := base.(*ssa.BinOp)
		if !ok || bo.X != idx {
			return false, false
		}
		if k, ok := bo.Y.(*ssa.Const); ok && k.Value != nil {
			n, _ := constant.Int64Val(constant.ToInt(k.Value))
			switch {
			case bo.Op == token.GEQ && n == 0:
				return true, true
			case bo.Op == token.LSS && n == 0:
				return false, true
			}
		}
		return false, false
	})
	if len(edges) > 0 && MustPass(fn, edges, in.Block()) {
		if iv.searchResult(idx, x) {
			return true, "g1: index is the non-negative result of a search over the same slice"
		}
	}
	// len(x)-1 after append / after a len check
	if bo, ok := idx.(*ssa.BinOp); ok && bo.Op == token.SUB {
		if c, ok := bo.X.(*ssa.Call); ok {
			if b, ok := c.Common().Value.(*ssa.Builtin); ok && b.Name() == "len" {
				o := iv.tr.Origins(c.Common().Args[0])
				if o.Ops["builtin.append"] {
					return true, "g5: last element of a slice that was just appended to"
				}
			}
		}
	}
	return false, "index not proved within bounds: " + shortVal(idx)
}

// searchResult: idx is the result of a module function that returns a range-loop position over a slice or -1,
// and the slice searched is the one indexed (same parameter / access path).
func (iv *Inv) searchResult(idx, x ssa.Value) bool {
	vals := []ssa.Value{idx}
	if phi, ok := idx.(*ssa.Phi); ok {
		vals = phi.Edges
	}
	for _, v := range vals {
		c, ok := v.(*ssa.Call)
		if !ok {
			// value of a closure call etc.
			return false
		}
		callees := []*ssa.Function{}
		if f := c.Common().StaticCallee(); f != nil {
			callees = append(callees, f)
		} else {
			for _, s := range iv.w.CG().Sites[c.Parent()] {
				if s.Instr == ssa.Instruction(c) {
					callees = s.Callees
				}
			}
		}
		if len(callees) == 0 {
			return false
		}
		for _, f := range callees {
			if !iv.returnsIndexOrMinusOne(f, 0) {
				return false
			}
		}
	}
	return true
}

func (iv *Inv) returnsIndexOrMinusOne(f *ssa.Function, depth int) bool {
	if f == nil || f.Blocks == nil || depth > 2 {
		return false
	}
	for _, ret := range Returns(f) {
		rv := retVals(ret)
		if len(rv) != 1 {
			return false
		}
		v := rv[0]
		if c, ok := v.(*ssa.Const); ok && c.Value != nil {
			if n, _ := constant.Int64Val(constant.ToInt(c.Value)); n == -1 {
				continue
			}
			return false
		}
		if bo, ok := v.(*ssa.BinOp); ok && bo.Op == token.ADD {
			if phi, ok := bo.X.(*ssa.Phi); ok && strings.HasPrefix(phi.Block().Comment, "rangeindex") {
				continue
			}
		}
		if phi, ok := v.(*ssa.Phi); ok && strings.HasPrefix(phi.Block().Comment, "rangeindex") {
			continue
		}
		if c, ok := v.(*ssa.Call); ok {
			var g *ssa.Function
			if g = c.Common().StaticCallee(); g == nil {
				return false
			}
			if iv.returnsIndexOrMinusOne(g, depth+1) {
				continue
			}
		}
		return false
	}
	return true
}

// ---- thorough tier: discovery of unclassified callees ----

// reviewedSafe lists dependency functions that occur on the analysed trees and were reviewed not to panic
// on the argument types they receive there (beyond what the inventory classes cover). Package-level
// patterns are used for packages whose functions are total on valid Go values.
var reviewedSafePrefixes = []string{
	"fmt.", "strconv.", "strings.", "bytes.", "errors.", "sort.", "unicode.", "math.", "encoding/hex.", "encoding/base64.", "encoding/json.", "crypto/sha256.",
	"crypto/x509.", "encoding/pem.", "crypto/rand.Read",
	"time.Time.", "time.Duration.", "time.Now", "time.Unix", "time.Since",
	"builtin.len", "builtin.append", "builtin.cap", "builtin.copy", "builtin.delete", "builtin.make", "builtin.new", "builtin.print",
	"cosmossdk.io/errors.", "github.com/cosmos/cosmos-sdk/types/errors.", "google.golang.org/grpc/status.", "error.Error",
	"github.com/cosmos/cosmos-sdk/telemetry.", "github.com/armon/go-metrics.",
	"github.com/tendermint/tendermint/libs/log.Logger.",
	"github.com/cosmos/cosmos-sdk/types.Context.", "github.com/cosmos/cosmos-sdk/types.UnwrapSDKContext", "github.com/cosmos/cosmos-sdk/types.WrapSDKContext",
	"github.com/cosmos/cosmos-sdk/types.EventManager.", "github.com/cosmos/cosmos-sdk/types.Iterator.", "github.com/cosmos/cosmos-sdk/types.KVStorePrefixIterator",
	"github.com/cosmos/cosmos-sdk/store/prefix.NewStore", "github.com/cosmos/cosmos-sdk/store/prefix.Store.Get", "github.com/cosmos/cosmos-sdk/store/prefix.Store.Has", "github.com/cosmos/cosmos-sdk/store/prefix.Store.Delete", "github.com/cosmos/cosmos-sdk/store/prefix.Store.Iterator",
	"github.com/cosmos/cosmos-sdk/types.KVStore.Get", "github.com/cosmos/cosmos-sdk/types.KVStore.Has", "github.com/cosmos/cosmos-sdk/types.KVStore.Delete", "github.com/cosmos/cosmos-sdk/types.KVStore.Iterator",
	"github.com/cosmos/cosmos-sdk/types.AccAddressFromBech32", "github.com/cosmos/cosmos-sdk/types.AccAddress.", "github.com/cosmos/cosmos-sdk/types.ValidateDenom",
	"github.com/cosmos/cosmos-sdk/types.ZeroInt", "github.com/cosmos/cosmos-sdk/types.NewInt", "github.com/cosmos/cosmos-sdk/types.ZeroDec", "github.com/cosmos/cosmos-sdk/types.NewDec", "github.com/cosmos/cosmos-sdk/types.NewDecFromInt", "github.com/cosmos/cosmos-sdk/types.OneDec",
	"cosmossdk.io/math.ZeroInt", "cosmossdk.io/math.NewInt",
	"github.com/cosmos/cosmos-sdk/codec/types.Any.GetCachedValue", "github.com/cosmos/cosmos-sdk/codec/types.Any.GetTypeUrl", "github.com/cosmos/cosmos-sdk/codec/types.NewAnyWithValue",
	"github.com/cosmos/cosmos-sdk/codec.BinaryCodec.Marshal", "github.com/cosmos/cosmos-sdk/codec.BinaryCodec.Unmarshal", "github.com/cosmos/cosmos-sdk/codec.JSONCodec.UnmarshalInterfaceJSON", "github.com/cosmos/cosmos-sdk/codec.BinaryCodec.MarshalInterface", "github.com/cosmos/cosmos-sdk/codec.BinaryCodec.UnmarshalInterface",
	"github.com/cosmos/cosmos-sdk/x/auth/vesting/types.", "github.com/cosmos/cosmos-sdk/x/auth/types.AccountI.Get", "github.com/cosmos/cosmos-sdk/x/auth/types.AccountI.SetPubKey", "github.com/cosmos/cosmos-sdk/x/auth/types.ModuleAccountI.GetAddress",
	"github.com/cosmos/cosmos-sdk/crypto/types.PubKey.String",
	"encoding/binary.",
}

// Arithmetic / comparison methods of math.Int, sdk.Dec, Coins and DecCoins that are not inventory classes:
// they panic only on nil receivers/arguments (C20.nilfield) or on overflow beyond 256/315 bits (assumption).
var reviewedSafeTypes = []string{"cosmossdk.io/math.Int.", "github.com/cosmos/cosmos-sdk/types.Int.", "github.com/cosmos/cosmos-sdk/types.Dec.", "github.com/cosmos/cosmos-sdk/types.Coins.", "github.com/cosmos/cosmos-sdk/types.DecCoins.", "github.com/cosmos/cosmos-sdk/types.Coin.", "github.com/cosmos/cosmos-sdk/types.DecCoin."}

// keeper interfaces: returns errors, panics only on unregistered module accounts (inventory class bankmodule)
var reviewedKeeperMethods = map[string]bool{"GetBalance": true, "GetAllBalances": true, "GetSupply": true, "LockedCoins": true, "SpendableCoins": true, "IsSendEnabledCoins": true, "BlockedAddr": true,
	"GetAccount": true, "GetModuleAccount": true, "NewAccountWithAddress": true, "SetAccount": true, "BondedRatio": true, "GetModuleAddress": true, "HasAccount": true}

// Discover lists every distinct leaf callee on the trees and fails on one that is neither an inventory class
// nor reviewed (closing the allow-list: "undecided fails").
func (iv *Inv) Discover(roots []*ssa.Function, rule, label string) {
	cg := iv.w.CG()
	reach := cg.Reach(roots)
	seen := map[string]string{}
	where := map[string]string{}
	for f := range reach {
		if !iv.w.isProdFunc(f) {
			continue
		}
		for _, s := range cg.Sites[f] {
			if len(s.Callees) > 0 && !s.Invoke {
				continue
			}
			n := callName(s.Common())
			if s.Invoke {
				n = typeString(s.RecvType) + "." + s.Method
				if len(s.Callees) > 0 && strings.HasPrefix(typeString(s.RecvType), modPath) && !strings.Contains(typeString(s.RecvType), "Keeper") {
					continue // module interface resolved by CHA to module implementations
				}
			}
			if n == "dynamic" {
				n = "dynamic:" + typeString(s.Common().Value.Type())
			}
			if _, ok := seen[n]; ok {
				continue
			}
			where[n] = iv.w.Pos(s.Instr.Pos())
			if class, _ := iv.classifyCall(s); class != "" {
				seen[n] = "inventory class " + class
				continue
			}
			verdict := ""
			for _, p := range reviewedSafePrefixes {
				if strings.HasPrefix(n, p) {
					verdict = "reviewed: does not panic on the argument types passed here"
				}
			}
			for _, p := range reviewedSafeTypes {
				if strings.HasPrefix(n, p) {
					verdict = "reviewed: value arithmetic/comparison; nil operands are C20.nilfield's obligation, overflow is out of the stated magnitudes"
				}
			}
			if s.Invoke && strings.Contains(typeString(s.RecvType), "Keeper") && reviewedKeeperMethods[s.Method] {
				verdict = "reviewed: expected-keeper read / write returning an error or a nilable result (C20.nilresult)"
			}
			if s.Invoke && strings.HasPrefix(typeString(s.RecvType), modPath) && len(s.Callees) > 0 {
				verdict = "module interface, implementations are analysed"
			}
			if cg.Atom(s) != "" && verdict == "" {
				verdict = "effect atom " + cg.Atom(s)
			}
			seen[n] = verdict
		}
	}
	var names []string
	for n := range seen {
		names = append(names, n)
	}
	sort.Strings(names)
	for _, n := range names {
		if seen[n] == "" {
			iv.r.Unk(rule, label+": callee "+shortCallee(n), where[n], "a dependency function occurs on the analysed tree that is neither in the panic-capable table nor in the reviewed table: classify it")
		} else {
			iv.r.Enum(rule, label+": callee "+shortCallee(n), where[n], seen[n])
		}
	}
}

// vettedSemantic: numeric vetting arguments, keyed by class, operation and the semantic signature of the operand
// (semsig.go). One line of reason each; shared by C10 and C20.
var vettedSemantic = map[string]string{
	"panic | error of x/cfeminter/keeper.Keeper.Mint()":                                                                                                                        "Mint fails only if the current period is missing from the parameters (excluded by C10.currentperiod) or the bank refuses to mint/forward between registered module accounts (permissions checked by g3); raising it ends the block, which C01.abort requires",
	"coinsub sub | ops{add,sub} from{<sdk/types.DecCoins>,State.Remains,nil,types.BankKeeper.GetAllBalances()}":                                                                "minus what this sub-distributor already swept into the main account (or took over from an internal state, whose remains were zeroed in the list at the same time): the balance grew by exactly that amount, so the difference stays the un-booked part (C03)",
	"coinsub sub | ops{add} from{State.Remains,nil,types.BankKeeper.GetAllBalances()}":                                                                                         "main balance minus recorded remains: non-negative exactly when the books match (C03); C03.order guards the one structural way to break it",
	"coinsub sub | ops{mul,quo,trunc} from{BaseVestingAccount.OriginalVesting,Coin.Amount,Coin.Denom,types.Coins.AmountOf(),types.ContinuousVestingAccount.GetVestingCoins()}": "OriginalVesting minus amount*OV/vesting (truncated): amount <= locked <= vesting by the IsAllLTE guard, so the difference is <= OV (numeric part of C07)",
	"coinsub sub | ops{mul,sub} from{<sdk/types.DecCoins>,DestinationShare.Share,Destinations.BurnShare,nil}":                                                                  "burn share * inflow is subtracted from what the named shares left: burn share + shares < 1 by CheckIfSharesSumIsBetween0And1, so the remainder stays non-negative (numeric argument of C03/C04, not decided here)",
	"coinsub sub | ops{mul,sub} from{<sdk/types.DecCoins>,DestinationShare.Share,nil}":                                                                                         "share*inflow is subtracted from the remainder; shares are validated to sum below 1, so the remainder stays non-negative (numeric argument of C03/C04, not decided here) / burn share: same argument as above (burn share + shares < 1 by CheckIfSharesSumIsBetween0And1)",
	"coinsub sub | ops{} from{BaseVestingAccount.OriginalVesting,Coin.Denom,const:1}":                                                                                          "the one-unit compensation is subtracted only when less than the requested amount was unlocked, which implies OriginalVesting is still positive (numeric part of C07)",
	"int64 Int64 | ops{} from{Coin.Amount}":                                                                                                                                    "the deferred gauge is registered only under toWithdraw.IsInt64(); the named result it reads is NewCoin(denom, toWithdraw) on the only return that follows",
	"newcoin NewCoin | ops{add,sub} from{VestingPool.InitiallyLocked,VestingPool.Sent,VestingPool.Withdrawn,types.ZeroInt()}":                                                  "sum of GetCurrentlyLocked of matured pools: non-negative by the pool ledger invariant (C05: withdrawn+sent <= initially locked)",
	"newcoin NewCoin | ops{mul,quo,trunc} from{BaseVestingAccount.OriginalVesting,Coin.Amount,types.Coins.AmountOf(),types.ContinuousVestingAccount.GetVestingCoins()}":        "amount = truncated quotient of non-negative quantities (numeric part of C07); denomination is that of a validated coin",
	"newcoin NewCoin | ops{mul,sub,trunc} from{<math.Int>,<sdk/types.Dec>}":                                                                                                    "amount*(1-free) truncated with 0 <= free <= 1 (vesting-type validation) and amount validated non-negative",
	"quo quo | ops{sub} from{time.Time.UnixMilli()}":                                                                                                                           "divisor = period length in ms; validation orders end strictly after start and C10 bounds periods to >= 1 s",
	"quo quo | ops{} from{time.Time.Sub()}":                                                                                                                                    "divisor = period length in ns; same argument / divisor = period length in ns; validation orders end strictly after start",
	"quo quo | ops{} from{types.Coins.AmountOf(),types.ContinuousVestingAccount.GetVestingCoins()}":                                                                            "divisor = still-vesting amount of the denomination; under coin.Amount > 0 and amount <= locked <= vesting it is positive",
}
