package main

import (
	"fmt"
	"go/types"
	"os"
	"strings"

	"golang.org/x/tools/go/ssa"
)

func init() { register("C06", checkC06) }

func isBlockTime(v ssa.Value) bool {
	if _, ok := isCallTo(v, "cosmos-sdk/types.Context.BlockTime"); ok {
		return true
	}
	return false
}

func checkC06(w *World, r *Report) {
	cg := w.CG()
	ro := w.Roles()
	r.Undecided = []string{"'pays exactly the remainder' is value identity and is decided by C05.pair; no numeric clause remains"}
	r.Rule("C06.table", "P7", "CalculateWithdrawable(now, pool): now before LockEnd => the result is zero; now equal to or after LockEnd => the result is pool.GetCurrentlyLocked()", 3)
	r.Rule("C06.sameoracle", "P4,P6", "the pool query and the withdraw operation obtain the withdrawable amount from the same function, with ctx.BlockTime() and the stored pool as arguments", 2)
	r.Rule("C06.key", "P8", "= C05.key: withdraw-all and the send path and the pool query find the owner's pools whatever valid spelling of the owner address is used", 4)
	r.Rule("C06.everypool", "P5", "a withdraw-all visits every pool of the owner: every iteration of the loop over the stored pools calls the time-lock oracle and the loop has no early exit", 2)
	r.Rule("C06.once", "P5,P6", "= C05.pair for Withdrawn: the withdrawn counter of every paid pool grows by what was paid, is persisted only after the transfer succeeded and is persisted whenever the transfer was made - so a repeated withdrawal finds nothing left", 3)
	r.Rule("C06.outflows", "P4,P5", "module->account transfers of cfevesting are exactly the withdraw transfer (amount: accumulator of CalculateWithdrawable results) and the new-vesting-account transfer, reached only after the recipient was created as a fresh continuous vesting account on the same path", 2)
	if !ro.checkFloors(r) {
		return
	}
	cw := w.Func("x/cfevesting/keeper.CalculateWithdrawable")
	if cw == nil {
		r.Unk("infra.anchor", "x/cfevesting/keeper.CalculateWithdrawable", "", "anchor not found")
		return
	}
	// ---------- C06.table ----------
	nowP, poolP := cw.Params[0], cw.Params[1]
	term := func(v ssa.Value) string {
		if v == nowP {
			return "now"
		}
		if loadOfField(v, "LockEnd", baseIsParam(poolP.Name())) {
			return "end"
		}
		return ""
	}
	for s := -1; s <= 1; s++ {
		live := ReachUnder(cw, OrderEval(term, twoTermCmp("now", "end", s), nil))
		vals := live.LiveReturns(cw, 0)
		construct := fmt.Sprintf("CalculateWithdrawable: now %s LockEnd", orderNames[s])
		if len(vals) == 0 {
			r.Unk("C06.table", construct, w.Pos(cw.Pos()), "no live return")
			continue
		}
		ok := true
		desc := ""
		for _, v := range vals {
			if s < 0 {
				if !isZeroIntValue(v) {
					ok = false
					desc = "a non-zero amount can be returned before the lock end: " + v.String()
				}
			} else {
				c, is := isCallTo(v, "VestingPool.GetCurrentlyLocked")
				if !is || rootParam(c.Common().Args[0]) != poolP.Name() {
					ok = false
					desc = "the result at/after the lock end is not the pool's currently locked amount: " + v.String()
				}
			}
		}
		okd := "every live return yields zero"
		if s >= 0 {
			okd = "every live return yields pool.GetCurrentlyLocked()"
		}
		if !ok {
			// a frequent cause: the instants are compared through an integer rendering, which is not order-preserving
			// over the whole range of time.Time (UnixNano wraps after the year 2262) or is coarser (Unix, UnixMilli)
			for _, b := range cw.Blocks {
				for _, in := range b.Instrs {
					if bo, isB := in.(*ssa.BinOp); isB {
						for _, op := range []ssa.Value{bo.X, bo.Y} {
							if c, isC := op.(*ssa.Call); isC && hasSuffixAny(callName(c.Common()), "time.Time.UnixNano", "time.Time.Unix", "time.Time.UnixMilli", "time.Time.UnixMicro") {
								desc += " (the lock is decided by comparing " + callName(c.Common())[strings.LastIndex(callName(c.Common()), ".")+1:] + "() values, not the instants themselves: that rendering wraps or truncates, so the order of two instants is not preserved for every lock end)"
								break
							}
						}
					}
				}
			}
		}
		r.Check(ok, "C06.table", construct, w.Pos(cw.Pos()), okd, desc)
	}

	// ---------- C06.sameoracle ----------
	for _, anchor := range []string{"x/cfevesting/keeper.Keeper.VestingPools", "x/cfevesting/keeper.Keeper.WithdrawAllAvailable"} {
		fn := w.Func(anchor)
		if fn == nil {
			r.Unk("infra.anchor", anchor, "", "anchor not found")
			continue
		}
		n := 0
		// the oracle may be called in the operation itself or in a per-pool helper: arguments are traced with the
		// helper's parameters bound to what the operation hands down
		for _, e := range w.effectsBelow(fn, func(s *Site) bool { return calleeIs(s, "x/cfevesting/keeper.CalculateWithdrawable") }, 4) {
			s := e.Site
			n++
			a := s.Common().Args
			t := w.Tracer()
			o0 := t.OriginsVia(e, a[0], nil)
			o1 := t.OriginsVia(e, a[1], nil)
			ok := o0.HasCall("cosmos-sdk/types.Context.BlockTime") && !o0.HasCall("time.Now") && len(o0.Leaves) > 0 &&
				(o1.HasPath("AccountVestingPools.VestingPools") || o1.HasCall("GetAccountVestingPools"))
			onlyBT := true
			for _, l := range o0.Leaves {
				// every time-valued source must be the block time (the context derivation itself is not a time source)
				if l.Kind == "call" && typeString(l.V.Type()) == "time.Time" && !isBlockTime(l.V) {
					onlyBT = false
				}
				if l.Kind == "param" && typeString(l.V.Type()) == "time.Time" {
					onlyBT = false
				}
			}
			r.Check(ok && onlyBT, "C06.sameoracle", funcName(fn)+": CalculateWithdrawable(ctx.BlockTime(), stored pool)", w.Pos(s.Instr.Pos()),
				"time argument originates from ctx.BlockTime(), pool argument from the stored pools", "the oracle is called with other arguments: time <- "+o0.String()+"; pool <- "+o1.String())
		}
		if n == 0 {
			// an inlined copy of the oracle in the query is accepted when it passes the same table and keeps no
			// state between pools
			if strings.HasSuffix(anchor, "Keeper.VestingPools") && inlineOracleOK(w, r, fn) {
				continue
			}
			r.Bad("C06.sameoracle", funcName(fn)+": uses CalculateWithdrawable", w.Pos(fn.Pos()), "the withdrawable amount is not obtained from the shared oracle (nor from an inlined copy that decides every pool on its own by the same table)")
		}
	}
	// the query's Withdrawable field is the oracle's result
	if q := w.Func("x/cfevesting/keeper.Keeper.VestingPools"); q != nil {
		for _, sb := range w.storesBelow(q, "VestingPoolInfo", 2, nil) {
			fs := sb.FS
			if fs.Field == "Withdrawable" && !inlineAccepted[q] {
				o := w.Tracer().Origins(fs.Store.Val)
				r.Check(o.HasCall("keeper.CalculateWithdrawable") || o.HasCall("VestingPool.GetCurrentlyLocked"), "C06.sameoracle", "VestingPools: response.Withdrawable <- oracle", w.Pos(fs.Store.Pos()), "sourced from CalculateWithdrawable", "the reported withdrawable amount is not the oracle's result: "+o.String())
			}
		}
	}

	poolKeyRule(w, r, "C06.key")
	// ---------- C06.once ----------
	shareRule(w, r, checkC05, "C05.pair", "C06.once", func(o Obligation) bool { return strings.Contains(o.Construct, "VestingPool.Withdrawn") })
	// ---------- C06.everypool ----------
	if wd := w.Func("x/cfevesting/keeper.Keeper.WithdrawAllAvailable"); wd != nil {
		var pl *rangeLoop
		for _, l := range rangeLoops(wd) {
			l := l
			if l.Over != nil && loadOfField(l.Over, "VestingPools", nil) {
				pl = &l
			}
		}
		if pl == nil {
			r.Unk("C06.everypool", "withdraw loop over the owner's pools", w.Pos(wd.Pos()), "loop not found")
		} else {
			every := loopBodyMustPass(*pl, func(b *ssa.BasicBlock) bool {
				return blockHasCall(b, func(c *ssa.Call) bool { return strings.HasSuffix(callName(c.Common()), "keeper.CalculateWithdrawable") })
			})
			ex := loopEarlyExit(*pl)
			r.Check(every && ex == nil, "C06.everypool", "withdraw-all evaluates every pool of the owner", w.Pos(pl.Body.Instrs[0].Pos()),
				"every iteration calls the time-lock oracle and the loop over all pools is never left early", "some pools are skipped (an iteration path avoids the oracle, or the loop is left early): a matured pool would not be paid while the query reports it withdrawable")
			// the pools ranged over are the owner's stored pools
			o := w.Tracer().Origins(pl.Over)
			r.Check(o.HasCall("GetAccountVestingPools") || o.HasCall("MustUnmarshal"), "C06.everypool", "the pools are the owner's stored pools", w.Pos(wd.Pos()), "read with GetAccountVestingPools", "the withdraw loop does not range over the stored pools")
		}
	}

	// ---------- C06.outflows ----------
	roots := append(append([]*ssa.Function{}, flatten(ro.MSG)...), flatten(ro.BLK)...)
	reach := cg.Reach(roots)
	for _, s := range cg.SitesIn(reach) {
		if cg.Atom(s) != BankMove || moduleOfFunc(s.Caller) != "cfevesting" {
			continue
		}
		if s.Method != "SendCoinsFromModuleToAccount" && s.Method != "SendCoinsFromModuleToModule" {
			continue
		}
		fn := s.Caller
		construct := "outflow in " + funcName(fn)
		pos := w.Pos(s.Instr.Pos())
		am, _, ok := unwrapCoins(coinsArg(s))
		if !ok {
			r.Bad("C06.outflows", construct, pos, "cannot identify the amount of the outgoing transfer")
			continue
		}
		var rec ssa.Value
		for _, a := range s.Args() {
			if typeString(a.Type()) == "github.com/cosmos/cosmos-sdk/types.AccAddress" {
				rec = a
			}
		}
		// decided where the amount is computed: a paying helper that is handed the amount (and the recipient) is decided
		// at each of its call sites, two levels up at most
		var decide func(fn *ssa.Function, at ssa.Instruction, am, rec ssa.Value, depth int) (good bool, withdraw bool)
		decide = func(fn *ssa.Function, at ssa.Instruction, am, rec ssa.Value, depth int) (bool, bool) {
			am = normLocal(am)
			// the creation of the recipient in this very function decides it whatever the amount is
			for _, s2 := range cg.Sites[fn] {
				if !calleeIs(s2, "x/cfevesting/keeper.Keeper.newContinuousVestingAccount") {
					continue
				}
				a2 := s2.Args()
				if len(a2) > 1 && a2[1] == rec && OnSuccessEdge(fn, at, siteValue(s2)) {
					return true, false
				}
			}
			if prm, isPrm := am.(*ssa.Parameter); isPrm && depth < 2 && prm.Parent() == fn {
				i := paramIndex(fn, prm)
				callers := cg.Callers[fn]
				if i < 0 || len(callers) == 0 {
					return false, false
				}
				allGood, anyWithdraw := true, false
				for _, cs := range callers {
					if cs.Static != fn || cs.Invoke || i >= len(cs.Common().Args) {
						return false, false
					}
					rec2 := rec
					if rp, isRP := normLocal(rec).(*ssa.Parameter); isRP && rp.Parent() == fn {
						if j := paramIndex(fn, rp); j >= 0 && j < len(cs.Common().Args) {
							rec2 = cs.Common().Args[j]
						}
					}
					g, wd := decide(cs.Caller, cs.Instr, cs.Common().Args[i], rec2, depth+1)
					allGood = allGood && g
					anyWithdraw = anyWithdraw || wd
				}
				return allGood, anyWithdraw
			}
			// (a) withdraw: amount is an accumulator of CalculateWithdrawable results
			if phi, isPhi := am.(*ssa.Phi); isPhi {
				for _, e := range phi.Edges {
					if c, ok := e.(*ssa.Call); ok {
						for _, a := range c.Common().Args {
							if _, is := isCallTo(a, "keeper.CalculateWithdrawable"); is && accumulatorOf(phi, a) {
								return true, true
							}
						}
					}
				}
				return false, true
			}
			// (b) new vesting account: dominated by the success edge of the account creation for the same address
			for _, s2 := range cg.Sites[fn] {
				if !calleeIs(s2, "x/cfevesting/keeper.Keeper.newContinuousVestingAccount") {
					continue
				}
				a2 := s2.Args()
				if len(a2) > 1 && a2[1] == rec && OnSuccessEdge(fn, at, siteValue(s2)) {
					return true, false
				}
			}
			return false, false
		}
		good, isWithdraw := decide(fn, s.Instr, am, rec, 0)
		if isWithdraw {
			r.Check(good, "C06.outflows", construct+": amount = sum of CalculateWithdrawable results", pos, "accumulator of the oracle's per-pool results", "the amount paid out is not the sum of the oracle's results")
			continue
		}
		r.Check(good, "C06.outflows", construct+": recipient created as a continuous vesting account on the same path", pos,
			"dominated by the success edge of newContinuousVestingAccount for the same address", "coins can leave the module account to an address that was not created as a vesting account on this path")
	}
}

var inlineAccepted = map[*ssa.Function]bool{}

// inlineOracleOK evaluates the time-lock table on a query that computes the withdrawable amount itself: under
// every ordering of (block time, element.LockEnd) the value reported is zero resp. element.GetCurrentlyLocked(),
// and the value is computed afresh for every pool (no phi of a loop header in its slice).
func inlineOracleOK(w *World, r *Report, q *ssa.Function) bool {
	term := func(v ssa.Value) string {
		if isBlockTime(v) {
			return "now"
		}
		if loadOfField(v, "LockEnd", nil) {
			return "end"
		}
		return ""
	}
	var repVal ssa.Value
	for _, fs := range FieldStores(q) {
		if fs.Field == "Withdrawable" {
			repVal = fs.Store.Val
		}
	}
	if repVal == nil {
		return false
	}
	if os.Getenv("C4E_DEBUG") != "" {
		fmt.Println("DBG inline repVal", repVal, repVal.Type())
	}
	if c, ok := repVal.(*ssa.Call); ok && strings.HasSuffix(callName(c.Common()), ".String") && len(c.Common().Args) == 1 {
		repVal = c.Common().Args[0]
	}
	headers := map[*ssa.BasicBlock]bool{}
	for _, l := range rangeLoops(q) {
		headers[l.Header] = true
	}
	for phi := range w.Tracer().Origins(repVal).Phis {
		if !types.Identical(phi.Type(), repVal.Type()) {
			continue // the range index and the like
		}
		if headers[phi.Block()] || inCycleHeader(phi) {
			return false
		}
	}
	for s := -1; s <= 1; s++ {
		live := ReachUnder(q, OrderEval(term, twoTermCmp("now", "end", s), nil))
		vals := live.LiveValues(repVal)
		if os.Getenv("C4E_DEBUG") != "" {
			fmt.Println("DBG inline s", s, vals)
		}
		if len(vals) == 0 {
			return false
		}
		for _, v := range vals {
			if s < 0 && !isZeroIntValue(v) {
				return false
			}
			if s >= 0 {
				if _, is := isCallTo(v, "VestingPool.GetCurrentlyLocked"); !is {
					return false
				}
			}
		}
	}
	inlineAccepted[q] = true
	r.OK("C06.sameoracle", funcName(q)+": inlined oracle passes the table and is stateless across pools", w.Pos(q.Pos()), "zero before LockEnd, GetCurrentlyLocked() from it on, recomputed per pool")
	return true
}

// inCycleHeader: the phi merges a value coming round a loop (one of its predecessors is dominated by its block).
func inCycleHeader(phi *ssa.Phi) bool {
	b := phi.Block()
	for _, p := range b.Preds {
		if b.Dominates(p) {
			return true
		}
	}
	return false
}

// holdsBlockTime: v is not the block-time call itself but a value (e.g. a field of a local state struct) every
// origin of which is a ctx.BlockTime() call reached without any operation in between - at the point where v is read
// the value IS the block time (the tracer discards stores that are overwritten on every path to the load).
func holdsBlockTime(tr *Tracer, v ssa.Value) bool {
	if v == nil || typeString(v.Type()) != tTime {
		return false
	}
	if isBlockTime(v) {
		return true
	}
	t2 := *tr
	t2.Stop = append(append([]string{}, tr.Stop...), "cosmos-sdk/types.Context.BlockTime")
	o := t2.Origins(v)
	if os.Getenv("C4E_DEBUG2") != "" {
		fmt.Fprintf(os.Stderr, "HOLDSBT %s: leaves=%v ops=%v trunc=%v\n", v, o.LeafList(), o.Ops, o.Truncated)
	}
	if o.Truncated || len(o.Leaves) == 0 {
		return false
	}
	for op := range o.Ops {
		if !strings.HasSuffix(op, "cosmos-sdk/types.Context.BlockTime") {
			return false
		}
	}
	for _, l := range o.Leaves {
		if l.Kind != "call" || l.Path != "" || !isBlockTime(l.V) {
			return false
		}
	}
	return true
}
