package main

import (
	"go/ast"
	"go/constant"
	"go/token"
	"go/types"
	"sort"
	"strings"

	"golang.org/x/tools/go/ssa"
)

// Effect atoms (P4).
const (
	BankMint   = "BANK.mint"
	BankBurn   = "BANK.burn"
	BankMove   = "BANK.move"
	BankRead   = "BANK.read"
	AuthSet    = "AUTH.set"
	AuthNew    = "AUTH.new"
	AuthGet    = "AUTH.get"
	AuthRemove = "AUTH.remove"
	StoreGet   = "STORE.get"
	StoreSet   = "STORE.set"
	StoreDel   = "STORE.delete"
	StoreIter  = "STORE.iter"
	EventEmit  = "EVENT.emit"
)

var bankMoveNames = map[string]bool{"SendCoins": true, "SendCoinsFromModuleToAccount": true, "SendCoinsFromAccountToModule": true,
	"SendCoinsFromModuleToModule": true, "DelegateCoins": true, "UndelegateCoins": true, "DelegateCoinsFromAccountToModule": true,
	"UndelegateCoinsFromModuleToAccount": true, "InputOutputCoins": true}
var bankReadNames = map[string]bool{"GetBalance": true, "GetAllBalances": true, "GetSupply": true, "LockedCoins": true,
	"SpendableCoins": true, "IsSendEnabledCoins": true, "IsSendEnabledCoin": true, "BlockedAddr": true, "HasBalance": true, "HasSupply": true}

func isCoinsType(t types.Type) bool {
	s := typeString(t)
	return s == "github.com/cosmos/cosmos-sdk/types.Coins" || s == "github.com/cosmos/cosmos-sdk/types.Coin"
}

func sigHasCoins(sig *types.Signature) bool {
	for i := 0; i < sig.Params().Len(); i++ {
		t := sig.Params().At(i).Type()
		if sl, ok := t.(*types.Slice); ok && sig.Variadic() && i == sig.Params().Len()-1 {
			t = sl.Elem()
		}
		if isCoinsType(t) {
			return true
		}
	}
	return false
}

func recvLooksLike(s *Site, words ...string) bool {
	if s.RecvType == nil {
		return false
	}
	ts := strings.ToLower(typeString(s.RecvType))
	for _, w := range words {
		if strings.Contains(ts, w) {
			return true
		}
	}
	// an interface the module declares for its own use (whatever it is called): what it stands for is decided by the
	// concrete dependency types that implement it
	if s.Invoke && worldForRecv != nil {
		for _, impl := range worldForRecv.dependencyImplementers(s.RecvType) {
			for _, w := range words {
				if strings.Contains(impl, w) {
					return true
				}
			}
		}
	}
	return false
}

// worldForRecv is the loaded program (set when the call graph is built); recvLooksLike is called with sites only.
var worldForRecv *World

var depImplMemo = map[string][]string{}

// dependencyImplementers: lower-cased names of the concrete named types outside the module that implement the
// module-declared interface t (nil for interfaces of dependencies, whose own name says what they are).
func (w *World) dependencyImplementers(t types.Type) []string {
	nt, ok := t.(*types.Named)
	if !ok || nt.Obj().Pkg() == nil || !strings.HasPrefix(nt.Obj().Pkg().Path(), modPath) {
		return nil
	}
	iface, ok := nt.Underlying().(*types.Interface)
	if !ok || iface.NumMethods() == 0 {
		return nil
	}
	key := typeString(t)
	if v, ok := depImplMemo[key]; ok {
		return v
	}
	var out []string
	for _, pkg := range w.Prog.AllPackages() {
		if pkg.Pkg == nil || strings.HasPrefix(pkg.Pkg.Path(), modPath) {
			continue
		}
		sc := pkg.Pkg.Scope()
		for _, name := range sc.Names() {
			tn, ok := sc.Lookup(name).(*types.TypeName)
			if !ok || tn.IsAlias() {
				continue
			}
			if _, isI := tn.Type().Underlying().(*types.Interface); isI {
				continue
			}
			if types.Implements(tn.Type(), iface) || types.Implements(types.NewPointer(tn.Type()), iface) {
				out = append(out, strings.ToLower(typeString(tn.Type())))
			}
		}
	}
	sort.Strings(out)
	depImplMemo[key] = out
	return out
}

// Atom classifies a call site that is not entered (callee outside the module or an interface method
// without module implementation). Module wrappers (Keeper.MintCoins ...) are entered, not classified.
func (cg *CallGraph) Atom(s *Site) string {
	// a call of a parametric store accessor (a module helper that reads / writes the store at a location given by its
	// parameters) IS the store access, located at the caller; the access inside the helper is not counted again
	if acc := cg.accessorAt(s); acc != nil {
		return acc.kind
	}
	if cg.isParametricInner(s) {
		return ""
	}
	return cg.rawAtom(s)
}

type storeAccessor struct {
	kind  string
	inner *Site
}

// accessorAt: s is a static call of a module function that is a parametric store accessor.
func (cg *CallGraph) accessorAt(s *Site) *storeAccessor {
	if s.Static == nil || s.Invoke || len(s.Callees) == 0 {
		return nil
	}
	return cg.accessorOf(s.Static)
}

// accessorOf: h accesses the store at a location that cannot be resolved inside h because it depends on h's
// parameters (getProto(ctx, prefix, key, msg), setProto, iterateProto[T] ...): exactly one kind of access.
func (cg *CallGraph) accessorOf(h *ssa.Function) *storeAccessor {
	if cg.accessors == nil {
		cg.accessors = map[*ssa.Function]*storeAccessor{}
		cg.accBusy = map[*ssa.Function]bool{}
	}
	if a, ok := cg.accessors[h]; ok {
		return a
	}
	if cg.accBusy[h] || h.Blocks == nil || len(h.Params) == 0 || !cg.isModuleFunc(h) || len(cg.Callers[h]) == 0 {
		return nil
	}
	cg.accBusy[h] = true
	defer delete(cg.accBusy, h)
	var res *storeAccessor
	kinds := map[string]bool{}
	for _, s := range cg.Sites[h] {
		k := ""
		if a := cg.accessorAt(s); a != nil {
			k = a.kind
		} else {
			k = cg.rawAtom(s)
		}
		if !strings.HasPrefix(k, "STORE.") {
			continue
		}
		if cg.storeLocIn(s).Resolved {
			continue
		}
		kinds[k] = true
		if res == nil {
			res = &storeAccessor{kind: k, inner: s}
		}
	}
	if len(kinds) != 1 {
		res = nil
	}
	cg.accessors[h] = res
	return res
}

// isParametricInner: s is the unresolved access inside a parametric accessor (counted at the accessor's call sites).
func (cg *CallGraph) isParametricInner(s *Site) bool {
	acc := cg.accessorOf(s.Caller)
	if acc == nil {
		return false
	}
	k := cg.rawAtom(s)
	if a := cg.accessorAt(s); a != nil {
		k = a.kind
	}
	return strings.HasPrefix(k, "STORE.") && !cg.storeLocIn(s).Resolved
}

func (cg *CallGraph) rawAtom(s *Site) string {
	if len(s.Callees) > 0 && !s.Invoke {
		return ""
	}
	name := s.Method
	sig := s.Common().Signature()
	switch {
	case name == "MintCoins" && sigHasCoins(sig):
		return BankMint
	case name == "BurnCoins" && sigHasCoins(sig):
		return BankBurn
	case bankMoveNames[name] && (sigHasCoins(sig) || name == "InputOutputCoins") && recvLooksLike(s, "bank", "keeper"):
		return BankMove
	case bankReadNames[name] && recvLooksLike(s, "bank"):
		return BankRead
	case (name == "SetAccount" || name == "SetModuleAccount") && recvLooksLike(s, "account", "auth"):
		return AuthSet
	case (name == "NewAccountWithAddress" || name == "NewAccount") && recvLooksLike(s, "account", "auth"):
		return AuthNew
	case (name == "GetAccount" || name == "GetModuleAccount" || name == "HasAccount" || name == "GetModuleAddress") && recvLooksLike(s, "account", "auth"):
		return AuthGet
	case name == "RemoveAccount" && recvLooksLike(s, "account", "auth"):
		return AuthRemove
	case name == "EmitTypedEvent" || name == "EmitTypedEvents" || name == "EmitEvent" || name == "EmitEvents":
		if recvLooksLike(s, "eventmanager") {
			return EventEmit
		}
	}
	if isStoreType(s.RecvType) {
		switch name {
		case "Get", "Has":
			return StoreGet
		case "Set":
			return StoreSet
		case "Delete":
			return StoreDel
		case "Iterator", "ReverseIterator":
			return StoreIter
		}
	}
	if s.Static != nil {
		q := qualifiedFuncName(s.Static)
		if q == "github.com/cosmos/cosmos-sdk/types.KVStorePrefixIterator" || q == "github.com/cosmos/cosmos-sdk/types.KVStoreReversePrefixIterator" {
			return StoreIter
		}
	}
	return ""
}

func isStoreType(t types.Type) bool {
	if t == nil {
		return false
	}
	s := typeString(t)
	s = strings.TrimPrefix(s, "*")
	switch s {
	case "github.com/cosmos/cosmos-sdk/store/types.KVStore", "github.com/cosmos/cosmos-sdk/store/prefix.Store",
		"github.com/cosmos/cosmos-sdk/types.KVStore", "github.com/cosmos/cosmos-sdk/store/types.CommitKVStore":
		return true
	}
	return false
}

// StoreLoc is the resolved location of a store access: the constant prefix of the key space.
type StoreLoc struct {
	Prefix   string // resolved byte prefix (prefix store chain + constant key when the key is constant)
	Resolved bool
	Why      string
}

// storeOperands: the store value and the key value of a STORE.* site, in the terms of the function containing s. For a
// call of a parametric accessor they are the accessor's own operands with its parameters replaced by the arguments.
func (cg *CallGraph) storeOperands(s *Site) (storeV, keyV ssa.Value) {
	if acc := cg.accessorAt(s); acc != nil {
		iv, ik := cg.storeOperands(acc.inner)
		bind := map[*ssa.Parameter]ssa.Value{}
		for i, prm := range s.Static.Params {
			if i < len(s.Common().Args) {
				bind[prm] = s.Common().Args[i]
			}
		}
		if iv != nil {
			iv = translateValue(iv, bind, 0)
		}
		if ik != nil {
			ik = translateValue(ik, bind, 0)
		}
		return iv, ik
	}
	if s.Static != nil && strings.HasSuffix(qualifiedFuncName(s.Static), "PrefixIterator") {
		a := s.Common().Args
		if len(a) == 2 {
			return a[0], a[1]
		}
		return nil, nil
	}
	storeV = s.Recv()
	if a := s.Args(); len(a) > 0 && (s.Method == "Get" || s.Method == "Set" || s.Method == "Has" || s.Method == "Delete") {
		keyV = a[0]
	}
	return storeV, keyV
}

// StoreValOf: the value bytes handed to a STORE.set site (in the terms of the function containing s).
func (cg *CallGraph) StoreValOf(s *Site) ssa.Value {
	if acc := cg.accessorAt(s); acc != nil {
		iv := cg.StoreValOf(acc.inner)
		if iv == nil {
			return nil
		}
		bind := map[*ssa.Parameter]ssa.Value{}
		for i, prm := range s.Static.Params {
			if i < len(s.Common().Args) {
				bind[prm] = s.Common().Args[i]
			}
		}
		return translateValue(iv, bind, 0)
	}
	if a := s.Args(); len(a) >= 2 && s.Method == "Set" {
		return a[1]
	}
	return nil
}

// StoreKeyOf: the key bytes handed to a STORE.get/set/delete site (in the terms of the function containing s).
func (cg *CallGraph) StoreKeyOf(s *Site) ssa.Value {
	_, k := cg.storeOperands(s)
	return k
}

// StoreLocOf resolves the store value and key of a STORE.* site to a constant byte prefix.
func (cg *CallGraph) StoreLocOf(s *Site) StoreLoc { return cg.storeLocIn(s) }

func (cg *CallGraph) storeLocIn(s *Site) StoreLoc {
	storeV, keyV := cg.storeOperands(s)
	if storeV == nil {
		return StoreLoc{Why: "no store value"}
	}
	pfx, ok, why := cg.w.storePrefix(storeV, 0)
	if !ok {
		return StoreLoc{Why: why}
	}
	if keyV != nil {
		if kb, ok := cg.w.EvalBytes(keyV, 0); ok {
			pfx += kb
		} else if pfx == "" {
			return StoreLoc{Why: "raw store accessed with a non-constant key"}
		}
	}
	return StoreLoc{Prefix: pfx, Resolved: true}
}

// storePrefix follows store values back to ctx.KVStore(key) through prefix.NewStore.
func (w *World) storePrefix(v ssa.Value, depth int) (string, bool, string) {
	if depth > 6 {
		return "", false, "store chain too deep"
	}
	switch v := v.(type) {
	case *ssa.MakeInterface:
		return w.storePrefix(v.X, depth+1)
	case *ssa.ChangeInterface:
		return w.storePrefix(v.X, depth+1)
	case *ssa.UnOp:
		if v.Op == token.MUL {
			// load of a local holding the store
			if a, ok := v.X.(*ssa.Alloc); ok {
				var stored []ssa.Value
				for _, ref := range *a.Referrers() {
					if st, ok := ref.(*ssa.Store); ok && st.Addr == a {
						stored = append(stored, st.Val)
					}
				}
				if len(stored) == 1 {
					return w.storePrefix(stored[0], depth+1)
				}
			}
		}
	case *ssa.Phi:
		var res string
		for i, e := range v.Edges {
			p, ok, why := w.storePrefix(e, depth+1)
			if !ok {
				return "", false, why
			}
			if i > 0 && p != res {
				return "", false, "store phi with different prefixes"
			}
			res = p
		}
		return res, true, ""
	case *ssa.Call:
		c := v.Common()
		if c.IsInvoke() {
			if c.Method.Name() == "KVStore" || c.Method.Name() == "TransientStore" {
				return "", true, ""
			}
			return "", false, "store from interface call " + c.Method.Name()
		}
		fn := c.StaticCallee()
		if fn == nil {
			return "", false, "store from dynamic call"
		}
		q := qualifiedFuncName(fn)
		switch q {
		case "github.com/cosmos/cosmos-sdk/types.Context.KVStore", "github.com/cosmos/cosmos-sdk/types.Context.TransientStore":
			return "", true, ""
		case "github.com/cosmos/cosmos-sdk/store/prefix.NewStore":
			parent, ok, why := w.storePrefix(c.Args[0], depth+1)
			if !ok {
				return "", false, why
			}
			pb, ok := w.EvalBytes(c.Args[1], 0)
			if !ok {
				return "", false, "prefix.NewStore with a non-constant prefix"
			}
			return parent + pb, true, ""
		}
		// a module helper that builds and returns the store: every return must resolve to the same prefix
		if fn.Blocks != nil && w.isProdFunc(fn) {
			var res string
			n := 0
			// the helper may take the prefix as a parameter (prefixStore(ctx, keyPrefix)): its result is resolved with
			// the parameters replaced by this call's arguments
			bind := map[*ssa.Parameter]ssa.Value{}
			for i, prm := range fn.Params {
				if i < len(c.Args) {
					bind[prm] = c.Args[i]
				}
			}
			for _, ret := range Returns(fn) {
				rv := retVals(ret)
				if len(rv) == 0 {
					continue
				}
				p, ok, why := w.storePrefix(translateValue(rv[0], bind, 0), depth+1)
				if !ok {
					return "", false, why
				}
				if n > 0 && p != res {
					return "", false, "store helper returning different prefixes"
				}
				res = p
				n++
			}
			if n > 0 {
				return res, true, ""
			}
		}
		return "", false, "store from call " + q
	case *ssa.Parameter:
		// a store passed as parameter: resolve when every caller passes the same
		cg := w.CG()
		fn := v.Parent()
		idx := -1
		for i, p := range fn.Params {
			if p == v {
				idx = i
			}
		}
		var res string
		n := 0
		for _, cs := range cg.Callers[fn] {
			args := cs.Common().Args
			if idx >= len(args) {
				continue
			}
			p, ok, why := w.storePrefix(args[idx], depth+1)
			if !ok {
				return "", false, why
			}
			if n > 0 && p != res {
				return "", false, "store parameter with different prefixes at call sites"
			}
			res = p
			n++
		}
		if n > 0 {
			return res, true, ""
		}
		return "", false, "store parameter without callers"
	}
	return "", false, "unrecognised store value " + v.String()
}

// EvalBytes evaluates an SSA value of type []byte (or string) to a constant byte string.
func (w *World) EvalBytes(v ssa.Value, depth int) (string, bool) {
	if depth > 5 {
		return "", false
	}
	switch v := v.(type) {
	case *ssa.Const:
		if v.Value == nil {
			return "", true // nil slice
		}
		if v.Value.Kind() == constant.String {
			return constant.StringVal(v.Value), true
		}
	case *ssa.Convert:
		return w.EvalBytes(v.X, depth+1)
	case *ssa.ChangeType:
		return w.EvalBytes(v.X, depth+1)
	case *ssa.UnOp:
		if v.Op == token.MUL {
			if g, ok := v.X.(*ssa.Global); ok {
				return w.GlobalBytes(g)
			}
		}
	case *ssa.Slice:
		// []byte{...} literal: slice of a fresh array with constant stores
		if a, ok := v.X.(*ssa.Alloc); ok {
			arr, ok := a.Type().(*types.Pointer).Elem().Underlying().(*types.Array)
			if !ok {
				return "", false
			}
			buf := make([]byte, arr.Len())
			for _, ref := range *a.Referrers() {
				ia, ok := ref.(*ssa.IndexAddr)
				if !ok {
					continue
				}
				ic, ok := ia.Index.(*ssa.Const)
				if !ok {
					return "", false
				}
				for _, r2 := range *ia.Referrers() {
					if st, ok := r2.(*ssa.Store); ok {
						c, ok := st.Val.(*ssa.Const)
						if !ok {
							return "", false
						}
						idx, _ := constant.Int64Val(ic.Value)
						val, _ := constant.Int64Val(c.Value)
						buf[idx] = byte(val)
					}
				}
			}
			return string(buf), true
		}
	case *ssa.Call:
		fn := v.Common().StaticCallee()
		if fn != nil && fn.Blocks != nil && len(fn.Params) == 1 && len(v.Common().Args) == 1 {
			// single-parameter helper returning a conversion of its parameter (KeyPrefix)
			if len(fn.Blocks) == 1 {
				if ret, ok := fn.Blocks[0].Instrs[len(fn.Blocks[0].Instrs)-1].(*ssa.Return); ok && len(ret.Results) == 1 {
					if cv, ok := ret.Results[0].(*ssa.Convert); ok && cv.X == fn.Params[0] {
						return w.EvalBytes(v.Common().Args[0], depth+1)
					}
				}
			}
		}
	}
	return "", false
}

// GlobalBytes evaluates the initialiser of a package-level []byte / string variable from its declaration.
func (w *World) GlobalBytes(g *ssa.Global) (string, bool) {
	obj, ok := g.Object().(*types.Var)
	if !ok || g.Pkg == nil {
		return "", false
	}
	p := w.ByPath[g.Pkg.Pkg.Path()]
	if p == nil {
		return "", false
	}
	for _, f := range p.Syntax {
		for _, d := range f.Decls {
			gd, ok := d.(*ast.GenDecl)
			if !ok || gd.Tok != token.VAR {
				continue
			}
			for _, sp := range gd.Specs {
				vs := sp.(*ast.ValueSpec)
				for i, n := range vs.Names {
					if p.TypesInfo.Defs[n] == obj && i < len(vs.Values) {
						return evalBytesExpr(p.TypesInfo, vs.Values[i], w, 0)
					}
				}
			}
		}
	}
	return "", false
}

func evalBytesExpr(info *types.Info, e ast.Expr, w *World, depth int) (string, bool) {
	if depth > 5 {
		return "", false
	}
	if tv, ok := info.Types[e]; ok && tv.Value != nil && tv.Value.Kind() == constant.String {
		return constant.StringVal(tv.Value), true
	}
	switch e := e.(type) {
	case *ast.ParenExpr:
		return evalBytesExpr(info, e.X, w, depth+1)
	case *ast.CompositeLit:
		var buf []byte
		for _, el := range e.Elts {
			tv, ok := info.Types[el]
			if !ok || tv.Value == nil {
				return "", false
			}
			n, ok := constant.Int64Val(constant.ToInt(tv.Value))
			if !ok {
				return "", false
			}
			buf = append(buf, byte(n))
		}
		return string(buf), true
	case *ast.CallExpr:
		if len(e.Args) != 1 {
			return "", false
		}
		// conversion []byte("..")
		if tv, ok := info.Types[e.Fun]; ok && tv.IsType() {
			return evalBytesExpr(info, e.Args[0], w, depth+1)
		}
		// helper such as KeyPrefix(p) { return []byte(p) }
		var fobj types.Object
		switch f := e.Fun.(type) {
		case *ast.Ident:
			fobj = info.Uses[f]
		case *ast.SelectorExpr:
			fobj = info.Uses[f.Sel]
		}
		if fo, ok := fobj.(*types.Func); ok {
			if fn := w.Prog.FuncValue(fo); fn != nil && fn.Blocks != nil && len(fn.Blocks) == 1 && len(fn.Params) == 1 {
				if ret, ok := fn.Blocks[0].Instrs[len(fn.Blocks[0].Instrs)-1].(*ssa.Return); ok && len(ret.Results) == 1 {
					if cv, ok := ret.Results[0].(*ssa.Convert); ok && cv.X == fn.Params[0] {
						return evalBytesExpr(info, e.Args[0], w, depth+1)
					}
				}
			}
		}
	case *ast.Ident:
		if v, ok := info.Uses[e].(*types.Var); ok && v.Pkg() != nil {
			if sp := w.Prog.Package(v.Pkg()); sp != nil {
				if g, ok := sp.Members[v.Name()].(*ssa.Global); ok {
					return w.GlobalBytes(g)
				}
			}
		}
	case *ast.SelectorExpr:
		if v, ok := info.Uses[e.Sel].(*types.Var); ok && v.Pkg() != nil {
			if sp := w.Prog.Package(v.Pkg()); sp != nil {
				if g, ok := sp.Members[v.Name()].(*ssa.Global); ok {
					return w.GlobalBytes(g)
				}
			}
		}
	}
	return "", false
}

// EvalString evaluates an SSA string value to a constant, following module wrapper parameters is left to callers.
func EvalString(v ssa.Value) (string, bool) {
	switch v := v.(type) {
	case *ssa.Const:
		if v.Value != nil && v.Value.Kind() == constant.String {
			return constant.StringVal(v.Value), true
		}
	case *ssa.ChangeType:
		return EvalString(v.X)
	case *ssa.Convert:
		return EvalString(v.X)
	}
	return "", false
}

// FieldStore is a store through a field address (incl. composite-literal initialisation).
type FieldStore struct {
	Fn     *ssa.Function
	Store  *ssa.Store
	FA     *ssa.FieldAddr
	Struct *types.Named // the named struct type, if any
	Field  string
}

func fieldOf(fa *ssa.FieldAddr) (*types.Named, string) {
	pt, ok := fa.X.Type().Underlying().(*types.Pointer)
	if !ok {
		return nil, ""
	}
	st, ok := pt.Elem().Underlying().(*types.Struct)
	if !ok {
		return nil, ""
	}
	named, _ := pt.Elem().(*types.Named)
	return named, st.Field(fa.Field).Name()
}

// FieldStores enumerates field stores in a function.
func FieldStores(fn *ssa.Function) []FieldStore {
	var out []FieldStore
	for _, b := range fn.Blocks {
		for _, in := range b.Instrs {
			st, ok := in.(*ssa.Store)
			if !ok {
				continue
			}
			fa, ok := st.Addr.(*ssa.FieldAddr)
			if !ok {
				continue
			}
			named, f := fieldOf(fa)
			out = append(out, FieldStore{Fn: fn, Store: st, FA: fa, Struct: named, Field: f})
		}
	}
	return out
}

func namedIs(n *types.Named, pkgSuffix, name string) bool {
	if n == nil || n.Obj() == nil || n.Obj().Pkg() == nil {
		return false
	}
	return n.Obj().Name() == name && strings.HasSuffix(n.Obj().Pkg().Path(), pkgSuffix)
}
