package main

import (
	"go/types"
	"sort"
	"strings"

	"golang.org/x/tools/go/ssa"
)

// Site is one call instruction in a module function (P3).
type Site struct {
	Caller  *ssa.Function
	Instr   ssa.CallInstruction
	Callees []*ssa.Function // resolved callees that have bodies in the module (static, closures, CHA on module interfaces)
	Static  *ssa.Function   // static callee (module or dependency), nil for dynamic calls
	// Leaf description for calls that are not entered: interface method or dependency function.
	RecvType types.Type // receiver type for method calls / interface type for invokes
	Method   string     // method or function name
	Invoke   bool
}

func (s *Site) Common() *ssa.CallCommon { return s.Instr.Common() }

// Args returns the actual arguments excluding the receiver.
func (s *Site) Args() []ssa.Value {
	c := s.Common()
	if c.IsInvoke() {
		return c.Args
	}
	if c.Signature().Recv() != nil && len(c.Args) > 0 {
		return c.Args[1:]
	}
	return c.Args
}

// Recv returns the receiver value (or nil).
func (s *Site) Recv() ssa.Value {
	c := s.Common()
	if c.IsInvoke() {
		return c.Value
	}
	if c.Signature().Recv() != nil && len(c.Args) > 0 {
		return c.Args[0]
	}
	return nil
}

// CalleeName returns "pkgpath.Type.Method" or "pkgpath.Func" for static callees and
// "iface:pkgpath.Iface.Method" for invokes.
func (s *Site) CalleeName() string {
	if s.Static != nil {
		return qualifiedFuncName(s.Static)
	}
	if s.Invoke {
		return "iface:" + typeString(s.RecvType) + "." + s.Method
	}
	return "dynamic"
}

func typeString(t types.Type) string {
	if t == nil {
		return "?"
	}
	return types.TypeString(t, func(p *types.Package) string { return p.Path() })
}

func qualifiedFuncName(f *ssa.Function) string {
	if f == nil {
		return ""
	}
	if old, ok := renamedTo[f]; ok {
		return modPath + "/" + old
	}
	if f.Signature.Recv() != nil {
		rt := f.Signature.Recv().Type()
		if p, ok := rt.(*types.Pointer); ok {
			rt = p.Elem()
		}
		return typeString(rt) + "." + f.Name()
	}
	if f.Pkg != nil {
		return f.Pkg.Pkg.Path() + "." + f.Name()
	}
	if f.Parent() != nil {
		return qualifiedFuncName(f.Parent()) + "$" + f.Name()
	}
	return f.Name()
}

type CallGraph struct {
	w         *World
	Sites     map[*ssa.Function][]*Site
	Refs      map[*ssa.Function][]*ssa.Function // functions referenced as values (closures, method values)
	Callers   map[*ssa.Function][]*Site
	impls     map[string][]*ssa.Function // iface method key -> module implementations
	fvals     []*ssa.Function            // module functions whose value is taken somewhere
	accessors map[*ssa.Function]*storeAccessor
	accBusy   map[*ssa.Function]bool
}

func (w *World) CG() *CallGraph {
	if w.cg != nil {
		return w.cg
	}
	worldForRecv = w
	cg := &CallGraph{w: w, Sites: map[*ssa.Function][]*Site{}, Refs: map[*ssa.Function][]*ssa.Function{}, Callers: map[*ssa.Function][]*Site{}, impls: map[string][]*ssa.Function{}}
	w.cg = cg
	// 1. function values
	fvalSet := map[*ssa.Function]bool{}
	for _, f := range w.funcsMod {
		for _, b := range f.Blocks {
			for _, in := range b.Instrs {
				if mc, ok := in.(*ssa.MakeClosure); ok {
					if fn, ok := mc.Fn.(*ssa.Function); ok {
						cg.Refs[f] = append(cg.Refs[f], fn)
						fvalSet[fn] = true
					}
				}
				var ops []*ssa.Value
				ops = in.Operands(ops)
				ci, isCall := in.(ssa.CallInstruction)
				for _, op := range ops {
					if op == nil || *op == nil {
						continue
					}
					fn, ok := (*op).(*ssa.Function)
					if !ok {
						continue
					}
					if isCall && ci.Common().Value == fn && !ci.Common().IsInvoke() {
						continue // call position
					}
					cg.Refs[f] = append(cg.Refs[f], fn)
					fvalSet[fn] = true
				}
			}
		}
	}
	for fn := range fvalSet {
		cg.fvals = append(cg.fvals, fn)
	}
	sort.Slice(cg.fvals, func(i, j int) bool { return cg.fvals[i].String() < cg.fvals[j].String() })
	// 2. sites
	for _, f := range w.funcsMod {
		for _, b := range f.Blocks {
			for _, in := range b.Instrs {
				ci, ok := in.(ssa.CallInstruction)
				if !ok {
					continue
				}
				s := cg.makeSite(f, ci)
				cg.Sites[f] = append(cg.Sites[f], s)
				for _, c := range s.Callees {
					cg.Callers[c] = append(cg.Callers[c], s)
				}
			}
		}
	}
	// 3. a call of a function-typed parameter: when the function's value is never taken and every static call site
	// passes a function literal, a named function or a bound method, the targets are exactly those
	for _, f := range w.funcsMod {
		if fvalSet[f] {
			continue
		}
		for _, s := range cg.Sites[f] {
			prm, ok := s.Common().Value.(*ssa.Parameter)
			if !ok || s.Invoke || s.Static != nil || prm.Parent() != f {
				continue
			}
			idx := -1
			for i, q := range f.Params {
				if q == prm {
					idx = i
				}
			}
			var exact []*ssa.Function
			complete := idx >= 0 && len(cg.Callers[f]) > 0
			for _, cs := range cg.Callers[f] {
				if cs.Static != f || idx >= len(cs.Common().Args) {
					complete = false
					break
				}
				var t *ssa.Function
				switch a := cs.Common().Args[idx].(type) {
				case *ssa.MakeClosure:
					t, _ = a.Fn.(*ssa.Function)
				case *ssa.Function:
					t = a
				}
				if t == nil {
					complete = false
					break
				}
				if t.Synthetic != "" && t.Object() != nil {
					if fo, ok := t.Object().(*types.Func); ok {
						if real := w.Prog.FuncValue(fo); real != nil && real.Blocks != nil && cg.isModuleFunc(real) {
							t = real
						}
					}
				}
				exact = append(exact, t)
			}
			if !complete {
				continue
			}
			// replace the signature-based candidates
			for _, old := range s.Callees {
				cs := cg.Callers[old]
				for i := 0; i < len(cs); i++ {
					if cs[i] == s {
						cs = append(cs[:i], cs[i+1:]...)
						i--
					}
				}
				cg.Callers[old] = cs
			}
			s.Callees = nil
			seen := map[*ssa.Function]bool{}
			for _, t := range exact {
				if seen[t] || !(cg.isModuleFunc(t) && t.Blocks != nil) {
					continue
				}
				seen[t] = true
				s.Callees = append(s.Callees, t)
				cg.Callers[t] = append(cg.Callers[t], s)
			}
		}
	}
	return cg
}

func (cg *CallGraph) makeSite(f *ssa.Function, ci ssa.CallInstruction) *Site {
	c := ci.Common()
	s := &Site{Caller: f, Instr: ci}
	if c.IsInvoke() {
		s.Invoke = true
		s.RecvType = c.Value.Type()
		s.Method = c.Method.Name()
		// CHA restricted to module types
		for _, fn := range cg.implsOf(c.Value.Type(), c.Method) {
			s.Callees = append(s.Callees, fn)
		}
		return s
	}
	if fn := c.StaticCallee(); fn != nil {
		s.Static = fn
		s.Method = fn.Name()
		if fn.Signature.Recv() != nil {
			s.RecvType = fn.Signature.Recv().Type()
		}
		target := fn
		// bound method closure / thunk wrappers: resolve to the declared method
		if fn.Synthetic != "" && fn.Object() != nil {
			if fo, ok := fn.Object().(*types.Func); ok {
				if real := cg.w.Prog.FuncValue(fo); real != nil && real != fn {
					target = real
					s.Static = real
				}
			}
		}
		if target.Blocks != nil && cg.isModuleFunc(target) {
			s.Callees = append(s.Callees, target)
		} else if target.Blocks == nil && cg.isModuleFunc(target) {
			// promoted-method wrapper without body: try the embedded method
			s.Callees = append(s.Callees, target)
		}
		return s
	}
	// call through a package-level function variable of a dependency (sdk.ZeroInt, sdkerrors.Wrapf): a leaf
	if g := funcVarOf(c.Value); g != nil && g.Pkg != nil && !strings.HasPrefix(g.Pkg.Pkg.Path(), modPath) {
		s.Method = g.Name()
		return s
	}
	// dynamic call through a function value: candidates are module functions whose value is taken, same signature
	sig := c.Signature()
	// a closure value built in this very function?
	if mc, ok := c.Value.(*ssa.MakeClosure); ok {
		if fn, ok := mc.Fn.(*ssa.Function); ok {
			s.Callees = append(s.Callees, fn)
			return s
		}
	}
	for _, fn := range cg.fvals {
		if types.Identical(fn.Signature, sig) || sameParamsResults(fn.Signature, sig) {
			// a bound method value (k.SetX handed on as a function): the declared method is what runs
			target := fn
			if fn.Synthetic != "" && fn.Object() != nil {
				if fo, ok := fn.Object().(*types.Func); ok {
					if real := cg.w.Prog.FuncValue(fo); real != nil && real != fn && real.Blocks != nil && cg.isModuleFunc(real) {
						target = real
					}
				}
			}
			s.Callees = append(s.Callees, target)
		}
	}
	s.Method = "<func value>"
	return s
}

func sameParamsResults(a, b *types.Signature) bool {
	return types.Identical(a.Params(), b.Params()) && types.Identical(a.Results(), b.Results()) && a.Variadic() == b.Variadic()
}

func (cg *CallGraph) isModuleFunc(f *ssa.Function) bool {
	p := f.Pkg
	for p == nil && f.Parent() != nil {
		f = f.Parent()
		p = f.Pkg
	}
	if p == nil {
		// instantiated generic or synthetic: use the object
		if f.Object() != nil && f.Object().Pkg() != nil {
			return strings.HasPrefix(f.Object().Pkg().Path(), modPath)
		}
		return false
	}
	return strings.HasPrefix(p.Pkg.Path(), modPath)
}

// implsOf returns module-defined concrete methods implementing iface.method (CHA over module types).
func (cg *CallGraph) implsOf(ifaceT types.Type, m *types.Func) []*ssa.Function {
	key := typeString(ifaceT) + "." + m.Name()
	if v, ok := cg.impls[key]; ok {
		return v
	}
	var out []*ssa.Function
	iface, ok := ifaceT.Underlying().(*types.Interface)
	if ok {
		for _, p := range cg.w.ModAll {
			if !inProdScope(p.PkgPath) {
				continue
			}
			sc := p.Types.Scope()
			for _, name := range sc.Names() {
				tn, ok := sc.Lookup(name).(*types.TypeName)
				if !ok || tn.IsAlias() {
					continue
				}
				if _, isIface := tn.Type().Underlying().(*types.Interface); isIface {
					continue
				}
				for _, T := range []types.Type{tn.Type(), types.NewPointer(tn.Type())} {
					if !types.Implements(T, iface) {
						continue
					}
					sel := cg.w.Prog.MethodSets.MethodSet(T).Lookup(m.Pkg(), m.Name())
					if sel == nil {
						continue
					}
					fo, _ := sel.Obj().(*types.Func)
					if fo == nil {
						continue
					}
					fn := cg.w.Prog.FuncValue(fo)
					if fn != nil && fn.Blocks != nil && cg.isModuleFunc(fn) {
						out = append(out, fn)
					}
					break
				}
			}
		}
	}
	// dedupe
	seen := map[*ssa.Function]bool{}
	var ded []*ssa.Function
	for _, f := range out {
		if !seen[f] {
			seen[f] = true
			ded = append(ded, f)
		}
	}
	cg.impls[key] = ded
	return ded
}

// Reach returns the set of module functions reachable from the roots (following resolved
// callees and function-value references), with one predecessor per function for path printing.
func (cg *CallGraph) Reach(roots []*ssa.Function) map[*ssa.Function]*ssa.Function {
	pred := map[*ssa.Function]*ssa.Function{}
	var q []*ssa.Function
	for _, r := range roots {
		if r == nil {
			continue
		}
		if _, ok := pred[r]; !ok {
			pred[r] = nil
			q = append(q, r)
		}
	}
	for len(q) > 0 {
		f := q[0]
		q = q[1:]
		next := func(g *ssa.Function) {
			if g == nil {
				return
			}
			if _, ok := pred[g]; ok {
				return
			}
			pred[g] = f
			q = append(q, g)
		}
		for _, s := range cg.Sites[f] {
			for _, c := range s.Callees {
				next(c)
			}
		}
		for _, g := range cg.Refs[f] {
			if cg.isModuleFunc(g) {
				next(g)
			}
		}
	}
	return pred
}

// PathTo renders the call chain root -> ... -> f from a Reach result.
func PathTo(pred map[*ssa.Function]*ssa.Function, f *ssa.Function) string {
	var chain []string
	for g := f; g != nil; g = pred[g] {
		chain = append(chain, funcName(g))
		if len(chain) > 12 {
			break
		}
	}
	for i, j := 0, len(chain)-1; i < j; i, j = i+1, j-1 {
		chain[i], chain[j] = chain[j], chain[i]
	}
	return strings.Join(chain, " -> ")
}

// SitesIn lists all call sites in the given function set, sorted by position.
func (cg *CallGraph) SitesIn(fs map[*ssa.Function]*ssa.Function) []*Site {
	var out []*Site
	for f := range fs {
		out = append(out, cg.Sites[f]...)
	}
	sort.Slice(out, func(i, j int) bool {
		pi, pj := cg.w.Fset.Position(out[i].Instr.Pos()), cg.w.Fset.Position(out[j].Instr.Pos())
		if pi.Filename != pj.Filename {
			return pi.Filename < pj.Filename
		}
		if pi.Line != pj.Line {
			return pi.Line < pj.Line
		}
		return pi.Column < pj.Column
	})
	return out
}
