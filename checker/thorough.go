package main

import (
	"fmt"
	"sort"
	"strings"
	"time"

	"golang.org/x/tools/go/callgraph"
	"golang.org/x/tools/go/callgraph/cha"
	"golang.org/x/tools/go/callgraph/vta"
	"golang.org/x/tools/go/ssa"
	"golang.org/x/tools/go/ssa/ssautil"
)

// Thorough tier: whole-program call graph (VTA seeded with CHA) over every function of every dependency,
// used to re-check the closed-world assumptions of the quick tier, in which SDK callees are leaves.

type wholeProgram struct {
	cg    *callgraph.Graph
	funcs int
	edges int
	secs  float64
}

func (w *World) WholeProgram() *wholeProgram {
	if w.wp != nil {
		return w.wp
	}
	t0 := time.Now()
	all := ssautil.AllFunctions(w.Prog)
	g := vta.CallGraph(all, cha.CallGraph(w.Prog))
	n, e := 0, 0
	for _, nd := range g.Nodes {
		n++
		e += len(nd.Out)
	}
	w.wp = &wholeProgram{cg: g, funcs: n, edges: e, secs: time.Since(t0).Seconds()}
	return w.wp
}

// reachWP returns the functions reachable from roots in the whole-program graph with one predecessor each.
func (wp *wholeProgram) reach(roots []*ssa.Function, stop func(*ssa.Function) bool) map[*ssa.Function]*ssa.Function {
	pred := map[*ssa.Function]*ssa.Function{}
	var q []*ssa.Function
	for _, r := range roots {
		if r == nil {
			continue
		}
		if _, ok := pred[r]; !ok {
			pred[r] = nil
			q = append(q, r)
		}
	}
	for len(q) > 0 {
		f := q[0]
		q = q[1:]
		if stop != nil && stop(f) {
			continue
		}
		nd := wp.cg.Nodes[f]
		if nd == nil {
			continue
		}
		for _, e := range nd.Out {
			c := e.Callee.Func
			if c == nil {
				continue
			}
			if _, ok := pred[c]; !ok {
				pred[c] = f
				q = append(q, c)
			}
		}
	}
	return pred
}

func wpPath(pred map[*ssa.Function]*ssa.Function, f *ssa.Function) string {
	var chain []string
	for g := f; g != nil; g = pred[g] {
		chain = append(chain, shortCallee(g.String()))
		if len(chain) > 14 {
			chain = append(chain, "...")
			break
		}
	}
	for i, j := 0, len(chain)-1; i < j; i, j = i+1, j-1 {
		chain[i], chain[j] = chain[j], chain[i]
	}
	return strings.Join(chain, " -> ")
}

// supplyFuncs: the SDK functions that change the total supply.
func isSupplyChanging(f *ssa.Function) string {
	s := f.String()
	switch {
	case strings.HasSuffix(s, "x/bank/keeper.BaseKeeper).MintCoins"):
		return "mint"
	case strings.HasSuffix(s, "x/bank/keeper.BaseKeeper).BurnCoins"):
		return "burn"
	case strings.HasSuffix(s, "x/bank/keeper.BaseKeeper).setSupply"):
		return "setSupply"
	}
	return ""
}

// closedWorldSupply (C01 thorough): through the SDK's own code as well, no custom message, query,
// ValidateBasic, genesis-validation or invariant entry point reaches bank MintCoins / BurnCoins / setSupply;
// the minter's block routine reaches MintCoins and the distributor's BurnCoins (positive controls).
func closedWorldSupply(w *World, r *Report, rule string) {
	ro := w.Roles()
	wp := w.WholeProgram()
	r.Analysed["whole_program"] = map[string]interface{}{"functions": wp.funcs, "edges": wp.edges, "vta_s": wp.secs}
	type es struct {
		name  string
		roots []*ssa.Function
	}
	// generated gRPC service descriptors are the only callers of handlers; start at the handlers themselves
	forbidden := []es{
		{"MSG cfevesting", ro.MSG["cfevesting"]}, {"MSG cfesignature", ro.MSG["cfesignature"]}, {"MSG cfeminter", ro.MSG["cfeminter"]}, {"MSG cfedistributor", ro.MSG["cfedistributor"]},
		{"QRY", flatten(ro.QRY)}, {"VB", flatten(ro.VB)}, {"GEN.validate", flatten(ro.VALGEN)},
	}
	for _, e := range forbidden {
		pred := wp.reach(e.roots, nil)
		var hits []string
		for f := range pred {
			if k := isSupplyChanging(f); k != "" {
				hits = append(hits, k+": "+wpPath(pred, f))
			}
		}
		sort.Strings(hits)
		if len(hits) == 0 {
			r.OK(rule, "closed world: "+e.name+" reaches no supply-changing bank function", "", fmt.Sprintf("%d functions reachable through module and SDK code, none of MintCoins/BurnCoins/setSupply", len(pred)))
		} else {
			r.Bad(rule, "closed world: "+e.name+" reaches no supply-changing bank function", "", "reachable through the whole-program call graph: "+strings.Join(hits, " | "))
		}
	}
	for _, pc := range []struct {
		name  string
		roots []*ssa.Function
		want  string
	}{{"BLK cfeminter reaches MintCoins", ro.BLK["cfeminter"], "mint"}, {"BLK cfedistributor reaches BurnCoins", ro.BLK["cfedistributor"], "burn"}} {
		pred := wp.reach(pc.roots, nil)
		found := false
		for f := range pred {
			if isSupplyChanging(f) == pc.want {
				found = true
			}
		}
		r.Check(found, rule, "positive control: "+pc.name, "", "the whole-program graph resolves the expected-keeper interface to the concrete bank keeper", "the whole-program graph does not connect the block routine to the bank keeper: the closed-world check would pass vacuously")
	}
}

// closedWorldAccounts (C09 thorough): account writes reachable from custom messages through SDK code are
// only the bank keeper's creation of a missing recipient account (HasAccount / GetAccount == nil guarded in
// the SDK) and the module sites enumerated by the quick tier.
func closedWorldAccounts(w *World, r *Report, rule string) {
	ro := w.Roles()
	wp := w.WholeProgram()
	pred := wp.reach(flatten(ro.MSG), nil)
	callers := map[string]bool{}
	for f := range pred {
		if !strings.HasSuffix(f.String(), "x/auth/keeper.AccountKeeper).SetAccount") {
			continue
		}
		nd := wp.cg.Nodes[f]
		for _, in := range nd.In {
			c := in.Caller.Func
			if _, ok := pred[c]; ok {
				callers[shortCallee(c.String())] = true
			}
		}
	}
	var cs []string
	for c := range callers {
		cs = append(cs, c)
	}
	sort.Strings(cs)
	allowedSDK := []string{
		"sdk/x/bank/keeper.BaseSendKeeper).SendCoins",                     // creates the recipient account if it does not exist (guarded by HasAccount in the SDK)
		"sdk/x/bank/keeper.BaseSendKeeper).InputOutputCoins",              // same
		"sdk/x/auth/keeper.AccountKeeper).GetModuleAccountAndPermissions", // creates a missing module account
		"sdk/x/auth/keeper.AccountKeeper).SetModuleAccount",
		"sdk/x/bank/keeper.BaseKeeper).trackDelegation", "sdk/x/bank/keeper.BaseKeeper).trackUndelegation",
	}
	for _, c := range cs {
		ok := false
		if strings.Contains(c, "c4e-chain/") || strings.HasPrefix(c, "(x/") || strings.HasPrefix(c, "(*x/") || strings.HasPrefix(c, "x/") {
			ok = true // module sites are the quick tier's C09.sites
		}
		for _, a := range allowedSDK {
			if strings.Contains(c, a) {
				ok = true
			}
		}
		if ok {
			r.Enum(rule, "closed world: SetAccount caller "+c, "", "module site (C09.sites) or SDK creation of a missing account")
		} else {
			r.Bad(rule, "closed world: SetAccount caller "+c, "", "an account write is reachable from a custom message through a function that is neither an enumerated module site nor a reviewed SDK path")
		}
	}
	r.Check(len(cs) > 0, rule, "positive control: SetAccount is reachable from the custom messages", "", fmt.Sprintf("%d distinct callers", len(cs)), "the whole-program graph does not reach the account keeper: vacuous")
}
