package main

import (
	"fmt"
	"go/ast"
	"go/token"
	"go/types"
	"os"
	"path/filepath"
	"sort"
	"strings"
	"time"

	"golang.org/x/tools/go/packages"
	"golang.org/x/tools/go/ssa"
	"golang.org/x/tools/go/ssa/ssautil"
)

const modPath = "github.com/chain4energy/c4e-chain"

// World is the loaded, type-checked and SSA-converted program (P1).
type World struct {
	Repo     string
	Tier     string
	Fset     *token.FileSet
	All      []*packages.Package          // every package of the build, deps included
	Mod      []*packages.Package          // packages of the module, production scope
	ModAll   []*packages.Package          // packages of the module, any scope
	ByPath   map[string]*packages.Package // by import path
	Prog     *ssa.Program
	SSA      map[string]*ssa.Package // module packages by import path
	LoadS    float64
	SSAS     float64
	Promoted int      // captured locals promoted to registers (mem2reg.go)
	Renamed  []string // unexported helpers recognised under a new name (renames.go)
	selFn    *ssa.Function
	NFuncs   int
	funcsMod []*ssa.Function // all functions (incl. anonymous) of production module packages
	cg       *CallGraph
	wp       *wholeProgram
}

// inProdScope reports whether a module package path belongs to the production scope.
func inProdScope(path string) bool {
	if !strings.HasPrefix(path, modPath) {
		return false
	}
	rel := strings.TrimPrefix(strings.TrimPrefix(path, modPath), "/")
	switch {
	case rel == "":
		return false
	case strings.HasPrefix(rel, "testutil"), strings.HasPrefix(rel, "tests"):
		return false
	case strings.HasSuffix(rel, "/simulation"), strings.HasSuffix(rel, "/client/cli"):
		return false
	case strings.Contains(rel, "/client/"):
		return false
	}
	return true
}

func isGeneratedFile(name string) bool {
	return strings.HasSuffix(name, ".pb.go") || strings.HasSuffix(name, ".pb.gw.go")
}

func isSimulationFile(name string) bool {
	b := filepath.Base(name)
	return b == "module_simulation.go" || strings.HasSuffix(b, "_test.go")
}

// LoadWorld loads /repo (P1). Any load or type error makes the caller fail (undecided).
func LoadWorld(repo, tier string) (*World, error) {
	t0 := time.Now()
	env := append(os.Environ(), "GOFLAGS=-mod=mod", "GOPROXY=off", "GOSUMDB=off", "GOTOOLCHAIN=local", "GOWORK=off")
	cfg := &packages.Config{
		Mode:  packages.LoadAllSyntax,
		Dir:   repo,
		Env:   env,
		Tests: false,
	}
	pkgs, err := packages.Load(cfg, "./...")
	if err != nil {
		return nil, fmt.Errorf("packages.Load: %w", err)
	}
	w := &World{Repo: repo, Tier: tier, ByPath: map[string]*packages.Package{}, SSA: map[string]*ssa.Package{}}
	var errs []string
	packages.Visit(pkgs, nil, func(p *packages.Package) {
		w.All = append(w.All, p)
		w.ByPath[p.PkgPath] = p
		if strings.HasPrefix(p.PkgPath, modPath) {
			for _, e := range p.Errors {
				errs = append(errs, e.Error())
			}
		}
	})
	if len(errs) > 0 {
		sort.Strings(errs)
		if len(errs) > 10 {
			errs = errs[:10]
		}
		return nil, fmt.Errorf("type errors in module packages: %s", strings.Join(errs, "; "))
	}
	for _, p := range pkgs {
		if p.Fset != nil {
			w.Fset = p.Fset
		}
		if strings.HasPrefix(p.PkgPath, modPath) {
			w.ModAll = append(w.ModAll, p)
			if inProdScope(p.PkgPath) {
				w.Mod = append(w.Mod, p)
			}
		}
	}
	sort.Slice(w.Mod, func(i, j int) bool { return w.Mod[i].PkgPath < w.Mod[j].PkgPath })
	if len(w.ModAll) < 55 {
		return nil, fmt.Errorf("only %d module packages loaded (floor 55)", len(w.ModAll))
	}
	if len(w.Mod) < 30 {
		return nil, fmt.Errorf("only %d production-scope module packages loaded (floor 30)", len(w.Mod))
	}
	w.LoadS = time.Since(t0).Seconds()

	t1 := time.Now()
	prog, _ := ssautil.AllPackages(pkgs, ssa.InstantiateGenerics)
	w.Prog = prog
	if tier == "thorough" {
		prog.Build()
	}
	for _, p := range w.ModAll {
		sp := prog.Package(p.Types)
		if sp == nil {
			return nil, fmt.Errorf("no SSA package for %s", p.PkgPath)
		}
		sp.Build()
		w.SSA[p.PkgPath] = sp
	}
	w.SSAS = time.Since(t1).Seconds()
	w.collectFuncs()
	w.resolveRenames()
	// register promotion of locals that are only *read* by function literals (mem2reg.go): whether a logging or
	// telemetry closure mentions a variable must not change what the rules see of the enclosing function
	if os.Getenv("C4E_NOPROMOTE") == "" {
		for _, f := range w.funcsMod {
			w.Promoted += promoteCaptured(f)
		}
	}
	return w, nil
}

func (w *World) collectFuncs() {
	seen := map[*ssa.Function]bool{}
	var add func(f *ssa.Function)
	add = func(f *ssa.Function) {
		if f == nil || seen[f] {
			return
		}
		seen[f] = true
		if f.Blocks != nil {
			w.funcsMod = append(w.funcsMod, f)
		}
		for _, a := range f.AnonFuncs {
			add(a)
		}
	}
	for _, p := range w.Mod {
		sp := w.SSA[p.PkgPath]
		for _, m := range sp.Members {
			switch m := m.(type) {
			case *ssa.Function:
				add(m)
			case *ssa.Type:
				for _, T := range []types.Type{m.Type(), types.NewPointer(m.Type())} {
					ms := w.Prog.MethodSets.MethodSet(T)
					for i := 0; i < ms.Len(); i++ {
						fn := w.Prog.MethodValue(ms.At(i))
						if fn != nil && fn.Pkg == sp && fn.Synthetic == "" {
							add(fn)
						}
					}
				}
			}
		}
	}
	// instantiations of the module's generic functions are not package members: they are found at their call sites
	for i := 0; i < len(w.funcsMod); i++ {
		for _, b := range w.funcsMod[i].Blocks {
			for _, in := range b.Instrs {
				ci, ok := in.(ssa.CallInstruction)
				if !ok {
					continue
				}
				fn := ci.Common().StaticCallee()
				if fn == nil || fn.Origin() == nil || fn.Origin() == fn || !seen[fn.Origin()] {
					continue
				}
				add(fn)
			}
		}
	}
	sort.Slice(w.funcsMod, func(i, j int) bool { return w.funcsMod[i].String() < w.funcsMod[j].String() })
	w.NFuncs = len(w.funcsMod)
}

// ProdFuncs returns production-scope module functions with bodies, skipping generated files.
func (w *World) ProdFuncs() []*ssa.Function {
	var out []*ssa.Function
	for _, f := range w.funcsMod {
		if w.isProdFunc(f) {
			out = append(out, f)
		}
	}
	return out
}

func (w *World) isProdFunc(f *ssa.Function) bool {
	if f == nil || f.Blocks == nil {
		return false
	}
	pkg := f.Pkg
	if pkg == nil && f.Parent() != nil {
		pkg = f.Parent().Pkg
	}
	if pkg == nil && f.Origin() != nil {
		pkg = f.Origin().Pkg // an instantiation of a generic function of the module
	}
	if pkg == nil || !inProdScope(pkg.Pkg.Path()) {
		return false
	}
	file := w.FileOf(f.Pos())
	if file == "" {
		// synthetic
		return false
	}
	if isGeneratedFile(file) || isSimulationFile(file) {
		return false
	}
	return true
}

func (w *World) FileOf(p token.Pos) string {
	if !p.IsValid() {
		return ""
	}
	return w.Fset.Position(p).Filename
}

// Pos renders a position relative to the repository root.
func (w *World) Pos(p token.Pos) string {
	if !p.IsValid() {
		return "?"
	}
	pos := w.Fset.Position(p)
	rel, err := filepath.Rel(w.Repo, pos.Filename)
	if err != nil || strings.HasPrefix(rel, "..") {
		rel = pos.Filename
		if i := strings.Index(rel, "/pkg/mod/"); i >= 0 {
			rel = rel[i+len("/pkg/mod/"):]
		}
	}
	return fmt.Sprintf("%s:%d", rel, pos.Line)
}

// Pkg returns the SSA package for a module-relative path such as "x/cfeminter/keeper".
func (w *World) Pkg(rel string) *ssa.Package {
	return w.SSA[modPath+"/"+rel]
}

func (w *World) TPkg(rel string) *packages.Package {
	return w.ByPath[modPath+"/"+rel]
}

// Func resolves "x/cfeminter/keeper.Keeper.Mint" or "x/cfeminter.BeginBlocker" (an anchor).
// It returns nil when the anchor does not resolve; callers must report that as undecided.
func (w *World) Func(anchor string) *ssa.Function {
	if f, ok := renamedFrom[anchor]; ok {
		return f
	}
	i := strings.LastIndex(anchor, "/")
	rest := anchor[i+1:]
	parts := strings.Split(rest, ".")
	pkgRel := anchor[:i+1] + parts[0]
	sp := w.Pkg(pkgRel)
	if sp == nil {
		return nil
	}
	switch len(parts) {
	case 2:
		return sp.Func(parts[1])
	case 3:
		tm := sp.Type(parts[1])
		if tm == nil {
			return nil
		}
		for _, T := range []types.Type{tm.Type(), types.NewPointer(tm.Type())} {
			ms := w.Prog.MethodSets.MethodSet(T)
			for j := 0; j < ms.Len(); j++ {
				if ms.At(j).Obj().Name() == parts[2] {
					fn := w.Prog.MethodValue(ms.At(j))
					// prefer the declared method (not a promoted wrapper)
					if fn != nil && fn.Synthetic == "" {
						return fn
					}
				}
			}
		}
		// promoted method: resolve to the underlying declared function
		for _, T := range []types.Type{tm.Type(), types.NewPointer(tm.Type())} {
			ms := w.Prog.MethodSets.MethodSet(T)
			for j := 0; j < ms.Len(); j++ {
				if ms.At(j).Obj().Name() == parts[2] {
					if fobj, ok := ms.At(j).Obj().(*types.Func); ok {
						if fn := w.Prog.FuncValue(fobj); fn != nil {
							return fn
						}
					}
				}
			}
		}
	}
	return nil
}

// NamedType resolves "x/cfeminter/types.MinterState".
func (w *World) NamedType(anchor string) *types.Named {
	i := strings.LastIndex(anchor, ".")
	p := w.TPkg(anchor[:i])
	if p == nil {
		return nil
	}
	o := p.Types.Scope().Lookup(anchor[i+1:])
	if o == nil {
		return nil
	}
	n, _ := o.Type().(*types.Named)
	return n
}

// FuncDecl returns the AST declaration of an SSA function, if it has one.
func (w *World) FuncDecl(f *ssa.Function) *ast.FuncDecl {
	if f == nil {
		return nil
	}
	if d, ok := f.Syntax().(*ast.FuncDecl); ok {
		return d
	}
	return nil
}

// funcName gives a stable short name for constructs: pkgrel.Recv.Name or pkgrel.Name$1.
func funcName(f *ssa.Function) string {
	if f == nil {
		return "<nil>"
	}
	if old, ok := renamedTo[f]; ok {
		return old // a renamed unexported helper keeps its reviewed name inside the checker (renames.go)
	}
	if p := f.Parent(); p != nil {
		if _, ok := renamedTo[p]; ok {
			// a function literal of a renamed helper: "<old name>$n"
			return funcName(p) + strings.TrimPrefix(rawFuncName(f), rawFuncName(p))
		}
	}
	return rawFuncName(f)
}

func rawFuncName(f *ssa.Function) string {
	s := f.String()
	s = strings.ReplaceAll(s, modPath+"/", "")
	s = strings.ReplaceAll(s, "(*", "")
	s = strings.ReplaceAll(s, "(", "")
	s = strings.ReplaceAll(s, ")", "")
	return s
}
