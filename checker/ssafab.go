package main

import (
	"go/token"
	"go/types"
	"reflect"
	"strings"
	"unsafe"

	"golang.org/x/tools/go/ssa"
)

// Translation of a callee's values into the caller's terms (used to evaluate bool-returning helpers under an
// abstract assumption, P7 interprocedural). A callee value that is built from the callee's parameters by loads,
// field selections and calls is rebuilt over the caller's arguments as a *detached* SSA value (not part of any block):
// the rules' term recognisers only look at the shape (operator, operands, callee, type) of a value, so a detached
// value of the same shape and type is recognised exactly like an inlined copy of the helper's expression would be.

// setRegType sets the unexported result type of a detached SSA register value.
func setRegType(v interface{}, t types.Type) {
	rv := reflect.ValueOf(v).Elem().FieldByName("register").FieldByName("typ")
	reflect.NewAt(rv.Type(), unsafe.Pointer(rv.UnsafeAddr())).Elem().Set(reflect.ValueOf(&t).Elem())
}

// translateValue rebuilds v (a value of a callee) over bind (callee parameter -> caller value). Values that do not
// depend on a parameter are returned unchanged; nil is never returned.
func translateValue(v ssa.Value, bind map[*ssa.Parameter]ssa.Value, depth int) ssa.Value {
	if depth > 8 || v == nil {
		return v
	}
	switch x := v.(type) {
	case *ssa.Parameter:
		if b, ok := bind[x]; ok && b != nil {
			return b
		}
		return v
	case *ssa.UnOp:
		if x.Op == token.MUL {
			// load of a spilled parameter
			if al, ok := x.X.(*ssa.Alloc); ok {
				var only ssa.Value
				n := 0
				for _, ref := range *al.Referrers() {
					if s, ok := ref.(*ssa.Store); ok && s.Addr == ssa.Value(al) {
						n++
						only = s.Val
					}
				}
				if n == 1 {
					return translateValue(only, bind, depth+1)
				}
				return v
			}
		}
		if x.Op == token.MUL {
			// load of a field of a spilled struct parameter: the field of the struct value handed in
			if fa, ok := x.X.(*ssa.FieldAddr); ok {
				if al, ok := fa.X.(*ssa.Alloc); ok {
					if sv := spilledValue(al); sv != nil {
						tv := translateValue(sv, bind, depth+1)
						if tv != sv {
							if lv := literalFieldValue(tv, fa.Field); lv != nil {
								return lv
							}
							f := &ssa.Field{X: tv, Field: fa.Field}
							setRegType(f, x.Type())
							return f
						}
					}
				}
			}
		}
		tx := translateValue(x.X, bind, depth+1)
		if tx == x.X {
			return v
		}
		u := &ssa.UnOp{Op: x.Op, X: tx, CommaOk: x.CommaOk}
		setRegType(u, x.Type())
		return u
	case *ssa.FieldAddr:
		tx := translateValue(x.X, bind, depth+1)
		if tx == x.X {
			return v
		}
		f := &ssa.FieldAddr{X: tx, Field: x.Field}
		setRegType(f, x.Type())
		return f
	case *ssa.Field:
		tx := translateValue(x.X, bind, depth+1)
		if tx == x.X {
			return v
		}
		if lv := literalFieldValue(tx, x.Field); lv != nil {
			return lv
		}
		f := &ssa.Field{X: tx, Field: x.Field}
		setRegType(f, x.Type())
		return f
	case *ssa.BinOp:
		tx, ty := translateValue(x.X, bind, depth+1), translateValue(x.Y, bind, depth+1)
		if tx == x.X && ty == x.Y {
			return v
		}
		b := &ssa.BinOp{Op: x.Op, X: tx, Y: ty}
		setRegType(b, x.Type())
		return b
	case *ssa.Call:
		cc := x.Common()
		changed := false
		nv := cc.Value
		if cc.IsInvoke() {
			nv = translateValue(cc.Value, bind, depth+1)
			changed = nv != cc.Value
		}
		args := make([]ssa.Value, len(cc.Args))
		for i, a := range cc.Args {
			args[i] = translateValue(a, bind, depth+1)
			if args[i] != a {
				changed = true
			}
		}
		if !changed {
			return v
		}
		c := &ssa.Call{Call: ssa.CallCommon{Value: nv, Method: cc.Method, Args: args}}
		setRegType(c, x.Type())
		return c
	case *ssa.ChangeType:
		tx := translateValue(x.X, bind, depth+1)
		if tx == x.X {
			return v
		}
		c := &ssa.ChangeType{X: tx}
		setRegType(c, x.Type())
		return c
	case *ssa.Convert:
		tx := translateValue(x.X, bind, depth+1)
		if tx == x.X {
			return v
		}
		c := &ssa.Convert{X: tx}
		setRegType(c, x.Type())
		return c
	}
	return v
}

// boolHelper returns the static module callee of a call whose single result is a bool and whose body is available.
func boolHelper(c *ssa.Call) *ssa.Function {
	fn := c.Common().StaticCallee()
	if fn == nil || len(fn.Blocks) == 0 || !strings.HasPrefix(pkgPathOf(fn), modPath) {
		return nil // (pkgPathOf: an instance of a generic helper belongs to the package of its origin)
	}
	res := fn.Signature.Results()
	if res.Len() != 1 {
		return nil
	}
	if b, ok := res.At(0).Type().Underlying().(*types.Basic); !ok || b.Kind() != types.Bool {
		return nil
	}
	return fn
}

// bindParams maps the callee's parameters to the call's arguments (receiver first for methods).
func bindParams(fn *ssa.Function, c *ssa.Call) map[*ssa.Parameter]ssa.Value {
	bind := map[*ssa.Parameter]ssa.Value{}
	args := c.Common().Args
	for i, p := range fn.Params {
		if i < len(args) {
			bind[p] = args[i]
		}
	}
	return bind
}

// isDetached: v is a value rebuilt by translateValue (it belongs to no block).
func isDetached(v ssa.Value) bool {
	in, ok := v.(ssa.Instruction)
	return ok && in.Block() == nil
}

// parentOf: the function a value belongs to (nil for detached values, constants, globals).
func parentOf(v ssa.Value) *ssa.Function {
	switch x := v.(type) {
	case *ssa.Parameter:
		return x.Parent()
	case *ssa.FreeVar:
		return x.Parent()
	case ssa.Instruction:
		if x.Block() == nil {
			return nil
		}
		return x.Parent()
	}
	return nil
}

// spilledValue: the alloc holds a value stored into it exactly once as a whole and is otherwise only read (loads of
// the whole or of fields); returns that value.
func spilledValue(al *ssa.Alloc) ssa.Value {
	if al.Referrers() == nil {
		return nil
	}
	var val ssa.Value
	n := 0
	for _, ref := range *al.Referrers() {
		switch r := ref.(type) {
		case *ssa.Store:
			if r.Addr != ssa.Value(al) {
				return nil
			}
			val = r.Val
			n++
		case *ssa.FieldAddr:
			if r.Referrers() != nil {
				for _, r2 := range *r.Referrers() {
					if st, ok := r2.(*ssa.Store); ok && st.Addr == ssa.Value(r) {
						return nil
					}
				}
			}
		}
	}
	if n != 1 {
		return nil
	}
	return val
}

// literalFieldValue: sv is the value of a local composite literal (a load of an Alloc that is only built field by field
// and read as a whole): the value stored into field #field (nil when sv is not such a load, the field is not assigned
// exactly once, or the struct's address is used in any other way). A small struct built at a call site to carry
// arguments (`f(run, target{account: a, amount: x})`) is thereby transparent: the callee's `target.amount` is x.
func literalFieldValue(sv ssa.Value, field int) ssa.Value {
	u, ok := sv.(*ssa.UnOp)
	if !ok || u.Op != token.MUL {
		return nil
	}
	al, ok := u.X.(*ssa.Alloc)
	if !ok || al.Referrers() == nil {
		return nil
	}
	var val ssa.Value
	n := 0
	for _, ref := range *al.Referrers() {
		switch r := ref.(type) {
		case *ssa.FieldAddr:
			if r.Referrers() == nil {
				continue
			}
			for _, r2 := range *r.Referrers() {
				switch y := r2.(type) {
				case *ssa.Store:
					if y.Addr != ssa.Value(r) {
						return nil
					}
					if r.Field == field {
						val = y.Val
						n++
					}
				case *ssa.UnOp, *ssa.DebugRef:
				default:
					return nil
				}
			}
		case *ssa.UnOp:
			if r.Op != token.MUL {
				return nil
			}
		case *ssa.DebugRef:
		default:
			return nil
		}
	}
	if n != 1 {
		return nil
	}
	return val
}

// literalArgFields: the values a composite-literal argument carries (field index -> value), nil when arg is not a
// load of a local literal.
func literalArgFields(arg ssa.Value) map[int]ssa.Value {
	u, ok := arg.(*ssa.UnOp)
	if !ok || u.Op != token.MUL {
		return nil
	}
	al, ok := u.X.(*ssa.Alloc)
	if !ok {
		return nil
	}
	st, ok := al.Type().Underlying().(*types.Pointer).Elem().Underlying().(*types.Struct)
	if !ok {
		return nil
	}
	out := map[int]ssa.Value{}
	for i := 0; i < st.NumFields(); i++ {
		if v := literalFieldValue(arg, i); v != nil {
			out[i] = v
		}
	}
	if len(out) == 0 {
		return nil
	}
	return out
}
