package main

import (
	"go/token"
	"sort"
	"strings"

	"golang.org/x/tools/go/ssa"
)

// Bind marks the parameters of the current function that carry a value of interest
// (e.g. the message's authority string passed one call down).
type Bind map[*ssa.Parameter]bool

// GuardSpec describes a guard: for a function (and the bound parameters) it yields the passing edges.
type GuardSpec struct {
	Name  string
	Edges func(fn *ssa.Function, bind Bind, isVal func(ssa.Value) bool) []Edge
	// IsVal recognises the value of interest in the entry function.
	IsVal func(v ssa.Value) bool
	// ValueFree: the guard is not about a value handed down (e.g. a type test of what the function itself reads)
	ValueFree bool
}

// CoverResult is one target site with the verdict.
type CoverResult struct {
	Site    *Site
	Chain   []*Site // call chain from the entry to the function containing Site
	Covered bool
	By      string // function in which the guard edge dominates
}

// GuardCover decides, for every target site reachable from entry, whether on every path from entry
// to it a passing edge of the guard is taken (in the entry or in a function on the call chain).
func (cg *CallGraph) GuardCover(entry *ssa.Function, target func(*Site) bool, g GuardSpec, maxDepth int) []CoverResult {
	contains := map[*ssa.Function]int{} // 0 unknown, 1 yes, 2 no, 3 in progress
	var has func(f *ssa.Function) bool
	has = func(f *ssa.Function) bool {
		switch contains[f] {
		case 1:
			return true
		case 2, 3:
			return false
		}
		contains[f] = 3
		res := false
		for _, s := range cg.Sites[f] {
			if target(s) {
				res = true
			}
			for _, c := range s.Callees {
				if has(c) {
					res = true
				}
			}
		}
		for _, r := range cg.Refs[f] {
			if cg.isModuleFunc(r) && r.Blocks != nil && has(r) {
				res = true
			}
		}
		if res {
			contains[f] = 1
		} else {
			contains[f] = 2
		}
		return res
	}
	var out []CoverResult
	var walk func(fn *ssa.Function, bind Bind, chain []*Site, depth int, onstack map[*ssa.Function]bool)
	walk = func(fn *ssa.Function, bind Bind, chain []*Site, depth int, onstack map[*ssa.Function]bool) {
		if onstack[fn] {
			return
		}
		onstack[fn] = true
		defer delete(onstack, fn)
		edges, isVal := cg.guardEdgesIn(fn, bind, g, depth)
		for _, s := range cg.Sites[fn] {
			blk := s.Instr.Block()
			if target(s) {
				ok := MustPass(fn, edges, blk)
				out = append(out, CoverResult{Site: s, Chain: append([]*Site{}, chain...), Covered: ok, By: funcName(fn)})
				continue
			}
			for _, c := range s.Callees {
				if !has(c) {
					continue
				}
				if MustPass(fn, edges, blk) {
					// everything below this call is covered
					for _, t := range cg.targetsBelow(c, target, map[*ssa.Function]bool{}) {
						out = append(out, CoverResult{Site: t, Chain: append(append([]*Site{}, chain...), s), Covered: true, By: funcName(fn)})
					}
					continue
				}
				if depth >= maxDepth {
					for _, t := range cg.targetsBelow(c, target, map[*ssa.Function]bool{}) {
						out = append(out, CoverResult{Site: t, Chain: append(append([]*Site{}, chain...), s), Covered: false, By: ""})
					}
					continue
				}
				nb := Bind{}
				args := s.Common().Args
				off := 0
				if s.Common().IsInvoke() {
					off = 1
				}
				for i, p := range c.Params {
					ai := i - off
					if ai >= 0 && ai < len(args) && isVal(args[ai]) {
						nb[p] = true
					}
				}
				walk(c, nb, append(chain, s), depth+1, onstack)
			}
		}
		// closures defined in fn that contain targets (e.g. deferred funcs) are walked with the same binding depth
		for _, r := range cg.Refs[fn] {
			if r.Parent() == fn && has(r) {
				walk(r, Bind{}, chain, depth+1, onstack)
			}
		}
	}
	walk(entry, Bind{}, nil, 0, map[*ssa.Function]bool{})
	sort.SliceStable(out, func(i, j int) bool { return out[i].Site.Instr.Pos() < out[j].Site.Instr.Pos() })
	return out
}

func (cg *CallGraph) targetsBelow(f *ssa.Function, target func(*Site) bool, seen map[*ssa.Function]bool) []*Site {
	if seen[f] {
		return nil
	}
	seen[f] = true
	var out []*Site
	for _, s := range cg.Sites[f] {
		if target(s) {
			out = append(out, s)
		}
		for _, c := range s.Callees {
			out = append(out, cg.targetsBelow(c, target, seen)...)
		}
	}
	for _, r := range cg.Refs[f] {
		if cg.isModuleFunc(r) && r.Blocks != nil {
			out = append(out, cg.targetsBelow(r, target, seen)...)
		}
	}
	return out
}

func chainString(chain []*Site, last *Site) string {
	var parts []string
	for _, s := range chain {
		parts = append(parts, funcName(s.Caller))
	}
	if last != nil {
		parts = append(parts, funcName(last.Caller))
	}
	return strings.Join(parts, " -> ")
}

// boolCallEdges: edges on which a bool-returning call matching `match` yields `want`.
func boolCallEdges(fn *ssa.Function, match func(c *ssa.Call) bool, want bool) []Edge {
	return EdgesWhere(fn, func(base ssa.Value) (bool, bool) {
		c, ok := base.(*ssa.Call)
		if !ok || !match(c) {
			return false, false
		}
		return want, true
	})
}

// eqEdges: edges on which x == y holds for an (in)equality test whose operands satisfy px / py (either order).
func eqEdges(fn *ssa.Function, px, py func(ssa.Value) bool) []Edge {
	return EdgesWhere(fn, func(base ssa.Value) (bool, bool) {
		bo, ok := base.(*ssa.BinOp)
		if !ok || (bo.Op != token.EQL && bo.Op != token.NEQ) {
			return false, false
		}
		if !((px(bo.X) && py(bo.Y)) || (px(bo.Y) && py(bo.X))) {
			return false, false
		}
		return bo.Op == token.EQL, true
	})
}

// guardEdgesIn: the passing edges of guard g in fn - its own, plus the nil edge of the error of every helper call
// into which the guard was moved: a helper that returns an error, is handed the value of interest (when the guard is
// about a value) and whose every may-be-nil-error return is dominated by a passing edge of the guard inside it.
// Also returns the recogniser of the value of interest in fn.
func (cg *CallGraph) guardEdgesIn(fn *ssa.Function, bind Bind, g GuardSpec, depth int) ([]Edge, func(ssa.Value) bool) {
	mkIsVal := func(bind Bind, depth int) func(ssa.Value) bool {
		return func(v ssa.Value) bool {
			if p, ok := v.(*ssa.Parameter); ok && bind[p] {
				return true
			}
			// spilled bound parameter
			if u, ok := v.(*ssa.UnOp); ok && u.Op == token.MUL {
				if a, ok := u.X.(*ssa.Alloc); ok {
					for _, ref := range *a.Referrers() {
						if s, ok := ref.(*ssa.Store); ok && s.Addr == a {
							if p, ok := s.Val.(*ssa.Parameter); ok && bind[p] {
								return true
							}
						}
					}
				}
			}
			if depth == 0 && g.IsVal != nil {
				return g.IsVal(v)
			}
			return false
		}
	}
	isVal := mkIsVal(bind, depth)
	edges := g.Edges(fn, bind, isVal)
	if depth > 3 {
		return edges, isVal
	}
	for _, s := range cg.Sites[fn] {
		h := s.Common().StaticCallee()
		call, isCall := s.Instr.(*ssa.Call)
		if h == nil || !isCall || h.Blocks == nil || !cg.isModuleFunc(h) || h == fn {
			continue
		}
		res := h.Signature.Results()
		if res.Len() == 0 || !isErrorType(res.At(res.Len()-1).Type()) {
			continue
		}
		nb := Bind{}
		for i, p := range h.Params {
			if i < len(call.Call.Args) && isVal(call.Call.Args[i]) {
				nb[p] = true
			}
		}
		if len(nb) == 0 && !g.ValueFree {
			continue
		}
		if cg.successRequires(h, nb, g, depth+1) {
			edges = append(edges, NilEdges(fn, errValues(fn, call), true)...)
		}
	}
	return edges, isVal
}

// successRequires: the error-returning function fn returns a nil error only when the guard passed: every return whose
// error may be nil lies behind a passing edge of the guard (its own, or the success of a helper into which the guard
// was moved), or returns the very error of such a helper (`return helper(x)`).
func (cg *CallGraph) successRequires(fn *ssa.Function, bind Bind, g GuardSpec, depth int) bool {
	if depth > 4 {
		return false
	}
	edges, isVal := cg.guardEdgesIn(fn, bind, g, depth)
	n := 0
	for _, ret := range Returns(fn) {
		rv := retVals(ret)
		if len(rv) == 0 {
			continue
		}
		last := rv[len(rv)-1]
		if !isErrorType(last.Type()) {
			return false
		}
		if nonNilAt(last, ret.Block(), 0) {
			continue // a failing return
		}
		n++
		if len(edges) > 0 && MustPass(fn, edges, ret.Block()) {
			continue
		}
		// the error returned is the error of a helper that itself succeeds only when the guard passed
		var call *ssa.Call
		switch x := last.(type) {
		case *ssa.Call:
			call = x
		case *ssa.Extract:
			call, _ = x.Tuple.(*ssa.Call)
		}
		ok := false
		if call != nil && !call.Common().IsInvoke() {
			if h := call.Common().StaticCallee(); h != nil && h.Blocks != nil && cg.isModuleFunc(h) && h != fn {
				nb := Bind{}
				for i, p := range h.Params {
					if i < len(call.Call.Args) && isVal(call.Call.Args[i]) {
						nb[p] = true
					}
				}
				if len(nb) > 0 || g.ValueFree {
					ok = cg.successRequires(h, nb, g, depth+1)
				}
			}
		}
		if !ok {
			return false
		}
	}
	return n > 0
}
