package main

import (
	"go/types"
	"sort"
	"strings"

	"golang.org/x/tools/go/ssa"
)

var customModules = []string{"cfedistributor", "cfeminter", "cfesignature", "cfevesting"}

// Roles are the entry sets discovered by type (P2).
type Roles struct {
	MSG    map[string][]*ssa.Function // per module: message handlers
	QRY    map[string][]*ssa.Function // per module: query handlers
	VB     map[string][]*ssa.Function // per module: ValidateBasic of sdk.Msg types
	MsgTyp map[string][]*types.Named  // per module: sdk.Msg types
	BLK    map[string][]*ssa.Function // per module: AppModule.BeginBlock / EndBlock
	INIT   map[string][]*ssa.Function // per module: AppModule.InitGenesis
	EXPORT map[string][]*ssa.Function // per module: AppModule.ExportGenesis
	VALGEN map[string][]*ssa.Function // per module: AppModuleBasic.ValidateGenesis
	MIG    map[string][]*ssa.Function // per module: Migrator methods
	INV    map[string][]*ssa.Function // per module: RegisterInvariants
	UPG    []*ssa.Function            // upgrade handler closures
	Errs   []string
}

func (w *World) methodOf(T types.Type, name string) *ssa.Function {
	for _, t := range []types.Type{T, types.NewPointer(T)} {
		ms := w.Prog.MethodSets.MethodSet(t)
		for i := 0; i < ms.Len(); i++ {
			if ms.At(i).Obj().Name() == name {
				if fo, ok := ms.At(i).Obj().(*types.Func); ok {
					if fn := w.Prog.FuncValue(fo); fn != nil {
						return fn
					}
				}
			}
		}
	}
	return nil
}

func lookupIface(p *types.Package, name string) *types.Interface {
	o := p.Scope().Lookup(name)
	if o == nil {
		return nil
	}
	i, _ := o.Type().Underlying().(*types.Interface)
	return i
}

func (w *World) Roles() *Roles {
	r := &Roles{MSG: map[string][]*ssa.Function{}, QRY: map[string][]*ssa.Function{}, VB: map[string][]*ssa.Function{},
		MsgTyp: map[string][]*types.Named{}, BLK: map[string][]*ssa.Function{}, INIT: map[string][]*ssa.Function{},
		EXPORT: map[string][]*ssa.Function{}, VALGEN: map[string][]*ssa.Function{}, MIG: map[string][]*ssa.Function{}, INV: map[string][]*ssa.Function{}}
	sdkTypes := w.ByPath["github.com/cosmos/cosmos-sdk/types"]
	var sdkMsg *types.Interface
	if sdkTypes != nil {
		sdkMsg = lookupIface(sdkTypes.Types, "Msg")
	}
	if sdkMsg == nil {
		r.Errs = append(r.Errs, "sdk.Msg interface not found")
	}
	for _, m := range customModules {
		tp := w.TPkg("x/" + m + "/types")
		kp := w.TPkg("x/" + m + "/keeper")
		mp := w.TPkg("x/" + m)
		if tp == nil || kp == nil || mp == nil {
			r.Errs = append(r.Errs, "module packages of "+m+" not found")
			continue
		}
		for _, spec := range []struct {
			iface string
			dst   map[string][]*ssa.Function
		}{{"MsgServer", r.MSG}, {"QueryServer", r.QRY}} {
			iface := lookupIface(tp.Types, spec.iface)
			if iface == nil {
				r.Errs = append(r.Errs, m+": interface types."+spec.iface+" not found")
				continue
			}
			// the implementing type in the keeper package
			var impl types.Type
			sc := kp.Types.Scope()
			for _, name := range sc.Names() {
				tn, ok := sc.Lookup(name).(*types.TypeName)
				if !ok {
					continue
				}
				if _, isI := tn.Type().Underlying().(*types.Interface); isI {
					continue
				}
				if types.Implements(tn.Type(), iface) || types.Implements(types.NewPointer(tn.Type()), iface) {
					// prefer the dedicated msgServer type for MsgServer, Keeper for QueryServer
					if impl == nil || (spec.iface == "MsgServer" && strings.EqualFold(tn.Name(), "msgServer")) || (spec.iface == "QueryServer" && tn.Name() == "Keeper") {
						impl = tn.Type()
					}
				}
			}
			if impl == nil {
				r.Errs = append(r.Errs, m+": no keeper type implements types."+spec.iface)
				continue
			}
			for i := 0; i < iface.NumMethods(); i++ {
				fn := w.methodOf(impl, iface.Method(i).Name())
				if fn == nil || fn.Blocks == nil {
					r.Errs = append(r.Errs, m+": handler "+iface.Method(i).Name()+" has no body")
					continue
				}
				spec.dst[m] = append(spec.dst[m], fn)
			}
		}
		// sdk.Msg types and their ValidateBasic
		if sdkMsg != nil {
			sc := tp.Types.Scope()
			for _, name := range sc.Names() {
				tn, ok := sc.Lookup(name).(*types.TypeName)
				if !ok || tn.IsAlias() {
					continue
				}
				named, ok := tn.Type().(*types.Named)
				if !ok {
					continue
				}
				if _, isS := named.Underlying().(*types.Struct); !isS {
					continue
				}
				if types.Implements(types.NewPointer(named), sdkMsg) {
					r.MsgTyp[m] = append(r.MsgTyp[m], named)
					if fn := w.methodOf(named, "ValidateBasic"); fn != nil && fn.Blocks != nil {
						r.VB[m] = append(r.VB[m], fn)
					} else {
						r.Errs = append(r.Errs, m+": "+name+".ValidateBasic has no body")
					}
				}
			}
		}
		// AppModule roles
		am := mp.Types.Scope().Lookup("AppModule")
		amb := mp.Types.Scope().Lookup("AppModuleBasic")
		if am == nil || amb == nil {
			r.Errs = append(r.Errs, m+": AppModule not found")
			continue
		}
		add := func(dst map[string][]*ssa.Function, T types.Type, name string) {
			if fn := w.methodOf(T, name); fn != nil && fn.Blocks != nil {
				dst[m] = append(dst[m], fn)
			} else {
				r.Errs = append(r.Errs, m+": AppModule."+name+" not found")
			}
		}
		add(r.BLK, am.Type(), "BeginBlock")
		add(r.BLK, am.Type(), "EndBlock")
		add(r.INIT, am.Type(), "InitGenesis")
		add(r.EXPORT, am.Type(), "ExportGenesis")
		add(r.VALGEN, amb.Type(), "ValidateGenesis")
		add(r.INV, am.Type(), "RegisterInvariants")
		if mig := kp.Types.Scope().Lookup("Migrator"); mig != nil {
			named := mig.Type().(*types.Named)
			for i := 0; i < named.NumMethods(); i++ {
				if fn := w.Prog.FuncValue(named.Method(i)); fn != nil && fn.Blocks != nil {
					r.MIG[m] = append(r.MIG[m], fn)
				}
			}
		}
	}
	// upgrade handlers: every CreateUpgradeHandler in app/upgrades/*
	for _, p := range w.Mod {
		if !strings.HasPrefix(p.PkgPath, modPath+"/app/upgrades/") {
			continue
		}
		sp := w.SSA[p.PkgPath]
		if fn := sp.Func("CreateUpgradeHandler"); fn != nil {
			r.UPG = append(r.UPG, fn)
			r.UPG = append(r.UPG, fn.AnonFuncs...)
		}
	}
	sort.Strings(r.Errs)
	return r
}

func flatten(m map[string][]*ssa.Function, mods ...string) []*ssa.Function {
	var out []*ssa.Function
	if len(mods) == 0 {
		mods = customModules
	}
	for _, k := range mods {
		out = append(out, m[k]...)
	}
	return out
}

// checkRoleFloors asserts the instance counts confirmed by hand.
func (ro *Roles) checkFloors(r *Report) bool {
	ok := true
	for _, e := range ro.Errs {
		r.Unk("infra.anchor", "roles: "+e, "", "role discovery failed: "+e)
		ok = false
	}
	cnt := func(m map[string][]*ssa.Function) int { return len(flatten(m)) }
	for _, c := range []struct {
		name  string
		n     int
		floor int
	}{
		{"MSG handlers", cnt(ro.MSG), 17}, {"ValidateBasic", cnt(ro.VB), 17}, {"QRY handlers", cnt(ro.QRY), 18},
		{"Begin/EndBlock", cnt(ro.BLK), 8}, {"InitGenesis", cnt(ro.INIT), 4}, {"ExportGenesis", cnt(ro.EXPORT), 4},
		{"ValidateGenesis", cnt(ro.VALGEN), 4}, {"migrations", cnt(ro.MIG), 6}, {"upgrade handlers", len(ro.UPG), 2},
	} {
		if c.n < c.floor {
			r.Unk("infra.floor", "roles: "+c.name, "", "role discovery found fewer entry points than confirmed by hand")
			ok = false
		}
	}
	r.Analysed["entry_points"] = map[string]int{"MSG": cnt(ro.MSG), "VB": cnt(ro.VB), "QRY": cnt(ro.QRY), "BLK": cnt(ro.BLK),
		"INIT": cnt(ro.INIT), "EXPORT": cnt(ro.EXPORT), "VALGEN": cnt(ro.VALGEN), "MIG": cnt(ro.MIG), "UPG": len(ro.UPG), "INV": cnt(ro.INV)}
	return ok
}
