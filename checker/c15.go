package main

import (
	"fmt"
	"go/token"
	"strings"

	"golang.org/x/tools/go/ssa"
)

func init() { register("C15", checkC15) }

// varargStrings returns the elements of a variadic string slice literal (HashConcat(a, b, c)).
func varargElems(v ssa.Value) []ssa.Value {
	sl, ok := v.(*ssa.Slice)
	if !ok {
		return nil
	}
	al, ok := sl.X.(*ssa.Alloc)
	if !ok {
		return nil
	}
	out := map[int64]ssa.Value{}
	n := 0
	for _, ref := range *al.Referrers() {
		ia, ok := ref.(*ssa.IndexAddr)
		if !ok {
			continue
		}
		c, ok := ia.Index.(*ssa.Const)
		if !ok {
			return nil
		}
		idx := c.Int64()
		for _, r2 := range *ia.Referrers() {
			if st, ok := r2.(*ssa.Store); ok {
				out[idx] = st.Val
				if int(idx)+1 > n {
					n = int(idx) + 1
				}
			}
		}
	}
	res := make([]ssa.Value, n)
	for i := range res {
		res[i] = out[int64(i)]
	}
	return res
}

func checkC15(w *World, r *Report) {
	cg := w.CG()
	ro := w.Roles()
	r.Undecided = []string{
		"the cryptography: x509 CheckSignature, sha256 and base64 are trusted; 'changing any of signature, address, reference id or link makes verification fail' beyond the dependence of the verified payload on all of them",
	}
	r.Rule("C15.writeonce", "P4,P5", "the payload-link prefix has one writer; at its only message call site it is dominated by the edge on which Get(same key) returned nil; no delete on that prefix exists anywhere in the module", 2)
	r.Rule("C15.payload", "P6", "the verified payload is CalculateHash(HashConcat(address, referenceId, storedLink)) in this order, with the link looked up by the same reference id and the signature record looked up by CalculateHash(HashConcat(address, referenceId)); record key, link key and payload use one and the same rendering of the reference id and of the address", 6)
	r.Rule("C15.args", "P6", "the verifier hands the stored Signature (base64-decoded), Algorithm (mapped) and Certificate (parsed) to CheckSignature in the parameters of those roles, with the payload bytes as the signed content", 3)
	r.Rule("C15.verdict", "P5", "the response with Valid=\"valid\" is dominated by the nil edge of the verifier's error; the verifier returns nil only on the nil edge of CheckSignature", 2)
	r.Rule("C15.fields", "P8", "in the response, Signature, Algorithm, Certificate and Timestamp are sourced from the same-named fields of the stored record", 4)
	if !ro.checkFloors(r) {
		return
	}
	pub := w.Func("x/cfesignature/keeper.msgServer.PublishReferencePayloadLink")
	ver := w.Func("x/cfesignature/keeper.Keeper.VerifySignature")
	// the verifier is found by what it does, not by its name: the module function called by the query below which
	// x509's CheckSignature is reached
	var isv *ssa.Function
	if ver != nil {
		for _, s := range cg.Sites[ver] {
			for _, c := range s.Callees {
				if !w.isProdFunc(c) {
					continue
				}
				if len(cg.targetsBelow(c, func(x *Site) bool { return strings.HasSuffix(x.CalleeName(), "x509.Certificate.CheckSignature") }, map[*ssa.Function]bool{})) > 0 {
					isv = c
				}
			}
		}
	}
	csk := w.Func("x/cfesignature/keeper.Keeper.CreateStorageKey")
	gpl := w.Func("x/cfesignature/keeper.Keeper.GetPayloadLink")
	for n, f := range map[string]*ssa.Function{"PublishReferencePayloadLink": pub, "VerifySignature": ver, "isValidSignature": isv, "CreateStorageKey": csk, "GetPayloadLink": gpl} {
		if f == nil {
			r.Unk("infra.anchor", "x/cfesignature/keeper "+n, "", "anchor not found")
			return
		}
	}
	linkPrefix, _ := constOf(w, "x/cfesignature/types", "PayloadLinkKey")
	// ---------- C15.writeonce ----------
	{
		var writers []*Site
		for _, f := range w.ProdFuncs() {
			if moduleOfFunc(f) != "cfesignature" {
				continue
			}
			for _, s := range cg.Sites[f] {
				a := cg.Atom(s)
				if a != StoreSet && a != StoreDel {
					continue
				}
				loc := cg.StoreLocOf(s)
				if !loc.Resolved {
					r.Unk("C15.writeonce", "store write in "+funcName(f), w.Pos(s.Instr.Pos()), "cannot resolve the store prefix: "+loc.Why)
					continue
				}
				if !strings.HasPrefix(loc.Prefix, linkPrefix) {
					continue
				}
				if a == StoreDel {
					r.Bad("C15.writeonce", "delete on the payload-link prefix in "+funcName(f), w.Pos(s.Instr.Pos()), "published payload links can be removed")
					continue
				}
				writers = append(writers, s)
			}
		}
		r.Check(len(writers) == 1, "C15.writeonce", "single writer of the payload-link prefix", "", fmt.Sprintf("%d writer", len(writers)), fmt.Sprintf("%d writers of the payload-link prefix", len(writers)))
		for _, wr := range writers {
			wf := wr.Caller
			// key parameter of the writer
			keyStr := stringUnderBytes(wr.Args()[0])
			kp, _ := keyStr.(*ssa.Parameter)
			callers := cg.Callers[wf]
			msgReach := cg.Reach(flatten(ro.MSG))
			for _, cs := range callers {
				if _, ok := msgReach[cs.Caller]; !ok {
					continue
				}
				fn := cs.Caller
				var keyArg ssa.Value
				for i, p := range wf.Params {
					if p == kp && i < len(cs.Common().Args) {
						keyArg = cs.Common().Args[i]
					}
				}
				// guard: a bool helper h(key) whose result is (Get(prefix,key) == nil), true edge
				edges := boolCallEdges(fn, func(c *ssa.Call) bool {
					callee := c.Common().StaticCallee()
					if callee == nil || callee.Blocks == nil {
						return false
					}
					// same key passed
					hasKey := false
					var hp *ssa.Parameter
					for i, a := range c.Common().Args {
						if keyArg != nil && (a == keyArg || samePath(a, keyArg)) && i < len(callee.Params) {
							hasKey = true
							hp = callee.Params[i]
						}
					}
					if !hasKey {
						return false
					}
					return returnsGetIsNil(w, callee, hp, linkPrefix, true)
				}, true)
				// the helper may equally answer "is the key taken?": then its false edge is the free edge
				edges = append(edges, boolCallEdges(fn, func(c *ssa.Call) bool {
					callee := c.Common().StaticCallee()
					if callee == nil || callee.Blocks == nil {
						return false
					}
					var hp *ssa.Parameter
					for i, a := range c.Common().Args {
						if keyArg != nil && (a == keyArg || samePath(a, keyArg)) && i < len(callee.Params) {
							hp = callee.Params[i]
						}
					}
					return hp != nil && returnsGetIsNil(w, callee, hp, linkPrefix, false)
				}, false)...)
				// or a direct test in the handler
				r.Check(MustPass(fn, edges, cs.Instr.Block()), "C15.writeonce", "write in "+funcName(fn)+" only when nothing is stored under the key", w.Pos(cs.Instr.Pos()),
					"dominated by the edge on which store.Get(prefix, same key) == nil", "an existing payload link can be overwritten")
			}
		}
	}
	tr := w.Tracer()
	// ---------- C15.payload / args / verdict / fields ----------
	var isvCall, gplCall, cskCall, gsCall *Site
	for _, s := range cg.Sites[ver] {
		switch {
		case len(s.Callees) == 1 && s.Callees[0] == isv:
			isvCall = s
		case calleeIs(s, "x/cfesignature/keeper.Keeper.GetPayloadLink"):
			gplCall = s
		case calleeIs(s, "x/cfesignature/keeper.Keeper.CreateStorageKey"):
			cskCall = s
		case calleeIs(s, "x/cfesignature/keeper.Keeper.GetSignature"):
			gsCall = s
		}
	}
	if isvCall == nil || gplCall == nil || cskCall == nil || gsCall == nil {
		r.Bad("C15.payload", "VerifySignature: lookup of record and link, verification call", w.Pos(ver.Pos()), "the query no longer consists of CreateStorageKey + GetSignature + GetPayloadLink + isValidSignature")
		return
	}
	reqP := msgParam(ver)
	fromReq := func(v ssa.Value, field string) bool {
		o := tr.Origins(v)
		ok := false
		for _, l := range o.Leaves {
			if l.Kind == "param" && l.V == ssa.Value(reqP) {
				if strings.HasSuffix(l.Path, "."+field) {
					ok = true
				} else if l.Path != "" {
					return false
				}
			}
		}
		return ok
	}
	ia := isvCall.Args()
	// isValidSignature(goCtx, targetAccAddress, signaturePayload, signature, algorithm, certificate)
	strParams := []*ssa.Parameter{}
	for _, p := range isv.Params {
		if typeString(p.Type()) == "string" {
			strParams = append(strParams, p)
		}
	}
	if len(strParams) < 4 {
		r.Unk("C15.args", "verifier: string parameters for payload, signature, algorithm, certificate", w.Pos(isv.Pos()), fmt.Sprintf("%d string parameters", len(strParams)))
		return
	}
	argOf := func(p *ssa.Parameter) ssa.Value {
		off := len(isv.Params) - len(ia) // Args() excludes a receiver, if there is one
		for i, x := range isv.Params {
			if x == p && i-off >= 0 && i-off < len(ia) {
				return ia[i-off]
			}
		}
		return nil
	}
	// roles inside the verifier, discovered from the CheckSignature call
	var check *ssa.Call
	for _, s := range cg.Sites[isv] {
		if strings.HasSuffix(s.CalleeName(), "x509.Certificate.CheckSignature") {
			check = siteCall(s)
		}
	}
	if check == nil {
		r.Bad("C15.args", "isValidSignature calls x509 CheckSignature", w.Pos(isv.Pos()), "no CheckSignature call")
		return
	}
	ca := check.Common().Args // cert, algo, signed, signature
	roleParam := func(v ssa.Value, via ...string) *ssa.Parameter {
		o := tr.Origins(v)
		// a lookup function maps its argument by control flow only (algorithm name -> x509 constant):
		// include the arguments of the named mapping calls
		vals := []ssa.Value{v}
		for c := range o.Calls {
			for _, s := range via {
				if strings.Contains(callName(c.Common()), s) {
					vals = append(vals, c.Common().Args...)
				}
			}
		}
		o = tr.OriginsAll(vals...)
		var found *ssa.Parameter
		n := 0
		for _, p := range strParams {
			if o.Visited(p) {
				found = p
				n++
			}
		}
		for _, s := range via {
			if !visitedCallNamed(o, s) {
				return nil
			}
		}
		if n != 1 {
			return nil
		}
		return found
	}
	pCert := roleParam(ca[0], "GetUserCertificateFromString")
	pAlgo := roleParam(ca[1], "GetSignatureAlgorithmFromString")
	pPayload := roleParam(ca[2])
	pSig := roleParam(ca[3], "base64.Encoding.DecodeString")
	if pCert == nil || pAlgo == nil || pPayload == nil || pSig == nil {
		r.Bad("C15.args", "CheckSignature(cert, algorithm, payload, signature) each from exactly one parameter", w.Pos(check.Pos()), "the verifier's parameters do not map one-to-one to the roles of CheckSignature")
		return
	}
	// the record
	var rec ssa.Value
	for _, ref := range *gsCall.Instr.(*ssa.Call).Referrers() {
		if ex, ok := ref.(*ssa.Extract); ok && ex.Index == 0 {
			rec = ex
		}
	}
	recField := func(v ssa.Value, f string) bool {
		return loadOfField(v, f, func(b ssa.Value) bool { return derefRoot(b) == rec || derefRootThroughLocal(b) == rec })
	}
	r.Check(recField(argOf(pSig), "Signature"), "C15.args", "signature role <- stored record.Signature", w.Pos(isvCall.Instr.Pos()), "record.Signature", "the value verified as signature is not the stored signature")
	r.Check(recField(argOf(pAlgo), "Algorithm"), "C15.args", "algorithm role <- stored record.Algorithm", w.Pos(isvCall.Instr.Pos()), "record.Algorithm", "the algorithm used is not the stored algorithm")
	r.Check(recField(argOf(pCert), "Certificate"), "C15.args", "certificate role <- stored record.Certificate", w.Pos(isvCall.Instr.Pos()), "record.Certificate", "the certificate used is not the stored certificate")
	// payload
	pay, paySubst := w.throughHelpers(argOf(pPayload), "util.CalculateHash", "util.HashConcat")
	okPay := false
	if h, ok := isCallTo(pay, "util.CalculateHash"); ok {
		if hc, ok := isCallTo(h.Common().Args[0], "util.HashConcat"); ok {
			el := varargElems(hc.Common().Args[0])
			for i := range el {
				el[i] = paySubst(el[i])
			}
			if len(el) == 3 && fromReq(el[0], "TargetAccAddress") && fromReq(el[1], "ReferenceId") {
				if ex, ok := el[2].(*ssa.Extract); ok && ex.Tuple == gplCall.Instr.(ssa.Value) && ex.Index == 0 {
					okPay = true
				}
			}
		}
	}
	r.Check(okPay, "C15.payload", "payload = CalculateHash(HashConcat(address, referenceId, stored link))", w.Pos(isvCall.Instr.Pos()), "three components in this order", "the verified payload is not hash(address : referenceId : stored link)")
	r.Check(check.Common().Args[2] != nil && tr.Origins(check.Common().Args[2]).Visited(pPayload), "C15.payload", "the signed content is the payload parameter", w.Pos(check.Pos()), "[]byte(signaturePayload)", "CheckSignature is not given the payload")
	ga := gplCall.Args()
	r.Check(fromReq(ga[len(ga)-1], "ReferenceId"), "C15.payload", "link looked up by the request's reference id", w.Pos(gplCall.Instr.Pos()), "GetPayloadLink(ctx, req.ReferenceId)", "the payload link is looked up under another id")
	// GetPayloadLink reads prefix + CalculateHash(referenceId)
	{
		ok := false
		for _, s := range cg.Sites[gpl] {
			if cg.Atom(s) == StoreGet {
				loc := cg.StoreLocOf(s)
				keyStr := stringUnderBytes(s.Args()[0])
				if h, isH := isCallTo(keyStr, "util.CalculateHash"); isH && h.Common().Args[0] == ssa.Value(gpl.Params[len(gpl.Params)-1]) && loc.Resolved || strings.HasPrefix(loc.Prefix, linkPrefix) && isH {
					ok = true
				}
			}
		}
		r.Check(ok, "C15.payload", "GetPayloadLink reads the payload-link prefix under CalculateHash(referenceId)", w.Pos(gpl.Pos()), "same key derivation as the publishing side expects", "the link is read from another place")
	}
	// storage key
	{
		ok := false
		var sk ssa.Value
		for _, ret := range Returns(csk) {
			o := tr.Origins(retVals(ret)[0])
			for c := range o.Calls {
				if strings.HasSuffix(callName(c.Common()), "util.CalculateHash") {
					if hc, isHC := isCallTo(c.Common().Args[0], "util.HashConcat"); isHC {
						el := varargElems(hc.Common().Args[0])
						if len(el) == 2 && loadOfField(el[0], "TargetAccAddress", nil) && loadOfField(el[1], "ReferenceId", nil) {
							ok = true
						}
					}
				}
			}
			_ = sk
		}
		gsa := gsCall.Args()
		okLookup := loadOfField(gsa[len(gsa)-1], "StorageKey", nil)
		// the request passed to CreateStorageKey carries the same address and id
		o := tr.Origins(cskCall.Args()[len(cskCall.Args())-1])
		okReq := o.HasLeaf("param", ".QueryVerifySignatureRequest.TargetAccAddress") && o.HasLeaf("param", ".QueryVerifySignatureRequest.ReferenceId")
		r.Check(ok && okLookup && okReq, "C15.payload", "record looked up under CalculateHash(HashConcat(address, referenceId))", w.Pos(gsCall.Instr.Pos()), "storage key derived from the request's address and reference id", "the signature record is looked up under a key not derived from (address, referenceId)")
	}
	// one rendering of the reference id (and of the address) everywhere: the record key, the link key and the
	// payload must agree on the very same string, otherwise the signature found, the link found and the content
	// verified belong to different registry entries
	{
		uses := map[string][]ssa.Value{"ReferenceId": {ga[len(ga)-1]}, "TargetAccAddress": {}}
		if h, ok := isCallTo(pay, "util.CalculateHash"); ok {
			if hc, ok := isCallTo(h.Common().Args[0], "util.HashConcat"); ok {
				el := varargElems(hc.Common().Args[0])
				if len(el) == 3 {
					uses["TargetAccAddress"] = append(uses["TargetAccAddress"], paySubst(el[0]))
					uses["ReferenceId"] = append(uses["ReferenceId"], paySubst(el[1]))
				}
			}
		}
		for _, fs := range FieldStores(ver) {
			if namedIs(fs.Struct, "x/cfesignature/types", "QueryCreateStorageKeyRequest") {
				if _, ok := uses[fs.Field]; ok {
					uses[fs.Field] = append(uses[fs.Field], fs.Store.Val)
				}
			}
		}
		for _, f := range []string{"ReferenceId", "TargetAccAddress"} {
			vs := uses[f]
			same := len(vs) >= 2
			for _, v := range vs[1:] {
				if !sameExpr(vs[0], v, 0) {
					same = false
				}
			}
			r.Check(same, "C15.payload", "one rendering of the request's "+f+" in record key, link key and payload", w.Pos(ver.Pos()), fmt.Sprintf("%d uses, all the same value", len(vs)), "the record key, the link key and the verified payload are built from different renderings of "+f+": the signature, the link and the content checked can belong to different entries")
		}
	}
	// ---------- C15.verdict ----------
	for _, fs := range FieldStores(ver) {
		if fs.Field == "Valid" {
			if s, ok := EvalString(fs.Store.Val); ok && s == "valid" {
				r.Check(OnSuccessEdge(ver, fs.Store, siteValue(isvCall)), "C15.verdict", "Valid=\"valid\" only when the verifier returned nil", w.Pos(fs.Store.Pos()), "dominated by the nil edge of isValidSignature's error", "the query can answer valid although verification failed")
			}
		}
	}
	{
		ok := true
		n := 0
		for _, ret := range Returns(isv) {
			v := retVals(ret)[0]
			if isNilConst(v) {
				n++
				if !OnSuccessEdge(isv, ret, check) {
					ok = false
				}
			}
		}
		r.Check(ok && n > 0, "C15.verdict", "the verifier returns nil only when CheckSignature returned nil", w.Pos(check.Pos()), "every nil return is dominated by the nil edge of CheckSignature's error", "the verifier can report success without a successful CheckSignature")
	}
	// ---------- C15.fields ----------
	for _, f := range []string{"Signature", "Algorithm", "Certificate", "Timestamp"} {
		found := false
		for _, fs := range FieldStores(ver) {
			if fs.Field != f || fs.Struct == nil || fs.Struct.Obj().Name() != "QueryVerifySignatureResponse" {
				continue
			}
			found = true
			r.Check(recField(fs.Store.Val, f), "C15.fields", "response."+f+" <- record."+f, w.Pos(fs.Store.Pos()), "same-named field of the stored record", "the response field "+f+" is not the stored "+f)
		}
		if !found {
			r.Bad("C15.fields", "response."+f+" is set", w.Pos(ver.Pos()), "the response does not return the stored "+f)
		}
	}
}

// stringUnderBytes strips []byte(s) and module helpers returning []byte(param).
func stringUnderBytes(v ssa.Value) ssa.Value {
	for i := 0; i < 4; i++ {
		switch x := v.(type) {
		case *ssa.Convert:
			return x.X
		case *ssa.Call:
			f := x.Common().StaticCallee()
			if f != nil && f.Blocks != nil && len(f.Blocks) == 1 && len(f.Params) == 1 {
				if ret, ok := f.Blocks[0].Instrs[len(f.Blocks[0].Instrs)-1].(*ssa.Return); ok && len(ret.Results) == 1 {
					if cv, ok := ret.Results[0].(*ssa.Convert); ok && cv.X == ssa.Value(f.Params[0]) {
						return x.Common().Args[0]
					}
				}
			}
			return v
		default:
			return v
		}
	}
	return v
}

// returnsGetIsNil: fn returns (store.Get(prefix-store, bytes(p)) == nil).
// returnsGetIsNil: fn returns store.Get(prefix, key) == nil (want "free") or != nil (want "taken") for its key parameter.
func returnsGetIsNil(w *World, fn *ssa.Function, p *ssa.Parameter, prefix string, wantFree bool) bool {
	cg := w.CG()
	rets := Returns(fn)
	if len(rets) != 1 {
		return false
	}
	bo, ok := retVals(rets[0])[0].(*ssa.BinOp)
	if !ok || !isNilConst(bo.Y) {
		return false
	}
	if wantFree && bo.Op != token.EQL || !wantFree && bo.Op != token.NEQ {
		return false
	}
	get, ok := bo.X.(*ssa.Call)
	if !ok {
		return false
	}
	for _, s := range cg.Sites[fn] {
		if s.Instr == ssa.Instruction(get) && cg.Atom(s) == StoreGet {
			loc := cg.StoreLocOf(s)
			_ = loc
			keyStr := stringUnderBytes(s.Args()[0])
			// the prefix store must be the payload-link prefix
			pfx, okp, _ := w.storePrefix(s.Recv(), 0)
			return okp && pfx == prefix && keyStr == ssa.Value(p)
		}
	}
	return false
}

// derefRootThroughLocal: like derefRoot but follows a single-store local (var signature *T; signature, err = ...).
func derefRootThroughLocal(v ssa.Value) ssa.Value {
	r := derefRoot(v)
	if a, ok := r.(*ssa.Alloc); ok {
		var stored []ssa.Value
		for _, ref := range *a.Referrers() {
			if st, ok := ref.(*ssa.Store); ok && st.Addr == ssa.Value(a) {
				stored = append(stored, st.Val)
			}
		}
		// ignore nil initialisers
		var nn []ssa.Value
		for _, s := range stored {
			if !isNilConst(s) {
				nn = append(nn, s)
			}
		}
		if len(nn) == 1 {
			return nn[0]
		}
	}
	return r
}

// sameExpr: the same SSA value, two loads of the same location, or two applications of the same function to
// pairwise same arguments (depth <= 2).
func sameExpr(a, b ssa.Value, depth int) bool {
	if sameValue(a, b) {
		return true
	}
	// two loads of the same field of the same base
	if ua, ok := a.(*ssa.UnOp); ok && ua.Op == token.MUL {
		if ub, ok := b.(*ssa.UnOp); ok && ub.Op == token.MUL {
			fa, ok1 := ua.X.(*ssa.FieldAddr)
			fb, ok2 := ub.X.(*ssa.FieldAddr)
			if ok1 && ok2 && fa.Field == fb.Field && fa.X == fb.X {
				return true
			}
		}
	}
	if depth >= 2 {
		return false
	}
	ca, ok1 := a.(*ssa.Call)
	cb, ok2 := b.(*ssa.Call)
	if !ok1 || !ok2 || ca.Common().StaticCallee() == nil || ca.Common().StaticCallee() != cb.Common().StaticCallee() {
		return false
	}
	if len(ca.Common().Args) != len(cb.Common().Args) {
		return false
	}
	for i := range ca.Common().Args {
		if !sameExpr(ca.Common().Args[i], cb.Common().Args[i], depth+1) {
			return false
		}
	}
	return true
}
