package main

import (
	"fmt"
	"go/token"
	"os"
	"strings"

	"golang.org/x/tools/go/ssa"
)

func init() { register("C15", checkC15) }

// varargStrings returns the elements of a variadic string slice literal (HashConcat(a, b, c)).
func varargElems(v ssa.Value) []ssa.Value {
	sl, ok := v.(*ssa.Slice)
	if !ok {
		return nil
	}
	al, ok := sl.X.(*ssa.Alloc)
	if !ok {
		return nil
	}
	out := map[int64]ssa.Value{}
	n := 0
	for _, ref := range *al.Referrers() {
		ia, ok := ref.(*ssa.IndexAddr)
		if !ok {
			continue
		}
		c, ok := ia.Index.(*ssa.Const)
		if !ok {
			return nil
		}
		idx := c.Int64()
		for _, r2 := range *ia.Referrers() {
			if st, ok := r2.(*ssa.Store); ok {
				out[idx] = st.Val
				if int(idx)+1 > n {
					n = int(idx) + 1
				}
			}
		}
	}
	res := make([]ssa.Value, n)
	for i := range res {
		res[i] = out[int64(i)]
	}
	return res
}

func checkC15(w *World, r *Report) {
	cg := w.CG()
	ro := w.Roles()
	r.Undecided = []string{
		"the cryptography: x509 CheckSignature, sha256 and base64 are trusted; 'changing any of signature, address, reference id or link makes verification fail' beyond the dependence of the verified payload on all of them",
	}
	r.Rule("C15.writeonce", "P4,P5", "the payload-link prefix has one writer; at its only message call site it is dominated by the edge on which Get(same key) returned nil; no delete on that prefix exists anywhere in the module", 2)
	r.Rule("C15.payload", "P6", "the verified payload is CalculateHash(HashConcat(address, referenceId, storedLink)) in this order, with the link looked up by the same reference id and the signature record looked up by CalculateHash(HashConcat(address, referenceId)); record key, link key and payload use one and the same rendering of the reference id and of the address", 6)
	r.Rule("C15.args", "P6", "the verifier hands the stored Signature (base64-decoded), Algorithm (mapped) and Certificate (parsed) to CheckSignature in the parameters of those roles, with the payload bytes as the signed content", 3)
	r.Rule("C15.verdict", "P5", "the response with Valid=\"valid\" is dominated by the nil edge of the verifier's error; the verifier returns nil only on the nil edge of CheckSignature", 2)
	r.Rule("C15.fields", "P8", "in the response, Signature, Algorithm, Certificate and Timestamp are sourced from the same-named fields of the stored record", 4)
	r.Rule("C15.algtable", "P8", "every row of the module's table from stored algorithm names to x509 signature algorithms agrees with crypto/x509's meaning of the constant (key family, digest), names and algorithms are pairwise distinct, and each name spells the digest and key family of its row", 3)
	r.Rule("C15.loopvar", "P4", "the module declares a Go version with one variable per loop: no address of such a variable (or of a field of it) and no function literal over it outlives the iteration in which it was taken (stored, put into a map, flowing out of the loop, deferred, handed to a function that stores it) - otherwise the matching element silently becomes the last element; positive and negative controls", 6)
	r.Rule("C15.alglookup", "P5,P6", "the function that maps a stored algorithm name to an x509 algorithm returns, beside a nil error, only the algorithm of the table row whose name equals the name (the row's own field behind a dominating equality edge, a comma-ok map hit, or a constant under an equality test): no fuzzy match, no remembered pointer, no default", 1)
	if !ro.checkFloors(r) {
		return
	}
	algTableRule(w, r, "C15.algtable")
	algLookupRule(w, r, "C15.alglookup")
	certFirstBlockRule(w, r, "C15.args")
	loopVarRule(w, r, "C15.loopvar", "cfesignature")
	pub := w.Func("x/cfesignature/keeper.msgServer.PublishReferencePayloadLink")
	ver := w.Func("x/cfesignature/keeper.Keeper.VerifySignature")
	// the verifier is found by what it does, not by its name: the module function called by the query below which
	// x509's CheckSignature is reached
	var isv *ssa.Function
	_ = isv
	if ver != nil {
		for _, s := range cg.Sites[ver] {
			for _, c := range s.Callees {
				if !w.isProdFunc(c) {
					continue
				}
				if len(cg.targetsBelow(c, func(x *Site) bool { return strings.HasSuffix(x.CalleeName(), "x509.Certificate.CheckSignature") }, map[*ssa.Function]bool{})) > 0 {
					isv = c
				}
			}
		}
	}
	csk := w.Func("x/cfesignature/keeper.Keeper.CreateStorageKey")
	gpl := w.Func("x/cfesignature/keeper.Keeper.GetPayloadLink")
	for n, f := range map[string]*ssa.Function{"PublishReferencePayloadLink": pub, "VerifySignature": ver, "CreateStorageKey": csk, "GetPayloadLink": gpl} {
		if f == nil {
			r.Unk("infra.anchor", "x/cfesignature/keeper "+n, "", "anchor not found")
			return
		}
	}
	linkPrefix, _ := constOf(w, "x/cfesignature/types", "PayloadLinkKey")
	// ---------- C15.writeonce ----------
	{
		var writers []*Site
		for _, f := range w.ProdFuncs() {
			if moduleOfFunc(f) != "cfesignature" {
				continue
			}
			for _, s := range cg.Sites[f] {
				a := cg.Atom(s)
				if a != StoreSet && a != StoreDel {
					continue
				}
				loc := cg.StoreLocOf(s)
				if !loc.Resolved {
					r.Unk("C15.writeonce", "store write in "+funcName(f), w.Pos(s.Instr.Pos()), "cannot resolve the store prefix: "+loc.Why)
					continue
				}
				if !strings.HasPrefix(loc.Prefix, linkPrefix) {
					continue
				}
				if a == StoreDel {
					r.Bad("C15.writeonce", "delete on the payload-link prefix in "+funcName(f), w.Pos(s.Instr.Pos()), "published payload links can be removed")
					continue
				}
				writers = append(writers, s)
			}
		}
		r.Check(len(writers) == 1, "C15.writeonce", "single writer of the payload-link prefix", "", fmt.Sprintf("%d writer", len(writers)), fmt.Sprintf("%d writers of the payload-link prefix", len(writers)))
		for _, wr := range writers {
			wf := wr.Caller
			// key parameter of the writer
			keyStr := stringUnderBytes(wr.Args()[0])
			kp, _ := keyStr.(*ssa.Parameter)
			callers := cg.Callers[wf]
			msgReach := cg.Reach(flatten(ro.MSG))
			for _, cs := range callers {
				if _, ok := msgReach[cs.Caller]; !ok {
					continue
				}
				fn := cs.Caller
				var keyArg ssa.Value
				for i, p := range wf.Params {
					if p == kp && i < len(cs.Common().Args) {
						keyArg = cs.Common().Args[i]
					}
				}
				// guard: a bool helper h(key) whose result is (Get(prefix,key) == nil), true edge
				edges := boolCallEdges(fn, func(c *ssa.Call) bool {
					callee := c.Common().StaticCallee()
					if callee == nil || callee.Blocks == nil {
						return false
					}
					// same key passed
					hasKey := false
					var hp *ssa.Parameter
					for i, a := range c.Common().Args {
						if keyArg != nil && (a == keyArg || samePath(a, keyArg)) && i < len(callee.Params) {
							hasKey = true
							hp = callee.Params[i]
						}
					}
					if !hasKey {
						return false
					}
					return returnsGetIsNil(w, callee, hp, linkPrefix, true)
				}, true)
				// the helper may equally answer "is the key taken?": then its false edge is the free edge
				edges = append(edges, boolCallEdges(fn, func(c *ssa.Call) bool {
					callee := c.Common().StaticCallee()
					if callee == nil || callee.Blocks == nil {
						return false
					}
					var hp *ssa.Parameter
					for i, a := range c.Common().Args {
						if keyArg != nil && (a == keyArg || samePath(a, keyArg)) && i < len(callee.Params) {
							hp = callee.Params[i]
						}
					}
					return hp != nil && returnsGetIsNil(w, callee, hp, linkPrefix, false)
				}, false)...)
				// or a direct test in the handler
				r.Check(MustPass(fn, edges, cs.Instr.Block()), "C15.writeonce", "write in "+funcName(fn)+" only when nothing is stored under the key", w.Pos(cs.Instr.Pos()),
					"dominated by the edge on which store.Get(prefix, same key) == nil", "an existing payload link can be overwritten")
			}
		}
	}
	tr := w.Tracer()
	// ---------- C15.payload / args / verdict / fields ----------
	// everything is located by what it does, in the query or in the helpers it calls: the three lookups, the x509
	// verification, the hash of the payload; values are traced with helper parameters bound to what the query hands down
	find := func(match func(*Site) bool) []EffSite { return w.effectsBelow(ver, match, 3) }
	one := func(es []EffSite) *EffSite {
		if len(es) == 1 {
			return &es[0]
		}
		return nil
	}
	gplE := one(find(func(s *Site) bool { return calleeIs(s, "x/cfesignature/keeper.Keeper.GetPayloadLink") }))
	cskE := one(find(func(s *Site) bool { return calleeIs(s, "x/cfesignature/keeper.Keeper.CreateStorageKey") }))
	gsE := one(find(func(s *Site) bool { return calleeIs(s, "x/cfesignature/keeper.Keeper.GetSignature") }))
	checkE := one(find(func(s *Site) bool { return strings.HasSuffix(s.CalleeName(), "x509.Certificate.CheckSignature") }))
	if gplE == nil || cskE == nil || gsE == nil || checkE == nil || len(gplE.Chain) > 0 || len(gsE.Chain) > 0 {
		r.Bad("C15.payload", "VerifySignature: lookup of record and link, verification call", w.Pos(ver.Pos()), "the query no longer consists of one GetSignature and one GetPayloadLink (in the query itself), one CreateStorageKey and one x509 CheckSignature in or below it")
		return
	}
	gplCall, cskCall, gsCall := gplE.Site, cskE.Site, gsE.Site
	check := siteCall(checkE.Site)
	reqP := msgParam(ver)
	// the record
	var rec ssa.Value
	for _, ref := range *gsCall.Instr.(*ssa.Call).Referrers() {
		if ex, ok := ref.(*ssa.Extract); ok && ex.Index == 0 {
			rec = ex
		}
	}
	// roleTracer: the stored record, the stored link and the two decoders are leaves (the decoders map their argument
	// by control flow: as leaf calls their arguments are traced); the request is a parameter leaf
	roleTracer := func() *Tracer {
		t := w.Tracer()
		t.Depth = 5
		for _, n := range []string{"x/cfesignature/keeper.Keeper.GetSignature", "x/cfesignature/keeper.Keeper.GetPayloadLink", "x/cfesignature/util.GetSignatureAlgorithmFromString", "x/cfesignature/util.GetUserCertificateFromString", "x/cfesignature/util.CalculateHash", "x/cfesignature/util.HashConcat"} {
			t.Opaque[n] = true
		}
		t.Stop = []string{"keeper.Keeper.GetSignature", "keeper.Keeper.GetPayloadLink"}
		return t
	}
	// what a role of CheckSignature is computed from: fields of the stored record, fields of the request, the link
	type roleSrc struct {
		rec, req map[string]bool
		link     bool
		calls    *Origin
	}
	srcOf := func(o *Origin) roleSrc {
		rs := roleSrc{rec: map[string]bool{}, req: map[string]bool{}, calls: o}
		for _, l := range o.Leaves {
			switch {
			case l.Kind == "call" && l.V == gsCall.Instr.(ssa.Value):
				f := l.Path
				if i := strings.LastIndex(f, "."); i >= 0 {
					f = f[i+1:]
				}
				rs.rec[f] = true
			case l.Kind == "call" && l.V == gplCall.Instr.(ssa.Value):
				rs.link = true
			case l.Kind == "param" && l.V == ssa.Value(reqP):
				f := l.Path
				if i := strings.LastIndex(f, "."); i >= 0 {
					f = f[i+1:]
				}
				rs.req[f] = true
			}
		}
		return rs
	}
	only := func(m map[string]bool, f string) bool { return len(m) == 1 && m[f] }
	ca := check.Common().Args // cert, algo, signed, signature
	if len(ca) != 4 {
		r.Unk("C15.args", "CheckSignature(cert, algorithm, signed, signature)", w.Pos(check.Pos()), "unexpected arity")
		return
	}
	rt := roleTracer()
	sCert, sAlgo, sSigned, sSig := srcOf(rt.OriginsVia(*checkE, ca[0], nil)), srcOf(rt.OriginsVia(*checkE, ca[1], nil)), srcOf(rt.OriginsVia(*checkE, ca[2], nil)), srcOf(rt.OriginsVia(*checkE, ca[3], nil))
	cpos := w.Pos(check.Pos())
	r.Check(only(sSig.rec, "Signature") && len(sSig.req) == 0 && !sSig.link && visitedCallNamed(sSig.calls, "base64.Encoding.DecodeString"), "C15.args", "signature role <- stored record.Signature", cpos, "record.Signature, base64-decoded", fmt.Sprintf("the value verified as signature is not (only) the stored signature: record fields %v, request fields %v", keysOf(sSig.rec), keysOf(sSig.req)))
	r.Check(only(sAlgo.rec, "Algorithm") && len(sAlgo.req) == 0 && !sAlgo.link && visitedCallNamed(sAlgo.calls, "GetSignatureAlgorithmFromString"), "C15.args", "algorithm role <- stored record.Algorithm", cpos, "record.Algorithm, mapped", fmt.Sprintf("the algorithm used is not (only) the stored algorithm: record fields %v, request fields %v", keysOf(sAlgo.rec), keysOf(sAlgo.req)))
	r.Check(only(sCert.rec, "Certificate") && len(sCert.req) == 0 && !sCert.link && visitedCallNamed(sCert.calls, "GetUserCertificateFromString"), "C15.args", "certificate role <- stored record.Certificate", cpos, "record.Certificate, parsed", fmt.Sprintf("the certificate used is not (only) the stored certificate: record fields %v, request fields %v", keysOf(sCert.rec), keysOf(sCert.req)))
	// payload: the signed bytes are CalculateHash(HashConcat(address, referenceId, link)) - the hash call is located on the
	// slice of the signed bytes, its components are expressed in the query's terms
	var hashE *EffSite
	for c := range sSigned.calls.Calls {
		if strings.HasSuffix(callName(c.Common()), "util.CalculateHash") {
			for _, e := range find(func(s *Site) bool { return s.Instr == ssa.CallInstruction(c) }) {
				e := e
				hashE = &e
			}
		}
	}
	var comps []ssa.Value
	if hashE != nil {
		if hc, ok := isCallTo(siteCall(hashE.Site).Common().Args[0], "util.HashConcat"); ok {
			for _, el := range varargElems(hc.Common().Args[0]) {
				comps = append(comps, normLocal(hashE.ToRoot(el)))
			}
		}
	}
	compSrc := func(v ssa.Value) roleSrc { return srcOf(roleTracer().Origins(v)) }
	okPay := len(comps) == 3 && len(sSigned.rec) == 0
	if okPay {
		c0, c1, c2 := compSrc(comps[0]), compSrc(comps[1]), compSrc(comps[2])
		okPay = only(c0.req, "TargetAccAddress") && !c0.link && len(c0.rec) == 0 &&
			only(c1.req, "ReferenceId") && !c1.link && len(c1.rec) == 0 &&
			c2.link && len(c2.req) == 0 && len(c2.rec) == 0
	}
	r.Check(okPay, "C15.payload", "payload = CalculateHash(HashConcat(address, referenceId, stored link))", cpos, "three components in this order", "the verified payload is not hash(address : referenceId : stored link)")
	r.Check(hashE != nil && sSigned.link && sSigned.req["TargetAccAddress"] && sSigned.req["ReferenceId"], "C15.payload", "the signed content is the payload", cpos, "the bytes handed to CheckSignature derive from the hash of address, reference id and link", "CheckSignature is not given the payload")
	ga := gplCall.Args()
	gsrc := compSrc(ga[len(ga)-1])
	r.Check(only(gsrc.req, "ReferenceId") && !gsrc.link && len(gsrc.rec) == 0, "C15.payload", "link looked up by the request's reference id", w.Pos(gplCall.Instr.Pos()), "GetPayloadLink(ctx, req.ReferenceId)", "the payload link is looked up under another id")
	// GetPayloadLink reads prefix + CalculateHash(referenceId)
	{
		ok := false
		for _, e := range w.effectsBelow(gpl, func(s *Site) bool { return cg.Atom(s) == StoreGet }, 2) {
			s := e.Site
			loc := cg.StoreLocOf(s)
			keyStr := stringUnderBytes(cg.StoreKeyOf(s))
			if h, isH := isCallTo(keyStr, "util.CalculateHash"); isH && (e.ToRoot(h.Common().Args[0]) == ssa.Value(gpl.Params[len(gpl.Params)-1]) && loc.Resolved || strings.HasPrefix(loc.Prefix, linkPrefix)) {
				ok = true
			}
		}
		r.Check(ok, "C15.payload", "GetPayloadLink reads the payload-link prefix under CalculateHash(referenceId)", w.Pos(gpl.Pos()), "same key derivation as the publishing side expects", "the link is read from another place")
	}
	// storage key
	var skComps []ssa.Value
	{
		ok := false
		for _, e := range w.effectsBelow(csk, func(s *Site) bool { return calleeIs(s, "x/cfesignature/util.CalculateHash") }, 2) {
			if hc, isHC := isCallTo(siteCall(e.Site).Common().Args[0], "util.HashConcat"); isHC {
				el := varargElems(hc.Common().Args[0])
				if len(el) == 2 {
					a, b := normLocal(e.ToRoot(el[0])), normLocal(e.ToRoot(el[1]))
					if loadOfField(a, "TargetAccAddress", nil) && loadOfField(b, "ReferenceId", nil) {
						ok = true
					}
				}
			}
		}
		gsa := gsCall.Args()
		okLookup := loadOfField(gsa[len(gsa)-1], "StorageKey", nil)
		if !okLookup {
			// the key is computed below a helper: the key handed to GetSignature is the StorageKey of that call's response
			kt := w.Tracer()
			kt.Opaque[funcName(csk)] = true
			kt.Stop = []string{"keeper.Keeper.CreateStorageKey"}
			ko := kt.Origins(gsa[len(gsa)-1])
			n := 0
			okLookup = true
			for _, l := range ko.Leaves {
				if l.Kind == "const" || l.Kind == "zero" {
					continue // (the empty key returned beside an error)
				}
				n++
				if os.Getenv("C4E_DEBUG") != "" {
					fmt.Fprintln(os.Stderr, "C15 key leaf:", l.Kind, l.String())
				}
				if !(l.Kind == "call" && l.V == cskCall.Instr.(ssa.Value) && strings.HasSuffix(l.Path, "StorageKey")) {
					okLookup = false
				}
			}
			okLookup = okLookup && n > 0
		}
		// the request passed to CreateStorageKey carries the same address and id
		o := tr.OriginsVia(*cskE, cskCall.Args()[len(cskCall.Args())-1], nil)
		okReq := o.HasLeaf("param", ".QueryVerifySignatureRequest.TargetAccAddress") && o.HasLeaf("param", ".QueryVerifySignatureRequest.ReferenceId")
		if os.Getenv("C4E_DEBUG") != "" {
			fmt.Fprintln(os.Stderr, "C15 record key:", ok, okLookup, okReq, o.String())
		}
		r.Check(ok && okLookup && okReq, "C15.payload", "record looked up under CalculateHash(HashConcat(address, referenceId))", w.Pos(gsCall.Instr.Pos()), "storage key derived from the request's address and reference id", "the signature record is looked up under a key not derived from (address, referenceId)")
	}
	_ = skComps
	// one rendering of the reference id (and of the address) everywhere: the record key, the link key and the
	// payload must agree on the very same string, otherwise the signature found, the link found and the content
	// verified belong to different registry entries
	{
		uses := map[string][]ssa.Value{"ReferenceId": {normLocal(ga[len(ga)-1])}, "TargetAccAddress": {}}
		if len(comps) == 3 {
			uses["TargetAccAddress"] = append(uses["TargetAccAddress"], comps[0])
			uses["ReferenceId"] = append(uses["ReferenceId"], comps[1])
		}
		for _, sb := range w.storesBelow(ver, "QueryCreateStorageKeyRequest", 2, nil) {
			if namedIs(sb.FS.Struct, "x/cfesignature/types", "QueryCreateStorageKeyRequest") {
				if _, ok := uses[sb.FS.Field]; ok {
					uses[sb.FS.Field] = append(uses[sb.FS.Field], normLocal(sb.Val))
				}
			}
		}
		for _, f := range []string{"ReferenceId", "TargetAccAddress"} {
			vs := uses[f]
			same := len(vs) >= 2
			for _, v := range vs[1:] {
				if !sameExpr(vs[0], v, 0) {
					same = false
				}
			}
			r.Check(same, "C15.payload", "one rendering of the request's "+f+" in record key, link key and payload", w.Pos(ver.Pos()), fmt.Sprintf("%d uses, all the same value", len(vs)), "the record key, the link key and the verified payload are built from different renderings of "+f+": the signature, the link and the content checked can belong to different entries")
		}
	}
	// ---------- C15.verdict ----------
	// the call of the query through which the verification is reached
	topCall := checkE.Site
	if len(checkE.Chain) > 0 {
		topCall = checkE.Chain[0]
	}
	for _, sb := range w.storesBelow(ver, "QueryVerifySignatureResponse", 2, nil) {
		if sb.FS.Field == "Valid" {
			if s, ok := EvalString(sb.FS.Store.Val); ok && s == "valid" {
				r.Check(OnSuccessEdge(ver, sb.Top(), siteValue(topCall)), "C15.verdict", "Valid=\"valid\" only when the verifier returned nil", w.Pos(sb.FS.Store.Pos()), "dominated by the nil edge of the verifier's error", "the query can answer valid although verification failed")
			}
		}
	}
	{
		// every function between the query and CheckSignature returns nil only on the success edge of the next call down
		ok := true
		n := 0
		for lvl, c := range checkE.Chain {
			fn := c.Static
			var next ssa.Value
			if lvl+1 < len(checkE.Chain) {
				next = siteValue(checkE.Chain[lvl+1])
			} else {
				next = check
			}
			for _, ret := range Returns(fn) {
				rv := retVals(ret)
				v := rv[len(rv)-1]
				if isNilConst(v) {
					n++
					if next == nil || !OnSuccessEdge(fn, ret, next) {
						ok = false
					}
				}
			}
		}
		r.Check(ok && n > 0, "C15.verdict", "the verifier returns nil only when CheckSignature returned nil", cpos, "every nil return between the query and CheckSignature is dominated by the nil edge of the next call's error", "the verifier can report success without a successful CheckSignature")
	}
	// ---------- C15.fields ----------
	recField := func(v ssa.Value, f string) bool {
		return loadOfField(v, f, func(b ssa.Value) bool { return derefRoot(b) == rec || derefRootThroughLocal(b) == rec })
	}
	resp := w.storesBelow(ver, "QueryVerifySignatureResponse", 2, nil)
	for _, f := range []string{"Signature", "Algorithm", "Certificate", "Timestamp"} {
		found := false
		for _, sb := range resp {
			if sb.FS.Field != f {
				continue
			}
			found = true
			r.Check(recField(sb.Val, f), "C15.fields", "response."+f+" <- record."+f, w.Pos(sb.FS.Store.Pos()), "same-named field of the stored record", "the response field "+f+" is not the stored "+f)
		}
		if !found {
			r.Bad("C15.fields", "response."+f+" is set", w.Pos(ver.Pos()), "the response does not return the stored "+f)
		}
	}
}

// normLocal resolves a load of a field of a local struct literal (or of a struct value loaded from one) to the value
// stored into that field, when there is exactly one such store: values handed to a helper inside a small struct are
// compared as the values themselves.
func normLocal(v ssa.Value) ssa.Value {
	for i := 0; i < 4; i++ {
		var base ssa.Value
		field := -1
		switch x := v.(type) {
		case *ssa.UnOp:
			if x.Op != token.MUL {
				return v
			}
			fa, ok := x.X.(*ssa.FieldAddr)
			if !ok {
				return v
			}
			base, field = fa.X, fa.Field
		case *ssa.Field:
			base, field = x.X, x.Field
		default:
			return v
		}
		if u, ok := base.(*ssa.UnOp); ok && u.Op == token.MUL {
			base = u.X
		}
		al, ok := base.(*ssa.Alloc)
		if !ok || al.Referrers() == nil {
			return v
		}
		var stored ssa.Value
		n := 0
		for _, ref := range *al.Referrers() {
			if fa, ok := ref.(*ssa.FieldAddr); ok && fa.Field == field && fa.Referrers() != nil {
				for _, r2 := range *fa.Referrers() {
					if st, ok := r2.(*ssa.Store); ok && st.Addr == ssa.Value(fa) {
						stored = st.Val
						n++
					}
				}
			}
			if st, ok := ref.(*ssa.Store); ok && st.Addr == ssa.Value(al) {
				return v // whole-struct store: not a literal
			}
		}
		if n != 1 {
			return v
		}
		v = stored
	}
	return v
}

// stringUnderBytes strips []byte(s) and module helpers returning []byte(param).
func stringUnderBytes(v ssa.Value) ssa.Value {
	for i := 0; i < 4; i++ {
		switch x := v.(type) {
		case *ssa.Convert:
			return x.X
		case *ssa.Call:
			f := x.Common().StaticCallee()
			if f != nil && f.Blocks != nil && len(f.Blocks) == 1 && len(f.Params) == 1 {
				if ret, ok := f.Blocks[0].Instrs[len(f.Blocks[0].Instrs)-1].(*ssa.Return); ok && len(ret.Results) == 1 {
					if cv, ok := ret.Results[0].(*ssa.Convert); ok && cv.X == ssa.Value(f.Params[0]) {
						return x.Common().Args[0]
					}
				}
			}
			return v
		default:
			return v
		}
	}
	return v
}

// returnsGetIsNil: fn returns (store.Get(prefix-store, bytes(p)) == nil).
// returnsGetIsNil: fn returns store.Get(prefix, key) == nil (want "free") or != nil (want "taken") for its key parameter.
func returnsGetIsNil(w *World, fn *ssa.Function, p *ssa.Parameter, prefix string, wantFree bool) bool {
	cg := w.CG()
	rets := Returns(fn)
	if len(rets) != 1 {
		return false
	}
	bo, ok := retVals(rets[0])[0].(*ssa.BinOp)
	if !ok || !isNilConst(bo.Y) {
		return false
	}
	if wantFree && bo.Op != token.EQL || !wantFree && bo.Op != token.NEQ {
		return false
	}
	get, ok := bo.X.(*ssa.Call)
	if !ok {
		return false
	}
	for _, s := range cg.Sites[fn] {
		if s.Instr == ssa.Instruction(get) && cg.Atom(s) == StoreGet {
			loc := cg.StoreLocOf(s)
			_ = loc
			keyStr := stringUnderBytes(s.Args()[0])
			// the prefix store must be the payload-link prefix
			pfx, okp, _ := w.storePrefix(s.Recv(), 0)
			return okp && pfx == prefix && keyStr == ssa.Value(p)
		}
	}
	return false
}

// derefRootThroughLocal: like derefRoot but follows a single-store local (var signature *T; signature, err = ...).
func derefRootThroughLocal(v ssa.Value) ssa.Value {
	r := derefRoot(v)
	if a, ok := r.(*ssa.Alloc); ok {
		var stored []ssa.Value
		for _, ref := range *a.Referrers() {
			if st, ok := ref.(*ssa.Store); ok && st.Addr == ssa.Value(a) {
				stored = append(stored, st.Val)
			}
		}
		// ignore nil initialisers
		var nn []ssa.Value
		for _, s := range stored {
			if !isNilConst(s) {
				nn = append(nn, s)
			}
		}
		if len(nn) == 1 {
			return nn[0]
		}
	}
	return r
}

// sameExpr: the same SSA value, two loads of the same location, or two applications of the same function to
// pairwise same arguments (depth <= 2).
func sameExpr(a, b ssa.Value, depth int) bool {
	if sameValue(a, b) {
		return true
	}
	// two loads of the same field of the same base
	if ua, ok := a.(*ssa.UnOp); ok && ua.Op == token.MUL {
		if ub, ok := b.(*ssa.UnOp); ok && ub.Op == token.MUL {
			fa, ok1 := ua.X.(*ssa.FieldAddr)
			fb, ok2 := ub.X.(*ssa.FieldAddr)
			if ok1 && ok2 && fa.Field == fb.Field && fa.X == fb.X {
				return true
			}
		}
	}
	if depth >= 2 {
		return false
	}
	ca, ok1 := a.(*ssa.Call)
	cb, ok2 := b.(*ssa.Call)
	if !ok1 || !ok2 || ca.Common().StaticCallee() == nil || ca.Common().StaticCallee() != cb.Common().StaticCallee() {
		return false
	}
	if len(ca.Common().Args) != len(cb.Common().Args) {
		return false
	}
	for i := range ca.Common().Args {
		if !sameExpr(ca.Common().Args[i], cb.Common().Args[i], depth+1) {
			return false
		}
	}
	return true
}
